(* Executable model of pyrex.particle.Event AS WRITTEN (particle.py, class Event).
   Particles are represented by identifiers (nat): Particle defines no __eq__, so the
   list operations `in` / `.index` of the code compare object identity, which is equality
   of identifiers here.  No proofs in this file.

   self.roots      -> ev_roots      (the list given to __init__, or [p] for a single particle)
   self._all       -> ev_all        (flat list, iteration order)
   self._children  -> ev_children   (for each position of _all: list of POSITIONS of its children) *)
From Coq Require Import List Arith Bool ZArith.
Import ListNotations.

Notation pid := nat (only parsing).

Record event := mkEvent {
  ev_roots : list pid;
  ev_all : list pid;
  ev_children : list (list nat)
}.

(* list.index(x): first position; None = "x not in list" *)
Fixpoint index_of (x : pid) (l : list pid) : option nat :=
  match l with
  | [] => None
  | y :: t => if Nat.eqb x y then Some 0 else option_map S (index_of x t)
  end.

Fixpoint update_nth {A} (n : nat) (f : A -> A) (l : list A) : list A :=
  match l, n with
  | [], _ => []
  | x :: t, O => f x :: t
  | x :: t, S m => x :: update_nth m f t
  end.

(* Event.__init__: self._all = [p for p in roots]; self._children = [[] for _ in range(len(roots))] *)
Definition init (roots : list pid) : event :=
  mkEvent roots roots (map (fun _ => []) roots).

(* Event.add_children(parent, children) with `children` already a list (a single Particle is
   wrapped into [children] by the code).  None = ValueError("Parent particle is not in the
   event tree"), raised before anything is modified. *)
Definition add_children (e : event) (parent : pid) (cs : list pid) : option event :=
  match index_of parent (ev_all e) with
  | None => None
  | Some parent_index =>
      let new_index_start := length (ev_all e) in
      let indices := seq new_index_start (length cs) in
      Some (mkEvent (ev_roots e)
                    (ev_all e ++ cs)
                    (update_nth parent_index (fun l => l ++ indices)
                                (ev_children e ++ map (fun _ => []) indices)))
  end.

(* Event.get_children(parent): None = ValueError *)
Definition get_children (e : event) (parent : pid) : option (list pid) :=
  match index_of parent (ev_all e) with
  | None => None
  | Some parent_index =>
      Some (map (fun i => nth i (ev_all e) 0) (nth parent_index (ev_children e) []))
  end.

(* for parent_index, child_indices in enumerate(self._children): if child_index in child_indices: ... *)
Fixpoint find_parent (ci : nat) (chs : list (list nat)) (k : nat) : option nat :=
  match chs with
  | [] => None
  | l :: t => if existsb (Nat.eqb ci) l then Some k else find_parent ci t (S k)
  end.

(* Event.get_parent(child): None = ValueError; Some None = the function falls off its loop
   (Python None: no parent); Some (Some p) = parent p *)
Definition get_parent (e : event) (child : pid) : option (option pid) :=
  match index_of child (ev_all e) with
  | None => None
  | Some ci => Some (option_map (fun k => nth k (ev_all e) 0) (find_parent ci (ev_children e) 0))
  end.

(* particles = []; for p in previous: particles.extend(self.get_children(p)) *)
Fixpoint next_level (e : event) (previous : list pid) : option (list pid) :=
  match previous with
  | [] => Some []
  | p :: t =>
      match get_children e p with
      | None => None
      | Some cs => match next_level e t with None => None | Some r => Some (cs ++ r) end
      end
  end.

Fixpoint level_from (e : event) (particles : list pid) (n : nat) : option (list pid) :=
  match n with
  | O => Some particles
  | S m => match next_level e particles with None => None | Some nx => level_from e nx m end
  end.

(* Event.get_from_level(level): `while current_level<level` runs max(level,0) times *)
Definition get_from_level (e : event) (level : Z) : option (list pid) :=
  level_from e (ev_roots e) (Z.to_nat level).

Definition iter (e : event) : list pid := ev_all e.
Definition len (e : event) : nat := length (ev_all e).

(* ---- operations, for histories ---- *)
Inductive op :=
| Add (parent : pid) (cs : list pid).

(* a rejected add_children (ValueError) leaves the event unchanged *)
Definition step (e : event) (o : op) : event :=
  match o with
  | Add p cs => match add_children e p cs with Some e' => e' | None => e end
  end.

Definition run (roots : list pid) (ops : list op) : event := fold_left step ops (init roots).

(* ---- queries as one observable record, used by the correspondence check ---- *)
Inductive query :=
| QChildren (p : pid) | QParent (p : pid) | QLevel (n : Z) | QIter | QLen
| QState.   (* not a method: the harness reads roots / _all / _children directly *)

Inductive answer :=
| AErr | AList (l : list pid) | AOpt (o : option pid) | ANat (n : nat)
| AState (roots all : list pid) (children : list (list nat)).

Definition ask (e : event) (q : query) : answer :=
  match q with
  | QChildren p => match get_children e p with None => AErr | Some l => AList l end
  | QParent p => match get_parent e p with None => AErr | Some o => AOpt o end
  | QLevel n => match get_from_level e n with None => AErr | Some l => AList l end
  | QIter => AList (iter e)
  | QLen => ANat (len e)
  | QState => AState (ev_roots e) (ev_all e) (ev_children e)
  end.

(* a history for the correspondence: interleaved adds (recording whether they were rejected)
   and queries *)
Inductive hop := HAdd (parent : pid) (cs : list pid) | HAsk (q : query).

Fixpoint run_history (e : event) (h : list hop) : list answer :=
  match h with
  | [] => []
  | HAdd p cs :: t =>
      match add_children e p cs with
      | None => AErr :: run_history e t
      | Some e' => ANat (len e') :: run_history e' t
      end
  | HAsk q :: t => ask e q :: run_history e t
  end.

(* the state after an interleaved history: the read operations (HAsk) hand the event on unchanged *)
Fixpoint state_after (e : event) (h : list hop) : event :=
  match h with
  | [] => e
  | HAdd p cs :: t => state_after (step e (Add p cs)) t
  | HAsk _ :: t => state_after e t
  end.

Definition adds_of (h : list hop) : list op :=
  flat_map (fun o => match o with HAdd p cs => [Add p cs] | HAsk _ => [] end) h.

(* comparison of the model's answers with the answers observed on the implementation, done inside
   Coq so that a correspondence case prints one small value: None = every answer equal,
   Some k = first differing position *)
Fixpoint list_eqb {A} (eqb : A -> A -> bool) (l1 l2 : list A) : bool :=
  match l1, l2 with
  | [], [] => true
  | x :: t, y :: u => eqb x y && list_eqb eqb t u
  | _, _ => false
  end.

Definition answer_eqb (a b : answer) : bool :=
  match a, b with
  | AErr, AErr => true
  | AList l, AList l' => list_eqb Nat.eqb l l'
  | AOpt None, AOpt None => true
  | AOpt (Some x), AOpt (Some y) => Nat.eqb x y
  | ANat n, ANat m => Nat.eqb n m
  | AState r a c, AState r' a' c' =>
      list_eqb Nat.eqb r r' && list_eqb Nat.eqb a a' && list_eqb (list_eqb Nat.eqb) c c'
  | _, _ => false
  end.

Fixpoint first_mismatch (xs ys : list answer) (k : nat) : option nat :=
  match xs, ys with
  | [], [] => None
  | x :: xt, y :: yt => if answer_eqb x y then first_mismatch xt yt (S k) else Some k
  | _, _ => Some k
  end.
