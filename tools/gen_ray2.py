"""Gen_uniform.v / Gen_ray2.v / Gen_layered.v: the scalar members and the arithmetic snippets of the
ray tracers that C18 and C02 reason about (pyrex/ray_tracing.py, pyrex/custom/layered_ice/ray_tracing.py).

Whole members are translated by py2coq (extended here through FnTr subclassing); code with array
writes / loops over objects is hand-modelled in coq/Model/ and only its *arithmetic* is translated
as "snippets": one named expression of the function body with its free variables as parameters.
Glue lemmas in coq/Proofs tie every snippet to the place where the hand model uses it, so an edit
of the formula breaks a proof obligation; an edit that makes a snippet disappear aborts the
translation (fail-closed).
"""
import ast
import copy
import hashlib
import os
import sys

sys.path.insert(0, os.path.dirname(os.path.abspath(__file__)))
from py2coq import Module, ClassTr, FnTr, TranslationError, coq_type, COQ_TY  # noqa: E402

COQ_TY.setdefault("nat", "nat")
COQ_TY.setdefault("listvec3", "(list (R * R * R))")

UIce_RECORD = [("n", "R"), ("valid_range", "pair"), ("_index_above", "optR"), ("_index_below", "optR")]
ICE_RECORD = [("n0", "R"), ("k", "R"), ("a", "R"), ("valid_range", "pair"),
              ("_index_above", "optR"), ("_index_below", "optR")]
UPATH_RECORD = [("from_point", "vec3"), ("to_point", "vec3"), ("theta0", "R"), ("ice", "UIce"),
                ("direct", "bool"), ("_reflections", "nat")]
UTRACER_RECORD = [("from_point", "vec3"), ("to_point", "vec3"), ("ice", "UIce")]
# gradient-index tracers: only what C02 needs (geometry of the endpoints, direction construction)
GPATH_RECORD = [("from_point", "vec3"), ("to_point", "vec3"), ("theta0", "R"), ("ice", "Ice"), ("direct", "bool")]
GTRACER_RECORD = [("from_point", "vec3"), ("to_point", "vec3"), ("ice", "Ice")]


def decl_record(mod, rname):
    ty = dict(COQ_TY)
    ty.update({r: r for r in mod.records})
    body = ";\n  ".join("%s_%s : %s" % (rname, f.lstrip("_"), ty[t]) for f, t in mod.records[rname])
    mod.emit("Record %s := mk%s {\n  %s\n}." % (rname, rname, body))


class RayFn(FnTr):
    """FnTr + the idioms of the tracers."""
    ice_class = {"UIce": "UniformIce", "Ice": "AntarcticIce"}

    # -- record-typed fields / properties of the ice object ---------------------------------
    def ice_of_self(self):
        for f, t in self.mod.records.get(self.record, []):
            if f == "ice":
                return "(%s_ice %s)" % (self.record, self.self_name), t
        return None, None

    def e_Attribute(self, n):
        d = self.dotted(n)
        if d and len(d) == 3 and d[0] == self.self_name and d[1] == "ice" and d[2] in ("index_above", "index_below"):
            code, t = self.ice_of_self()
            if code:
                return "(%s_%s %s)" % (self.ice_class[t], d[2], code), "R"
        return super().e_Attribute(n)

    def self_attr(self, n, attr):
        if attr == "_points" and self.record == "UPath":
            # hand-modelled member (array writes): Model/UniformPath.v
            for dep in ("rho", "phi"):
                self.lookup_member(dep)
            s = self.self_name
            return ("(points_or_nil (uniform_points (UPath_from_point %s) (UPath_to_point %s) (UPath_theta0 %s) "
                    "(fst (UIce_valid_range (UPath_ice %s))) (snd (UIce_valid_range (UPath_ice %s))) (UPath_direct %s) "
                    "(UPath_reflections %s) (UniformRayTracePath_rho %s) (UniformRayTracePath_phi %s)))"
                    % ((s,) * 9)), "listvec3"
        return super().self_attr(n, attr)

    def e_Call(self, n):
        d = self.dotted(n.func)
        if d and len(d) == 3 and d[0] == self.self_name and d[1] == "ice" and d[2] == "index" and len(n.args) == 1:
            code, t = self.ice_of_self()
            if code:
                return "(%s_index %s %s)" % (self.ice_class[t], code, self.num(n.args[0])[0]), "R"
        if isinstance(n.func, ast.Name) and n.func.id == "isinstance" and len(n.args) == 2:
            a = self.dotted(n.args[0])
            if a == (self.self_name, "ice") and isinstance(n.args[1], ast.Name):
                code, t = self.ice_of_self()
                want = {"UIce": ("UniformIce",), "Ice": ("AntarcticIce",)}.get(t, ())
                if n.args[1].id in want:
                    return "true", "bool"     # fixed by the record type of the ice field
        if d == ("np", "array_equal") and len(n.args) == 2:
            a, ta = self.expr(n.args[0])
            b, tb = self.expr(n.args[1])
            if ta == tb == "vec3":
                return "(veqb %s %s)" % (a, b), "bool"
        if d == ("np", "sum") and len(n.args) == 1 and isinstance(n.args[0], ast.ListComp):
            return self.sum_consecutive(n.args[0])
        if d == ("np", "sum") and len(n.args) == 1:
            a, ta = self.expr(n.args[0])
            if ta == "listR":
                return "(sum_list %s)" % a, "R"
            if ta == "vec3":
                return "(vsum %s)" % a, "R"
            if ta == "R":
                return a, "R"
        if d in (("np", "asarray"), ("np", "array")) and len(n.args) == 1 and isinstance(n.args[0], ast.Name):
            try:
                a, ta = self.expr(n.args[0])
                if ta == "listR":
                    return a, ta
            except TranslationError:
                pass
        if d == ("np", "min") or d == ("np", "max"):
            pass
        if isinstance(n.func, ast.Name) and n.func.id in ("min", "max") and len(n.args) == 1 \
                and isinstance(n.args[0], ast.List) and len(n.args[0].elts) == 2:
            a, b = [self.num(e)[0] for e in n.args[0].elts]
            return "(%s %s %s)" % ("Rmin" if n.func.id == "min" else "Rmax", a, b), "R"
        return super().e_Call(n)

    def sum_consecutive(self, lc):
        """np.sum([EXPR for p1, p2 in zip(X[:-1], X[1:])])"""
        if len(lc.generators) != 1 or lc.generators[0].ifs:
            self.err(lc, "unsupported comprehension")
        g = lc.generators[0]
        ok = (isinstance(g.target, ast.Tuple) and len(g.target.elts) == 2
              and all(isinstance(e, ast.Name) for e in g.target.elts)
              and isinstance(g.iter, ast.Call) and isinstance(g.iter.func, ast.Name) and g.iter.func.id == "zip"
              and len(g.iter.args) == 2)
        if not ok:
            self.err(lc, "unsupported comprehension (only `for a, b in zip(X[:-1], X[1:])`)")
        a0, a1 = g.iter.args
        txt0, txt1 = ast.unparse(a0), ast.unparse(a1)
        if not (txt0.endswith("[:-1]") and txt1.endswith("[1:]") and txt0[:-5] == txt1[:-4]):
            self.err(lc, "unsupported zip arguments %s, %s" % (txt0, txt1))
        base, tb = self.expr(a0.value)
        if tb != "listvec3":
            self.err(lc, "zip over %s" % tb)
        p1, p2 = g.target.elts[0].id, g.target.elts[1].id
        saved = dict(self.vars)
        self.vars[p1] = (p1, "vec3")
        self.vars[p2] = (p2, "vec3")
        body, t = self.num(lc.elt)
        self.vars = saved
        return "(sum_list (consecutive (fun %s %s : vec3 => %s) %s))" % (p1, p2, body, base), "R"

    def e_Subscript(self, n):
        base, t = self.expr(n.value)
        idx = n.slice
        if t == "listvec3":
            if isinstance(idx, ast.Constant) and isinstance(idx.value, int) and idx.value >= 0:
                return "(row %s %d)" % (base, idx.value), "vec3"
            if isinstance(idx, ast.UnaryOp) and isinstance(idx.op, ast.USub) and isinstance(idx.operand, ast.Constant):
                return "(row_last %s %d)" % (base, idx.operand.value), "vec3"
            self.err(n, "unsupported row subscript")
        if t == "pair" and isinstance(idx, ast.Name) and idx.id in self.vars and self.vars[idx.id][1] == "Z":
            return "(if (%s =? 0)%%Z then fst %s else snd %s)" % (self.vars[idx.id][0], base, base), "R"
        if t == "vec3" and isinstance(idx, ast.Slice) and idx.lower is None and idx.step is None \
                and isinstance(idx.upper, ast.Constant) and idx.upper.value == 2:
            return "(vx %s, vy %s, 0)" % (base, base), "vec3"      # p[:2] as a vector with zero z
        return super().e_Subscript(n)

    def e_BinOp(self, n):
        # (-1)**k with an integer variable k
        if isinstance(n.op, ast.Pow) and isinstance(n.left, ast.UnaryOp) and isinstance(n.left.op, ast.USub) \
                and isinstance(n.left.operand, ast.Constant) and n.left.operand.value == 1:
            c, t = self.expr(n.right)
            if t == "nat":
                return "(m1pow %s)" % c, "Z"
        # integer literal combined with an integer-typed operand stays an integer
        for side, other in ((n.left, n.right), (n.right, n.left)):
            if isinstance(side, ast.Constant) and isinstance(side.value, int) and not isinstance(side.value, bool):
                try:
                    co, to = self.expr(other)
                except TranslationError:
                    break
                if to == "Z" and type(n.op).__name__ in ("Add", "Sub", "Mult", "FloorDiv", "Mod"):
                    sym = {"Add": "+", "Sub": "-", "Mult": "*", "FloorDiv": "/", "Mod": "mod"}[type(n.op).__name__]
                    lit = "%d" % side.value if side.value >= 0 else "(%d)" % side.value
                    l, r = (lit, co) if side is n.left else (co, lit)
                    return "(%s %s %s)%%Z" % (l, sym, r), "Z"
        return super().e_BinOp(n)

    def e_Compare(self, n):
        # integer variable compared with an integer literal
        if len(n.ops) == 1 and isinstance(n.comparators[0], ast.Constant) and isinstance(n.comparators[0].value, int):
            try:
                c, t = self.expr(n.left)
            except TranslationError:
                c, t = None, None
            if t == "Z":
                lit = n.comparators[0].value
                lit = "%d" % lit if lit >= 0 else "(%d)" % lit
                f = {"Eq": "Z.eqb", "Lt": "Z.ltb", "LtE": "Z.leb", "Gt": "Z.gtb", "GtE": "Z.geb"}.get(type(n.ops[0]).__name__)
                if f:
                    return "(%s %s %s)" % (f, c, lit), "bool"
        return super().e_Compare(n)

    # -- statements -----------------------------------------------------------------------
    def block(self, stmts, k=None):
        if stmts:
            s = stmts[0]
            # `if not self.valid_ice_model: raise TypeError(...)`: the ice class is fixed by the record type
            if isinstance(s, ast.If) and not s.orelse and len(s.body) == 1 and isinstance(s.body[0], ast.Raise) \
                    and isinstance(s.test, ast.UnaryOp) and isinstance(s.test.op, ast.Not) \
                    and self.dotted(s.test.operand) == (self.self_name, "valid_ice_model"):
                r = self.lookup_member("valid_ice_model")
                if r is None:
                    self.err(s, "valid_ice_model not found")
                return self.block(stmts[1:], k)
        return super().block(stmts, k)


# ------------------------------------------------------------------------------------ snippets
class Subst(ast.NodeTransformer):
    def __init__(self, table):
        self.table = table      # unparse text -> replacement Name id
        self.used = set()

    def visit(self, node):
        if isinstance(node, ast.expr):
            txt = ast.unparse(node)
            if txt in self.table:
                self.used.add(txt)
                return ast.copy_location(ast.Name(id=self.table[txt], ctx=ast.Load()), node)
        return self.generic_visit(node)


def find_func(mod, cname, fname):
    c, node = mod.find_member(cname, fname)
    if node is None or not isinstance(node, ast.FunctionDef):
        raise TranslationError("%s: %s.%s not found" % (mod.source, cname, fname))
    return node


def snippet(ct, fname, coqname, select, params, subst=None, want_type=None):
    """Translate ONE expression of cname.fname.
    select(funcdef) -> ast expression node (raises TranslationError if absent);
    params: [(python name, type)] free variables that become parameters (in this order);
    subst: {source text: param name} sub-expressions replaced by parameters before translation."""
    mod = ct.mod
    node = find_func(mod, ct.cname, fname)
    e = select(node)
    if e is None:
        raise TranslationError("%s: snippet %s not found in %s.%s" % (mod.source, coqname, ct.cname, fname))
    e2 = copy.deepcopy(e)
    if subst:
        sb = Subst(subst)
        e2 = sb.visit(e2)
        ast.fix_missing_locations(e2)
        missing = set(subst) - sb.used
        if missing:
            raise TranslationError("%s:%d: snippet %s: expected sub-expression(s) %s not present" % (
                mod.source, e.lineno, coqname, sorted(missing)))
    tr = ct.fn_class(mod, cname=ct.cname, record=ct.record, consts=ct.consts)
    tr.lookup_member = ct.lookup
    tr.self_name = node.args.args[0].arg if node.args.args else "self"
    for p, t in params:
        tr.vars[p] = (p, t)
    # ast.get_source_segment needs positions: literals inside copied nodes keep theirs
    code, t = tr.expr(e2)
    if want_type and t != want_type:
        if want_type == "R" and t == "Z":
            code, t = "(IZR %s)" % code, "R"
        else:
            raise TranslationError("%s:%d: snippet %s has type %s, expected %s" % (mod.source, e.lineno, coqname, t, want_type))
    ps = []
    if ct.record:
        ps.append("(%s : %s)" % (tr.self_name, ct.record))
    ps += ["(%s : %s)" % (p, coq_type(ty, mod)) for p, ty in params]
    mod.emit("Definition %s %s : %s :=\n  %s." % (coqname, " ".join(ps), coq_type(t, mod), code))
    mod.hashes[coqname] = hashlib.sha256(ast.dump(e).encode()).hexdigest()[:16]
    return coqname


def assigns_to(name, nth=0):
    def sel(fn):
        hits = [s.value for s in ast.walk(fn) if isinstance(s, ast.Assign) and len(s.targets) == 1
                and ast.unparse(s.targets[0]) == name]
        hits.sort(key=lambda v: (v.lineno, v.col_offset))
        return hits[nth] if len(hits) > nth else None
    return sel


def appended_to(lst, nth):
    def sel(fn):
        hits = [c for c in ast.walk(fn) if isinstance(c, ast.Call) and isinstance(c.func, ast.Attribute)
                and c.func.attr == "append" and ast.unparse(c.func.value) == lst and len(c.args) == 1]
        hits.sort(key=lambda v: (v.lineno, v.col_offset))
        return hits[nth].args[0] if len(hits) > nth else None
    return sel


def call_arg(func_text, argi, nth=0):
    def sel(fn):
        hits = [c for c in ast.walk(fn) if isinstance(c, ast.Call) and ast.unparse(c.func) == func_text and len(c.args) > argi]
        hits.sort(key=lambda v: (v.lineno, v.col_offset))
        return hits[nth].args[argi] if len(hits) > nth else None
    return sel


def count_nodes(fn, pred):
    return sum(1 for c in ast.walk(fn) if pred(c))


# ------------------------------------------------------------------------------------ Gen_uniform
UNIFORM_HEADER = """From PyrexLib Require Import ListR.
From PyrexGen Require Import Gen_ice.
From PyrexModel Require Import UniformPath.
"""


def generate_uniform(repo):
    mod = Module(repo, "pyrex/ray_tracing.py",
                 records={"UIce": UIce_RECORD, "UPath": UPATH_RECORD, "UTracer": UTRACER_RECORD})
    mod.emit(UNIFORM_HEADER.strip())
    decl_record(mod, "UPath")
    decl_record(mod, "UTracer")
    # ---- whole members of the path
    cp = ClassTr(mod, "UniformRayTracePath", record="UPath")
    cp.fn_class = RayFn
    for m in ["valid_ice_model", "z0", "z1", "n0", "rho", "phi", "emitted_direction", "received_direction",
              "path_length", "tof"]:
        if cp.member(m) is None:
            raise TranslationError("pyrex/ray_tracing.py: UniformRayTracePath.%s not found" % m)
    # ---- arithmetic of _points (hand-modelled control flow, Model/UniformPath.v)
    P = "UniformRayTracePath_points__"
    fn = find_func(mod, "UniformRayTracePath", "_points")
    if count_nodes(fn, lambda c: isinstance(c, ast.Call) and isinstance(c.func, ast.Attribute) and c.func.attr == "append"
                   and ast.unparse(c.func.value) == "dzs") != 4:
        raise TranslationError("pyrex/ray_tracing.py: UniformRayTracePath._points: expected exactly 4 dzs.append(...)")
    for i, nm in enumerate(["leg_first_up", "leg_first_down", "leg_last_up", "leg_last_down"]):
        snippet(cp, "_points", P + nm, appended_to("dzs", i), [], want_type="R")
    snippet(cp, "_points", P + "size", assigns_to("size"), [], want_type="R")
    snippet(cp, "_points", P + "final_direction", assigns_to("final_direction"), [("initial_direction", "Z")], want_type="Z")
    snippet(cp, "_points", P + "dr", assigns_to("drs"), [("dz_k", "R"), ("dzs", "listR")],
            subst={"np.asarray(dzs)": "dz_k"}, want_type="R")
    snippet(cp, "_points", P + "x", assigns_to("points[1:, 0]"), [("r_k", "R")], subst={"rs": "r_k"}, want_type="R")
    snippet(cp, "_points", P + "y", assigns_to("points[1:, 1]"), [("r_k", "R")], subst={"rs": "r_k"}, want_type="R")
    snippet(cp, "_points", P + "dirn", assigns_to("dirn"), [("initial_direction", "Z"), ("i", "nat")], want_type="Z")
    snippet(cp, "_points", P + "z", assigns_to("points[i + 1, 2]"), [("dirn", "Z")], want_type="R")
    # ---- the tracer
    ctr = ClassTr(mod, "UniformRayTracer", record="UTracer")
    ctr.fn_class = RayFn
    for m in ["valid_ice_model", "z0", "z1", "n0", "rho", "phi", "exists"]:
        if ctr.member(m) is None:
            raise TranslationError("pyrex/ray_tracing.py: UniformRayTracer.%s not found" % m)
    T = "UniformRayTracer_reflected_path__"
    fn = find_func(mod, "UniformRayTracer", "_reflected_path")
    if count_nodes(fn, lambda c: isinstance(c, ast.Call) and isinstance(c.func, ast.Attribute) and c.func.attr == "append"
                   and ast.unparse(c.func.value) == "dzs") != 4:
        raise TranslationError("pyrex/ray_tracing.py: UniformRayTracer._reflected_path: expected exactly 4 dzs.append(...)")
    for i, nm in enumerate(["leg_first_up", "leg_first_down", "leg_last_up", "leg_last_down"]):
        snippet(ctr, "_reflected_path", T + nm, appended_to("dzs", i), [], want_type="R")
    snippet(ctr, "_reflected_path", T + "size", assigns_to("size"), [], want_type="R")
    snippet(ctr, "_reflected_path", T + "theta", assigns_to("theta"), [("initial_direction", "Z"), ("dzs", "listR")], want_type="R")
    snippet(ctr, "solutions", "UniformRayTracer_solutions__direct_theta", call_arg("self.solution_class", 1), [], want_type="R")
    return mod.result(), mod.hashes


# ------------------------------------------------------------------------------------ Gen_layered
LTRACER_RECORD = [("from_point", "vec3"), ("to_point", "vec3")]


def generate_layered(repo):
    """Arithmetic of the layered tracer (pyrex/custom/layered_ice/ray_tracing.py): angle updates of
    _trace_path, the uniform-layer radial distance, the assembly of the junction points, the
    transmission factors of LayeredRayTracePath.fresnel.  Control flow (loops over groups, recursion
    of _build_path) is hand-modelled in Model/LayeredPath.v."""
    mod = Module(repo, "pyrex/custom/layered_ice/ray_tracing.py", records={"LTracer": LTRACER_RECORD})
    mod.emit("From PyrexLib Require Import ListR.")
    decl_record(mod, "LTracer")
    ct = ClassTr(mod, "LayeredRayTracer", record="LTracer")
    ct.fn_class = RayFn
    for m in ["z0", "z1", "rho", "phi"]:
        if ct.member(m) is None:
            raise TranslationError("%s: LayeredRayTracer.%s not found" % (mod.source, m))
    T = "LayeredRayTracer_trace_path__"
    fn = find_func(mod, "LayeredRayTracer", "_trace_path")
    n_angle = count_nodes(fn, lambda c: isinstance(c, ast.Assign) and len(c.targets) == 1 and ast.unparse(c.targets[0]) == "angle")
    n_sin = count_nodes(fn, lambda c: isinstance(c, ast.Assign) and len(c.targets) == 1 and ast.unparse(c.targets[0]) == "sin_angle")
    if n_angle != 5 or n_sin != 2:
        raise TranslationError("%s: LayeredRayTracer._trace_path: expected 5 assignments to angle and 2 to sin_angle, found %d and %d"
                               % (mod.source, n_angle, n_sin))
    here, nxt, bnd = "models[i].index(depths[start])", "models[i + 1].index(depths[stop])", "models[i].index(depths[stop])"
    snippet(ct, "_trace_path", T + "turn_in_layer", assigns_to("angle", 0), [("angle", "R")], want_type="R")
    snippet(ct, "_trace_path", T + "transmit_sin", assigns_to("sin_angle", 0), [("angle", "R"), ("n_here", "R"), ("n_next", "R")],
            subst={here: "n_here", nxt: "n_next"}, want_type="R")
    snippet(ct, "_trace_path", T + "transmit_up", assigns_to("angle", 1), [("sin_angle", "R")], want_type="R")
    snippet(ct, "_trace_path", T + "transmit_down", assigns_to("angle", 2), [("sin_angle", "R")], want_type="R")
    snippet(ct, "_trace_path", T + "reflect_sin", assigns_to("sin_angle", 1), [("angle", "R"), ("n_here", "R"), ("n_bound", "R")],
            subst={here: "n_here", bnd: "n_bound"}, want_type="R")
    snippet(ct, "_trace_path", T + "reflect_from_up", assigns_to("angle", 3), [("sin_angle", "R")], want_type="R")
    snippet(ct, "_trace_path", T + "reflect_from_down", assigns_to("angle", 4), [("sin_angle", "R")], want_type="R")
    # the tests that select the branches (angle < pi/2 = travelling upward; sin_angle > 1 = no transmission)
    def tests(fn):
        return [c.test for c in ast.walk(fn) if isinstance(c, ast.If)]
    def test_sel(text, nth=0):
        def sel(fn):
            hits = [t for t in tests(fn) if ast.unparse(t) == text]
            hits.sort(key=lambda v: (v.lineno, v.col_offset))
            return hits[nth] if len(hits) > nth else None
        return sel
    snippet(ct, "_trace_path", T + "is_upward", test_sel("angle < np.pi / 2", 0), [("angle", "R")], want_type="bool")
    snippet(ct, "_trace_path", T + "is_upward_refl", test_sel("angle < np.pi / 2", 1), [("angle", "R")], want_type="bool")
    snippet(ct, "_trace_path", T + "total_internal", test_sel("sin_angle > 1"), [("sin_angle", "R")], want_type="bool")
    # radial distance in a uniform layer
    snippet(ct, "_get_radial_distance", "LayeredRayTracer_get_radial_distance__uniform",
            lambda fn: [c.value for c in ast.walk(fn) if isinstance(c, ast.Return) and c.value is not None
                        and "np.tan(angle)" in ast.unparse(c.value)][0],
            [("angle", "R"), ("dz", "R")], subst={"np.diff(zs)": "dz"}, want_type="R")
    # junction points and the level -> boundary index
    S = "LayeredRayTracer_solutions__"
    snippet(ct, "solutions", S + "x", assigns_to("points[1:, 0]"), [("r_k", "R")], subst={"rs": "r_k"}, want_type="R")
    snippet(ct, "solutions", S + "y", assigns_to("points[1:, 1]"), [("r_k", "R")], subst={"rs": "r_k"}, want_type="R")
    snippet(ct, "solutions", S + "boundary_index", lambda fn: [c.args[0].slice for c in ast.walk(fn)
            if isinstance(c, ast.Call) and ast.unparse(c.func) == "path_zs.append" and isinstance(c.args[0], ast.Subscript)][0],
            [("level", "Z"), ("direction", "Z")], want_type="Z")
    # Fresnel transmission of the chained path
    cp = ClassTr(mod, "LayeredRayTracePath", record=None)
    cp.fn_class = RayFn
    F = "LayeredRayTracePath_fresnel__"
    fn = find_func(mod, "LayeredRayTracePath", "fresnel")
    if count_nodes(fn, lambda c: isinstance(c, ast.Assign) and len(c.targets) == 1 and ast.unparse(c.targets[0]) == "sin_2") != 2:
        raise TranslationError("%s: LayeredRayTracePath.fresnel: expected 2 assignments to sin_2" % mod.source)
    snippet(cp, "fresnel", F + "theta_1", assigns_to("theta_1", 0), [("recv_z", "R")], subst={"path_1.received_direction[2]": "recv_z"}, want_type="R")
    snippet(cp, "fresnel", F + "theta_1_down", assigns_to("theta_1", 1), [("theta_1", "R")], want_type="R")
    snippet(cp, "fresnel", F + "cos_1", assigns_to("cos_1"), [("theta_1", "R")], want_type="R")
    snippet(cp, "fresnel", F + "transmit_sin_2", assigns_to("sin_2", 1), [("n_1", "R"), ("n_2", "R"), ("theta_1", "R")], want_type="R")
    snippet(cp, "fresnel", F + "transmit_cos_2", assigns_to("cos_2", 2), [("sin_2", "R")], want_type="R")
    snippet(cp, "fresnel", F + "t_s", assigns_to("t_s"), [("n_1", "R"), ("n_2", "R"), ("cos_1", "R"), ("cos_2", "R")], want_type="R")
    snippet(cp, "fresnel", F + "t_p", assigns_to("t_p"), [("n_1", "R"), ("n_2", "R"), ("cos_1", "R"), ("cos_2", "R")], want_type="R")
    snippet(cp, "fresnel", F + "real_branch", lambda fn: [c.test for c in ast.walk(fn) if isinstance(c, ast.If)
            and ast.unparse(c.test) == "sin_2 <= 1"][1], [("sin_2", "R")], want_type="bool")
    return mod.result(), mod.hashes


# ------------------------------------------------------------------------------------ Gen_ray2
def generate_gradient(repo):
    """Geometry of the gradient-index tracers that C02 reasons about (pyrex/ray_tracing.py):
    BasicRayTracePath (inherited unchanged by SpecializedRayTracePath): rho, phi, beta, theta(z),
    emitted / received direction; BasicRayTracer (inherited by SpecializedRayTracer): z0/z1 = min/max,
    rho, n0, max_angle, conversion of the lower-endpoint angle to the true launch angle."""
    mod = Module(repo, "pyrex/ray_tracing.py", records={"Ice": ICE_RECORD, "GPath": GPATH_RECORD, "GTracer": GTRACER_RECORD})
    mod.emit("From PyrexLib Require Import ListR.\nFrom PyrexGen Require Import Gen_ice.")
    decl_record(mod, "GPath")
    decl_record(mod, "GTracer")
    for cname, pref in (("BasicRayTracePath", "BasicRayTracePath"), ("SpecializedRayTracePath", "SpecializedRayTracePath")):
        cp = ClassTr(mod, cname, record="GPath", prefix=pref)
        cp.fn_class = RayFn
        for m in ["z0", "z1", "n0", "rho", "phi", "beta", "theta", "emitted_direction", "received_direction"]:
            if cp.member(m) is None:
                raise TranslationError("pyrex/ray_tracing.py: %s.%s not found" % (cname, m))
    for cname in ("BasicRayTracer", "SpecializedRayTracer"):
        ct = ClassTr(mod, cname, record="GTracer")
        ct.fn_class = RayFn
        for m in ["z0", "z1", "n0", "rho", "max_angle"]:
            if ct.member(m) is None:
                raise TranslationError("pyrex/ray_tracing.py: %s.%s not found" % (cname, m))
        snippet(ct, "_get_launch_angle", cname + "_get_launch_angle__true_angle",
                lambda fn: [c.value for c in ast.walk(fn) if isinstance(c, ast.Return) and c.value is not None][-1],
                [("launch_angle", "R")], want_type="R")
        snippet(ct, "direct_angle", cname + "_direct_angle__from_above", assigns_to("launch_angle", 1), [("launch_angle", "R")], want_type="R")
        snippet(ct, "direct_angle", cname + "_direct_angle__is_from_above",
                lambda fn: [c.test for c in ast.walk(fn) if isinstance(c, ast.If) and "from_point" in ast.unparse(c.test)][0], [], want_type="bool")
    return mod.result(), mod.hashes


if __name__ == "__main__":
    which = sys.argv[2] if len(sys.argv) > 2 else "uniform"
    text, h = {"uniform": generate_uniform, "layered": generate_layered, "gradient": generate_gradient}[which](sys.argv[1])
    print(text)
