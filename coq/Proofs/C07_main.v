(* C07: the statements of Props/C07.v that combine lemmas of the other C07 proof files. *)
From Coq Require Import Reals List Bool ZArith Lra Lia.
From PyrexLib Require Import RealPrims.
From PyrexGen Require Import Gen_askaryan.
From PyrexModel Require Import AskaryanIndex AskaryanModel.
From PyrexProofs Require Import C07_index C07_lists C07_formulas C07_finite C07_zhs_avz C07_arz C07_zhs_peak C07_arz_shift.
Import ListNotations.
Open Scope R_scope.

Lemma arz_assembly_index_lemma (conv : list R) ns ne nd j :
  zlen conv = (nd + ne)%Z -> (0 <= nd)%Z -> arz_outside ns ne nd = false -> (0 <= j < nd)%Z ->
  zlen (arz_assemble 0 conv ns ne) = nd /\ getz 0 (arz_assemble 0 conv ns ne) j = getz 0 conv (j + ns)%Z.
Proof. intros; split; [eapply arz_assemble_length | eapply arz_assemble_nth]; eassumption. Qed.

Lemma arz_em_on_cone_linear_lemma profile times c E th d n t0 : c <> 0 -> E <> 0 ->
  ARZ_ss_oncone (first_time times) (second_time times) (ZL times) E th n t0 = true ->
  shower_signal profile ARZAskaryanSignal_em_shower_RAC times (c * E) th d n t0
  = map (fun v => c * v) (shower_signal profile ARZAskaryanSignal_em_shower_RAC times E th d n t0).
Proof.
  intros. apply shower_signal_on_cone_linear; try assumption.
  intros t. apply arz_em_rac_linear_in_energy.
Qed.
Lemma arz_had_on_cone_linear_lemma profile times c E th d n t0 : c <> 0 -> E <> 0 ->
  ARZ_ss_oncone (first_time times) (second_time times) (ZL times) E th n t0 = true ->
  shower_signal profile ARZAskaryanSignal_had_shower_RAC times (c * E) th d n t0
  = map (fun v => c * v) (shower_signal profile ARZAskaryanSignal_had_shower_RAC times E th d n t0).
Proof.
  intros. apply shower_signal_on_cone_linear; try assumption.
  intros t. apply arz_had_rac_linear_in_energy.
Qed.

Lemma arz_array_sizes_lemma a b L E th n t0 : a < b -> ARZ_ss_z_to_t a b L E th n t0 <> 0 -> ARZ_max_length_default E <> 0 ->
  (1 <= ARZ_ss_dt_divider a b L E th n t0)%Z /\ (2 <= ARZ_ss_n_RAC a b L E th n t0)%Z /\ (1000 <= ARZ_ss_n_Q a b L E th n t0)%Z.
Proof. intros; repeat split; [apply ss_dt_divider_ge_1 | apply ss_n_RAC_ge_2 | apply ss_n_Q_ge_1000]; assumption. Qed.

(* off the cone, on an increasing grid, above or below the critical energy: every branch returns len(times) values *)
Lemma arz_length_unconditional profile rac times E th d n t0 :
  (1 <= length times)%nat -> first_time times < second_time times -> 0 <= th <= PI -> 1 <= n ->
  ARZ_max_length_default E <> 0 ->
  length (shower_signal profile rac times E th d n t0) = length times.
Proof.
  intros Hl Hab Hth Hn HL.
  destruct (ARZ_ss_oncone (first_time times) (second_time times) (ZL times) E th n t0) eqn:Hc.
  - unfold shower_signal. destruct (ARZ_ss_zero_energy E); [apply repeat_length | ].
    rewrite Hc. rewrite map_length, diff_length, !map_length, app_length. simpl. lia.
  - pose proof (ss_z_to_t_nonzero_off_cone _ _ _ _ _ _ _ Hth Hn Hc) as Hz.
    destruct (arz_array_sizes_lemma _ _ (ZL times) E th n t0 Hab Hz HL) as (H1 & H2 & H3).
    apply shower_signal_length; try assumption; lia.
Qed.

(* non-vacuity: a concrete off-cone call satisfies the hypotheses *)
Lemma arz_sizes_nonvacuous_lemma : exists a b L E th n t0, a < b /\ ARZ_ss_z_to_t a b L E th n t0 <> 0.
Proof.
  exists 0, 1, 2%Z, 1, (PI / 2), 2, 0. split; [lra | ].
  rewrite ss_z_to_t_def, cos_PI2. unfold speed_of_light. intros H.
  apply (Rmult_eq_compat_r 299792458) in H. unfold Rdiv in H. rewrite Rmult_assoc, Rinv_l in H; lra.
Qed.
Lemma zhs_cone_nonvacuous_lemma : exists E d f th1 th2 thc, 0 < E /\ 0 < d /\ f <> 0 /\ Rabs (th1 - thc) < Rabs (th2 - thc).
Proof. exists 1, 1, 1, 1, 2, 1. repeat split; try lra. replace (1 - 1) with 0 by ring. replace (2 - 1) with 1 by ring. rewrite Rabs_R0, Rabs_R1. lra. Qed.

(* ---- conjunctions stated in Props/C07.v ---- *)
Definition C07_inv_distance_all := (conj C07_zhs_avz.zhs_inv_distance (conj C07_zhs_avz.avz_inv_distance (conj C07_arz.arz_inv_distance (conj zhs_e_omega_inv_distance avz_tmp_inv_distance)))).
Definition C07_even_in_angle_all := (conj C07_zhs_avz.zhs_even_in_angle (conj C07_zhs_avz.avz_even_in_angle (conj C07_arz.arz_even_in_angle zhs_e_omega_signed_angle_irrelevant))).
Definition C07_joint_shift_all := (conj C07_zhs_avz.zhs_joint_shift (conj C07_zhs_avz.avz_joint_shift C07_arz.arz_joint_shift)).
Definition C07_zhs_whole_sample_shift_partial_all := (conj C07_zhs_avz.zhs_sample_shift C07_zhs_avz.zhs_whole_sample_shift).
Definition C07_avz_whole_sample_shift_all := C07_zhs_avz.avz_whole_sample_shift.
Definition C07_arz_whole_sample_shift_partial_all := (conj shower_signal_whole_sample_shift shower_signal_on_cone_whole_sample_shift).
Definition C07_arz_length_all := (conj shower_signal_length arz_length_unconditional).
Definition C07_arz_placement_index_all := (conj arz_assembly_index_lemma arz_RAC_getz).
Definition C07_arz_placement_all := shower_signal_placement.
Definition C07_zero_energy_all := (conj C07_zhs_avz.zhs_zero_energy (conj C07_zhs_avz.avz_zero_energy C07_arz.arz_zero_energy)).
Definition C07_zhs_cone_factor_monotone_all := (conj C07_formulas.zhs_cone_factor_monotone C07_formulas.zhs_cone_factor_strict).
Definition C07_avz_cone_factor_monotone_all := (conj avz_em_tmp_form (conj avz_gauss_monotone (conj avz_em_increasing_inside avz_g_decreasing_outside))).
Definition C07_em_on_cone_linear_in_energy_all := (conj C07_zhs_avz.zhs_linear_in_energy (conj C07_formulas.avz_em_on_cone_linear_in_energy arz_em_on_cone_linear_lemma)).
Definition C07_finiteness_all := (conj C07_formulas.zhs_denominators_nonzero (conj avz_dThetaEM_pos (conj ss_z_to_t_nonzero_off_cone arz_array_sizes_lemma))).
Definition C07_nonvacuous_all := (conj arz_sizes_nonvacuous_lemma zhs_cone_nonvacuous_lemma).

(* ---- second-level conjunctions ---- *)
Definition C07_zhs_avz_whole_sample_shift_partial_merged := conj C07_zhs_whole_sample_shift_partial_all C07_avz_whole_sample_shift_all.
Definition C07_arz_placement_merged := conj C07_arz_placement_index_all C07_arz_placement_all.
Definition C07_cone_factor_monotone_merged := conj C07_zhs_cone_factor_monotone_all C07_avz_cone_factor_monotone_all.
Definition C07_finiteness_merged := conj C07_finiteness_all C07_nonvacuous_all.

(* ---- third level: sharpened hypotheses and the ZHS time-domain peak ---- *)
Definition C07_zhs_avz_shift_full := conj (proj1 C07_zhs_avz_whole_sample_shift_partial_merged) (conj (proj2 C07_zhs_avz_whole_sample_shift_partial_merged) (conj zhs_zeroed_iff (conj zhs_sample_periodic zhs_whole_sample_shift_all))).
Definition C07_arz_shift_full := conj (proj1 C07_arz_whole_sample_shift_partial_all) (conj (proj2 C07_arz_whole_sample_shift_partial_all) (conj Rtrunc_minus_iff (conj ss_n_shift_consistent shower_signal_whole_sample_shift_concrete))).
Definition C07_cone_full := conj (proj1 C07_cone_factor_monotone_merged) (conj (proj2 C07_cone_factor_monotone_merged) (conj zhs_peak_attained (conj zhs_peak_strict_in_angle zhs_time_domain_peak_largest_on_cone))).

(* ---- top-level groupings (each Print Assumptions in Props costs > 1 s) ---- *)
Definition C07_scaling_invariances_top := (conj C07_inv_distance_all (conj C07_even_in_angle_all C07_joint_shift_all)).
Definition C07_zero_energy_and_finiteness_top := (conj C07_zero_energy_all C07_finiteness_merged).

(* ---- second step after construction: re-gridding gives the pulse of the requested grid, zeros of its length for no shower ---- *)
Lemma second_step_regrid :
  (forall times times' E d psi n t0, fs_values (fs_with_times (zhs_signal times E d psi n t0) times') = zhs_values times' E d psi n t0) /\
  (forall times times' emE hadE emf hadf d psi n t0,
     fs_values (fs_with_times (avz_signal times emE hadE emf hadf d psi n t0) times') = avz_values times' emE hadE emf hadf d psi n t0) /\
  (forall times times' emE hadE d psi n t0, fs_values (fs_with_times (arz_signal times emE hadE d psi n t0) times') = arz_values times' emE hadE d psi n t0) /\
  (forall times times' d psi n t0, fs_values (fs_with_times (zhs_signal times 0 d psi n t0) times') = repeat 0 (length times')) /\
  (forall times times' emf hadf d psi n t0, fs_values (fs_with_times (avz_signal times 0 0 emf hadf d psi n t0) times') = repeat 0 (length times')) /\
  (forall times times' d psi n t0, fs_values (fs_with_times (arz_signal times 0 0 d psi n t0) times') = repeat 0 (length times')) /\
  (forall times times' E d psi n t0, length (fs_values (fs_with_times (zhs_signal times E d psi n t0) times')) = length times') /\
  (forall times times' emE hadE emf hadf d psi n t0, length (fs_values (fs_with_times (avz_signal times emE hadE emf hadf d psi n t0) times')) = length times') /\
  (forall a b times', length (fs_fun a times') = length times' -> length (fs_fun b times') = length times' ->
     length (fs_values (fs_with_times (fs_add a b) times')) = length times').
Proof.
  repeat match goal with |- _ /\ _ => split end; intros;
    unfold fs_values, fs_with_times, fs_add, zhs_signal, avz_signal, arz_signal; simpl;
    first [ reflexivity
          | apply C07_zhs_avz.zhs_zero_energy | apply C07_zhs_avz.avz_zero_energy | apply C07_arz.arz_zero_energy
          | apply zhs_values_length | apply avz_values_length
          | rewrite map2_length; congruence ].
Qed.
Definition C07_zero_energy_and_finiteness_top2 := conj (proj1 C07_zero_energy_and_finiteness_top) (conj (proj2 C07_zero_energy_and_finiteness_top) second_step_regrid).
