(* C03 with C05's concrete filter: grid, linearity and passivity of propagate() without hypotheses. *)
From Coq Require Import Reals List Bool ZArith.
From PyrexLib Require Import RealPrims Vec3Facts CPair SignalAlg ListOps.
From PyrexGen Require Import Gen_ice Gen_prop.
From PyrexModel Require Import PropagationModel.
From PyrexProofs Require Import C03_fresnel C03_proofs C03_propagate FilterBridge.
Import ListNotations.
Open Scope R_scope.

Lemma propagate_concrete_stmt : forall e r phi tof Hs Hp,
  (* grid *)
  (forall signal pol, wf signal ->
     let '((os, op), _) := propagate_spec (sig_filter_F concrete_filter) e r phi tof signal pol Hs Hp in
     sg_times os = map (fun t => t + tof) (sg_times signal) /\ sg_times op = map (fun t => t + tof) (sg_times signal) /\
     length (sg_values os) = length (sg_times signal) /\ length (sg_values op) = length (sg_times signal)) /\
  (* linear in the signal *)
  (forall a b x y pol, wf x -> sg_times y = sg_times x -> length (sg_values y) = length (sg_values x) ->
     let sxy := mkSig (sg_times x) (lincomb a b (sg_values x) (sg_values y)) (sg_type x) in
     let '((os, op), _) := propagate_spec (sig_filter_F concrete_filter) e r phi tof sxy pol Hs Hp in
     let '((xs_, xp_), _) := propagate_spec (sig_filter_F concrete_filter) e r phi tof x pol Hs Hp in
     let '((ys_, yp_), _) := propagate_spec (sig_filter_F concrete_filter) e r phi tof y pol Hs Hp in
     sg_values os = lincomb a b (sg_values xs_) (sg_values ys_) /\ sg_values op = lincomb a b (sg_values xp_) (sg_values yp_)) /\
  (* linear in the polarization *)
  (forall a b x p q, wf x ->
     let '((os, op), _) := propagate_spec (sig_filter_F concrete_filter) e r phi tof x (vadd (vscale a p) (vscale b q)) Hs Hp in
     let '((ps_, pp_), _) := propagate_spec (sig_filter_F concrete_filter) e r phi tof x p Hs Hp in
     let '((qs_, qp_), _) := propagate_spec (sig_filter_F concrete_filter) e r phi tof x q Hs Hp in
     sg_values os = lincomb a b (sg_values ps_) (sg_values qs_) /\ sg_values op = lincomb a b (sg_values pp_) (sg_values qp_)) /\
  (* passive *)
  (forall signal pol, wf signal -> (forall u, cabs (Hs u) <= 1) -> (forall u, cabs (Hp u) <= 1) ->
     let '((os, op), _) := propagate_spec (sig_filter_F concrete_filter) e r phi tof signal pol Hs Hp in
     energy (sg_values os) + energy (sg_values op) <= vdot pol pol * energy (sg_values signal)).
Proof.
  intros e r phi tof Hs Hp.
  split; [exact (propagate_grid concrete_filter concrete_filter_length e r phi tof Hs Hp)|].
  split; [exact (propagate_linear_signal concrete_filter concrete_filter_length concrete_filter_linear e r phi tof Hs Hp)|].
  split; [exact (propagate_linear_polarization concrete_filter concrete_filter_length concrete_filter_linear e r phi tof Hs Hp)|].
  exact (propagate_passive concrete_filter concrete_filter_passive e r phi tof Hs Hp).
Qed.
