(* Hand model of the parts of pyrex/generation.py that the translator cannot express (loops with
   early exit, mutable lists, object construction); pinned by AST hash in harness/pins/C13.json and
   validated by correspondence in harness/props/c13.py.  No proofs here. *)
From Coq Require Import Reals List Bool ZArith.
From PyrexLib Require Import RealPrims.
Import ListNotations.
Open Scope R_scope.

Definition vnth (v : vec3) (i : nat) : R :=
  match i with O => vx v | S O => vy v | _ => vz v end.

Definition both_some {A} (st : option A * option A) : option (A * A) :=
  match st with (Some a, Some b) => Some (a, b) | _ => None end.

(* ------------------------------------------------------------------------------------------
   RectangularGenerator.get_exit_points

     sides = ((-dx/2, dx/2), (-dy/2, dy/2), (-dz, 0))
     for count in range(6):
         coord = int(count/2); min_max = count%2
         if particle.direction[coord]==0: continue
         scale = (sides[coord][min_max] - particle.vertex[coord]) / particle.direction[coord]
         intersection = particle.vertex + particle.direction * scale
         valid = True
         for i, pair in enumerate(sides):
             if i==coord: continue
             if intersection[i]<pair[0] or intersection[i]>pair[1]: valid = False
         if valid:
             sign = 1 if min_max==1 else -1
             if sign*particle.direction[coord]<0: enter_point = intersection
             else: exit_point = intersection
         if enter_point is not None and exit_point is not None: return enter_point, exit_point
     raise ValueError
   ------------------------------------------------------------------------------------------ *)
Definition box_sides (dx dy dz : R) (coord : nat) : R * R :=
  match coord with O => (- dx / 2, dx / 2) | S O => (- dy / 2, dy / 2) | _ => (- dz, 0) end.

Definition box_valid (dx dy dz : R) (coord : nat) (p : vec3) : bool :=
  forallb (fun i => Nat.eqb i coord ||
                    negb (Rltb (vnth p i) (fst (box_sides dx dy dz i)) || Rgtb (vnth p i) (snd (box_sides dx dy dz i))))
          [0%nat; 1%nat; 2%nat].

Definition box_state : Type := (option vec3 * option vec3)%type.

(* one iteration; the boolean says "return now" *)
Definition box_face (dx dy dz : R) (v d : vec3) (coord : nat) (is_max : bool) (st : box_state) : box_state * bool :=
  if Reqb (vnth d coord) 0 then (st, false)
  else
    let side := if is_max then snd (box_sides dx dy dz coord) else fst (box_sides dx dy dz coord) in
    let scale := (side - vnth v coord) / vnth d coord in
    let p := (vx v + vx d * scale, vy v + vy d * scale, vz v + vz d * scale) in
    let st' := if box_valid dx dy dz coord p
               then (if Rltb ((if is_max then 1 else -1) * vnth d coord) 0 then (Some p, snd st) else (fst st, Some p))
               else st in
    (st', match both_some st' with Some _ => true | None => false end).

Fixpoint box_loop (dx dy dz : R) (v d : vec3) (faces : list (nat * bool)) (st : box_state) : option (vec3 * vec3) :=
  match faces with
  | [] => None                                                     (* raise ValueError *)
  | (c, m) :: rest =>
      let '(st', ret) := box_face dx dy dz v d c m st in
      if ret then both_some st' else box_loop dx dy dz v d rest st'
  end.

Definition box_faces : list (nat * bool) :=
  [(0%nat, false); (0%nat, true); (1%nat, false); (1%nat, true); (2%nat, false); (2%nat, true)].

Definition box_exit_points (dx dy dz : R) (v d : vec3) : option (vec3 * vec3) :=
  box_loop dx dy dz v d box_faces (None, None).

(* ------------------------------------------------------------------------------------------
   CylindricalGenerator.get_exit_points (parametric form):

     h = sqrt(d_x^2 + d_y^2);  c = v_x^2 + v_y^2 - dr^2
     if h != 0:  u = d_xy / h;  b = v_xy . u;  raise if b^2 < c
                 for s in (-b - sqrt(b^2-c), -b + sqrt(b^2-c)):   (enters, exits)
                     candidate (s/h, [v_x + s u_x, v_y + s u_y, v_z + s d_z / h])
     elif c > 0: raise
     if d_z != 0: for z in (entering cap, leaving cap) = (0, -dz) if d_z < 0 else (-dz, 0):
                     candidate ((z - v_z)/d_z, [v_x + (z-v_z) d_x/d_z, v_y + (z-v_z) d_y/d_z, z])
     elif v_z > 0 or v_z < -dz: raise
     raise if there is no entering or no leaving candidate
     t_in, enter = max(enters by t) (first maximal); t_out, exit = min(exits by t) (first minimal)
     raise unless t_in <= 0 <= t_out
   ------------------------------------------------------------------------------------------ *)
Definition cand : Type := (R * vec3)%type.
Inductive crossing := CErr | CNone | CPair (e x : cand).

Definition cyl_side (dr : R) (v d : vec3) : crossing :=
  let h := sqrt (vx d ^ 2 + vy d ^ 2) in
  let c := vx v ^ 2 + vy v ^ 2 - dr ^ 2 in
  if negb (Reqb h 0) then
    let ux := vx d / h in
    let uy := vy d / h in
    let b := vx v * ux + vy v * uy in
    if Rltb (b ^ 2) c then CErr
    else
      let s0 := - b - sqrt (b ^ 2 - c) in
      let s1 := - b + sqrt (b ^ 2 - c) in
      CPair (s0 / h, (vx v + s0 * ux, vy v + s0 * uy, vz v + s0 * vz d / h))
            (s1 / h, (vx v + s1 * ux, vy v + s1 * uy, vz v + s1 * vz d / h))
  else if Rgtb c 0 then CErr else CNone.

Definition cap_cand (v d : vec3) (z : R) : cand :=
  ((z - vz v) / vz d, (vx v + (z - vz v) * vx d / vz d, vy v + (z - vz v) * vy d / vz d, z)).

Definition cyl_caps (dz : R) (v d : vec3) : crossing :=
  if negb (Reqb (vz d) 0) then
    CPair (cap_cand v d (if Rltb (vz d) 0 then 0 else - dz))
          (cap_cand v d (if Rltb (vz d) 0 then - dz else 0))
  else if Rgtb (vz v) 0 || Rltb (vz v) (- dz) then CErr else CNone.

(* max / min by the line parameter over [side; cap]: the first extremal element *)
Definition later (a b : cand) : cand := if Rltb (fst a) (fst b) then b else a.
Definition earlier (a b : cand) : cand := if Rltb (fst b) (fst a) then b else a.

Definition cyl_pick (e x : cand) : option (vec3 * vec3) :=
  if Rleb (fst e) 0 && Rleb 0 (fst x) then Some (snd e, snd x) else None.

Definition cyl_exit_points (dr dz : R) (v d : vec3) : option (vec3 * vec3) :=
  match cyl_side dr v d, cyl_caps dz v d with
  | CErr, _ => None
  | _, CErr => None
  | CNone, CNone => None
  | CPair e x, CNone => cyl_pick e x
  | CNone, CPair e x => cyl_pick e x
  | CPair e x, CPair e' x' => cyl_pick (later e e') (earlier x x')
  end.

(* ------------------------------------------------------------------------------------------
   Generator.create_event: every throw increments count; without shadowing the first throw is
   returned with its weights; with shadowing one more variate u is drawn and the throw is returned
   (survival weight set to 1) iff u < survival weight, otherwise create_event is called again.
   A throw is modelled by its payload, its survival weight and the accept variate.
   ------------------------------------------------------------------------------------------ *)
Section CreateEvent.
  Context {T : Type}.
  Definition throw : Type := (T * R * R)%type.         (* payload, survival weight, accept variate *)

  Fixpoint create_event (shadow : bool) (fuel : nat) (count : Z) (throws : list throw)
    : option (T * R * Z * list throw) :=
    match fuel with
    | O => None
    | S f =>
        match throws with
        | [] => None
        | (p, w, u) :: rest =>
            let count' := (count + 1)%Z in
            if negb shadow then Some (p, w, count', rest)
            else if Rltb u w then Some (p, 1, count', rest)
            else create_event shadow f count' rest
        end
    end.
End CreateEvent.

(* ------------------------------------------------------------------------------------------
   ListGenerator: _index, _additional_counts; count = _index + _additional_counts;
   count.setter: _additional_counts = c - _index;
   create_event: if not loop and _index >= len(events): raise StopIteration
                 _index += 1; return events[(_index-1) % len(events)]
   ------------------------------------------------------------------------------------------ *)
Record lstate := mkL { l_index : Z; l_add : Z }.
Inductive lop := Create | SetCount (c : Z) | GetCount.
Inductive lout := Ev (i : Z) | Stop | Cnt (c : Z) | Done.

Definition l_init : lstate := mkL 0 0.
Definition l_count (s : lstate) : Z := (l_index s + l_add s)%Z.

Definition l_step (n : Z) (loop : bool) (s : lstate) (o : lop) : lstate * lout :=
  match o with
  | Create =>
      if negb loop && (l_index s >=? n)%Z then (s, Stop)
      else (mkL (l_index s + 1) (l_add s), Ev ((l_index s + 1 - 1) mod n)%Z)
  | SetCount c => (mkL (l_index s) (c - l_index s), Done)
  | GetCount => (s, Cnt (l_count s))
  end.

Fixpoint l_run (n : Z) (loop : bool) (s : lstate) (ops : list lop) : lstate * list lout :=
  match ops with
  | [] => (s, [])
  | o :: r => let '(s', out) := l_step n loop s o in
              let '(s'', outs) := l_run n loop s' r in (s'', out :: outs)
  end.

(* ------------------------------------------------------------------------------------------
   The energy source.  Generator.__init__ keeps a callable `energy` as self.get_energy WITHOUT calling
   it (a number becomes a constant function); every call of create_event -- also each recursive call
   after a rejected throw -- calls self.get_energy() exactly once (E = self.get_energy()), and the user
   may call gen.get_energy() directly.  For a stateful source (tabulated spectrum, iterator.__next__,
   sampler with its own RNG) the state is the number of values drawn so far.
   Throws r = one create_event whose first r throws are rejected by shadowing (r = 0 without shadowing).
   ------------------------------------------------------------------------------------------ *)
Record gstate := mkG { g_pos : Z; g_count : Z }.
Inductive gop := Throws (rejected : nat) | DirectEnergy | SetCountG (c : Z).
Inductive gout := GEvent (energy_index count : Z) | GEnergy (index : Z) | GDone.

Definition g_init (c : Z) : gstate := mkG 0 c.

Definition g_step (s : gstate) (o : gop) : gstate * gout :=
  match o with
  | Throws r =>
      let n := (Z.of_nat r + 1)%Z in
      (mkG (g_pos s + n) (g_count s + n), GEvent (g_pos s + Z.of_nat r) (g_count s + n))
  | DirectEnergy => (mkG (g_pos s + 1) (g_count s), GEnergy (g_pos s))
  | SetCountG c => (mkG (g_pos s) c, GDone)
  end.

Fixpoint g_run (s : gstate) (ops : list gop) : gstate * list gout :=
  match ops with
  | [] => (s, [])
  | o :: r => let '(s', out) := g_step s o in
              let '(s'', outs) := g_run s' r in (s'', out :: outs)
  end.
