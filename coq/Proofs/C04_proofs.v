From Coq Require Import List QArith Qabs Bool Arith Lia.
From PyrexLib Require Import InterpQ.
From PyrexModel Require Import SignalModel.
Import ListNotations.
Open Scope Q_scope.

Lemma zeros_length : forall n, length (zeros n) = n.
Proof. induction n; simpl; congruence. Qed.

Lemma pad_trunc_length : forall n vs, length (pad_trunc n vs) = n.
Proof.
  intros n vs. unfold pad_trunc. destruct (Nat.ltb (length vs) n) eqn:E.
  - apply Nat.ltb_lt in E. rewrite app_length, zeros_length. lia.
  - apply Nat.ltb_ge in E. rewrite firstn_length. lia.
Qed.
