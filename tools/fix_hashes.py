#!/usr/bin/env python3
"""Rewrite commit hashes in known_findings/*.json from the builders' branch commits to the
equal-subject commits on /repo main (cherry-picking changes hashes)."""
import json, glob, os, subprocess
ROOT = os.path.dirname(os.path.dirname(os.path.abspath(__file__)))
def git(*a):
    return subprocess.run(["git", "-C", "/repo"] + list(a), stdout=subprocess.PIPE, stderr=subprocess.DEVNULL, text=True).stdout.strip()
main = {}
for line in git("log", "--format=%h\t%s", "main").split("\n"):
    h, s = line.split("\t", 1)
    main.setdefault(s, h)
for f in sorted(glob.glob(os.path.join(ROOT, "known_findings", "*.json"))):
    data = json.load(open(f)); changed = False
    for e in data:
        h = e.get("commit")
        if not h:
            continue
        if git("merge-base", "--is-ancestor", h, "main") == "" and subprocess.run(["git", "-C", "/repo", "merge-base", "--is-ancestor", h, "main"]).returncode == 0:
            continue
        subj = git("log", "-1", "--format=%s", h)
        new = main.get(subj)
        if new and new != h[:len(new)]:
            e["commit"] = new
            for k in ("what", "key"):
                if isinstance(e.get(k), str):
                    e[k] = e[k].replace(h, new)
            changed = True
            print(os.path.basename(f), h, "->", new, subj[:60])
        elif not new:
            print(os.path.basename(f), "NO MAIN COMMIT for", h, subj[:60])
    if changed:
        json.dump(data, open(f, "w"), indent=1)
