(* C02: reciprocity and the symmetries of stratified ice. *)
From Coq Require Import Reals List Bool ZArith Lra Lia Psatz.
From PyrexLib Require Import RealPrims ListR Atan2.
From PyrexGen Require Import Gen_ice Gen_uniform Gen_ray2.
From PyrexModel Require Import UniformPath UniformTracer GradientTracer.
Import ListNotations.
Open Scope R_scope.

(* ------------------------------------------------------------------ the transformations *)
Definition shift (ox oy : R) (v : vec3) : vec3 := (vx v + ox, vy v + oy, vz v).
Definition rot (c s : R) (v : vec3) : vec3 := (c * vx v - s * vy v, s * vx v + c * vy v, vz v).

Lemma vec3_eq (a b c a' b' c' : R) : a = a' -> b = b' -> c = c' -> (a, b, c) = (a', b', c').
Proof. intros -> -> ->. reflexivity. Qed.

Lemma vsub_shift ox oy a b : vsub (shift ox oy a) (shift ox oy b) = vsub a b.
Proof. unfold vsub, shift, vx, vy, vz. simpl. apply vec3_eq; ring. Qed.
Lemma vsub_rot c s a b : vsub (rot c s a) (rot c s b) = rot c s (vsub a b).
Proof. unfold vsub, rot, vx, vy, vz. simpl. apply vec3_eq; ring. Qed.
Lemma vsub_swap a b : vsub a b = vopp (vsub b a).
Proof. unfold vsub, vopp, vx, vy, vz. simpl. apply vec3_eq; ring. Qed.

Definition hrho (u : vec3) : R := sqrt (vx u ^ 2 + vy u ^ 2).
Definition hphi (u : vec3) : R := atan2 (vy u) (vx u).

Lemma hrho_hyp u : hrho u = hyp (vx u) (vy u).
Proof. unfold hrho, hyp. f_equal. ring. Qed.
Lemma hrho_rot c s u : c * c + s * s = 1 -> hrho (rot c s u) = hrho u.
Proof. intros H. rewrite !hrho_hyp. unfold rot, vx, vy. simpl. apply hyp_rot. assumption. Qed.
Lemma hrho_opp u : hrho (vopp u) = hrho u.
Proof. rewrite !hrho_hyp. unfold vopp, vx, vy. simpl. apply hyp_opp. Qed.
Lemma hphi_rot c s u : c * c + s * s = 1 -> vx u <> 0 \/ vy u <> 0 ->
  cos (hphi (rot c s u)) = c * cos (hphi u) - s * sin (hphi u) /\
  sin (hphi (rot c s u)) = s * cos (hphi u) + c * sin (hphi u).
Proof.
  intros H Hu. unfold hphi, rot, vx, vy. simpl. split.
  - apply cos_atan2_rot; assumption.
  - apply sin_atan2_rot; assumption.
Qed.
Lemma hphi_opp u : vx u <> 0 \/ vy u <> 0 ->
  cos (hphi (vopp u)) = - cos (hphi u) /\ sin (hphi (vopp u)) = - sin (hphi u).
Proof.
  intros Hu. unfold hphi, vopp, vx, vy. simpl. split.
  - apply cos_atan2_opp; assumption.
  - apply sin_atan2_opp; assumption.
Qed.

(* ------------------------------------------------------------------ gradient-index paths *)
Definition shiftP ox oy (p : GPath) : GPath :=
  mkGPath (shift ox oy (GPath_from_point p)) (shift ox oy (GPath_to_point p)) (GPath_theta0 p) (GPath_ice p) (GPath_direct p).
Definition rotP c s (p : GPath) : GPath :=
  mkGPath (rot c s (GPath_from_point p)) (rot c s (GPath_to_point p)) (GPath_theta0 p) (GPath_ice p) (GPath_direct p).
Definition sepP (p : GPath) : vec3 := vsub (GPath_to_point p) (GPath_from_point p).

Ltac unfold_gpath :=
  unfold SpecializedRayTracePath_emitted_direction, SpecializedRayTracePath_received_direction,
         SpecializedRayTracePath_theta, SpecializedRayTracePath_beta, SpecializedRayTracePath_n0,
         SpecializedRayTracePath_z0, SpecializedRayTracePath_z1, SpecializedRayTracePath_rho, SpecializedRayTracePath_phi,
         BasicRayTracePath_emitted_direction, BasicRayTracePath_received_direction,
         BasicRayTracePath_theta, BasicRayTracePath_beta, BasicRayTracePath_n0,
         BasicRayTracePath_z0, BasicRayTracePath_z1, BasicRayTracePath_rho, BasicRayTracePath_phi in *.

(* every quantity of a path is a function of (theta0, ice, direct, depths, separation vector) *)
Lemma spec_rho_sep p : SpecializedRayTracePath_rho p = hrho (sepP p).
Proof. reflexivity. Qed.
Lemma spec_phi_sep p : SpecializedRayTracePath_phi p = hphi (sepP p).
Proof. reflexivity. Qed.
Lemma basic_rho_sep p : BasicRayTracePath_rho p = hrho (sepP p).
Proof. reflexivity. Qed.
Lemma basic_phi_sep p : BasicRayTracePath_phi p = hphi (sepP p).
Proof. reflexivity. Qed.

Lemma sep_shift ox oy p : sepP (shiftP ox oy p) = sepP p.
Proof. unfold sepP, shiftP. simpl. apply vsub_shift. Qed.
Lemma sep_rot c s p : sepP (rotP c s p) = rot c s (sepP p).
Proof. unfold sepP, rotP. simpl. apply vsub_rot. Qed.

Definition gpath_observables_spec (p : GPath) :=
  (SpecializedRayTracePath_rho p, SpecializedRayTracePath_phi p, SpecializedRayTracePath_z0 p, SpecializedRayTracePath_z1 p,
   SpecializedRayTracePath_beta p, SpecializedRayTracePath_emitted_direction p, SpecializedRayTracePath_received_direction p).
Definition gpath_observables_basic (p : GPath) :=
  (BasicRayTracePath_rho p, BasicRayTracePath_phi p, BasicRayTracePath_z0 p, BasicRayTracePath_z1 p,
   BasicRayTracePath_beta p, BasicRayTracePath_emitted_direction p, BasicRayTracePath_received_direction p).

Lemma translation_invariant_spec ox oy p : gpath_observables_spec (shiftP ox oy p) = gpath_observables_spec p.
Proof.
  unfold gpath_observables_spec. unfold_gpath.
  change (vsub (GPath_to_point (shiftP ox oy p)) (GPath_from_point (shiftP ox oy p))) with (sepP (shiftP ox oy p)).
  rewrite sep_shift. reflexivity.
Qed.
Lemma translation_invariant_basic ox oy p : gpath_observables_basic (shiftP ox oy p) = gpath_observables_basic p.
Proof.
  unfold gpath_observables_basic. unfold_gpath.
  change (vsub (GPath_to_point (shiftP ox oy p)) (GPath_from_point (shiftP ox oy p))) with (sepP (shiftP ox oy p)).
  rewrite sep_shift. reflexivity.
Qed.

Lemma rotation_covariant_spec c s p : c * c + s * s = 1 -> vx (sepP p) <> 0 \/ vy (sepP p) <> 0 ->
  SpecializedRayTracePath_rho (rotP c s p) = SpecializedRayTracePath_rho p /\
  SpecializedRayTracePath_z0 (rotP c s p) = SpecializedRayTracePath_z0 p /\
  SpecializedRayTracePath_z1 (rotP c s p) = SpecializedRayTracePath_z1 p /\
  SpecializedRayTracePath_beta (rotP c s p) = SpecializedRayTracePath_beta p /\
  SpecializedRayTracePath_emitted_direction (rotP c s p) = rot c s (SpecializedRayTracePath_emitted_direction p) /\
  SpecializedRayTracePath_received_direction (rotP c s p) = rot c s (SpecializedRayTracePath_received_direction p).
Proof.
  intros Hcs Hu.
  rewrite !spec_rho_sep, sep_rot, hrho_rot by assumption.
  split; [reflexivity|]. split; [reflexivity|]. split; [reflexivity|]. split; [reflexivity|].
  destruct (hphi_rot c s (sepP p) Hcs Hu) as [Hc Hs].
  unfold SpecializedRayTracePath_emitted_direction, SpecializedRayTracePath_received_direction.
  rewrite !spec_phi_sep, sep_rot, Hc, Hs.
  change (GPath_theta0 (rotP c s p)) with (GPath_theta0 p).
  change (GPath_direct (rotP c s p)) with (GPath_direct p).
  change (SpecializedRayTracePath_theta (rotP c s p) (SpecializedRayTracePath_z1 (rotP c s p)))
    with (SpecializedRayTracePath_theta p (SpecializedRayTracePath_z1 p)).
  split.
  - unfold rot, vx, vy, vz. simpl. apply vec3_eq; ring.
  - destruct (GPath_direct p); unfold rot, vx, vy, vz; simpl; apply vec3_eq; ring.
Qed.

Lemma rotation_covariant_basic c s p : c * c + s * s = 1 -> vx (sepP p) <> 0 \/ vy (sepP p) <> 0 ->
  BasicRayTracePath_rho (rotP c s p) = BasicRayTracePath_rho p /\
  BasicRayTracePath_z0 (rotP c s p) = BasicRayTracePath_z0 p /\
  BasicRayTracePath_z1 (rotP c s p) = BasicRayTracePath_z1 p /\
  BasicRayTracePath_beta (rotP c s p) = BasicRayTracePath_beta p /\
  BasicRayTracePath_emitted_direction (rotP c s p) = rot c s (BasicRayTracePath_emitted_direction p) /\
  BasicRayTracePath_received_direction (rotP c s p) = rot c s (BasicRayTracePath_received_direction p).
Proof.
  intros Hcs Hu.
  rewrite !basic_rho_sep, sep_rot, hrho_rot by assumption.
  split; [reflexivity|]. split; [reflexivity|]. split; [reflexivity|]. split; [reflexivity|].
  destruct (hphi_rot c s (sepP p) Hcs Hu) as [Hc Hs].
  unfold BasicRayTracePath_emitted_direction, BasicRayTracePath_received_direction.
  rewrite !basic_phi_sep, sep_rot, Hc, Hs.
  change (GPath_theta0 (rotP c s p)) with (GPath_theta0 p).
  change (GPath_direct (rotP c s p)) with (GPath_direct p).
  change (BasicRayTracePath_theta (rotP c s p) (BasicRayTracePath_z1 (rotP c s p)))
    with (BasicRayTracePath_theta p (BasicRayTracePath_z1 p)).
  split.
  - unfold rot, vx, vy, vz. simpl. apply vec3_eq; ring.
  - destruct (GPath_direct p); unfold rot, vx, vy, vz; simpl; apply vec3_eq; ring.
Qed.

(* ------------------------------------------------------------------ reciprocity of the direct solution *)
(* The tracer always solves for the angle alpha at the LOWER endpoint; both orientations get the same
   alpha because (rho, z0, z1) are the same (lemma tracer_inputs_symmetric).  The true launch angle is
   asin(sin alpha * n(z0) / n(from)) and pi minus that when launching from above. *)
Definition swapT (t : GTracer) : GTracer := mkGTracer (GTracer_to_point t) (GTracer_from_point t) (GTracer_ice t).

Lemma tracer_inputs_symmetric t :
  SpecializedRayTracer_rho (swapT t) = SpecializedRayTracer_rho t /\
  SpecializedRayTracer_z0 (swapT t) = SpecializedRayTracer_z0 t /\
  SpecializedRayTracer_z1 (swapT t) = SpecializedRayTracer_z1 t /\
  SpecializedRayTracer_n0 (swapT t) = SpecializedRayTracer_n0 t /\
  SpecializedRayTracer_max_angle (swapT t) = SpecializedRayTracer_max_angle t /\
  BasicRayTracer_rho (swapT t) = BasicRayTracer_rho t /\
  BasicRayTracer_z0 (swapT t) = BasicRayTracer_z0 t /\
  BasicRayTracer_z1 (swapT t) = BasicRayTracer_z1 t /\
  BasicRayTracer_n0 (swapT t) = BasicRayTracer_n0 t /\
  BasicRayTracer_max_angle (swapT t) = BasicRayTracer_max_angle t.
Proof.
  assert (Hr : SpecializedRayTracer_rho (swapT t) = SpecializedRayTracer_rho t).
  { change (SpecializedRayTracer_rho (swapT t)) with (hrho (vsub (GTracer_from_point t) (GTracer_to_point t))).
    rewrite (vsub_swap (GTracer_from_point t) (GTracer_to_point t)), hrho_opp. reflexivity. }
  assert (H0 : SpecializedRayTracer_z0 (swapT t) = SpecializedRayTracer_z0 t).
  { unfold SpecializedRayTracer_z0, swapT. simpl. apply Rmin_comm. }
  assert (H1 : SpecializedRayTracer_z1 (swapT t) = SpecializedRayTracer_z1 t).
  { unfold SpecializedRayTracer_z1, swapT. simpl. apply Rmax_comm. }
  assert (Hn : SpecializedRayTracer_n0 (swapT t) = SpecializedRayTracer_n0 t).
  { unfold SpecializedRayTracer_n0. rewrite H0. reflexivity. }
  assert (Hm : SpecializedRayTracer_max_angle (swapT t) = SpecializedRayTracer_max_angle t).
  { unfold SpecializedRayTracer_max_angle. rewrite H1, Hn. reflexivity. }
  repeat split; assumption.
Qed.

Section ReciprocityDirect.
  Variables (A B : vec3) (ice : Ice) (alpha : R).
  Let tA := mkGTracer A B ice.
  Let tB := mkGTracer B A ice.
  Let nA := AntarcticIce_index ice (vz A).
  Let nB := AntarcticIce_index ice (vz B).
  Hypothesis Hz : vz A < vz B.
  Hypothesis Hsep : vx (vsub B A) <> 0 \/ vy (vsub B A) <> 0.
  Hypothesis HnA : 0 < nA.
  Hypothesis HnB : 0 < nB.
  Hypothesis Halpha : 0 < alpha < PI / 2.
  Hypothesis Hreach : sin alpha * nA / nB < 1.       (* the ray reaches B without turning *)

  (* direct_angle as the code composes it *)
  Definition direct_launch (t : GTracer) : R :=
    let a := SpecializedRayTracer_get_launch_angle__true_angle t alpha in
    if SpecializedRayTracer_direct_angle__is_from_above t then SpecializedRayTracer_direct_angle__from_above t a else a.
  Let pA := mkGPath A B (direct_launch tA) ice true.
  Let pB := mkGPath B A (direct_launch tB) ice true.
  Let gamma := asin (sin alpha * nA / nB).

  Lemma launch_A : direct_launch tA = alpha.
  Proof.
    unfold direct_launch, SpecializedRayTracer_direct_angle__is_from_above, SpecializedRayTracer_get_launch_angle__true_angle,
      SpecializedRayTracer_n0, SpecializedRayTracer_z0. simpl.
    rewrite Rmin_left by lra. fold nA.
    destruct (Rgtb (vz A) (vz B)) eqn:E. { apply Rgtb_true in E. lra. }
    replace (sin alpha * nA / nA) with (sin alpha) by (field; lra).
    apply asin_sin. lra.
  Qed.
  Lemma launch_B : direct_launch tB = PI - gamma.
  Proof.
    unfold direct_launch, SpecializedRayTracer_direct_angle__is_from_above, SpecializedRayTracer_get_launch_angle__true_angle,
      SpecializedRayTracer_direct_angle__from_above, SpecializedRayTracer_n0, SpecializedRayTracer_z0. simpl.
    rewrite Rmin_right by lra. fold nA. fold nB.
    destruct (Rgtb (vz B) (vz A)) eqn:E; [reflexivity|]. apply Rgtb_false in E. lra.
  Qed.

  Lemma sin_alpha_pos : 0 < sin alpha.
  Proof. apply sin_gt_0; lra. Qed.
  Lemma s_range : 0 < sin alpha * nA / nB < 1.
  Proof.
    split; [|assumption]. pose proof sin_alpha_pos.
    apply Rmult_lt_0_compat; [apply Rmult_lt_0_compat; assumption|apply Rinv_0_lt_compat; assumption].
  Qed.
  Lemma sin_gamma : sin gamma = sin alpha * nA / nB.
  Proof. unfold gamma. apply sin_asin. pose proof s_range. lra. Qed.
  Lemma cos_gamma_pos : 0 < cos gamma.
  Proof.
    unfold gamma. pose proof s_range as Hs.
    pose proof (asin_bound_lt (sin alpha * nA / nB)) as Hb.
    apply cos_gt_0; lra.
  Qed.

  Theorem reciprocity_direct_lemma :
    SpecializedRayTracePath_emitted_direction pA = vopp (SpecializedRayTracePath_received_direction pB) /\
    SpecializedRayTracePath_received_direction pA = vopp (SpecializedRayTracePath_emitted_direction pB) /\
    SpecializedRayTracePath_beta pA = SpecializedRayTracePath_beta pB.
  Proof.
    pose proof sin_gamma as Hsg. pose proof cos_gamma_pos as Hcg. pose proof sin_alpha_pos as Hsa.
    assert (Hca : 0 < cos alpha) by (apply cos_gt_0; lra).
    destruct (hphi_opp (vsub B A) Hsep) as [Hc Hs].
    assert (HphiB : SpecializedRayTracePath_phi pB = hphi (vopp (vsub B A))).
    { unfold SpecializedRayTracePath_phi, pB. simpl. rewrite (vsub_swap A B). reflexivity. }
    assert (HphiA : SpecializedRayTracePath_phi pA = hphi (vsub B A)) by reflexivity.
    assert (HthA : SpecializedRayTracePath_theta pA (SpecializedRayTracePath_z1 pA) = gamma).
    { unfold SpecializedRayTracePath_theta, SpecializedRayTracePath_n0, SpecializedRayTracePath_z0, SpecializedRayTracePath_z1, pA. simpl.
      rewrite launch_A. reflexivity. }
    assert (HthB : SpecializedRayTracePath_theta pB (SpecializedRayTracePath_z1 pB) = alpha).
    { unfold SpecializedRayTracePath_theta, SpecializedRayTracePath_n0, SpecializedRayTracePath_z0, SpecializedRayTracePath_z1, pB. simpl.
      rewrite launch_B, sin_PI_x, Hsg. fold nA nB.
      replace (sin alpha * nA / nB * nB / nA) with (sin alpha) by (field; lra).
      apply asin_sin. lra. }
    assert (HsignA : sign (cos alpha) = 1).
    { unfold sign. destruct (Rltb (cos alpha) 0) eqn:E. { apply Rltb_true in E. lra. }
      destruct (Rltb 0 (cos alpha)) eqn:E2; [reflexivity|]. apply Rltb_false in E2. lra. }
    assert (HsignB : sign (cos (PI - gamma)) = -1).
    { rewrite cos_minus, cos_PI, sin_PI. unfold sign.
      destruct (Rltb (-1 * cos gamma + 0 * sin gamma) 0) eqn:E; [reflexivity|]. apply Rltb_false in E. lra. }
    unfold SpecializedRayTracePath_emitted_direction, SpecializedRayTracePath_received_direction, SpecializedRayTracePath_beta.
    rewrite HthA, HthB, HphiB, HphiA, Hc, Hs.
    change (GPath_direct pA) with true. change (GPath_direct pB) with true. cbv iota.
    change (GPath_theta0 pA) with (direct_launch tA). change (GPath_theta0 pB) with (direct_launch tB).
    rewrite launch_A, launch_B, HsignA, HsignB, sin_PI_x, cos_minus, cos_PI, sin_PI.
    split; [|split].
    - unfold vopp, vx, vy, vz. simpl. apply vec3_eq; ring.
    - unfold vopp, vx, vy, vz. simpl. apply vec3_eq; ring.
    - unfold SpecializedRayTracePath_n0, SpecializedRayTracePath_z0, pA, pB. simpl. fold nA nB. rewrite Hsg. field. lra.
  Qed.
End ReciprocityDirect.

(* ------------------------------------------------------------------ path integrals are symmetric *)
Section Integrals.
  Variable F : R -> bool -> R.
  Variable zu : R.

  Lemma zint_corr_antisym z0 z1 : zint_corr F zu z1 z0 = - zint_corr F zu z0 z1.
  Proof.
    unfold zint_corr.
    destruct (Rltb z0 zu) eqn:E0, (Rltb z1 zu) eqn:E1; simpl; try ring.
    - apply Rltb_true in E0. apply Rltb_false in E1.
      destruct (Rltb z1 z0) eqn:A. { apply Rltb_true in A. lra. }
      destruct (Rltb z0 z1) eqn:A2; [ring|]. apply Rltb_false in A2. lra.
    - apply Rltb_false in E0. apply Rltb_true in E1.
      destruct (Rltb z1 z0) eqn:A.
      + destruct (Rltb z0 z1) eqn:A2. { apply Rltb_true in A, A2. lra. } ring.
      + apply Rltb_false in A. lra.
  Qed.

  (* |integral| of the direct path, and the two-leg integral of the indirect path, do not depend on
     which endpoint is the source (path_length, tof: np.abs(z_integral(...)); attenuation: exp(-|.|)) *)
  Theorem z_integral_reciprocal zA zB z_turn direct :
    Rabs (z_integral F zu zA zB z_turn direct) = Rabs (z_integral F zu zB zA z_turn direct).
  Proof.
    unfold z_integral. destruct direct.
    - rewrite (zint_corr_antisym zA zB). symmetry. apply Rabs_Ropp.
    - f_equal. ring.
  Qed.
End Integrals.

(* ------------------------------------------------------------------ exists / count *)
Lemma exists_iff_expected cf ct rho drm irm :
  tracer_exists (expected_solutions cf ct rho drm irm) = true <->
  cf = true /\ ct = true /\ (rho < drm \/ rho < irm).
Proof.
  unfold tracer_exists, expected_solutions.
  destruct cf, ct; simpl; try (split; [discriminate|intros (H1 & H2 & _); discriminate]).
  destruct (Rltb rho drm) eqn:E1.
  - apply Rltb_true in E1. simpl. split; auto.
  - apply Rltb_false in E1. destruct (Rltb rho irm) eqn:E2.
    + apply Rltb_true in E2. simpl. split; auto.
    + apply Rltb_false in E2. simpl. split; [discriminate|]. intros (_ & _ & [H|H]); lra.
Qed.

(* when the solver returned an angle for every expected solution: none or exactly two solutions, the
   first of the two flagged direct exactly in the direct regime, and exists <-> non-empty *)
Theorem gradient_count_lemma cf ct rho drm irm a0 a1 a2 :
  let ex := expected_solutions cf ct rho drm irm in
  let sols := tracer_solutions_g [Some a0; Some a1; Some a2] ex in
  (length sols = 0%nat \/ length sols = 2%nat) /\
  (tracer_exists ex = true <-> sols <> []).
Proof.
  unfold expected_solutions, tracer_solutions_g, tracer_exists.
  destruct (negb (cf && ct)); simpl.
  - split; [left; reflexivity|]. split; [discriminate|intros H; contradiction H; reflexivity].
  - destruct (Rltb rho drm); simpl.
    + split; [right; reflexivity|]. split; [discriminate|reflexivity].
    + destruct (Rltb rho irm); simpl.
      * split; [right; reflexivity|]. split; [discriminate|reflexivity].
      * split; [left; reflexivity|]. split; [discriminate|intros H; contradiction H; reflexivity].
Qed.

(* a solver failure (angle None) can only remove solutions *)
Lemma solutions_le_expected angles : forall i ex,
  (length (solutions_from i angles ex) <= length (filter (fun b => b) ex))%nat.
Proof.
  induction angles as [|a angles IH]; intros i ex; simpl; [lia|].
  destruct ex as [|e ex]; simpl; [lia|].
  rewrite app_length. specialize (IH (S i) ex).
  destruct a, e; simpl; lia.
Qed.

(* ------------------------------------------------------------------ uniform tracer *)
Lemma uniform_exists_iff_nonempty t m :
  UniformRayTracer_exists t = true <-> tracer_solutions t m <> [].
Proof.
  unfold tracer_solutions, tracer_solution_params, uniform_solutions.
  destruct (UniformRayTracer_exists t); simpl.
  - split; [discriminate|reflexivity].
  - split; [discriminate|intros H; contradiction H; reflexivity].
Qed.

Lemma uniform_exists_iff_in_range t :
  UniformRayTracer_exists t = true <->
  (t_lo t <= UniformRayTracer_z0 t <= t_hi t /\ t_lo t <= UniformRayTracer_z1 t <= t_hi t).
Proof.
  unfold UniformRayTracer_exists, t_lo, t_hi. rewrite !andb_true_iff, !Rleb_true. tauto.
Qed.

Definition shiftT ox oy (t : UTracer) : UTracer := mkUTracer (shift ox oy (UTracer_from_point t)) (shift ox oy (UTracer_to_point t)) (UTracer_ice t).

Lemma uniform_tracer_translation ox oy t m :
  tracer_solution_params (shiftT ox oy t) m = tracer_solution_params t m.
Proof.
  unfold tracer_solution_params.
  assert (Hr : UniformRayTracer_rho (shiftT ox oy t) = UniformRayTracer_rho t).
  { unfold UniformRayTracer_rho, shiftT. simpl. rewrite vsub_shift. reflexivity. }
  rewrite Hr. reflexivity.
Qed.

Lemma removelast_map {A B} (f : A -> B) l : removelast (map f l) = map f (removelast l).
Proof.
  induction l as [|a l IH]; [reflexivity|]. destruct l; [reflexivity|].
  change (map f (a :: a0 :: l)) with (f a :: map f (a0 :: l)).
  change (removelast (f a :: map f (a0 :: l))) with (f a :: removelast (map f (a0 :: l))).
  rewrite IH. reflexivity.
Qed.

(* the reported points of every uniform solution are translated with the endpoints *)
Lemma uniform_points_shift ox oy from to theta lo hi direct k rho phi :
  uniform_points (shift ox oy from) (shift ox oy to) theta lo hi direct k rho phi =
  option_map (map (shift ox oy)) (uniform_points from to theta lo hi direct k rho phi).
Proof.
  unfold uniform_points. destruct direct; [reflexivity|]. destruct (init_dir theta); [|reflexivity].
  change (vz (shift ox oy from)) with (vz from). change (vz (shift ox oy to)) with (vz to).
  cbv beta zeta.
  set (L := combine _ _).
  unfold option_map. f_equal.
  rewrite map_cons, map_app, <- removelast_map, map_map.
  change (map (shift ox oy) [to]) with [shift ox oy to].
  match goal with |- ?a :: ?x ++ ?e = ?a' :: ?y ++ ?e' => assert (Hxy : x = y); [|rewrite Hxy; reflexivity] end.
  apply (f_equal (@removelast vec3)). apply map_ext. intros [i r].
  unfold shift, vx, vy, vz. simpl. apply vec3_eq; ring.
Qed.

Theorem uniform_points_translated ox oy t theta k :
  path_points (mk_path (shiftT ox oy t) theta k) = option_map (map (shift ox oy)) (path_points (mk_path t theta k)).
Proof.
  unfold path_points, mk_path.
  cbn [UPath_from_point UPath_to_point UPath_theta0 UPath_ice UPath_direct UPath_reflections shiftT UTracer_from_point UTracer_to_point UTracer_ice].
  assert (Hr : forall th d kk, UniformRayTracePath_rho (mkUPath (shift ox oy (UTracer_from_point t)) (shift ox oy (UTracer_to_point t)) th (UTracer_ice t) d kk)
               = UniformRayTracePath_rho (mkUPath (UTracer_from_point t) (UTracer_to_point t) th (UTracer_ice t) d kk)).
  { intros. unfold UniformRayTracePath_rho. cbn [UPath_from_point UPath_to_point]. rewrite vsub_shift. reflexivity. }
  assert (Hp : forall th d kk, UniformRayTracePath_phi (mkUPath (shift ox oy (UTracer_from_point t)) (shift ox oy (UTracer_to_point t)) th (UTracer_ice t) d kk)
               = UniformRayTracePath_phi (mkUPath (UTracer_from_point t) (UTracer_to_point t) th (UTracer_ice t) d kk)).
  { intros. unfold UniformRayTracePath_phi. cbn [UPath_from_point UPath_to_point]. rewrite vsub_shift. reflexivity. }
  rewrite Hr, Hp. apply uniform_points_shift.
Qed.
