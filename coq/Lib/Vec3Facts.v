(* Facts about the 3-vector primitives of RealPrims.v used by C08 (antenna frames, rotations)
   and C03 (polarization basis): Lagrange identity, rotation by a quaternion, invariance of
   dot / cross / norm / normalize under unit-quaternion rotations, orthonormal frames. *)
From Coq Require Import Reals List Bool Lra Lia Psatz.
From PyrexLib Require Import RealPrims.
Open Scope R_scope.

Lemma vec3_eta (v : vec3) : v = (vx v, vy v, vz v).
Proof. destruct v as [[a b] c]; reflexivity. Qed.

Lemma vec3_eq (u v : vec3) : vx u = vx v -> vy u = vy v -> vz u = vz v -> u = v.
Proof. destruct u as [[a b] c], v as [[a' b'] c']; unfold vx, vy, vz; simpl; intros; subst; reflexivity. Qed.

Lemma vdot_comm u v : vdot u v = vdot v u.
Proof. unfold vdot; ring. Qed.

Lemma vdot_self_nonneg v : 0 <= vdot v v.
Proof. unfold vdot. nra. Qed.

Lemma vdot_scale_l s u v : vdot (vscale s u) v = s * vdot u v.
Proof. unfold vdot, vscale, vx, vy, vz; simpl; ring. Qed.

Lemma vdot_scale_r s u v : vdot u (vscale s v) = s * vdot u v.
Proof. unfold vdot, vscale, vx, vy, vz; simpl; ring. Qed.

Lemma vdot_opp_r u v : vdot u (vopp v) = - vdot u v.
Proof. unfold vdot, vopp, vx, vy, vz; simpl; ring. Qed.

Lemma vcross_scale_l s u v : vcross (vscale s u) v = vscale s (vcross u v).
Proof. apply vec3_eq; unfold vcross, vscale, vx, vy, vz; simpl; ring. Qed.

Lemma vcross_scale_r s u v : vcross u (vscale s v) = vscale s (vcross u v).
Proof. apply vec3_eq; unfold vcross, vscale, vx, vy, vz; simpl; ring. Qed.

Lemma vcross_perp_l u v : vdot u (vcross u v) = 0.
Proof. unfold vdot, vcross, vx, vy, vz; simpl; ring. Qed.

Lemma vcross_perp_r u v : vdot v (vcross u v) = 0.
Proof. unfold vdot, vcross, vx, vy, vz; simpl; ring. Qed.

(* Lagrange: |u x v|^2 = |u|^2 |v|^2 - (u.v)^2 *)
Lemma lagrange u v : vdot (vcross u v) (vcross u v) = vdot u u * vdot v v - vdot u v * vdot u v.
Proof. unfold vdot, vcross, vx, vy, vz; simpl; ring. Qed.

Lemma vnorm_nonneg v : 0 <= vnorm v.
Proof. unfold vnorm. apply sqrt_pos. Qed.

Lemma vnorm_sqr v : vnorm v * vnorm v = vdot v v.
Proof. unfold vnorm. apply sqrt_sqrt, vdot_self_nonneg. Qed.

Lemma vnorm_scale s v : vnorm (vscale s v) = Rabs s * vnorm v.
Proof.
  unfold vnorm. rewrite vdot_scale_l, vdot_scale_r.
  replace (s * (s * vdot v v)) with (Rsqr s * vdot v v) by (unfold Rsqr; ring).
  rewrite sqrt_mult by (try apply Rle_0_sqr; apply vdot_self_nonneg).
  rewrite sqrt_Rsqr_abs. reflexivity.
Qed.

Lemma vnorm_zero_iff v : vnorm v = 0 <-> vdot v v = 0.
Proof.
  unfold vnorm; split; intro H.
  - apply sqrt_eq_0 in H; [assumption | apply vdot_self_nonneg].
  - rewrite H. apply sqrt_0.
Qed.

(* normalize of a non-zero vector is a unit vector *)
Lemma vnormalize_unit v : vnorm v <> 0 -> vdot (vnormalize v) (vnormalize v) = 1.
Proof.
  intros H. unfold vnormalize.
  destruct (Reqb (vnorm v) 0) eqn:E; [apply Reqb_true in E; contradiction|].
  rewrite vdot_scale_l, vdot_scale_r, <- vnorm_sqr. field. assumption.
Qed.

Lemma vnormalize_nonzero v : vnorm v <> 0 -> vnormalize v = vscale (/ vnorm v) v.
Proof.
  intros H. unfold vnormalize.
  destruct (Reqb (vnorm v) 0) eqn:E; [apply Reqb_true in E; contradiction|reflexivity].
Qed.

Lemma vnormalize_of_unit v : vdot v v = 1 -> vnormalize v = v.
Proof.
  intros H. assert (N : vnorm v = 1) by (unfold vnorm; rewrite H; apply sqrt_1).
  rewrite vnormalize_nonzero by lra. rewrite N.
  apply vec3_eq; unfold vscale, vx, vy, vz; simpl; field.
Qed.

(* ---------------------------------------------------------------------------------------
   Rotation matrix of a quaternion q = (a,b,c,d); for a^2+b^2+c^2+d^2 = 1 this is the
   general proper rotation of R^3 (standard fact, not needed and not proved here). *)
Definition qn2 (a b c d : R) : R := a*a + b*b + c*c + d*d.

Definition qrot (a b c d : R) (v : vec3) : vec3 :=
  ((a*a + b*b - c*c - d*d) * vx v + 2*(b*c - a*d) * vy v + 2*(b*d + a*c) * vz v,
   2*(b*c + a*d) * vx v + (a*a - b*b + c*c - d*d) * vy v + 2*(c*d - a*b) * vz v,
   2*(b*d - a*c) * vx v + 2*(c*d + a*b) * vy v + (a*a - b*b - c*c + d*d) * vz v).

Lemma qrot_dot a b c d u v :
  vdot (qrot a b c d u) (qrot a b c d v) = qn2 a b c d * qn2 a b c d * vdot u v.
Proof. unfold vdot, qrot, qn2, vx, vy, vz; simpl; ring. Qed.

Lemma qrot_cross a b c d u v :
  vcross (qrot a b c d u) (qrot a b c d v) = vscale (qn2 a b c d) (qrot a b c d (vcross u v)).
Proof. apply vec3_eq; unfold vcross, vscale, qrot, qn2, vx, vy, vz; simpl; ring. Qed.

Lemma qrot_scale a b c d s v : qrot a b c d (vscale s v) = vscale s (qrot a b c d v).
Proof. apply vec3_eq; unfold vscale, qrot, vx, vy, vz; simpl; ring. Qed.

Lemma qrot_sub a b c d u v : qrot a b c d (vsub u v) = vsub (qrot a b c d u) (qrot a b c d v).
Proof. apply vec3_eq; unfold vsub, qrot, vx, vy, vz; simpl; ring. Qed.

Lemma qrot_opp a b c d v : qrot a b c d (vopp v) = vopp (qrot a b c d v).
Proof. apply vec3_eq; unfold vopp, qrot, vx, vy, vz; simpl; ring. Qed.

Lemma vscale_1 v : vscale 1 v = v.
Proof. apply vec3_eq; unfold vscale, vx, vy, vz; simpl; ring. Qed.

Section UnitQuaternion.
  Variables a b c d : R.
  Hypothesis unit_q : qn2 a b c d = 1.
  Notation Rot := (qrot a b c d).

  Lemma rot_dot u v : vdot (Rot u) (Rot v) = vdot u v.
  Proof. rewrite qrot_dot, unit_q. ring. Qed.

  Lemma rot_cross u v : vcross (Rot u) (Rot v) = Rot (vcross u v).
  Proof. rewrite qrot_cross, unit_q. apply vscale_1. Qed.

  Lemma rot_norm v : vnorm (Rot v) = vnorm v.
  Proof. unfold vnorm. rewrite rot_dot. reflexivity. Qed.

  Lemma rot_normalize v : vnormalize (Rot v) = Rot (vnormalize v).
  Proof.
    unfold vnormalize. rewrite rot_norm.
    destruct (Reqb (vnorm v) 0); [reflexivity|]. symmetry. apply qrot_scale.
  Qed.
End UnitQuaternion.

(* ---------------------------------------------------------------------------------------
   Orthonormal right-handed frame (x, y = z cross x, z): the squared components of any
   vector add up to its squared length. *)
Lemma gram_det x z v :
  vdot (vcross z x) v * vdot (vcross z x) v
  = vdot z z * vdot x x * vdot v v - vdot z z * (vdot x v * vdot x v) - vdot x x * (vdot z v * vdot z v)
    - vdot v v * (vdot z x * vdot z x) + 2 * vdot z x * vdot x v * vdot z v.
Proof. unfold vdot, vcross, vx, vy, vz; simpl; ring. Qed.

Lemma frame_complete x z v :
  vdot x x = 1 -> vdot z z = 1 -> vdot z x = 0 ->
  vdot x v * vdot x v + vdot (vcross z x) v * vdot (vcross z x) v + vdot z v * vdot z v = vdot v v.
Proof.
  intros Hx Hz Hzx. rewrite gram_det, Hx, Hz, Hzx. ring.
Qed.
