"""C15: Earth density and slant depth equal the reference profile and its line integral."""
import importlib
import json
import math
import os
import sys

import numpy as np

from harness import common, realextract as rx
from harness.common import REPO, ROOT

sys.path.insert(0, os.path.join(ROOT, "tools"))
PIN_FILE = os.path.join(ROOT, "harness", "pins", "C15.json")

# ------------------------------------------------------------------ independent reference
# Typed from the publications (NOT read from pyrex): Dziewonski & Anderson 1981 Table I;
# AraSim core-mantle-crust model.  (lower radius m, upper radius m, cubic coefficients in x=r/R)
REF = {
    "PREM": (6371.0e3, [
        (0.0, 1221.5e3, (13.0885, 0.0, -8.8381, 0.0)),
        (1221.5e3, 3480.0e3, (12.5815, -1.2638, -3.6426, -5.5281)),
        (3480.0e3, 5701.0e3, (7.9565, -6.4761, 5.5283, -3.0807)),
        (5701.0e3, 5771.0e3, (5.3197, -1.4836, 0.0, 0.0)),
        (5771.0e3, 5971.0e3, (11.2494, -8.0298, 0.0, 0.0)),
        (5971.0e3, 6151.0e3, (7.1089, -3.8045, 0.0, 0.0)),
        (6151.0e3, 6346.6e3, (2.6910, 0.6924, 0.0, 0.0)),
        (6346.6e3, 6356.0e3, (2.900, 0.0, 0.0, 0.0)),
        (6356.0e3, 6368.0e3, (2.600, 0.0, 0.0, 0.0)),
        (6368.0e3, 6371.0e3, (1.020, 0.0, 0.0, 0.0))]),
    "CoreMantleCrustModel": (6378.14e3, [
        (0.0, math.sqrt(1.2e13), (14.0, 0.0, 0.0, 0.0)),
        (math.sqrt(1.2e13), 6378.14e3 - 40e3, (3.4, 0.0, 0.0, 0.0)),
        (6378.14e3 - 40e3, 6378.14e3, (2.9, 0.0, 0.0, 0.0))]),
}
MODELS = ["PREM", "CoreMantleCrustModel"]


def poly(c, x):
    return c[0] + x * (c[1] + x * (c[2] + x * c[3]))


def ref_density(model, r):
    R, shells = REF[model]
    for lo, hi, c in shells:
        if lo <= r < hi:
            return poly(c, r / R)
    return 0.0


def shell_tv(model, a, b):
    """Upper bound of the total variation of the reference density over radii [a, b]
    (jumps at every boundary within 1 mm of the interval + variation of the polynomials)."""
    R, shells = REF[model]
    if b < a:
        a, b = b, a
    tv = 0.0
    bounds = [s[0] for s in shells] + [R]
    for c in bounds:
        if a - 1e-3 <= c <= b + 1e-3:
            below = ref_density(model, c * (1 - 1e-15)) if c > 0 else 0.0
            tv += abs(ref_density(model, c) - below)
    for lo, hi, co in shells:
        l, h = max(lo, a), min(hi, b)
        if h > l and any(co[1:]):
            xs = np.linspace(l / R, h / R, 400)
            tv += float(np.sum(np.abs(np.diff(poly(co, xs))))) * 1.001 + 1e-12
    return tv


def chord_oracle(model, p, d):
    """Column density (g/cm^2) of the reference profile along the half-line p + s d (s>0) up to
    where it leaves the Earth, by adaptive quadrature split at every shell crossing and at the
    closest approach.  Returns None when the half-line never is strictly inside the Earth,
    else dict(I, L, tv_open, rho_exit)."""
    from scipy.integrate import quad
    R, shells = REF[model]
    n = math.sqrt(d[0] * d[0] + d[1] * d[1] + d[2] * d[2])
    u = (d[0] / n, d[1] / n, d[2] / n)
    e = (p[0], p[1], p[2] + R)
    b = e[0] * u[0] + e[1] * u[1] + e[2] * u[2]
    c = p[0] * p[0] + p[1] * p[1] + p[2] * (p[2] + 2 * R)      # |e|^2 - R^2 without cancellation
    D = b * b - c
    r0sq = c + R * R
    # any binary64 evaluation of the discriminant b^2 - |e|^2 + R^2 (three terms of size up to 4e13 m^2, each
    # with a few rounding errors) is uncertain by dD; near tangency this decides hit / miss and changes the
    # in-Earth length 2 sqrt(D) by up to 2 (sqrt(D + dD) - sqrt(D - dD)): that is rounding, not discretisation
    dD = 32 * 2.3e-16 * (b * b + r0sq + R * R)
    if D <= -dD:
        return None
    slack = 100.0 * 14.0 * 2 * (math.sqrt(max(D, 0.0) + dD) - math.sqrt(max(D - dD, 0.0)))
    D = max(D, 0.0)
    L = -b + math.sqrt(D) if b <= 0 else -c / (b + math.sqrt(D)) if b + math.sqrt(D) > 0 else 0.0
    if L <= 0:
        if D > dD:
            return None
        return {"I": 0.0, "L": 0.0, "tv_open": 0.0, "rho_exit": 0.0, "rmin": math.sqrt(max(r0sq - b * b, 0.0)), "r0": math.sqrt(r0sq), "b": b, "slack": slack}

    def rad(s):
        return math.sqrt(max(r0sq + s * (2 * b + s), 0.0))
    cuts = {0.0, L}
    if 0 < -b < L:
        cuts.add(-b)
    for cb in [s[0] for s in shells[1:]] + [R]:
        dd = b * b - (r0sq - cb * cb)
        if dd > 0:
            for s in (-b - math.sqrt(dd), -b + math.sqrt(dd)):
                if 0 < s < L:
                    cuts.add(s)
    cuts = sorted(cuts)
    total = 0.0
    for s0, s1 in zip(cuts[:-1], cuts[1:]):
        if s1 - s0 <= 0:
            continue
        rm = rad(0.5 * (s0 + s1))
        co = None
        for lo, hi, cc in shells:
            if lo <= rm < hi:
                co = cc
        if co is None:
            continue                                  # outside the Earth: density 0
        if not any(co[1:]):
            total += co[0] * (s1 - s0)
        else:
            v, err = quad(lambda s: poly(co, rad(s) / R), s0, s1, epsabs=0, epsrel=1e-13, limit=200)
            total += v
    r0 = math.sqrt(r0sq)
    rmin = math.sqrt(max(r0sq - b * b, 0.0)) if b < 0 else r0
    tv = 0.0
    if b < 0:
        tv += shell_tv(model, rmin, r0)
    # ascending part up to (excluding) the exit point
    Rm = R - 2e-3
    if Rm > rmin:
        tv += shell_tv(model, rmin, Rm)
    return {"I": 100.0 * total, "L": L, "tv_open": tv, "rho_exit": ref_density(model, R * (1 - 1e-15)),
            "rmin": rmin, "r0": r0, "b": b, "slack": slack}


def bound(o, step):
    """Derived discretisation bound (design_notes/C15.md): for ANY trapezoid sampling of the chord with at
    least one cell and cells <= step (hence cells <= h = min(step, chord length)),
    |trapezoid - integral| <= h * (TV on the half-open chord + rho_exit/2), in g/cm^2 = *100;
    plus rounding slack."""
    h = min(step, o["L"])
    return 100.0 * h * (o["tv_open"] + 0.5 * o["rho_exit"]) * (1 + 1e-6) + 1e-9 * abs(o["I"]) + 1e-6 + o.get("slack", 0.0)


def gen_files(scratch):
    import gen_earth
    importlib.reload(gen_earth)
    text, side = gen_earth.generate(REPO)
    return {"Gen_earth": text}, side


# ------------------------------------------------------------------ inputs
def radii_grid(rng, model, n):
    R, shells = REF[model]
    out = [0.0, -0.0, -1.0, -1e6, R, 2 * R, 1e9, 1.0, 1e-300]
    for lo, hi, _ in shells:
        for b in (lo, hi):
            out += [b, float(np.nextafter(b, -np.inf)), float(np.nextafter(b, np.inf)), b - 0.5, b + 0.5]
        out += [rng.uniform(lo, hi) for _ in range(n)]
    out += [rng.uniform(R, 1.2 * R) for _ in range(3)] + [-(10 ** rng.uniform(-3, 7)) for _ in range(3)]
    return [float(r) for r in out]


def rand_dir(rng):
    z = rng.uniform(-1, 1)
    ph = rng.uniform(0, 2 * math.pi)
    s = math.sqrt(1 - z * z)
    return (s * math.cos(ph), s * math.sin(ph), z)


def earthref_dir_up(rng):
    """a direction with a clearly positive vertical component (short chords from shallow depth)"""
    d = rand_dir(rng)
    return (d[0], d[1], abs(d[2]) * 0.7 + 0.3)


def chord_cases(rng, n):
    """(model, endpoint, direction, step) covering: depth 0..3 km, any x,y, whole sphere incl.
    vertical / tangential / axis-parallel, lengths that are exact multiples of the step, chords
    shorter than one step, endpoints above the surface, several steps."""
    cases = []
    steps = [500.0, 500.0, 500.0, 100.0, 1000.0, 2500.0, 37.5, 250.0, 5000.0]
    for model in MODELS:
        fixed = [((0, 0, -1000.0), (0, 0, 1.0), 500.0), ((0, 0, -1000.0), (0, 0, 1.0), 250.0),
                 ((0, 0, -400.0), (0, 0, 1.0), 500.0), ((0, 0, -100.0), (0, 0, 2.0), 500.0),
                 ((0, 0, -499.0), (0, 0, 1.0), 500.0), ((0, 0, -750.0), (0, 0, 1.0), 500.0),
                 ((0, 0, -1500.0), (0, 0, 1.0), 500.0), ((0, 0, -2000.0), (0, 0, 1.0), 1000.0),
                 ((0, 0, -3000.0), (0, 0, -1.0), 2500.0), ((0, 0, 0.0), (0, 0, -1.0), 5000.0),
                 ((0, 0, -10.0), (1.0, 0, 0), 500.0), ((0, 0, -2999.0), (0, 1.0, 0), 500.0),
                 ((120.0, -3400.0, -1.0), (1.0, 1.0, 0), 500.0), ((0, 0, 0.0), (0, 0, 1.0), 500.0),
                 ((0, 0, 0.0), (1.0, 0, 0), 500.0), ((0, 0, 25.0), (0, 0, 1.0), 500.0),
                 ((0, 0, 25.0), (1.0, 0, -0.001), 500.0), ((5e3, 5e3, 10.0), (0.3, 0.1, -1.0), 1000.0),
                 ((0, 0, -200.0), (0, 0, 0.0), 500.0)]
        for p, d, s in fixed:
            cases.append((model, tuple(float(v) for v in p), tuple(float(v) for v in d), s))
        # chords shorter than the step: vertical from depth h with step = k*h exactly, and step >> chord in general
        for _ in range(max(6, n // 8)):
            h = rng.choice([250.0, 125.0, 100.0, 50.0, 0.5, 1500.0, 3000.0, 31.25, 1.0, 640.0])
            k = rng.choice([2, 3, 4, 5, 10, 100, 1, 7])
            cases.append((model, (0.0, 0.0, -h), (0.0, 0.0, rng.choice([1.0, 2.0, 0.5])), float(h * k)))
            hh = 10 ** rng.uniform(-1, 3.4)
            cases.append((model, (0.0, 0.0, -hh), (0.0, 0.0, 1.0), float(rng.choice([5000.0, 1e4, 2 * hh, 3 * hh, 1e6]))))
            cases.append((model, (rng.uniform(-50, 50), rng.uniform(-50, 50), -hh), tuple(earthref_dir_up(rng)), float(rng.choice([5000.0, 1e4, 1e5]))))
        for _ in range(n):
            depth = rng.choice([0.0, 3000.0, rng.uniform(0, 3000), rng.uniform(0, 3000), 10 ** rng.uniform(-2, 3.4)])
            xy = rng.choice([(0.0, 0.0), (rng.uniform(-5e3, 5e3), rng.uniform(-5e3, 5e3)), (rng.uniform(-1e5, 1e5), rng.uniform(-1e5, 1e5))])
            kind = rng.random()
            if kind < 0.55:
                d = rand_dir(rng)
            elif kind < 0.7:       # nearly horizontal / tangential
                ph = rng.uniform(0, 2 * math.pi)
                d = (math.cos(ph), math.sin(ph), rng.choice([0.0, 1e-3, -1e-3, 1e-6, -1e-6, rng.uniform(-0.02, 0.02)]))
            elif kind < 0.85:      # nearly vertical
                d = (rng.choice([0.0, 1e-9, 1e-4]), rng.choice([0.0, -1e-7, 1e-3]), rng.choice([1.0, -1.0]))
            else:                  # axis-parallel, not normalised
                ax = rng.randrange(3)
                d = [0.0, 0.0, 0.0]
                d[ax] = rng.choice([1.0, -1.0, 3.0, -0.25, 1e3])
                d = tuple(d)
            scale = rng.choice([1.0, 1.0, 2.0, 0.5, 7.3, 1e-3, 1e4])
            d = tuple(float(v * scale) for v in d)
            step = float(rng.choice(steps))
            if step < 250.0 and d[2] / math.sqrt(sum(v * v for v in d)) < 0.05:
                step = float(rng.choice([500.0, 1000.0, 2500.0, 250.0]))     # keep sample counts <= ~5e4
            cases.append((model, (float(xy[0]), float(xy[1]), float(-depth)), d, step))
    cases += outside_cases(rng, max(8, n // 3))
    return cases


class ImplFailure(Exception):
    pass


def guarded(fn, seconds=30, mem_gb=6):
    """Run one call of the implementation with a wall-clock and address-space limit, so that a
    broken step count (10^9 samples) becomes a reported failure instead of a hung check."""
    import resource
    import signal
    soft, hard = resource.getrlimit(resource.RLIMIT_AS)

    def on_alarm(sig, frm):
        raise ImplFailure("no result within %d s" % seconds)
    old = signal.signal(signal.SIGALRM, on_alarm)
    try:
        lim = mem_gb * 2 ** 30
        resource.setrlimit(resource.RLIMIT_AS, (lim if hard == resource.RLIM_INFINITY else min(lim, hard), hard))
        signal.alarm(seconds)
        try:
            with np.errstate(all="ignore"):
                return fn()
        except ImplFailure:
            raise
        except MemoryError:
            raise ImplFailure("MemoryError (more than %d GB)" % mem_gb)
        except Exception as e:
            raise ImplFailure("raised %r" % (e,))
    finally:
        signal.alarm(0)
        signal.signal(signal.SIGALRM, old)
        resource.setrlimit(resource.RLIMIT_AS, (soft, hard))


RESOURCE_FAILS = [0]


def slant(ctx, impl, model, p, d, step):
    """implementation's slant_depth, guarded; a crash / hang on a valid input is a failure."""
    if RESOURCE_FAILS[0] >= 3:
        raise ImplFailure("skipped after 3 resource failures")
    try:
        return float(guarded(lambda: impl[model].slant_depth(np.array(p), np.array(d), step)))
    except ImplFailure as e:
        RESOURCE_FAILS[0] += 1
        ctx.fail("slant-no-result:%s:%r:%r:%r" % (model, p, d, step),
                 "%s.slant_depth(endpoint=%r, direction=%r, step=%r) gives no result: %s" % (model, p, d, step, e),
                 {"kind": "chord", "model": model, "endpoint": list(p), "direction": list(d), "step": step})
        raise


def outside_cases(rng, n):
    """Endpoints OUTSIDE the sphere (z >= -(x^2+y^2)/(2R): shallow depth with a large horizontal offset, exactly
    on the sphere, or z > 0) with directions of prescribed closest approach R - delta: entering the Earth after a
    long vacuum path, grazing it (inside for metres to kilometres), tangent, or missing it."""
    out = []
    for model in MODELS:
        R = REF[model][0]
        for _ in range(n):
            rho = 10 ** rng.uniform(3.5, 5.7)                     # horizontal offset 3 km .. 500 km
            ph = rng.uniform(0, 2 * math.pi)
            x, y = rho * math.cos(ph), rho * math.sin(ph)
            zs = math.sqrt(R * R - rho * rho) - R                  # the sphere below (x, y)
            kind = rng.random()
            z = zs if kind < 0.15 else zs * rng.uniform(0.0, 0.999) if kind < 0.6 else min(0.0, zs + rng.uniform(0, 3000)) if kind < 0.8 else rng.uniform(0, 500)
            if z < zs:
                z = zs
            e = (x, y, z + R)
            ne = math.sqrt(sum(c * c for c in e))
            if ne < R:
                continue
            delta = rng.choice([-100.0, -1.0, 0.0, 0.01, 1.0, 10.0, 40.0, 100.0, 1000.0, 30000.0, 10 ** rng.uniform(-1, 5)])
            rmin = R - delta
            sa = min(1.0, rmin / ne)
            ca = math.sqrt(max(0.0, 1 - sa * sa))
            eh = tuple(-c / ne for c in e)
            # a unit vector perpendicular to e
            w = (rng.gauss(0, 1), rng.gauss(0, 1), rng.gauss(0, 1))
            dot = sum(a * b for a, b in zip(w, eh))
            w = tuple(a - dot * b for a, b in zip(w, eh))
            nw = math.sqrt(sum(c * c for c in w))
            d = tuple(ca * a + sa * b / nw for a, b in zip(eh, w))
            if rng.random() < 0.1:
                d = tuple(-c for c in d)                          # pointing away: never enters
            scale = rng.choice([1.0, 1.0, 3.0, 0.01])
            out.append((model, (x, y, z), tuple(c * scale for c in d), float(rng.choice([500.0, 500.0, 100.0, 250.0, 1000.0]))))
    return out


def impl_models():
    import pyrex.earth_model as em
    importlib.reload(em)
    return {"PREM": em.PREM(), "CoreMantleCrustModel": em.CoreMantleCrustModel()}


def close(a, b, rel=1e-12, abs_=1e-12):
    return abs(a - b) <= abs_ + rel * max(abs(a), abs(b))


# ------------------------------------------------------------------ correspondence: density
def corr_density(ctx, impl):
    rng = ctx.rng
    cases, expect, meta = [], [], []
    for model in MODELS:
        for r in radii_grid(rng, model, ctx.n(12, 300)):
            with np.errstate(all="ignore"):
                v = float(impl[model].density(r))
            cases.append("pr (M.%s_density %s)" % (rx.ocaml_name(model), rx.ocf(r)))
            expect.append(v)
            meta.append({"model": model, "r": r})
    res = rx.run(ctx, REQ, ["PREM_density", "CoreMantleCrustModel_density"], cases, name="dens")
    bad = 0
    for r, e, m in zip(res, expect, meta):
        ctx.case(key=("density", m["model"], m["r"]), sample={"case": m, "model": r, "impl": e})
        if r == "EXC" or not close(r[0], e, 1e-13, 1e-13):
            bad += 1
            if bad <= 4:
                ctx.oblige("corr:density:%s" % m["model"], False, "generated model %r != implementation %r at r=%r" % (r, e, m["r"]))
    ctx.oblige("corr:density(%d cases)" % len(cases), bad == 0, "%d disagreements" % bad)
    ctx.extra["corr_density_tolerance"] = "rel 1e-13 + abs 1e-13 (pow(x,3) vs x*x*x; otherwise the same operation order)"


# ------------------------------------------------------------------ correspondence: slant depth
Q2R = ('Extract Constant Q2R => "(fun q -> let rec p = function XH -> 1.0 | XO r -> 2.0 *. p r | XI r -> 2.0 *. p r +. 1.0 in '
       'let zf = function Z0 -> 0.0 | Zpos r -> p r | Zneg r -> -. (p r) in zf q.qnum /. p q.qden)".\n')
REQ = "From PyrexLib Require Import RealPrims.\nFrom PyrexGen Require Import Gen_earth.\n" + Q2R
RMOD = ('Extract Constant Rmod => "(fun x y -> let r = Float.rem x y in '
        'if r <> 0.0 && ((r < 0.0) <> (y < 0.0)) then r +. y else r)".\n')


def impl_samples(model_obj, p, d, step):
    """Replicates the implementation's sample radii (same NumPy operations) only to recognise
    inputs where a sample sits within 1e-6 m of a shell boundary (rounding decides its shell)."""
    R = model_obj.earth_radius
    e = np.array([p[0], p[1], p[2] + R])
    mag = np.linalg.norm(np.array(d))
    u = np.array(d) / mag if mag else np.array(d)
    b = np.dot(e, u)
    D = b ** 2 - np.sum(e ** 2) + R ** 2
    if D <= 0:
        return None
    L = -b + np.sqrt(D)
    if L <= 0:
        return None
    q = L / step
    k = int(q) + (1 if L % step else 0)
    ts = np.linspace(0, 1, k + 1)
    rs = np.sqrt((e[0] + ts * L * u[0]) ** 2 + (e[1] + ts * L * u[1]) ** 2 + (e[2] + ts * L * u[2]) ** 2)
    bounds = np.array(list(model_obj.radii))
    inner = rs[:-1]
    gap = float(np.min(np.abs(inner[:, None] - bounds[None, :]))) if len(inner) else 1.0
    return {"L": float(L), "k": k, "q": float(q), "gap": gap, "h": float(L) / max(k, 1)}


def agree(a, b, jump, tol_rel=1e-9):
    """a == b up to rounding, or differing by exactly one density flip of the LAST sample (the exit
    point has r = R up to rounding, where the density jumps from rho_exit to 0)."""
    tol = tol_rel * max(abs(a), abs(b)) + 1e-6
    return abs(a - b) <= tol or abs(abs(a - b) - jump) <= tol + 1e-9 * jump


def corr_slant(ctx, impl, escalate):
    rng = ctx.rng
    chords = chord_cases(rng, ctx.n(60, 1200) * (4 if escalate else 1))
    cases, expect, meta = [], [], []
    for model, p, d, step in chords:
        try:
            v = slant(ctx, impl, model, p, d, step)
        except ImplFailure:
            continue
        oc = rx.ocaml_name(model)
        vec = lambda t: "((%s, %s), %s)" % tuple(rx.ocf(x) for x in t)
        cases.append("pr (M.%s_slant_depth %s %s %s)" % (oc, vec(p), vec(d), rx.ocf(step)))
        expect.append(v)
        meta.append({"model": model, "endpoint": p, "direction": d, "step": step})
    res = rx.run(ctx, REQ + RMOD,
                 ["PREM_slant_depth", "CoreMantleCrustModel_slant_depth"], cases, name="slant")
    bad = fragile = 0
    dist = {"miss": 0, "short(<=1 step)": 0, "exact multiple": 0, "through core": 0, "other": 0}
    for r, e, m in zip(res, expect, meta):
        info = impl_samples(impl[m["model"]], m["endpoint"], m["direction"], m["step"])
        if info is None:
            dist["miss"] += 1
        elif info["k"] <= 1:
            dist["short(<=1 step)"] += 1
        elif info["q"] == int(info["q"]):
            dist["exact multiple"] += 1
        elif info["L"] > 1.2e7:
            dist["through core"] += 1
        else:
            dist["other"] += 1
        ctx.case(key=("slant", m["model"], m["endpoint"], m["direction"], m["step"]), nontrivial=info is not None,
                 sample={"case": m, "model": r, "impl": e})
        if r == "EXC":
            ok = False
        elif info is None:
            ok = r[0] == e == 0.0 or close(r[0], e, 1e-9, 1e-6)
        else:
            rho_exit = REF[m["model"]][1][-1][2][0]
            jump = 100.0 * rho_exit * info["h"] / 2
            ok = agree(r[0], e, jump)
            if not ok and (info["gap"] < 1e-6 or abs(info["q"] - round(info["q"])) < 1e-9 * max(1.0, info["q"])):
                fragile += 1          # rounding decides a sample's shell / the cell count: not comparable
                ok = True
        if not ok:
            bad += 1
            if bad <= 4:
                ctx.oblige("corr:slant_depth:%s" % m["model"], False,
                           "generated model %r != implementation %r at %s" % (r, e, json.dumps(m)))
    ctx.oblige("corr:slant_depth(%d cases)" % len(cases), bad == 0, "%d disagreements" % bad)
    ctx.extra["corr_slant_distribution"] = dist
    ctx.extra["corr_slant_fragile_skipped"] = fragile
    ctx.extra["corr_slant_tolerance"] = ("rel 1e-9 (pairwise vs sequential summation, BLAS norm/dot), or exactly one flip of the exit "
                                         "sample's density (r = R up to rounding); inputs with a sample within 1e-6 m of a shell "
                                         "boundary or L/step within 1e-9 of an integer are not comparable and counted as skipped")


# ------------------------------------------------------------------ probes on the implementation
def probe_density(ctx, impl):
    rng = ctx.rng
    for model in MODELS:
        obj = impl[model]
        rs = radii_grid(rng, model, ctx.n(10, 200))
        with np.errstate(all="ignore"):
            arr = np.asarray(obj.density(np.array(rs)))
            arr2 = np.asarray(obj.density(np.array(rs).reshape(-1, 1)))
            lst = np.asarray(obj.density(list(rs)))
        if arr.shape != (len(rs),) or arr2.shape != (len(rs), 1) or lst.shape != (len(rs),):
            ctx.fail("density-shape:%s" % model, "%s.density array shapes %s %s %s" % (model, arr.shape, arr2.shape, lst.shape),
                     {"kind": "density_shape", "model": model})
            continue
        for i, r in enumerate(rs):
            with np.errstate(all="ignore"):
                s = float(obj.density(r))
            want = ref_density(model, r)
            ctx.case(key=("density-probe", model, r))
            if not close(s, want, 1e-12, 1e-12):
                ctx.fail("density-reference:%s:%r" % (model, r), "%s.density(%r) = %r but the reference profile gives %r" % (model, r, s, want),
                         {"kind": "density", "model": model, "r": r})
            if not (s == float(arr[i]) == float(arr2[i, 0]) == float(lst[i])):
                ctx.fail("density-scalar-array:%s:%r" % (model, r), "%s.density scalar %r != array entry %r / %r / %r at r=%r" % (
                    model, s, float(arr[i]), float(arr2[i, 0]), float(lst[i]), r), {"kind": "density", "model": model, "r": r})


def judge_chord(ctx, impl, model, p, d, step, tag="chord"):
    """One chord against the quadrature oracle; returns (value, oracle)."""
    try:
        v = slant(ctx, impl, model, p, d, step)
    except ImplFailure:
        return None, None
    o = chord_oracle(model, p, d) if any(d) else None
    rep = {"kind": "chord", "model": model, "endpoint": list(p), "direction": list(d), "step": step}
    ctx.case(key=(tag, model, p, d, step), nontrivial=o is not None)
    if o is None:
        if any(d) and v != 0:
            ctx.fail("nonzero-miss:%s:%r:%r" % (model, p, d), "%s.slant_depth(%r, %r) = %r for a chord that never enters the Earth" % (model, p, d, v), rep)
        return v, o
    B = bound(o, step)
    if not abs(v - o["I"]) <= B:
        short = o["L"] <= step
        key = "slant-error:%s:%r:%r:%r" % (model, p, d, step)
        ctx.fail(key, "%s.slant_depth(endpoint=%r, direction=%r, step=%r) = %r; column density of the reference profile along the chord "
                 "(length %.6g m) = %r; |difference| = %.6g exceeds the discretisation bound %.6g of the chosen step%s" % (
                     model, p, d, step, v, o["L"], o["I"], abs(v - o["I"]), B, " (chord shorter than one step)" if short else ""), rep)
    return v, o


def probe_chords(ctx, impl):
    rng = ctx.rng
    worst = 0.0
    for model, p, d, step in chord_cases(rng, ctx.n(40, 1500)):
        v, o = judge_chord(ctx, impl, model, p, d, step)
        if o and v is not None:
            worst = max(worst, abs(v - o["I"]) / bound(o, step))
    ctx.extra["probe_chords_worst_error_over_bound"] = round(worst, 4)
    # convergence as the step shrinks: the same bound, linear in the step, at every step
    conv = []
    for _ in range(ctx.n(4, 40)):
        model = rng.choice(MODELS)
        p = (rng.uniform(-3e3, 3e3), rng.uniform(-3e3, 3e3), -rng.uniform(0, 3000))
        d = rand_dir(rng)
        errs = []
        for step in (4000.0, 1000.0, 250.0, 62.5):
            v, o = judge_chord(ctx, impl, model, p, d, step, tag="conv")
            if o:
                errs.append(abs(v - o["I"]))
        if errs:
            conv.append([round(e, 3) for e in errs])
    ctx.extra["probe_convergence_abs_errors_for_steps_4000_1000_250_62.5"] = conv[:6]


def probe_invariance(ctx, impl):
    rng = ctx.rng
    for _ in range(ctx.n(40, 1000)):
        model = rng.choice(MODELS)
        obj = impl[model]
        p = (rng.choice([0.0, rng.uniform(-5e3, 5e3)]), rng.choice([0.0, rng.uniform(-5e3, 5e3)]), -rng.uniform(0, 3000))
        d = rand_dir(rng)
        step = rng.choice([500.0, 200.0, 1250.0])
        info = impl_samples(obj, p, d, step)
        if info is None or info["gap"] < 1e-4 or abs(info["q"] - round(info["q"])) < 1e-6:
            continue
        rho_exit = REF[model][1][-1][2][0]
        jump = 100.0 * rho_exit * info["h"] / 2
        a = rng.choice([math.pi / 2, math.pi, rng.uniform(0, 2 * math.pi)])
        ca, sa = math.cos(a), math.sin(a)
        rot = lambda v: (ca * v[0] - sa * v[1], sa * v[0] + ca * v[1], v[2])
        k = rng.choice([2.0, 0.5, 3.7, 1e-6, 1e5, 1 + 1e-6, 1 - 1e-6, 1 + 9e-6, 1 - 9e-6, 1 + 3e-8, 1 - 1e-5, 1 + 1e-4])
        dk = tuple(k * x for x in d)
        if rng.random() < 0.25:
            dk = tuple(round(x, rng.choice([5, 6, 7])) for x in d)       # decimal-rounded unit vector: length 1 +- 1e-5..1e-7
            if not any(dk):
                continue
            k = math.sqrt(sum(x * x for x in dk))
        try:
            base = slant(ctx, impl, model, p, d, step)
            vr = slant(ctx, impl, model, rot(p), rot(d), step)
            if dk != tuple(k * x for x in d):
                # rounded components change the direction itself: compare with the harness-normalised vector
                nd = tuple(x / k for x in dk)
                info2 = impl_samples(obj, p, nd, step)
                if info2 is None or info2["gap"] < 1e-4 or abs(info2["q"] - round(info2["q"])) < 1e-6:
                    continue
                base_k = slant(ctx, impl, model, p, nd, step)
                jump_k = 100.0 * rho_exit * info2["h"] / 2
            else:
                base_k, jump_k = base, jump
            vs = slant(ctx, impl, model, p, dk, step)
        except ImplFailure:
            continue
        ctx.case(key=("invariance", model, p, d, step, a, k))
        rep = {"kind": "invariance", "model": model, "endpoint": list(p), "direction": list(d), "step": step, "angle": a, "scale": k}
        if not agree(base, vr, jump):
            ctx.fail("azimuth:%s:%r:%r:%r" % (model, p, d, a), "%s.slant_depth changes from %r to %r when endpoint and direction are rotated by %r rad about the vertical (allowed: rounding, or one flip of the exit sample = %.6g)" % (
                model, base, vr, a, jump), rep)
        if not agree(base_k, vs, jump_k):
            rep["scaled_direction"] = list(dk)
            ctx.fail("scale:%s:%r:%r:%r" % (model, p, dk, k), "%s.slant_depth(endpoint=%r, step=%r) is %r for the unit direction %r but %r for the same direction with length %r (%r): the result must not depend on the length of the direction vector (allowed: rounding 1e-9 relative, or one flip of the exit sample = %.6g)" % (
                model, p, step, base_k, [x / k for x in dk], vs, k, list(dk), jump_k), rep)


def probe_monotone(ctx, impl):
    """Explored, not proved: the column density grows as the chord dips deeper (fixed endpoint on the
    axis, decreasing vertical component of the direction)."""
    rng = ctx.rng
    nonmono = []
    for model in MODELS:
        for depth in [0.0, 1500.0, 3000.0] + [rng.uniform(0, 3000) for _ in range(ctx.n(1, 6))]:
            p = (0.0, 0.0, -depth)
            dips = sorted([0.2, 0.0, -0.01, -0.05, -0.1, -0.2, -0.35, -0.5, -0.65, -0.8, -0.9, -0.97, -1.0] + [rng.uniform(-1, 0.1) for _ in range(ctx.n(2, 10))], reverse=True)
            prev = None
            for dz in dips:
                d = (math.sqrt(max(0.0, 1 - dz * dz)), 0.0, dz)
                v, o = judge_chord(ctx, impl, model, p, d, 500.0, tag="mono")
                if o is None:
                    continue
                if prev is not None:
                    pv, po, pdz = prev
                    if o["I"] < po["I"] * (1 - 1e-12):
                        nonmono.append((model, depth, pdz, dz, po["I"], o["I"]))
                    elif v < pv - bound(o, 500.0) - bound(po, 500.0):
                        ctx.fail("monotone:%s:%r:%r:%r" % (model, depth, pdz, dz), "%s.slant_depth at depth %r decreases from %r (dz=%r) to %r (dz=%r) although the chord dips deeper" % (
                            model, depth, pv, pdz, v, dz), {"kind": "chord", "model": model, "endpoint": list(p), "direction": list(d), "step": 500.0})
                prev = (v, o, dz)
    ctx.extra["explored_reference_integral_monotone_in_dip"] = not nonmono
    if nonmono:
        ctx.extra["reference_integral_non_monotone_examples"] = nonmono[:3]


def probe_dtypes(ctx, impl):
    """Integer-typed and list-typed inputs next to floats: density(r) for Python / NumPy ints, lists, tuples and
    integer arrays must be the reference value (a float), equal to the value for the same radius given as a float,
    scalar == array entry for every dtype; slant_depth with int / list / tuple endpoints and directions must equal the
    float-array call exactly (same numbers, same arithmetic)."""
    rng = ctx.rng
    for model in MODELS:
        obj = impl[model]
        R, shells = REF[model]
        ints = [0, 1, 1000, int(R) - 1000, int(R) - 1, int(R), int(R) + 5, 3480000, 6346600, 5701000, 1221500, -7]
        ints += [int(s[0]) for s in shells if float(int(s[0])) == s[0]] + [rng.randrange(0, int(R)) for _ in range(ctx.n(6, 60))]
        forms = {"python int": lambda r: r, "np.int64": lambda r: np.int64(r), "np.int32": lambda r: np.int32(r),
                 "np.float32 (exactly representable)": None}
        with np.errstate(all="ignore"):
            arr_forms = {"list of int": list(ints), "tuple of int": tuple(ints), "int64 array": np.array(ints, dtype=np.int64),
                         "int32 array": np.array(ints, dtype=np.int32), "object-free mixed list": [ints[0], float(ints[1])] + [float(x) if i % 2 else x for i, x in enumerate(ints[2:])],
                         "2-d int array": np.array(ints, dtype=np.int64).reshape(-1, 1)}
            arrs = {}
            for name, a in arr_forms.items():
                try:
                    arrs[name] = np.asarray(obj.density(a)).reshape(-1)
                except Exception as e:
                    ctx.fail("density-dtype-raises:%s:%s" % (model, name), "%s.density(%s) raises %r" % (model, name, e), {"kind": "density", "model": model, "r": ints[2], "form": name})
            for i, r in enumerate(ints):
                want = ref_density(model, float(r))
                f = float(obj.density(float(r)))
                ctx.case(key=("density-dtype", model, r))
                for name, conv in forms.items():
                    if conv is None:
                        continue
                    try:
                        v = obj.density(conv(r))
                        v = float(v)
                    except Exception as e:
                        ctx.fail("density-dtype-raises:%s:%s:%r" % (model, name, r), "%s.density(%s %r) raises %r" % (model, name, r, e), {"kind": "density", "model": model, "r": r, "form": name})
                        continue
                    if not (close(v, want, 1e-12, 1e-12) and v == f):
                        ctx.fail("density-dtype:%s:%s:%r" % (model, name, r), "%s.density(%r given as %s) = %r but the reference profile gives %r (density(%r) as a float = %r)" % (
                            model, r, name, v, want, float(r), f), {"kind": "density", "model": model, "r": r, "form": name})
                for name, a in arrs.items():
                    if len(a) != len(ints) or not (float(a[i]) == f and close(float(a[i]), want, 1e-12, 1e-12)):
                        ctx.fail("density-dtype:%s:%s:%r" % (model, name, r), "%s.density(%s)[%d] for radius %r = %r but the scalar float call gives %r (reference %r)" % (
                            model, name, i, r, float(a[i]) if len(a) == len(ints) else None, f, want), {"kind": "density", "model": model, "r": r, "form": name})
        # slant_depth: integer / list / tuple endpoints and directions
        for _ in range(ctx.n(6, 80)):
            p = (rng.choice([0, 120, -3400, 5000]), rng.choice([0, -250, 700]), -rng.choice([0, 1, 100, 1000, 2999, 3000]))
            d = rng.choice([(0, 0, 1), (0, 0, -1), (1, 0, 0), (1, 1, -1), (3, -4, 0), (2, 0, -1), (0, -1, 1)])
            step = rng.choice([500, 250, 1000])
            try:
                base = slant(ctx, impl, model, tuple(float(x) for x in p), tuple(float(x) for x in d), float(step))
            except ImplFailure:
                continue
            variants = {"tuples of int": (tuple(p), tuple(d), step), "lists of int": (list(p), list(d), step),
                        "int64 arrays": (np.array(p, dtype=np.int64), np.array(d, dtype=np.int64), step),
                        "int endpoint, float direction": (list(p), [float(x) for x in d], float(step)),
                        "float endpoint, int direction, int step": (np.array(p, dtype=float), tuple(d), int(step))}
            for name, (pp_, dd_, st_) in variants.items():
                ctx.case(key=("slant-dtype", model, p, d, step, name))
                try:
                    v = float(guarded(lambda: obj.slant_depth(pp_, dd_, st_)))
                except ImplFailure as e:
                    ctx.fail("slant-dtype-raises:%s:%s:%r:%r" % (model, name, p, d), "%s.slant_depth(%r, %r, %r) given as %s: %s" % (model, p, d, step, name, e),
                             {"kind": "chord", "model": model, "endpoint": list(p), "direction": list(d), "step": step, "form": name})
                    continue
                if v != base:
                    ctx.fail("slant-dtype:%s:%s:%r:%r:%r" % (model, name, p, d, step), "%s.slant_depth(endpoint=%r, direction=%r, step=%r) = %r when given as %s but %r when given as float arrays" % (
                        model, p, d, step, v, name, base), {"kind": "chord", "model": model, "endpoint": list(p), "direction": list(d), "step": step, "form": name})


def probes(ctx, impl):
    probe_dtypes(ctx, impl)
    probe_density(ctx, impl)
    probe_chords(ctx, impl)
    probe_invariance(ctx, impl)
    probe_monotone(ctx, impl)


# ------------------------------------------------------------------ entry points
def run(ctx):
    ctx.rule = ("density: every shell boundary exactly and +-1 ulp, +-0.5 m, inside each shell, negative, zero, beyond the surface; "
                "chords: (model, endpoint depth 0..3 km with arbitrary x,y, direction anywhere on the sphere incl. vertical, tangential, "
                "axis-parallel, unnormalised, zero; step 37.5..5000 m) incl. chords shorter than a step, exact multiples of the step, "
                "endpoints above the surface; non-trivial = chords that enter the Earth")
    ctx.trusted += ["Coq 8.16.1 kernel; Coquelicot (RInt)", "tools/py2coq.py + tools/gen_earth.py (translator; tables, geometry and step arithmetic of slant_depth)",
                    "Model/EarthModel.v hand model of np.piecewise / np.linspace / sampling + np.trapezoid (pinned by AST hash, validated by correspondence)",
                    "Lib/Prem_reference.v and the table in harness/props/c15.py: the published PREM / AraSim profiles typed independently of the source",
                    "harness/realextract.py extraction directives (validation only); scipy.integrate.quad as quadrature oracle"]
    ctx.assumptions += ["theorems are over the real numbers; binary64 rounding is covered by the numeric correspondence and probes only",
                        "the exit sample has r = R up to rounding, so the implementation's value may differ by one half-cell of surface density between equivalent inputs (inside the proven discretisation bound)",
                        "integrability of the density along the chord is a hypothesis of the error-bound theorem (piecewise continuous in fact)",
                        "growth of the column density with dip is explored numerically (quadrature of the reference profile), not proved; chord length and closest approach are proved monotone"]
    impl = impl_models()
    try:
        files, side = gen_files(ctx.scratch)
        for k, v in files.items():
            ctx.write_gen(k, v)
        ctx.oblige("gen:Gen_earth", True)
        ctx.extra["translated_functions"] = side["hashes"]
    except Exception as e:
        ctx.oblige("gen:Gen_earth", False, "translation failed (fail-closed): %s" % e)
        probes(ctx, impl)
        return
    recorded = json.load(open(PIN_FILE)) if os.path.exists(PIN_FILE) else {}
    changed = [k for k, v in side["pins"].items() if recorded.get(k) != v]
    ctx.extra["pins"] = {"current": side["pins"], "changed_since_validation": changed}
    ok = ctx.coq_build("C15", timeout=240)
    if ok or not ctx.broken:
        pass
    RESOURCE_FAILS[0] = 0
    todo = [("density", lambda: corr_density(ctx, impl))]
    if ok:
        todo.append(("slant_depth", lambda: corr_slant(ctx, impl, bool(changed))))
    else:
        # the generated slant_depth no longer satisfies the structure theorems: executing it blindly
        # (possibly 10^9 samples) is pointless -- the search below judges the implementation directly
        ctx.extra["corr_slant_skipped"] = "Coq build failed; the float run of the generated slant_depth was skipped"
    for name, fn in todo:
        try:
            fn()
        except Exception as e:
            ctx.oblige("corr:" + name, False, repr(e)[-1500:])
    probes(ctx, impl)


def replay(ctx, obj):
    impl = impl_models()
    print(json.dumps(obj, indent=1, default=str))
    model = obj.get("model", "PREM")
    if obj.get("kind") == "density":
        r = obj["r"]
        print("implementation density(%r) = %r ; array: %r ; reference = %r" % (r, float(impl[model].density(r)), impl[model].density(np.array([r])), ref_density(model, r)))
        return 1
    if "endpoint" in obj:
        p, d, step = tuple(obj["endpoint"]), tuple(obj["direction"]), obj["step"]
        v = float(impl[model].slant_depth(np.array(p), np.array(d), step))
        o = chord_oracle(model, p, d) if any(d) else None
        print("implementation slant_depth = %r" % v)
        if "scaled_direction" in obj:
            sd = tuple(obj["scaled_direction"])
            print("implementation slant_depth with direction %r (same direction, length %r) = %r" % (
                sd, math.sqrt(sum(x * x for x in sd)), float(impl[model].slant_depth(np.array(p), np.array(sd), step))))
        if o:
            print("reference column density (quadrature) = %r ; chord length %r m ; bound for this step = %r ; |difference| = %r" % (o["I"], o["L"], bound(o, step), abs(v - o["I"])))
        else:
            print("the half-line never enters the Earth: expected 0")
        try:
            vec = lambda t: "((%s, %s), %s)" % tuple(rx.ocf(x) for x in t)
            res = rx.run(ctx, REQ + RMOD, ["PREM_slant_depth", "CoreMantleCrustModel_slant_depth"],
                         ["pr (M.%s_slant_depth %s %s %s)" % (rx.ocaml_name(model), vec(p), vec(d), rx.ocf(step))], name="replay")
            print("generated Coq model (as floats) = %r" % (res[0],))
        except Exception as e:
            print("model run failed: %r" % e)
    return 1
