(* C06: lazily evaluated signals and ray objects never serve stale values.
   Statements only; proofs in Proofs/C06_proofs.v, C06_table.v, C06_values.v.
   Models: Model/LazyModel.v (LazyMutableClass / lazy_property as written), Gen/Gen_lazy.v
   (attribute tables extracted from the source on every run), Model/FunValuesModel.v. *)
From Coq Require Import String List Bool QArith.
From PyrexLib Require Import InterpQ.
From PyrexModel Require Import LazyModel SignalModel FunValuesModel.
From PyrexGen Require Import Gen_lazy.
From PyrexProofs Require Import C06_proofs C06_table C06_values.
Import ListNotations.

(* for ANY class table that passes the criterion, ANY property function that reads only the listed
   attributes, and ANY history of public operations (assignments of public/static attributes,
   method calls along any of their effect paths, interleaved reads): a read returns what a fresh
   object with the same attributes reports *)
Theorem safe_methods_preserve_inv :
  forall (V : Type) (t : class_table) (compute : string -> (string -> V) -> V),
  (forall p f g, (forall a, mem a (all_deps t) = true -> f a = g a) -> compute p f = compute p g) ->
  forall d f ops p extra,
    table_ok t = true -> forallb (lop_public V t) ops = true ->
    let s := lrun V t compute d (fresh V f) ops in
    snd (read V compute s p extra) = compute p (attrs V s) /\
    snd (read V compute s p extra) = snd (read V compute (fresh V (attrs V s)) p []).
Proof. exact safe_methods_preserve_inv_lemma. Qed.
Print Assumptions safe_methods_preserve_inv.

(* the tables of FunctionSignal, the noise / Askaryan subclasses and every ray tracer / path class,
   as extracted from the current source, all pass *)
Theorem all_methods_safe : forallb (fun t => forallb (method_safe t) (methods t)) tables = true.
Proof. exact all_methods_safe_lemma. Qed.
Print Assumptions all_methods_safe.

Theorem deps_covered_all : forallb deps_covered tables = true.
Proof. exact deps_covered_lemma. Qed.
Print Assumptions deps_covered_all.

Theorem generated_classes_never_stale :
  forall t, In t tables ->
  forall (V : Type) (compute : string -> (string -> V) -> V),
  (forall p f g, (forall a, mem a (all_deps t) = true -> f a = g a) -> compute p f = compute p g) ->
  forall d f ops p extra, forallb (lop_public V t) ops = true ->
    let s := lrun V t compute d (fresh V f) ops in
    snd (read V compute s p extra) = snd (read V compute (fresh V (attrs V s)) p []).
Proof. exact generated_classes_never_stale_lemma. Qed.
Print Assumptions generated_classes_never_stale.

(* non-vacuity: the table is not empty, and the criterion does reject an unsafe method
   (in-place buffer change without cache clear) whose stale read the model exhibits *)
Theorem tables_nonempty :
  existsb (fun t => String.eqb (cname t) "FunctionSignal") tables = true /\
  existsb (fun t => String.eqb (cname t) "SpecializedRayTracer") tables = true /\
  existsb (fun t => String.eqb (cname t) "LayeredRayTracePath") tables = true /\
  forallb (fun t => negb (Nat.eqb (length (props t)) 0)) tables = true.
Proof. exact tables_nonempty_lemma. Qed.
Print Assumptions tables_nonempty.

Theorem criterion_rejects_unsafe_table :
  table_ok demo_bad = false /\ table_ok demo_good = true /\
  hrun0 demo_bad [HRead "values"; HCall "set_buffers" 0; HRead "values"]%string = [Some false; None; Some true] /\
  hrun0 demo_good [HRead "values"; HCall "set_buffers" 0; HRead "values"]%string = [Some false; None; Some false].
Proof. exact demo_tables. Qed.
Print Assumptions criterion_rejects_unsafe_table.

(* second sentence: FunctionSignal.values is the eager evaluation of its definition *)
Theorem values_eq_eager :
  forall (F : Type) (apply_filters : list F -> list Q -> list Q),
  (forall fs xs, length (apply_filters fs xs) = length xs) ->
  forall ts cs j, (j < length ts)%nat ->
    (nth j (values_code F apply_filters ts cs) 0 ==
     sumQ (map (fun c => nth j (contrib F apply_filters ts c) 0) cs))%Q.
Proof. exact values_eq_eager_lemma. Qed.
Print Assumptions values_eq_eager.

Theorem values_one_per_sample :
  forall (F : Type) (apply_filters : list F -> list Q -> list Q),
  (forall fs xs, length (apply_filters fs xs) = length xs) ->
  forall ts cs, length (values_code F apply_filters ts cs) = length ts.
Proof. exact values_code_length. Qed.
Print Assumptions values_one_per_sample.

(* window/crop index arithmetic *)
Theorem window_alignment_thm : forall (F : Type) ts (c : fcomp F) j, (j < length ts)%nat ->
  nth (n_points (c_lead (base F c)) (dt_of ts) + j) (full_times F ts c) 0%Q = nth j ts 0%Q.
Proof. exact window_alignment. Qed.
Print Assumptions window_alignment_thm.

Theorem full_times_length_thm : forall (F : Type) ts (c : fcomp F),
  length (full_times F ts c) =
  (n_points (c_lead (base F c)) (dt_of ts) + length ts + n_points (c_trail (base F c)) (dt_of ts))%nat.
Proof. exact full_times_length. Qed.
Print Assumptions full_times_length_thm.

(* without filters the buffers do not matter: exactly the thunk of the C04 model *)
Theorem values_code_nofilter :
  forall (F : Type) (apply_filters : list F -> list Q -> list Q) ts cs,
  Forall (fun c => filters F c = []) cs ->
  values_code F apply_filters ts cs = fun_values ts (map (base F) cs).
Proof. exact values_code_nofilter_lemma. Qed.
Print Assumptions values_code_nofilter.

(* the number of buffer samples is ceil(buffer/dt): the extended grid covers the requested buffer *)
Theorem buffer_points_cover : forall b dt, (0 < dt)%Q -> (0 <= b)%Q ->
  (b <= inject_Z (Z.of_nat (n_points b dt)) * dt)%Q /\
  (inject_Z (Z.of_nat (n_points b dt)) * dt < b + dt)%Q.
Proof. exact n_points_ceiling. Qed.
Print Assumptions buffer_points_cover.

(* the criterion is not over-strict: an in-place update followed, without an intervening lazy read,
   by a cache-clearing assignment in the same method is accepted; with a read in between it is not *)
Theorem criterion_accepts_late_clear :
  method_safe demo_late_clear ("shift", [[EInPlace "_t0s"; EAug "times"]])%string = true /\
  method_safe demo_late_clear ("bad", [[EInPlace "_t0s"; ERead "values"; EAug "times"]])%string = false.
Proof. exact demo_late_clear_ok. Qed.
Print Assumptions criterion_accepts_late_clear.
