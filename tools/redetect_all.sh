#!/bin/sh
# Re-run the owning property's quick check against every seeded change (rounds given as glob suffixes, default all)
# and list those that are not caught with a witness. Patches /repo while it runs: run nothing else meanwhile.
cd "$(dirname "$0")/.." || exit 1
for d in seeded/C*_*m*; do
  n=$(basename $d)
  python3 - <<PY && continue
import json,sys
m=json.load(open('$d/meta.json'))
sys.exit(0 if m.get('neutralised') else 1)
PY
  if ! git -C /repo apply --check "$PWD/$d/patch.diff" 2>/dev/null; then echo "$n DOES-NOT-APPLY"; continue; fi
  python3 tools/seed.py detect $n >/dev/null 2>&1
  python3 - <<PY
import json
d=json.load(open('$d/detect.json')); own='$n'.split('_')[0]; v=d.get(own,{})
print('$n', 'witness' if v.get('witness') else ('no-witness' if v.get('detected') else 'MISSED'), v.get('summary','')[:90])
PY
done
