(* np.interp(x, xp, fp, left=0, right=0) over Q, for increasing sample points xp.
   Follows numpy: find the last sample j with xp[j] <= x; if x = xp[j] the stored value
   fp[j] is returned as is; otherwise slope*(x - xp[j]) + fp[j] with
   slope = (fp[j+1]-fp[j])/(xp[j+1]-xp[j]); left of xp[0] / right of xp[last] -> 0.
   An empty xp is numpy's ValueError ("array of sample points is empty") = None.
   Results of arithmetic are normalised with Qred (qn) so that long op histories stay small. *)
From Coq Require Import List QArith Qabs Bool Lia Sorted.
Import ListNotations.
Open Scope Q_scope.

Definition qn (x : Q) : Q := Qred x.

Lemma qn_eq : forall x, qn x == x.
Proof. intro x. unfold qn. apply Qred_correct. Qed.

Definition Qlt_b (a b : Q) : bool := negb (Qle_bool b a).

Lemma Qlt_b_true : forall a b, Qlt_b a b = true <-> a < b.
Proof.
  intros a b. unfold Qlt_b. rewrite negb_true_iff. split; intro H.
  - destruct (Qlt_le_dec a b) as [L|L]; [exact L|].
    apply Qle_bool_iff in L. congruence.
  - destruct (Qle_bool b a) eqn:E; [|reflexivity].
    apply Qle_bool_iff in E. exfalso. apply (Qlt_not_le _ _ H). exact E.
Qed.

Lemma Qlt_b_false : forall a b, Qlt_b a b = false <-> b <= a.
Proof.
  intros a b. unfold Qlt_b. rewrite negb_false_iff. apply Qle_bool_iff.
Qed.

Definition lin (x0 f0 x1 f1 x : Q) : Q := (f1 - f0) / (x1 - x0) * (x - x0) + f0.

(* (x0,f0) is the current left node, x0 <= x *)
Fixpoint interp_from (x0 f0 : Q) (xp fp : list Q) (x : Q) : Q :=
  match xp, fp with
  | x1 :: xp', f1 :: fp' =>
      if Qle_bool x1 x then interp_from x1 f1 xp' fp' x
      else if Qeq_bool x x0 then f0 else qn (lin x0 f0 x1 f1 x)
  | _, _ => if Qeq_bool x x0 then f0 else 0
  end.

Definition interp (xp fp : list Q) (x : Q) : option Q :=
  match xp, fp with
  | x0 :: xp', f0 :: fp' => Some (if Qlt_b x x0 then 0 else interp_from x0 f0 xp' fp' x)
  | _, _ => None
  end.

(* numpy checks for empty sample points only when there is something to interpolate *)
Definition interp_all (xp fp xs : list Q) : option (list Q) :=
  match xs, xp, fp with
  | [], _, _ => Some []
  | _, _ :: _, _ :: _ => Some (map (fun x => match interp xp fp x with Some v => v | None => 0 end) xs)
  | _, _, _ => None
  end.
