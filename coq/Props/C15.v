(* C15: Earth density and slant depth equal the reference profile and its line integral.
   Statements only.  PREM_* / CoreMantleCrustModel_* are regenerated from
   pyrex/earth_model.py on every run (Gen/Gen_earth.v); shell_density / chord_integral are the
   pinned hand model of np.piecewise and of the sampling + trapezoid tail (Model/EarthModel.v);
   prem_shells / cmc_shells are the published tables typed independently (Lib/Prem_reference.v). *)
From Coq Require Import Reals List Bool ZArith.
From Coquelicot Require Import Coquelicot.
From PyrexLib Require Import RealPrims Prem_reference Trapz.
From PyrexModel Require Import EarthModel.
From PyrexGen Require Import Gen_earth.
From PyrexProofs Require Import C15_proofs.
Import ListNotations.
Open Scope R_scope.

(* --- the density is the reference value at every real radius: shell by shell on half-open
       intervals, 0 below the centre and from the surface outwards --------------------------- *)
Theorem prem_density_is_reference : is_reference_density prem_radius prem_shells PREM_density.
Proof. exact prem_density_is_reference_lemma. Qed.
Print Assumptions prem_density_is_reference.

Theorem cmc_density_is_reference : is_reference_density cmc_radius cmc_shells CoreMantleCrustModel_density.
Proof. exact cmc_density_is_reference_lemma. Qed.
Print Assumptions cmc_density_is_reference.

(* the reference shells tile [0, radius) without gap or overlap, so the clauses above fix the
   density everywhere *)
Theorem reference_shells_tile : tiles 0 prem_radius prem_shells /\ tiles 0 cmc_radius cmc_shells.
Proof. exact (conj prem_shells_tile cmc_shells_tile). Qed.
Print Assumptions reference_shells_tile.

(* array input = map of the scalar function (np.piecewise is elementwise) *)
Theorem density_array_is_map : forall rs,
  shell_density_array PREM_radii PREM_densities PREM_earth_radius rs = map PREM_density rs.
Proof. intro rs. reflexivity. Qed.
Print Assumptions density_array_is_map.

(* --- what slant_depth computes: shift to Earth-centred coordinates, normalise, exit distance
       L = -e.d + sqrt((e.d)^2 - |e|^2 + R^2), ceil(L/step) cells, sampled trapezoid ------------ *)
Theorem prem_slant_depth_structure : forall p dir step,
  PREM_slant_depth p dir step = slant_spec PREM_density PREM_earth_radius p dir step.
Proof. exact prem_slant_structure. Qed.
Print Assumptions prem_slant_depth_structure.

Theorem cmc_slant_depth_structure : forall p dir step,
  CoreMantleCrustModel_slant_depth p dir step =
  slant_spec CoreMantleCrustModel_density CoreMantleCrustModel_earth_radius p dir step.
Proof. exact cmc_slant_structure. Qed.
Print Assumptions cmc_slant_depth_structure.

(* --- the integration ends where the chord leaves the Earth: |e + L d| = R ------------------- *)
Theorem exit_on_sphere : forall p dir,
  dir <> vzero ->
  let e := shift PREM_earth_radius p in let d := vnormalize dir in
  0 <= disc PREM_earth_radius e d ->
  chord_radius e d (exit_distance PREM_earth_radius e d) 1 = PREM_earth_radius.
Proof.
  intros p dir Hd e d HD. apply exit_on_sphere_lemma; try assumption.
  - unfold PREM_earth_radius. Lra.lra.
  - apply vnormalize_unit; assumption.
Qed.
Print Assumptions exit_on_sphere.

Theorem exit_on_sphere_any_radius : forall R0 e d,
  0 < R0 -> vdot d d = 1 -> 0 <= disc R0 e d -> chord_radius e d (exit_distance R0 e d) 1 = R0.
Proof. exact exit_on_sphere_lemma. Qed.
Print Assumptions exit_on_sphere_any_radius.

(* --- zero for chords that do not enter the Earth --------------------------------------------- *)
Theorem zero_when_missing : forall p dir step,
  dir <> vzero ->
  (forall t, 0 < t ->
     PREM_earth_radius ^ 2 <= vdot (along (shift PREM_earth_radius p) (vnormalize dir) t)
                                   (along (shift PREM_earth_radius p) (vnormalize dir) t)) ->
  PREM_slant_depth p dir step = 0.
Proof. intros. rewrite prem_slant_structure. apply zero_when_missing_lemma; assumption. Qed.
Print Assumptions zero_when_missing.

Theorem zero_when_missing_cmc : forall p dir step,
  dir <> vzero ->
  (forall t, 0 < t ->
     CoreMantleCrustModel_earth_radius ^ 2 <=
       vdot (along (shift CoreMantleCrustModel_earth_radius p) (vnormalize dir) t)
            (along (shift CoreMantleCrustModel_earth_radius p) (vnormalize dir) t)) ->
  CoreMantleCrustModel_slant_depth p dir step = 0.
Proof. intros. rewrite cmc_slant_structure. apply zero_when_missing_lemma; assumption. Qed.
Print Assumptions zero_when_missing_cmc.

(* --- independent of the length of the direction vector ------------------------------------- *)
Theorem direction_scale_invariant : forall p dir step k, 0 < k ->
  PREM_slant_depth p (vscale k dir) step = PREM_slant_depth p dir step /\
  CoreMantleCrustModel_slant_depth p (vscale k dir) step = CoreMantleCrustModel_slant_depth p dir step.
Proof.
  intros. rewrite !prem_slant_structure, !cmc_slant_structure.
  split; apply direction_scale_invariant_lemma; assumption.
Qed.
Print Assumptions direction_scale_invariant.

(* --- independent of azimuth: rotating endpoint and direction together about the vertical ---- *)
Theorem azimuth_invariant : forall p dir step a,
  PREM_slant_depth (rotz a p) (rotz a dir) step = PREM_slant_depth p dir step /\
  CoreMantleCrustModel_slant_depth (rotz a p) (rotz a dir) step = CoreMantleCrustModel_slant_depth p dir step.
Proof.
  intros. rewrite !prem_slant_structure, !cmc_slant_structure.
  split; apply azimuth_invariant_lemma.
Qed.
Print Assumptions azimuth_invariant.

Theorem azimuth_invariant_on_axis : forall z dir step a,
  PREM_slant_depth (0, 0, z) (rotz a dir) step = PREM_slant_depth (0, 0, z) dir step.
Proof. intros. rewrite !prem_slant_structure. apply azimuth_invariant_on_axis_lemma. Qed.
Print Assumptions azimuth_invariant_on_axis.

(* --- the chord grows as it dips deeper: its length increases and its closest approach to the
       centre decreases when e.d (= |e| cos(angle to the local vertical)) decreases ------------- *)
Theorem chord_monotone : forall R0 e d1 d2,
  vdot e e <= R0 ^ 2 -> vdot e d2 <= vdot e d1 ->
  exit_distance R0 e d1 <= exit_distance R0 e d2 /\
  (vdot e d1 <= 0 -> vdot e e - (vdot e d2) ^ 2 <= vdot e e - (vdot e d1) ^ 2).
Proof.
  intros R0 e d1 d2 H1 H2. split.
  - apply chord_monotone_length; assumption.
  - intro H3. apply chord_monotone_depth; assumption.
Qed.
Print Assumptions chord_monotone.

Theorem closest_approach_is_minimum : forall e d, vdot d d = 1 ->
  (forall t, vdot e e - (vdot e d) ^ 2 <= vdot (along e d t) (along e d t)) /\
  vdot (along e d (- vdot e d)) (along e d (- vdot e d)) = vdot e e - (vdot e d) ^ 2.
Proof.
  intros e d H. split.
  - intro t. apply closest_approach; assumption.
  - apply closest_approach_attained; assumption.
Qed.
Print Assumptions closest_approach_is_minimum.

Theorem chord_monotone_on_axis : forall R0 z d1 d2,
  0 <= z + R0 -> z <= 0 -> vz d2 <= vz d1 ->
  exit_distance R0 (shift R0 (0, 0, z)) d1 <= exit_distance R0 (shift R0 (0, 0, z)) d2.
Proof. exact chord_monotone_axis_lemma. Qed.
Print Assumptions chord_monotone_on_axis.

(* --- the step arithmetic: ceil(L/step) >= 1 cells, none longer than the requested step ------- *)
Theorem steps_are_ceiling : forall L step, 0 < step -> 0 < L ->
  (1 <= n_cells L step)%Z /\ IZR (n_cells L step) - 1 < L / step <= IZR (n_cells L step).
Proof. exact n_cells_is_ceil. Qed.
Print Assumptions steps_are_ceiling.

Theorem mesh_le_step : forall L step, 0 < step -> 0 < L -> L / IZR (n_cells L step) <= step.
Proof. exact mesh_le_step_lemma. Qed.
Print Assumptions mesh_le_step.

(* --- the trapezoid rule and the integral lie in the Darboux bracket of ANY per-cell bounds --- *)
Theorem trapezoid_in_darboux_bracket : forall f xs ms Ms,
  cells_bounded f xs ms Ms ->
  cell_sum xs ms <= trapz xs (map f xs) <= cell_sum xs Ms.
Proof. exact trapz_in_darboux_bracket. Qed.
Print Assumptions trapezoid_in_darboux_bracket.

Theorem integral_in_darboux_bracket : forall f xs ms Ms x0,
  cells_bounded f (x0 :: xs) ms Ms -> ex_RInt f x0 (last xs x0) ->
  cell_sum (x0 :: xs) ms <= RInt f x0 (last xs x0) <= cell_sum (x0 :: xs) Ms.
Proof. intros f xs ms Ms x0. apply rint_in_darboux_bracket. Qed.
Print Assumptions integral_in_darboux_bracket.

(* --- slant depth = column density 100 * L * int_0^1 rho(r(t)) dt within the discretisation
       error 100 * step * (sum over the cells of the oscillation of the density) -------------- *)
Theorem slant_depth_discretisation_error : forall p dir step ms Ms,
  0 < step ->
  let e := shift PREM_earth_radius p in let d := vnormalize dir in
  let L := exit_distance PREM_earth_radius e d in
  0 < disc PREM_earth_radius e d -> 0 < L ->
  cells_bounded (along_density PREM_density e d L) (linspace01 (n_cells L step + 1)) ms Ms ->
  ex_RInt (along_density PREM_density e d L) 0 1 ->
  Rabs (PREM_slant_depth p dir step - 100 * L * RInt (along_density PREM_density e d L) 0 1)
    <= 100 * step * (sumR Ms - sumR ms).
Proof.
  intros p dir step ms Ms Hs. rewrite prem_slant_structure.
  apply slant_discretisation_error_lemma. assumption.
Qed.
Print Assumptions slant_depth_discretisation_error.

Theorem slant_depth_discretisation_error_cmc : forall p dir step ms Ms,
  0 < step ->
  let e := shift CoreMantleCrustModel_earth_radius p in let d := vnormalize dir in
  let L := exit_distance CoreMantleCrustModel_earth_radius e d in
  0 < disc CoreMantleCrustModel_earth_radius e d -> 0 < L ->
  cells_bounded (along_density CoreMantleCrustModel_density e d L) (linspace01 (n_cells L step + 1)) ms Ms ->
  ex_RInt (along_density CoreMantleCrustModel_density e d L) 0 1 ->
  Rabs (CoreMantleCrustModel_slant_depth p dir step
        - 100 * L * RInt (along_density CoreMantleCrustModel_density e d L) 0 1)
    <= 100 * step * (sumR Ms - sumR ms).
Proof.
  intros p dir step ms Ms Hs. rewrite cmc_slant_structure.
  apply slant_discretisation_error_lemma. assumption.
Qed.
Print Assumptions slant_depth_discretisation_error_cmc.

(* --- endpoints outside the sphere (shallow depth with a large horizontal offset, or z > 0): the code
       integrates from the endpoint to the EXIT point exit_distance = -e.d + sqrt(disc), i.e. first
       through vacuum up to entry_distance = -e.d - sqrt(disc).  Before the entry the radius exceeds R,
       between entry and exit it is below R ... ------------------------------------------------------ *)
Theorem chord_enters_and_leaves : forall R0 e d s, 0 < R0 -> vdot d d = 1 -> 0 <= disc R0 e d ->
  (s < entry_distance R0 e d -> R0 < sqrt (vdot (along e d s) (along e d s))) /\
  (entry_distance R0 e d < s < exit_distance R0 e d -> sqrt (vdot (along e d s) (along e d s)) < R0).
Proof.
  intros R0 e d s HR Hd HD. split; intro H.
  - apply chord_outside_before_entry; assumption.
  - apply chord_inside_between; assumption.
Qed.
Print Assumptions chord_enters_and_leaves.

(* ... so the vacuum part of the sampled chord has density exactly 0 and contributes nothing to the
   integral that slant_depth_discretisation_error compares with (both models) *)
Theorem vacuum_part_is_zero : forall e d t, vdot d d = 1 ->
  (0 <= disc PREM_earth_radius e d ->
   t * exit_distance PREM_earth_radius e d < entry_distance PREM_earth_radius e d ->
   along_density PREM_density e d (exit_distance PREM_earth_radius e d) t = 0) /\
  (0 <= disc CoreMantleCrustModel_earth_radius e d ->
   t * exit_distance CoreMantleCrustModel_earth_radius e d < entry_distance CoreMantleCrustModel_earth_radius e d ->
   along_density CoreMantleCrustModel_density e d (exit_distance CoreMantleCrustModel_earth_radius e d) t = 0).
Proof.
  intros e d t Hd. split; intros HD Ht.
  - apply prem_vacuum_zero_lemma; assumption.
  - apply cmc_vacuum_zero_lemma; assumption.
Qed.
Print Assumptions vacuum_part_is_zero.

(* --- chords shorter than the step: there is at least one cell (steps_are_ceiling), so the error is
       also bounded by the CHORD length times the oscillations; in particular a chord inside the Earth
       never yields 0 merely because it is short ----------------------------------------------------- *)
Theorem slant_depth_discretisation_error_short_chord : forall p dir step ms Ms,
  0 < step ->
  let e := shift PREM_earth_radius p in let d := vnormalize dir in
  let L := exit_distance PREM_earth_radius e d in
  0 < disc PREM_earth_radius e d -> 0 < L ->
  cells_bounded (along_density PREM_density e d L) (linspace01 (n_cells L step + 1)) ms Ms ->
  ex_RInt (along_density PREM_density e d L) 0 1 ->
  Rabs (PREM_slant_depth p dir step - 100 * L * RInt (along_density PREM_density e d L) 0 1)
    <= 100 * L * (sumR Ms - sumR ms).
Proof.
  intros p dir step ms Ms Hs. rewrite prem_slant_structure.
  apply slant_discretisation_error_chord_lemma. assumption.
Qed.
Print Assumptions slant_depth_discretisation_error_short_chord.
