(* C09: statements combining the structural and the arithmetic part, the refuted
   statement about the original caching discipline, and non-vacuity examples. *)
From Coq Require Import List QArith ZArith Bool Lia.
From PyrexLib Require Import Interp.
From PyrexModel Require Import AntennaModel AntennaSpec.
From PyrexProofs Require Import C09_struct C09_sum C09_sys C09_sysm C09_fir.
Import ListNotations.
Open Scope Q_scope.

Lemma signals_are_received_lemma : forall c h, signals (final c a_init h) = received h.
Proof. intros. apply final_signals. Qed.

Lemma cache_prefix_unfolded_lemma : forall c h,
  let st := final c a_init h in
  (length (triggers st) <= length (all_waves st))%nat /\
  (length (all_waves st) <= length (signals st))%nat /\
  triggers st = map (trig c) (firstn (length (triggers st)) (all_waves st)) /\
  map s_times (all_waves st) = map s_times (firstn (length (all_waves st)) (signals st)).
Proof. intros c h. exact (cache_prefix_inv_lemma c h). Qed.

Lemma full_waveform_history_lemma : forall c h ts,
  noisy c = false -> wf_window ts ->
  sig_eq (snd (full_waveform c (final c a_init h) ts)) (spec_wave (received h) ts).
Proof.
  intros c h ts Hn Hw. rewrite fw_noiseless by exact Hn. cbn [snd].
  rewrite signals_are_received_lemma. apply full_waveform_is_sum_lemma. exact Hw.
Qed.

Lemma is_hit_during_history_lemma : forall c h ts,
  noisy c = false ->
  snd (is_hit_during c (final c a_init h) ts) = trig c (snd (full_waveform c (final c a_init h) ts)).
Proof.
  intros c h ts Hn. unfold is_hit_during. destruct (full_waveform c (final c a_init h) ts). reflexivity.
Qed.

Lemma all_pure_are_sums : forall c sigs l,
  Forall (fun s => wf_window (s_times s)) l ->
  Forall2 sig_eq (map (fun s => fw_pure c sigs (s_times s)) l)
                 (map (fun s => spec_wave sigs (s_times s)) l).
Proof.
  intros c sigs l H. induction H as [|s l Hs H IH]; simpl; constructor; auto.
  apply full_waveform_is_sum_lemma. exact Hs.
Qed.

(* every entry of all_waveforms contains ALL received signals (also those received after
   an earlier query): the statement design finding F9 is about *)
Lemma all_waveforms_are_sums_lemma : forall c h,
  noisy c = false -> invalidate c = true ->
  Forall (fun s => wf_window (s_times s)) (received h) ->
  Forall2 sig_eq (snd (all_waveforms c (final c a_init h)))
                 (map (fun s => spec_wave (received h) (s_times s)) (received h)).
Proof.
  intros c h Hn Hi Hw.
  pose proof (history_independent_lemma c h AllWaveforms Hn Hi eq_refl) as H.
  rewrite fresh_answer_pure in H by auto. unfold step, pure_answer in H.
  destruct (all_waveforms c (final c a_init h)) as [st' l]. cbn [snd] in *.
  inversion H; subst l. apply all_pure_are_sums. exact Hw.
Qed.

(* antenna system: every entry of all_waveforms is the (linear) front end applied to the sum of
   ALL received signals on its grid *)
Lemma s_all_pure_are_sums : forall sc sigs l,
  noisy (ant_cfg sc) = false -> fe_taps sc = [] -> fe_shift sc = None ->
  Forall (fun s => wf_window (s_times s)) l ->
  Forall2 sig_eq (map (fun s => s_fw_pure sc sigs (s_times s)) l)
    (map (fun s => mkSig (s_times s) (map (fun t => sum_at sigs t * fe_scale sc) (s_times s))) l).
Proof.
  intros sc sigs l Hn Ht Hsh Hw. induction Hw as [|s l Hs Hw IH]; simpl; constructor; auto.
  destruct (sys_full_waveform_is_sum_lemma sc (s_fresh sigs) (s_times s) Hn Ht Hsh Hs) as (_ & E).
  rewrite s_fw_noiseless in E by exact Hn. exact E.
Qed.

Lemma sys_all_waveforms_are_sums_lemma : forall sc h,
  noisy (ant_cfg sc) = false -> invalidate (ant_cfg sc) = true -> fe_taps sc = [] -> fe_shift sc = None ->
  Forall (fun s => wf_window (s_times s)) (received h) ->
  Forall2 sig_eq (snd (s_all_waveforms sc (s_final sc s_init h)))
    (map (fun s => mkSig (s_times s) (map (fun t => sum_at (received h) t * fe_scale sc) (s_times s)))
         (received h)).
Proof.
  intros sc h Hn Hi Ht Hsh Hw.
  destruct (s_final_spec sc h s_init Hn Hi (SysInv_init sc)) as (I & S).
  destruct (s_all_waveforms_spec sc _ Hn Hi I) as (A1 & _).
  rewrite A1, S. fold (received h). unfold s_all_pure.
  apply s_all_pure_are_sums; assumption.
Qed.

(* the original code (incremental catch-up without invalidation): the cached first waveform
   is stale after  receive; all_waveforms; receive(overlapping); all_waveforms  *)
Definition f9_s1 : signal := mkSig [0;1;2;3;4;5;6;7] [0;1;2;3;3;2;1;0].
Definition f9_s2 : signal := mkSig [4;5;6;7;8;9;10;11] [0;5;5;5;5;5;5;0].
Definition f9_history : list op := [Receive f9_s1; AllWaveforms; Receive f9_s2].

Lemma stale_cache_refuted_lemma :
  exists (h : list op) (q : op),
    is_query q = true /\
    snd (step (cfg_plain false) (final (cfg_plain false) a_init h) q)
      <> fresh_answer (cfg_plain false) (received h) q.
Proof.
  exists f9_history, AllWaveforms. split; [reflexivity|].
  vm_compute. intro H. discriminate H.
Qed.

(* the same history on the repaired discipline agrees with the fresh antenna *)
Example f9_history_repaired :
  snd (step (cfg_plain true) (final (cfg_plain true) a_init f9_history) AllWaveforms)
  = fresh_answer (cfg_plain true) (received f9_history) AllWaveforms.
Proof. vm_compute. reflexivity. Qed.

Lemma lead_in_grid_keeps_nodes_lemma : forall sc ts, wf_window ts ->
  increasing (lead_in_times sc ts) /\
  forall j, (j < length ts)%nat ->
    exists i, (i < length (lead_in_times sc ts))%nat /\ nth i (lead_in_times sc ts) 0 = nth j ts 0.
Proof.
  intros sc ts Hw. split; [exact (lead_in_times_increasing sc ts Hw)|exact (lead_in_times_nodes sc ts)].
Qed.

(* ------------------------------------------------------------------ non-vacuity *)
Example configs_satisfy_hypotheses :
  noisy (cfg_thr 2 true) = false /\ invalidate (cfg_thr 2 true) = true /\
  Forall (fun s => wf_window (s_times s)) (received (f9_history ++ [IsHit; Clear false; Receive f9_s2])).
Proof.
  split; [reflexivity|split; [reflexivity|]]. vm_compute received.
  repeat constructor; simpl; try reflexivity; lia.
Qed.

Example trigger_filter_nontrivial :
  let c := cfg_thr 6 true in
  let st := final c a_init [Receive f9_s1; Receive f9_s2] in
  length (snd (all_waveforms c st)) = 2%nat /\ length (snd (waveforms c st)) = 2%nat /\
  length (snd (waveforms c (final c a_init [Receive f9_s1]))) = 0%nat /\
  snd (is_hit c (final c a_init [Receive f9_s1])) = false /\
  snd (is_hit c st) = true.
Proof. vm_compute. repeat split; reflexivity. Qed.

Example noise_master_example :
  let c := mkConfig true trig_always (fun k _ t => nat_Q k + t) true in
  exists m, noise_master (final c a_init [Receive f9_s1; AllWaveforms]) = Some m /\
            no_reset [Receive f9_s2; Waveforms; Clear false; MakeNoise [0;1]].
Proof.
  cbn zeta. eexists. split; [vm_compute; reflexivity|].
  intros o Ho. simpl in Ho. intuition (subst; discriminate).
Qed.

Example system_example :
  let sc := mkSConfig (cfg_plain true) 3 2 None [] in
  wf_window [4;5;6;7] /\
  map Qred (s_values (snd (s_full_waveform sc (mkS (fresh [f9_s1; f9_s2]) [] [] []) [4;5;6;7]))) = [6;14;12;10] /\
  lead_in_n sc [4;5;6;7] = 4%Z.
Proof.
  cbn zeta. split; [|split; vm_compute; reflexivity].
  unfold wf_window. split; [|simpl; lia]. simpl. repeat split; reflexivity.
Qed.

(* a delay line (3 samples) behind gain 2 with a lead-in of 6: hypotheses of sys_fir_waveform hold on a
   window that starts inside the first signal, and the waveform is the delayed doubled sum *)
Example fir_system_example :
  let sc := mkSConfig (cfg_plain true) 6 2 None [0;0;0;1] in
  let ts := [4;5;6;7] in
  wf_window ts /\ uniform ts /\
  (length (fe_taps sc) <= S (Z.to_nat (lead_in_n sc ts)))%nat /\
  map Qred (s_values (snd (s_full_waveform sc (mkS (fresh [f9_s1; f9_s2]) [] [] []) ts))) = [2;4;6;6] /\
  map Qred (map (fir_response (fe_taps sc) (fun u => sum_at [f9_s1; f9_s2] u * 2) 1) ts) = [2;4;6;6].
Proof.
  cbn zeta. split; [|split; [|split; [|split]]].
  - unfold wf_window. split; [|simpl; lia]. simpl. repeat split; reflexivity.
  - intros j Hj. simpl in Hj. do 4 (destruct j as [|j]; [vm_compute; reflexivity|]). lia.
  - vm_compute. lia.
  - vm_compute. reflexivity.
  - vm_compute. reflexivity.
Qed.

(* gain 2 followed by a cable delay of 3 (= 3 samples of the window) behind a lead-in of 6: the hypotheses of
   sys_delay_waveform hold and the waveform is the doubled sum 3 time units earlier *)
Example delay_system_example :
  let sc := mkSConfig (cfg_plain true) 6 2 (Some 3) [] in
  let ts := [4;5;6;7] in
  wf_window ts /\ uniform ts /\ (3 <= Z.to_nat (lead_in_n sc ts))%nat /\
  3 == nat_Q 3 * (t_second ts - t_first ts) /\
  map Qred (s_values (snd (s_full_waveform sc (mkS (fresh [f9_s1; f9_s2]) [] [] []) ts))) = [2;4;6;6] /\
  map Qred (map (fun t => sum_at [f9_s1; f9_s2] (t - 3) * 2) ts) = [2;4;6;6].
Proof.
  cbn zeta. split; [|split; [|split; [|split; [|split]]]].
  - unfold wf_window. split; [|simpl; lia]. simpl. repeat split; reflexivity.
  - intros j Hj. simpl in Hj. do 4 (destruct j as [|j]; [vm_compute; reflexivity|]). lia.
  - vm_compute. lia.
  - vm_compute. reflexivity.
  - vm_compute. reflexivity.
  - vm_compute. reflexivity.
Qed.
