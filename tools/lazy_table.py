#!/usr/bin/env python3
"""C06 translator: extract, from the pyrex source (Python ast, nothing imported), for every
class deriving from LazyMutableClass:

  * static_attributes (the names whose assignment clears the cache), following the
    super().__init__ chain: an explicit list literal, or -- LazyMutableClass default -- the public
    attributes assigned in __init__ before the super().__init__() call; plus literal extensions
    of self._static_attrs made by subclasses;
  * for each @lazy_property the set of instance attributes it READS, transitively through other
    lazy properties, plain properties, helper methods and (FunctionSignal family) the closures
    defined in __init__ that become the signal's function;
  * for each method the effects on self along every control-flow path (loops unrolled 0,1,2
    times; `return` ignored = more paths):  Assign a | Aug a | InPlace a | Clear | Read p | Opaque,
    and the writes it performs on OTHER instances (new_signal._factors = ..., other.set_buffers()).

Fail-closed: constructs it cannot classify (setattr/delattr/__dict__/vars on an instance, more than
MAX_PATHS paths, unresolvable super().__init__) abort the translation or become `Opaque` (unsafe).

usage: lazy_table.py <repo> <out.v> <out.json>
"""
import ast
import hashlib
import json
import os
import sys

FILES = ["pyrex/internal_functions.py", "pyrex/signals.py", "pyrex/askaryan.py", "pyrex/ray_tracing.py",
         "pyrex/custom/layered_ice/ray_tracing.py"]
MUTATORS = {"append", "extend", "insert", "pop", "remove", "clear", "sort", "reverse", "update", "setdefault",
            "popitem", "add", "discard", "fill", "resize", "put", "itemset", "partition", "setfield", "setflags",
            "__setitem__", "__delitem__", "__iadd__", "__imul__", "byteswap"}
MAX_PATHS = 96
CORE = "LazyMutableClass"
# hash of the normalised AST of lazy_property + LazyMutableClass that Model/LazyModel.v was written against
CORE_PIN = None  # filled by core_hash() comparison in the harness (value stored in harness/props/c06.py)


class TranslationError(Exception):
    pass


def core_hash(repo):
    tree = ast.parse(open(os.path.join(repo, "pyrex/internal_functions.py")).read())
    parts = []
    for node in tree.body:
        if isinstance(node, (ast.FunctionDef, ast.ClassDef)) and node.name in ("lazy_property", CORE):
            # drop docstrings
            for sub in ast.walk(node):
                if isinstance(sub, (ast.FunctionDef, ast.ClassDef)) and sub.body and isinstance(sub.body[0], ast.Expr) \
                        and isinstance(getattr(sub.body[0], "value", None), ast.Constant) and isinstance(sub.body[0].value.value, str):
                    sub.body = sub.body[1:] or [ast.Pass()]
            parts.append(ast.dump(node, annotate_fields=False))
    return hashlib.sha256("\n".join(parts).encode()).hexdigest()[:16]


class Cls:
    def __init__(self, name, node, module):
        self.name, self.node, self.module = name, node, module
        self.bases = []
        for b in node.bases:
            if isinstance(b, ast.Name):
                self.bases.append(b.id)
            elif isinstance(b, ast.Attribute):
                self.bases.append(b.attr)
        self.methods, self.kinds, self.class_attrs = {}, {}, set()
        for st in node.body:
            if isinstance(st, ast.FunctionDef):
                kind = "method"
                for d in st.decorator_list:
                    dn = d.id if isinstance(d, ast.Name) else (d.attr if isinstance(d, ast.Attribute) else None)
                    if dn == "lazy_property":
                        kind = "lazy"
                    elif dn == "property":
                        kind = "property"
                    elif dn in ("staticmethod", "classmethod"):
                        kind = dn
                    elif dn == "setter":
                        kind = "setter"
                if kind == "setter":
                    self.methods[st.name + ".setter"] = st
                    self.kinds[st.name + ".setter"] = "setter"
                else:
                    self.methods[st.name] = st
                    self.kinds[st.name] = kind
            elif isinstance(st, ast.Assign):
                for t in st.targets:
                    if isinstance(t, ast.Name):
                        self.class_attrs.add(t.id)


def load(repo):
    classes = {}
    for f in FILES:
        p = os.path.join(repo, f)
        tree = ast.parse(open(p).read(), filename=f)
        for node in tree.body:
            if isinstance(node, ast.ClassDef):
                classes[node.name] = Cls(node.name, node, f)
    return classes


def mro(classes, name, seen=None):
    out = [name]
    c = classes.get(name)
    if c is None:
        return out
    for b in c.bases:
        for x in mro(classes, b):
            if x in out:
                out.remove(x)      # keep the LAST occurrence position (shared base after both)
            out.append(x)
    return out


def is_self_attr(node, name="self"):
    return isinstance(node, ast.Attribute) and isinstance(node.value, ast.Name) and node.value.id == name


def root_of(node):
    """peel subscripts / attributes / calls of enumerate, zip, reversed, list... down to the root
    expression; returns ('self', attr) | ('name', id, firstattr) | None"""
    first_attr = None
    while True:
        if isinstance(node, ast.Subscript):
            node = node.value
        elif isinstance(node, ast.Attribute):
            if isinstance(node.value, ast.Name):
                if node.value.id == "self":
                    return ("self", node.attr)
                return ("name", node.value.id, node.attr)
            first_attr = node.attr
            node = node.value
        elif isinstance(node, ast.Call) and isinstance(node.func, ast.Name) and node.func.id in (
                "enumerate", "zip", "reversed", "iter", "sorted") and node.args:
            node = node.args[0]
        elif isinstance(node, ast.Starred):
            node = node.value
        elif isinstance(node, ast.Name):
            return ("name", node.id, None)
        else:
            return None


class Analyzer:
    def __init__(self, classes, cname):
        self.classes, self.cname = classes, cname
        self.mro = [m for m in mro(classes, cname) if m in classes]
        self.instance_attrs = set()
        for m in self.mro:
            for fn in classes[m].methods.values():
                for node in ast.walk(fn):
                    if isinstance(node, (ast.Assign, ast.AugAssign, ast.AnnAssign)):
                        targets = node.targets if isinstance(node, ast.Assign) else [node.target]
                        for t in targets:
                            for tt in (t.elts if isinstance(t, (ast.Tuple, ast.List)) else [t]):
                                if is_self_attr(tt):
                                    self.instance_attrs.add(tt.attr)

    def init_attrs(self):
        out = set()
        for m in self.mro:
            fn = self.classes[m].methods.get("__init__")
            if fn is None or m == CORE:
                continue
            for node in ast.walk(fn):
                if isinstance(node, (ast.Assign, ast.AugAssign, ast.AnnAssign)):
                    targets = node.targets if isinstance(node, ast.Assign) else [node.target]
                    for t in targets:
                        for tt in (t.elts if isinstance(t, (ast.Tuple, ast.List)) else [t]):
                            if is_self_attr(tt):
                                out.add(tt.attr)
        return out

    def resolve(self, name):
        for m in self.mro:
            c = self.classes[m]
            if name in c.methods:
                return m, c.methods[name], c.kinds[name]
        return None

    def class_attr(self, name):
        return any(name in self.classes[m].class_attrs for m in self.mro)

    # ------------------------------------------------------------ static attributes
    def statics(self):
        return self._statics_from(0)

    def _init_def(self, start):
        for k in range(start, len(self.mro)):
            c = self.classes[self.mro[k]]
            if "__init__" in c.methods:
                return k, c.methods["__init__"]
        return None, None

    def _statics_from(self, start):
        k, fn = self._init_def(start)
        if fn is None:
            raise TranslationError("%s: no __init__ found from %s" % (self.cname, self.mro[start:]))
        if self.mro[k] == CORE:
            raise TranslationError("%s: reached LazyMutableClass.__init__ without a caller" % self.cname)
        assigned, result, found = [], None, False
        extra = []
        for st in self._stmts(fn.body):
            # self._static_attrs extensions (literal lists only)
            ext = self._static_extension(st)
            if ext is not None:
                extra += ext
                continue
            for node in ast.walk(st):
                if isinstance(node, ast.Call) and isinstance(node.func, ast.Attribute) and node.func.attr == "__init__" \
                        and isinstance(node.func.value, ast.Call) and isinstance(node.func.value.func, ast.Name) \
                        and node.func.value.func.id == "super":
                    found = True
                    nk, nfn = self._init_def(k + 1)
                    if nfn is None:
                        raise TranslationError("%s: super().__init__ target not found" % self.cname)
                    if self.mro[nk] == CORE:
                        lit = None
                        for kw in node.keywords:
                            if kw.arg == "static_attributes":
                                lit = kw.value
                        if node.args:
                            lit = node.args[0]
                        if lit is None or (isinstance(lit, ast.Constant) and lit.value is None):
                            cur = [a for a in assigned if not a.startswith("_")]
                        elif isinstance(lit, (ast.List, ast.Tuple)) and all(isinstance(e, ast.Constant) and isinstance(e.value, str) for e in lit.elts):
                            cur = [e.value for e in lit.elts]
                        else:
                            raise TranslationError("%s: static_attributes is not a literal list (line %d)" % (self.cname, node.lineno))
                    else:
                        cur = self._statics_from(nk)
                    result = cur if result is None else sorted(set(result) | set(cur))
            for node in ast.walk(st):
                if isinstance(node, (ast.Assign, ast.AugAssign, ast.AnnAssign)):
                    targets = node.targets if isinstance(node, ast.Assign) else [node.target]
                    for t in targets:
                        for tt in (t.elts if isinstance(t, (ast.Tuple, ast.List)) else [t]):
                            if is_self_attr(tt) and tt.attr not in assigned:
                                assigned.append(tt.attr)
        if not found:
            raise TranslationError("%s: %s.__init__ never calls super().__init__" % (self.cname, self.mro[k]))
        out = list(result)
        for e in extra:
            if e not in out:
                out.append(e)
        return out

    @staticmethod
    def _stmts(body):
        """statements in textual order, descending into compound statements"""
        for st in body:
            if isinstance(st, (ast.If, ast.For, ast.While, ast.With, ast.Try)):
                subs = []
                for fld in ("body", "orelse", "finalbody"):
                    subs += getattr(st, fld, [])
                for h in getattr(st, "handlers", []):
                    subs += h.body
                # the header expression itself
                hdr = ast.Expr(value=getattr(st, "test", None) or getattr(st, "iter", None) or ast.Constant(value=None))
                yield hdr
                yield from Analyzer._stmts(subs)
            else:
                yield st

    @staticmethod
    def _static_extension(st):
        def lits(v):
            if isinstance(v, (ast.List, ast.Tuple)) and all(isinstance(e, ast.Constant) and isinstance(e.value, str) for e in v.elts):
                return [e.value for e in v.elts]
            return None
        if isinstance(st, ast.AugAssign) and is_self_attr(st.target) and st.target.attr == "_static_attrs" and isinstance(st.op, ast.Add):
            return lits(st.value)
        if isinstance(st, ast.Assign) and len(st.targets) == 1 and is_self_attr(st.targets[0]) and st.targets[0].attr == "_static_attrs":
            v = st.value
            if isinstance(v, ast.BinOp) and isinstance(v.op, ast.Add) and is_self_attr(v.left) and v.left.attr == "_static_attrs":
                return lits(v.right)
            raise TranslationError("assignment to self._static_attrs that is not `self._static_attrs + [literals]` (line %d)" % st.lineno)
        if isinstance(st, ast.Expr) and isinstance(st.value, ast.Call) and isinstance(st.value.func, ast.Attribute) \
                and st.value.func.attr in ("extend", "append") and is_self_attr(st.value.func.value) \
                and st.value.func.value.attr == "_static_attrs":
            if st.value.func.attr == "append":
                a = st.value.args[0]
                if isinstance(a, ast.Constant) and isinstance(a.value, str):
                    return [a.value]
                raise TranslationError("non-literal _static_attrs.append (line %d)" % st.lineno)
            r = lits(st.value.args[0])
            if r is None:
                raise TranslationError("non-literal _static_attrs.extend (line %d)" % st.lineno)
            return r
        return None

    # ------------------------------------------------------------ reads
    def reads(self, fn_node, acc, lazy_acc, cls_acc, visited):
        """instance attributes read (transitively) by the code of fn_node"""
        for node in ast.walk(fn_node):
            if is_self_attr(node) and isinstance(node.ctx, ast.Load):
                self._read_name(node.attr, acc, lazy_acc, cls_acc, visited)
            # `self` handed to other code (e.g. solution_class(self, angle)): everything the
            # constructor set may be read there
            if isinstance(node, ast.Call) and any(isinstance(a, ast.Name) and a.id == "self" for a in
                                                  list(node.args) + [k.value for k in node.keywords]):
                acc |= self.init_attrs()

    def _read_name(self, name, acc, lazy_acc, cls_acc, visited):
        r = self.resolve(name)
        if r is not None:
            owner, fn, kind = r
            key = (owner, name)
            if kind == "lazy":
                lazy_acc.add(name)
            if key in visited:
                return
            visited.add(key)
            if kind in ("lazy", "property", "method", "classmethod", "staticmethod"):
                self.reads(fn, acc, lazy_acc, cls_acc, visited)
            return
        if name in self.instance_attrs:
            acc.add(name)
        elif self.class_attr(name):
            cls_acc.add(name)
        elif name.startswith("__") or name in ("copy",):
            return
        else:
            acc.add(name)     # unknown: conservatively an instance attribute

    def closure_reads(self, acc, lazy_acc, cls_acc, visited):
        """FunctionSignal family: functions defined inside __init__ become self._functions entries and
        are called by `values`; whatever they read through `self` is read by `values`."""
        for m in self.mro:
            c = self.classes[m]
            fn = c.methods.get("__init__")
            if fn is None:
                continue
            for node in ast.walk(fn):
                if node is not fn and isinstance(node, (ast.FunctionDef, ast.Lambda)):
                    self.reads(node, acc, lazy_acc, cls_acc, visited)

    # ------------------------------------------------------------ effects
    def effects(self, fn, depth=0, stack=()):
        """list of paths; a path is a list of (kind, arg) for self and ('F', var, kind, arg) for other instances"""
        env = {}     # local name -> ('alias', attr) | ('inst',)
        paths = self._block(fn.body, env, depth, stack + (fn.name,))
        return paths

    def _cat(self, A, B):
        out = []
        for a in A:
            for b in B:
                out.append(a + b)
                if len(out) > MAX_PATHS * 8:
                    raise TranslationError("%s: too many control-flow paths" % self.cname)
        return self._dedupe(out)

    @staticmethod
    def _dedupe(paths):
        seen, out = set(), []
        for p in paths:
            k = tuple(p)
            if k not in seen:
                seen.add(k)
                out.append(p)
        if len(out) > MAX_PATHS:
            raise TranslationError("more than %d distinct effect paths in one method" % MAX_PATHS)
        return out

    def _block(self, body, env, depth, stack):
        paths = [[]]
        for st in body:
            paths = self._cat(paths, self._stmt(st, env, depth, stack))
        return paths

    def _stmt(self, st, env, depth, stack):
        if isinstance(st, ast.If):
            pre = [self._expr_effects(st.test, env, depth, stack)]
            a = self._block(st.body, dict(env), depth, stack)
            b = self._block(st.orelse, dict(env), depth, stack)
            return self._cat(pre, self._dedupe(a + b))
        if isinstance(st, (ast.For, ast.While)):
            pre = [self._expr_effects(st.iter if isinstance(st, ast.For) else st.test, env, depth, stack)]
            if isinstance(st, ast.For):
                r = root_of(st.iter)
                if r and r[0] == "self":
                    for n in ast.walk(st.target):
                        if isinstance(n, ast.Name):
                            env[n.id] = ("alias", r[1])
                elif r and r[0] == "name" and env.get(r[1], (None,))[0] == "alias":
                    for n in ast.walk(st.target):
                        if isinstance(n, ast.Name):
                            env[n.id] = env[r[1]]
            body = self._block(st.body, env, depth, stack)
            once = body
            twice = self._cat(body, body)
            tail = self._block(st.orelse, env, depth, stack)
            return self._cat(pre, self._cat(self._dedupe([[]] + once + twice), tail))
        if isinstance(st, ast.Try):
            body = self._block(st.body, env, depth, stack)
            alts = list(body)
            for h in st.handlers:
                # the handler runs after some prefix of the body: every prefix of every body path
                hb = self._block(h.body, dict(env), depth, stack)
                prefixes = self._dedupe([p[:k] for p in body for k in range(len(p) + 1)])
                alts += self._cat(prefixes, hb)
            alts = self._dedupe(alts)
            alts = self._cat(alts, self._block(st.orelse, env, depth, stack)) if st.orelse else alts
            return self._cat(alts, self._block(st.finalbody, env, depth, stack)) if st.finalbody else alts
        if isinstance(st, ast.With):
            pre = []
            for it in st.items:
                pre += self._expr_effects(it.context_expr, env, depth, stack)
            return self._cat([pre], self._block(st.body, env, depth, stack))
        if isinstance(st, (ast.FunctionDef, ast.ClassDef, ast.Lambda)):
            return [[]]     # a definition has no effect until called (closures are covered by reads)
        if isinstance(st, (ast.Assign, ast.AnnAssign)):
            value = st.value
            eff = self._expr_effects(value, env, depth, stack) if value is not None else []
            targets = st.targets if isinstance(st, ast.Assign) else [st.target]
            for t in targets:
                for tt in (t.elts if isinstance(t, (ast.Tuple, ast.List)) else [t]):
                    eff += self._store(tt, env, aug=False)
                    if isinstance(tt, ast.Name) and value is not None:
                        self._bind(tt.id, value, env)
            return [eff]
        if isinstance(st, ast.AugAssign):
            eff = self._expr_effects(st.value, env, depth, stack)
            eff += self._store(st.target, env, aug=True)
            return [eff]
        if isinstance(st, ast.Delete):
            eff = []
            for t in st.targets:
                r = root_of(t)
                if r and r[0] == "self":
                    eff.append(("InPlace", r[1]) if not is_self_attr(t) else ("Opaque", "del self.%s" % r[1]))
            return [eff]
        # Expr, Return, Raise, Assert, ...
        eff = []
        for fld in ("value", "exc", "test", "msg"):
            v = getattr(st, fld, None)
            if isinstance(v, ast.AST):
                eff += self._expr_effects(v, env, depth, stack)
        return [eff]

    def _bind(self, name, value, env):
        r = root_of(value)
        if isinstance(value, ast.Call):
            f = value.func
            if isinstance(f, ast.Attribute) and f.attr == "copy" and not (isinstance(f.value, ast.Attribute)):
                env[name] = ("inst",)
                return
            if isinstance(f, ast.Name) and f.id in self.classes and CORE in mro(self.classes, f.id):
                env[name] = ("inst",)
                return
            if isinstance(f, ast.Attribute) and f.attr in ("deepcopy", "copy", "array", "asarray", "zeros", "ones", "linspace", "concatenate"):
                env.pop(name, None)
                return
        if r and r[0] == "self" and not isinstance(value, ast.Call):
            env[name] = ("alias", r[1])
        elif r and r[0] == "name" and r[1] in env and not isinstance(value, ast.Call):
            env[name] = env[r[1]]
        else:
            env.pop(name, None)

    def _store(self, t, env, aug):
        if is_self_attr(t):
            return [("Aug" if aug else "Assign", t.attr)]
        r = root_of(t)
        if r is None:
            return []
        if r[0] == "self":
            return [("InPlace", r[1])]
        # rooted at a local name
        _, nm, first = r
        e = env.get(nm)
        if isinstance(t, ast.Name):
            if aug and e and e[0] == "alias":
                return [("InPlace", e[1])]
            return []
        if e and e[0] == "alias":
            return [("InPlace", e[1])]
        if first is not None and nm != "self":
            # name.attr = v | name.attr[...] = v | name.attr += v   on another object
            direct = isinstance(t, ast.Attribute) and isinstance(t.value, ast.Name)
            return [("F", nm, ("Aug" if aug else "Assign") if direct else "InPlace", first)]
        return []

    def _expr_effects(self, e, env, depth, stack):
        """effects of evaluating an expression, in evaluation (walk) order approximation:
        reads of lazy properties first, then calls"""
        eff = []
        if e is None:
            return eff
        for node in ast.walk(e):
            if isinstance(node, (ast.Lambda,)):
                continue
            if is_self_attr(node) and isinstance(node.ctx, ast.Load):
                r = self.resolve(node.attr)
                if r and r[2] == "lazy":
                    eff.append(("Read", node.attr))
                elif r and r[2] == "property":
                    eff += self._inline(r[1], depth, stack)
        for node in ast.walk(e):
            if not isinstance(node, ast.Call):
                continue
            f = node.func
            if isinstance(f, ast.Name) and f.id in ("setattr", "delattr", "vars") and node.args:
                a0 = node.args[0]
                nm = a0.id if isinstance(a0, ast.Name) else "?"
                if nm == "self":
                    eff.append(("Opaque", "%s(self, ...)" % f.id))
                else:
                    eff.append(("F", nm, "Opaque", f.id))
            if isinstance(f, ast.Attribute):
                if isinstance(f.value, ast.Attribute) and f.value.attr == "__dict__":
                    eff.append(("Opaque", "__dict__"))
                if is_self_attr(f):
                    # self.m(...)
                    if f.attr == "_clear_cache":
                        eff.append(("Clear", ""))
                        continue
                    r = self.resolve(f.attr)
                    if r and r[2] in ("method", "classmethod", "staticmethod"):
                        eff += self._inline(r[1], depth, stack)
                    continue
                if f.attr in MUTATORS:
                    r = root_of(f.value)
                    if r and r[0] == "self":
                        eff.append(("InPlace", r[1]))
                    elif r and r[0] == "name":
                        en = env.get(r[1])
                        if en and en[0] == "alias":
                            eff.append(("InPlace", en[1]))
                        elif r[2] is not None:
                            eff.append(("F", r[1], "InPlace", r[2]))
                # method call on another instance of the family: name.m(...)
                if isinstance(f.value, ast.Name) and f.value.id != "self":
                    r = self.resolve(f.attr)
                    if r and r[2] == "method" and f.attr not in ("copy",) and (env.get(f.value.id, (None,))[0] == "inst"):
                        eff.append(("F", f.value.id, "Call", f.attr))
                if f.attr == "__setattr__" and isinstance(f.value, ast.Name) and f.value.id == "object":
                    eff.append(("Opaque", "object.__setattr__"))
        return eff

    def _inline(self, fn, depth, stack):
        if fn.name in stack or depth > 6:
            return []
        sub = Analyzer.effects(self, fn, depth + 1, stack)
        # inlined helper: it must be effect-path-free or single-path; otherwise keep the union conservatively
        # by concatenating all its paths (over-approximation: every event of every path is checked)
        out = []
        for p in sub:
            out += p
        return out


def coq_str(s):
    return '"' + s.replace('"', '""') + '"'


def coq_list(items):
    return "[" + "; ".join(items) + "]"


def translate(repo):
    classes = load(repo)
    lazy_classes = [n for n in classes if n != CORE and CORE in mro(classes, n)]
    table, side = [], {}
    for cname in sorted(lazy_classes):
        an = Analyzer(classes, cname)
        statics = an.statics()
        family = "FunctionSignal" in an.mro
        props, lazy_names = [], []
        for m in an.mro:
            for name, kind in classes[m].kinds.items():
                if kind == "lazy" and name not in lazy_names and an.resolve(name)[0] == m:
                    lazy_names.append(name)
        class_reads = set()
        for p in sorted(lazy_names):
            owner, fn, _ = an.resolve(p)
            acc, lz, ca, visited = set(), set(), set(), {(owner, p)}
            an.reads(fn, acc, lz, ca, visited)
            if family and p == "values":
                an.closure_reads(acc, lz, ca, visited)
            props.append((p, sorted(acc), sorted(lz - {p})))
            class_reads |= ca
        alldeps = sorted(set(a for _, d, _ in props for a in d))
        methods = []
        for m in an.mro:
            if m == CORE:
                continue
            for name, kind in classes[m].kinds.items():
                if kind not in ("method", "setter") or name == "__init__":
                    continue
                if an.resolve(name.replace(".setter", ""))[0] != m and kind != "setter":
                    continue
                if any(mm[0] == name for mm in methods):
                    continue
                fn = classes[m].methods[name]
                paths = an.effects(fn)
                self_paths, foreign = [], []
                for p in paths:
                    sp = []
                    for e in p:
                        if e[0] == "F":
                            foreign.append(e)
                        else:
                            sp.append(e)
                    self_paths.append(sp)
                self_paths = an._dedupe(self_paths)
                methods.append((name, self_paths, m))
                fseen = set()
                for e in foreign:
                    if e in fseen:
                        continue
                    fseen.add(e)
                    _, var, kind2, arg = e
                    if kind2 == "Call":
                        continue          # a call of a table method on another instance: covered by that method's own entry
                    if kind2 != "Opaque" and arg not in alldeps and arg not in statics:
                        continue
                    methods.append(("%s@%s.%s" % (name, var, arg), [[(kind2, arg)]], m))
        table.append((cname, statics, props, methods, sorted(class_reads)))
        # private attributes read by lazy code that are NOT static: constructor-time state.  When such an
        # attribute was derived in __init__ from a public defining attribute (e.g. a count of frequencies) it
        # goes stale when that attribute is re-assigned; the clearing of the cache does not help.
        init_only = an.init_attrs()
        written_elsewhere = set()
        for m in an.mro:
            for mname, fn in classes[m].methods.items():
                if mname == "__init__":
                    continue
                for node in ast.walk(fn):
                    if isinstance(node, (ast.Assign, ast.AugAssign, ast.AnnAssign)):
                        targets = node.targets if isinstance(node, ast.Assign) else [node.target]
                        for t in targets:
                            for tt in (t.elts if isinstance(t, (ast.Tuple, ast.List)) else [t]):
                                if is_self_attr(tt):
                                    written_elsewhere.add(tt.attr)
        private_reads = [{"attr": a, "read_by": [p for p, d, _ in props if a in d],
                          "assigned_only_in_init": a in init_only and a not in written_elsewhere}
                         for a in alldeps if a.startswith("_") and a not in statics]
        # hidden memo attributes: written by a method (not __init__, not a property setter), not static and not a
        # `_lazy_*` cache entry -- _clear_cache() never drops them, so a result memoised there survives the
        # re-assignment of the attributes it was computed from
        memo = sorted(set(e[1] for name, paths, _ in methods if not name.endswith(".setter") and "@" not in name
                          for pth in paths for e in pth
                          if e[0] in ("Assign", "Aug") and e[1] not in statics and not e[1].startswith("_lazy_")))
        side[cname] = {"module": classes[cname].module, "mro": an.mro, "static": statics,
                       "memo_attrs": memo,
                       "private_nonstatic_reads": private_reads,
                       "props": {p: {"attrs": d, "lazy": l} for p, d, l in props},
                       "methods": {n: [[list(e) for e in p] for p in ps] for n, ps, _ in methods},
                       "class_attrs_read": sorted(class_reads)}
    return table, side


def emit(table, core):
    L = ["(* GENERATED by tools/lazy_table.py from the pyrex source -- do not edit. *)",
         "From Coq Require Import String List.", "From PyrexModel Require Import LazyModel.",
         "Import ListNotations.", "Open Scope string_scope.", "",
         "Definition core_hash : string := %s." % coq_str(core), ""]
    names = []
    for cname, statics, props, methods, creads in table:
        ident = "tbl_" + cname
        names.append(ident)
        ps = coq_list("(%s, %s)" % (coq_str(p), coq_list(coq_str(a) for a in d)) for p, d, _ in props)
        ms = []
        for name, paths, owner in methods:
            pp = coq_list(coq_list({"Assign": "EAssign %s", "Aug": "EAug %s", "InPlace": "EInPlace %s", "Clear": "EClear%.0s",
                                    "Read": "ERead %s", "Opaque": "EOpaque%.0s"}[k] % (coq_str(a),) for k, a in path) for path in paths)
            ms.append("(%s, %s)" % (coq_str(name), pp))
        L.append("Definition %s : class_table :=\n  {| cname := %s;\n     statics := %s;\n     props := %s;\n     methods := %s |}.\n" % (
            ident, coq_str(cname), coq_list(coq_str(s) for s in statics), ps, "[\n       " + ";\n       ".join(ms) + "]"))
    L.append("Definition tables : list class_table := %s." % coq_list(names))
    return "\n".join(L) + "\n"


def main():
    repo, out_v, out_json = sys.argv[1:4]
    table, side = translate(repo)
    core = core_hash(repo)
    open(out_v, "w").write(emit(table, core))
    json.dump({"core_hash": core, "classes": side}, open(out_json, "w"), indent=1)


if __name__ == "__main__":
    main()
