(* C06: abstract model of pyrex.internal_functions.LazyMutableClass / lazy_property, as written:

     lazy_property:      if not hasattr(self, '_lazy_p'): setattr(self, '_lazy_p', fn(self)); return it
     __setattr__(n, v):  if n in self._static_attrs: self._clear_cache();  then store
     _clear_cache():     delete every _lazy_* attribute

   State = attribute valuation + cache.  The effects a method can have on its own object are the
   ones the translator (tools/lazy_table.py) extracts: Assign a | Aug a (both go through
   __setattr__), InPlace a (mutation of the list/array held in a; the attribute is not re-assigned
   so nothing is cleared), Clear, Read p, Opaque (setattr()/__dict__ tricks: anything may happen).
   A method is a finite set of effect paths; the generated table is Gen/Gen_lazy.v. *)
From Coq Require Import String Ascii List Bool Arith.
Import ListNotations.
Open Scope string_scope.

Inductive eff :=
| EAssign (a : string) | EAug (a : string) | EInPlace (a : string)
| EClear | ERead (p : string) | EOpaque.

Record class_table := {
  cname : string;
  statics : list string;
  props : list (string * list string);          (* lazy property -> instance attributes it reads *)
  methods : list (string * list (list eff)) }.  (* method -> its effect paths *)

Definition mem (x : string) (l : list string) : bool := existsb (String.eqb x) l.

Definition all_deps (t : class_table) : list string := flat_map snd (props t).

Definition is_private (a : string) : bool :=
  match a with String c _ => Ascii.eqb c "_"%char | EmptyString => false end.

(* ---- static analysis of one effect path.
   e = "the cache is known to be empty at this point";
   d = "dirty": something a lazy property reads was changed without __setattr__ of a static name while
       the cache may have held values.  Dirty is harmless as long as no lazy property is read before
       the cache is cleared (in-place update followed by `self.times += dt` in the same method), and
       must be gone at the end of the path. *)
Definition eff_ok (t : class_table) (st : bool * bool) (x : eff) : option (bool * bool) :=
  let '(e, d) := st in
  match x with
  | EAssign a | EAug a =>
      if mem a (statics t) then Some (true, false)
      else if mem a (all_deps t) then Some (e, d || negb e) else Some (e, d)
  | EInPlace a => if mem a (all_deps t) then Some (e, d || negb e) else Some (e, d)
  | EClear => Some (true, false)
  | ERead _ => if d then None else Some (false, false)
  | EOpaque => None
  end.

Fixpoint path_ok_from (t : class_table) (st : bool * bool) (p : list eff) : bool :=
  match p with
  | [] => negb (snd st)
  | x :: p' => match eff_ok t st x with Some st' => path_ok_from t st' p' | None => false end
  end.

Definition path_ok (t : class_table) (e : bool) (p : list eff) : bool := path_ok_from t (e, false) p.

Definition method_safe (t : class_table) (m : string * list (list eff)) : bool :=
  forallb (path_ok t false) (snd m).

(* every attribute a lazy property reads is either static (its public assignment clears the cache)
   or private (only the class's own methods write it, and those are checked by method_safe) *)
Definition deps_covered (t : class_table) : bool :=
  forallb (fun a => mem a (statics t) || is_private a) (all_deps t).

Definition table_ok (t : class_table) : bool :=
  forallb (method_safe t) (methods t) && deps_covered t.

(* ---- dynamic semantics *)
Section Dyn.
  Variable V : Type.
  Variable t : class_table.
  Variable compute : string -> (string -> V) -> V.     (* what property p evaluates to on given attributes *)

  Record ostate := { attrs : string -> V; cache : list (string * V) }.

  Definition set_attr (f : string -> V) (a : string) (v : V) : string -> V :=
    fun n => if String.eqb n a then v else f n.

  Fixpoint lookup (p : string) (c : list (string * V)) : option V :=
    match c with
    | [] => None
    | (q, v) :: c' => if String.eqb p q then Some v else lookup p c'
    end.

  (* reading a lazy property: cached value if present, else compute-and-store.  While computing,
     other lazy properties may be evaluated and cached as well (`extra`, chosen by the history) *)
  Definition read_one (s : ostate) (p : string) : ostate * V :=
    match lookup p (cache s) with
    | Some v => (s, v)
    | None => let v := compute p (attrs s) in
              ({| attrs := attrs s; cache := (p, v) :: cache s |}, v)
    end.

  Definition read (s : ostate) (p : string) (extra : list string) : ostate * V :=
    let s1 := fold_left (fun st q => fst (read_one st q)) extra s in
    read_one s1 p.

  (* one effect with the value it stores (ignored by Clear / Read) *)
  Definition exec_eff (s : ostate) (x : eff) (v : V) (a_op : string) : ostate :=
    match x with
    | EAssign a | EAug a =>
        {| attrs := set_attr (attrs s) a v; cache := if mem a (statics t) then [] else cache s |}
    | EInPlace a => {| attrs := set_attr (attrs s) a v; cache := cache s |}
    | EClear => {| attrs := attrs s; cache := [] |}
    | ERead p => fst (read_one s p)
    | EOpaque => {| attrs := set_attr (attrs s) a_op v; cache := cache s |}
    end.

  Fixpoint exec_path (s : ostate) (p : list eff) (vs : list V) (d : V) : ostate :=
    match p with
    | [] => s
    | x :: p' => exec_path (exec_eff s x (hd d vs) "") p' (tl vs) d
    end.

  (* public operations on an object *)
  Inductive lop :=
  | LSet (a : string) (v : V)                         (* obj.a = v   through __setattr__ *)
  | LCall (m : string) (k : nat) (vs : list V)        (* obj.m(...) taking its k-th effect path *)
  | LRead (p : string) (extra : list string).         (* obj.p *)

  Definition find_method (m : string) : option (list (list eff)) :=
    match find (fun x => String.eqb (fst x) m) (methods t) with
    | Some x => Some (snd x)
    | None => None
    end.

  Definition lstep (d : V) (s : ostate) (o : lop) : ostate * option V :=
    match o with
    | LSet a v => (exec_eff s (EAssign a) v "", None)
    | LCall m k vs =>
        match find_method m with
        | Some ps => match nth_error ps k with
                     | Some p => (exec_path s p vs d, None)
                     | None => (s, None)
                     end
        | None => (s, None)
        end
    | LRead p extra => let '(s', v) := read s p extra in (s', Some v)
    end.

  Fixpoint lrun (d : V) (s : ostate) (ops : list lop) : ostate :=
    match ops with [] => s | o :: ops' => lrun d (fst (lstep d s o)) ops' end.

  (* a freshly constructed object with the given attributes: nothing cached *)
  Definition fresh (f : string -> V) : ostate := {| attrs := f; cache := [] |}.

  (* only public names and static names may be assigned from outside *)
  Definition lop_public (o : lop) : bool :=
    match o with
    | LSet a _ => mem a (statics t) || negb (is_private a)
    | _ => true
    end.
End Dyn.

(* ---- executable instance used by the correspondence: values are version stamps, a property
   evaluates to the stamps of the attributes it reads; a read is STALE when the returned stamps
   differ from the current ones *)
Section Stamps.
  Variable t : class_table.
  Definition deps_of (p : string) : list string :=
    match find (fun x => String.eqb (fst x) p) (props t) with Some x => snd x | None => [] end.
  Definition stamp_compute (p : string) (f : string -> nat) : nat :=
    (* positional encoding is unnecessary: any change bumps a stamp of some dependency upwards *)
    fold_left (fun acc a => acc + f a) (deps_of p) 0.

  (* history step for the harness: returns for a read whether it was stale *)
  Inductive hop := HSet (a : string) | HCall (m : string) (k : nat) | HRead (p : string).

  Definition hstep (clock : nat) (s : ostate nat) (o : hop) : ostate nat * option bool :=
    match o with
    | HSet a => (fst (lstep nat t stamp_compute 0 s (LSet nat a clock)), None)
    | HCall m k => (fst (lstep nat t stamp_compute 0 s (LCall nat m k (repeat clock 64))), None)
    | HRead p => let '(s', v) := read nat stamp_compute s p [] in
                 (s', Some (negb (Nat.eqb v (stamp_compute p (attrs nat s')))))
    end.

  Fixpoint hrun (clock : nat) (s : ostate nat) (ops : list hop) : list (option bool) :=
    match ops with
    | [] => []
    | o :: ops' => let '(s', r) := hstep clock s o in r :: hrun (S clock) s' ops'
    end.

  Definition hrun0 (ops : list hop) : list (option bool) := hrun 1 (fresh nat (fun _ => 0)) ops.
End Stamps.
