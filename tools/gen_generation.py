"""Gen_generation.v: the random generators of pyrex/generation.py with the np.random draws as
parameters u1 u2 ... (in program order).

Translated on every run (fail-closed):
  Generator.get_direction                       (u1 u2)
  CylindricalGenerator.get_vertex               (record Cyl{dr,dz}; u1 u2 u3)
  RectangularGenerator.get_vertex               (record Box{dx,dy,dz}; u1 u2 u3 = the three entries of
                                                 np.random.uniform(low=(..), high=(..)))
  Generator.get_particle_type                   once per supported source type (self.source is specialised,
                                                 the unsupported branch `raise ValueError` is then dead code);
                                                 Particle.Type members become their PDG integer codes
  Generator.get_weights                         with the three external inputs as parameters:
                                                 slant_t  = self.earth_model.slant_depth(particle.vertex, -particle.direction)
                                                 (entry_point, exit_point) = self.get_exit_points(particle)
                                                 l_int    = particle.interaction.total_interaction_length
                                                 (the call forms are checked syntactically)

Hand-modelled in coq/Model/GeneratorModel.v and pinned by AST hash: both get_exit_points, create_event,
ListGenerator.
"""
import ast
import copy
import os
import sys

sys.path.insert(0, os.path.dirname(os.path.abspath(__file__)))
from py2coq import Module, ClassTr, FnTr, TranslationError, ast_pin

SOURCE = "pyrex/generation.py"
PINNED = ["CylindricalGenerator.get_exit_points", "RectangularGenerator.get_exit_points", "Generator.create_event",
          "Generator.__init__", "ListGenerator.__init__", "ListGenerator.count", "ListGenerator.create_event"]


def enum_values(tree, path):
    """{member: int} of a (nested) Enum class, e.g. path = ['Particle', 'Type']."""
    node = tree
    for p in path:
        found = [n for n in node.body if isinstance(n, ast.ClassDef) and n.name == p]
        if not found:
            raise TranslationError("enum %s not found" % ".".join(path))
        node = found[0]
    out = {}
    for n in node.body:
        if isinstance(n, ast.Assign) and len(n.targets) == 1 and isinstance(n.targets[0], ast.Name):
            try:
                out[n.targets[0].id] = int(ast.literal_eval(n.value))
            except Exception:
                raise TranslationError("enum %s: member %s is not an integer literal" % (".".join(path), n.targets[0].id))
    return out


class GenFn(FnTr):
    source_value = None          # specialisation of self.source (an int of Generator.SourceType)
    source_enum = {}
    particle_enum = {}

    def zlit(self, v):
        return ("%d%%Z" % v if v >= 0 else "(%d)%%Z" % v), "Z"

    def e_Attribute(self, n):
        d = self.dotted(n)
        if d and len(d) == 3 and d[:2] == ("Particle", "Type"):
            if d[2] not in self.particle_enum:
                self.err(n, "unknown Particle.Type member %r" % d[2])
            return self.zlit(self.particle_enum[d[2]])
        return FnTr.e_Attribute(self, n)

    def e_Compare(self, n):
        # self.source == self.SourceType.<member>: decided by the specialisation
        if len(n.ops) == 1 and isinstance(n.ops[0], (ast.Eq, ast.NotEq)):
            l, r = self.dotted(n.left), self.dotted(n.comparators[0])
            if l == (self.self_name, "source") and r and len(r) == 3 and r[:2] == (self.self_name, "SourceType"):
                if self.source_value is None:
                    self.err(n, "self.source is not specialised")
                if r[2] not in self.source_enum:
                    self.err(n, "unknown SourceType member %r" % r[2])
                eq = self.source_enum[r[2]] == self.source_value
                if isinstance(n.ops[0], ast.NotEq):
                    eq = not eq
                return ("true" if eq else "false"), "bool"
        return FnTr.e_Compare(self, n)

    def e_Call(self, n):
        d = self.dotted(n.func)
        kw = {k.arg: k.value for k in n.keywords}
        # np.random.uniform(low=(a,b,c), high=(d,e,f)): three independent draws
        if d == ("np", "random", "uniform") and not n.args and set(kw) == {"low", "high"} \
                and isinstance(kw["low"], ast.Tuple) and isinstance(kw["high"], ast.Tuple) \
                and len(kw["low"].elts) == 3 and len(kw["high"].elts) == 3:
            parts = []
            for lo, hi in zip(kw["low"].elts, kw["high"].elts):
                u = "u%d" % (len(self.randoms) + 1)
                self.randoms.append(u)
                l, h = self.num(lo)[0], self.num(hi)[0]
                parts.append("(%s + (%s - %s) * %s)" % (l, h, l, u))
            return "(%s, %s, %s)" % tuple(parts), "vec3"
        return FnTr.e_Call(self, n)


def prepare_get_weights(mod):
    """Rewrite Generator.get_weights so that its three external inputs become parameters."""
    cls = mod.classes["Generator"]
    idx = [i for i, n in enumerate(cls.body) if isinstance(n, ast.FunctionDef) and n.name == "get_weights"]
    if not idx:
        raise TranslationError("%s: Generator.get_weights not found" % SOURCE)
    fn = copy.deepcopy(cls.body[idx[0]])
    if [a.arg for a in fn.args.args] != ["self", "particle"]:
        mod.err(fn, "get_weights must take (self, particle)")
    want_slant = "Assign(targets=[Name(id='t', ctx=Store())], value=Call(func=Attribute(value=Attribute(value=Name(id='self', ctx=Load()), attr='earth_model', ctx=Load()), attr='slant_depth', ctx=Load()), args=[Attribute(value=Name(id='particle', ctx=Load()), attr='vertex', ctx=Load()), UnaryOp(op=USub(), operand=Attribute(value=Name(id='particle', ctx=Load()), attr='direction', ctx=Load()))], keywords=[]))"
    want_exit = "Assign(targets=[Tuple(elts=[Name(id='entry_point', ctx=Store()), Name(id='exit_point', ctx=Store())], ctx=Store())], value=Call(func=Attribute(value=Name(id='self', ctx=Load()), attr='get_exit_points', ctx=Load()), args=[Name(id='particle', ctx=Load())], keywords=[]))"
    body, seen = [], set()
    for st in fn.body:
        dump = ast.dump(st)
        if dump == want_slant:
            new = ast.parse("t = slant_t").body[0]
            ast.copy_location(new, st)
            body.append(ast.fix_missing_locations(new))
            seen.add("slant")
            continue
        if dump == want_exit:
            seen.add("exit")
            continue
        body.append(st)
    if seen != {"slant", "exit"}:
        mod.err(fn, "get_weights must contain `t = self.earth_model.slant_depth(particle.vertex, -particle.direction)` and "
                    "`entry_point, exit_point = self.get_exit_points(particle)` (found: %s)" % sorted(seen))
    fn.body = body

    class Repl(ast.NodeTransformer):
        count = 0

        def visit_Attribute(self, node):
            if ast.dump(node) == "Attribute(value=Attribute(value=Name(id='particle', ctx=Load()), attr='interaction', ctx=Load()), attr='total_interaction_length', ctx=Load())":
                Repl.count += 1
                return ast.copy_location(ast.Name(id="l_int", ctx=ast.Load()), node)
            return self.generic_visit(node)
    fn = Repl().visit(fn)
    for nd in ast.walk(fn):
        if isinstance(nd, ast.Attribute) and nd.attr in ("earth_model", "interaction", "get_exit_points"):
            mod.err(nd, "get_weights uses %s in a form the translator does not know" % nd.attr)
    for extra in ("entry_point", "exit_point", "slant_t", "l_int"):
        fn.args.args.append(ast.arg(arg=extra))
    ast.fix_missing_locations(fn)
    cls.body[idx[0]] = fn


def generate(repo):
    records = {"Cyl": [("dr", "R"), ("dz", "R")], "Box": [("dx", "R"), ("dy", "R"), ("dz", "R")],
               "Gen": [("ratio", "vec3")], "Particle": [("vertex", "vec3"), ("direction", "vec3")]}
    mod = Module(repo, SOURCE, records=records)
    for r in ("Cyl", "Box", "Gen", "Particle"):
        mod.record_decl(r)
    ptree = ast.parse(open(os.path.join(repo, "pyrex/particle.py")).read())
    GenFn.particle_enum = enum_values(ptree, ["Particle", "Type"])
    GenFn.source_enum = enum_values(mod.tree, ["Generator", "SourceType"])
    for need in ("cosmogenic", "astrophysical"):
        if need not in GenFn.source_enum:
            raise TranslationError("%s: SourceType.%s missing" % (SOURCE, need))

    def tr(cname, member, record=None, prefix=None, **kw):
        ct = ClassTr(mod, cname, record=record, prefix=prefix, **kw)
        ct.fn_class = GenFn
        if ct.member(member) is None:
            raise TranslationError("%s: %s.%s not found" % (SOURCE, cname, member))
        return ct

    GenFn.source_value = None
    tr("Generator", "get_direction", prefix="Generator")
    tr("CylindricalGenerator", "get_vertex", record="Cyl", prefix="Cylindrical")
    tr("RectangularGenerator", "get_vertex", record="Box", prefix="Rectangular")
    for sname in ("cosmogenic", "astrophysical"):
        GenFn.source_value = GenFn.source_enum[sname]
        tr("Generator", "get_particle_type", record="Gen", prefix="Generator_%s" % sname)
    GenFn.source_value = None
    # the subclasses must not override what is translated from the base class
    for sub in ("CylindricalGenerator", "RectangularGenerator"):
        for n in mod.classes[sub].body:
            if isinstance(n, ast.FunctionDef) and n.name in ("get_direction", "get_particle_type", "get_weights", "create_event"):
                raise TranslationError("%s: %s overrides %s" % (SOURCE, sub, n.name))
    prepare_get_weights(mod)
    tr("Generator", "get_weights", prefix="Generator",
       param_types={"get_weights": {"particle": "Particle", "entry_point": "vec3", "exit_point": "vec3"}})
    pins = {q: ast_pin(repo, SOURCE, q) for q in PINNED}
    side = {"hashes": dict(mod.hashes), "pins": pins, "particle_codes": {k: v for k, v in GenFn.particle_enum.items() if "neutrino" in k},
            "source_codes": GenFn.source_enum}
    return mod.result(), side


if __name__ == "__main__":
    text, side = generate(sys.argv[1])
    print(text)
    print(side, file=sys.stderr)
