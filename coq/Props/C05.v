(* C05: frequency filtering is linear, real-preserving, passive and free of wrap-around.
   Statements only; proofs are in Proofs/C05_proofs.v, the DFT theory in Lib/DFT.v.
   filter_frequencies times values g force_real  is the model of
   Signal.filter_frequencies (Model/FilterModel.v); all statements hold for every signal
   length, every sample value, every response function g : R -> C. *)
From Coq Require Import Reals ZArith List Bool Arith.
From Coquelicot Require Import Coquelicot.
From PyrexLib Require Import DFT.
From PyrexModel Require Import FilterModel.
From PyrexProofs Require Import C05_proofs.
Import ListNotations.
Local Open Scope R_scope.

(* the DFT facts the model rests on are theorems, not hypotheses *)
Theorem DFT_inversion : forall M x n, (n < M)%nat -> idft M (dft M x) n = x n.
Proof. exact idft_dft. Qed.
Print Assumptions DFT_inversion.

Theorem DFT_parseval : forall M x,
  Rsum (fun k => Cnorm2 (dft M x k)) M = INR M * Rsum (fun n => Cnorm2 (x n)) M.
Proof. exact dft_parseval. Qed.
Print Assumptions DFT_parseval.

Theorem DFT_shift : forall M m x k, (m <= M)%nat ->
  dft M (circ_delay M m x) k = Cmult (tw M (- (Z.of_nat k * Z.of_nat m))) (dft M x k).
Proof. exact dft_shift. Qed.
Print Assumptions DFT_shift.

Theorem DFT_real_input_hermitian : forall M x k, (k < M)%nat ->
  (forall n, (n < M)%nat -> Cconj (x n) = x n) ->
  Cconj (dft M x k) = dft M x (negidx M k).
Proof. exact dft_real_hermitian. Qed.
Print Assumptions DFT_real_input_hermitian.

(* the executed list-level model is the transform-pair formula *)
Theorem filter_model_is_formula : forall times values g fr n,
  (n < length times)%nat -> (length times <= 2 * length values)%nat ->
  nth n (filter_frequencies times values g fr) 0
  = Re (idft (2 * length values)
          (fun k => Cmult (response g fr (fftfreq (2 * length values) (sig_dt times) k))
                          (dft (2 * length values) (zero_pad (length values) (sigfn values)) k)) n).
Proof. exact filter_frequencies_nth. Qed.
Print Assumptions filter_model_is_formula.

(* linear in the signal *)
Theorem filter_linear : forall times xs ys a b g fr n,
  length xs = length ys -> length times = length xs -> (n < length times)%nat ->
  nth n (filter_frequencies times (lincomb a b xs ys) g fr) 0
  = a * nth n (filter_frequencies times xs g fr) 0 + b * nth n (filter_frequencies times ys g fr) 0.
Proof. exact filter_linear_lemma. Qed.
Print Assumptions filter_linear.

(* homogeneous (real factor) and additive in the response *)
Theorem filter_homogeneous_in_H : forall times xs (c : R) g fr n,
  length times = length xs -> (n < length times)%nat ->
  nth n (filter_frequencies times xs (fun f => Cmult (RtoC c) (g f)) fr) 0
  = c * nth n (filter_frequencies times xs g fr) 0.
Proof. exact filter_homogeneous_lemma. Qed.
Print Assumptions filter_homogeneous_in_H.

Theorem filter_additive_in_H : forall times xs g1 g2 fr n,
  length times = length xs -> (n < length times)%nat ->
  nth n (filter_frequencies times xs (fun f => Cplus (g1 f) (g2 f)) fr) 0
  = nth n (filter_frequencies times xs g1 fr) 0 + nth n (filter_frequencies times xs g2 fr) 0.
Proof. exact filter_additive_in_H_lemma. Qed.
Print Assumptions filter_additive_in_H.

(* a complex factor is homogeneous before the real part is taken *)
Theorem filter_complex_factor_before_real_part : forall M (c : C) H X n,
  idft M (fun k => Cmult (Cmult c (H k)) (X k)) n = Cmult c (idft M (fun k => Cmult (H k) (X k)) n).
Proof. exact filter_pre_real_homogeneous. Qed.
Print Assumptions filter_complex_factor_before_real_part.

(* identity for the unit response *)
Theorem filter_identity : forall times xs fr,
  length times = length xs -> filter_frequencies times xs (fun _ => RtoC 1) fr = xs.
Proof. exact filter_identity_lemma. Qed.
Print Assumptions filter_identity.

(* independent of the absolute position of the time grid *)
Theorem filter_offset_independent : forall c times values g fr, (2 <= length times)%nat ->
  filter_frequencies (map (Rplus c) times) values g fr = filter_frequencies times values g fr.
Proof. exact filter_offset_independent_lemma. Qed.
Print Assumptions filter_offset_independent.

(* discarding the imaginary part is filtering with the Hermitian-symmetrised response
   (any response, force_real or not), and then nothing is discarded *)
Theorem real_part_is_hermitian_symmetrised : forall N H x n,
  RtoC (filter_H N H x n)
  = idft (2 * N) (fun k => Cmult (herm (2 * N) H k) (dft (2 * N) (zero_pad N x) k)) n.
Proof. exact filter_H_herm. Qed.
Print Assumptions real_part_is_hermitian_symmetrised.

(* with force_real the result is exactly the (real) inverse transform with the
   Hermitian-symmetrised response Hs, and Hs is the mirrored response except that the DC
   and Nyquist bins are replaced by their real parts *)
Theorem force_real_is_hermitian_symmetrised : forall times xs g n,
  0 < sig_dt times -> length times = length xs -> (n < length times)%nat ->
  let N := length xs in let M := (2 * N)%nat in let dt := sig_dt times in
  let Hs := herm M (Hfr N dt g) in
  RtoC (nth n (filter_frequencies times xs g true) 0)
    = idft M (fun k => Cmult (Hs k) (dft M (zero_pad N (sigfn xs)) k)) n
  /\ nth n (filter_frequencies times xs g true) 0 = filter_H N Hs (sigfn xs) n
  /\ (forall k, (k < M)%nat -> Cconj (Hs k) = Hs (negidx M k))
  /\ (forall k, (k < M)%nat -> Hs k = if (k =? 0)%nat || (k =? N)%nat
                                      then RtoC (Re (Hfr N dt g k)) else Hfr N dt g k).
Proof. exact force_real_list_lemma. Qed.
Print Assumptions force_real_is_hermitian_symmetrised.

(* a response of magnitude at most 1 never increases the energy *)
Theorem filter_passive : forall times xs g fr,
  length times = length xs -> (forall u, Cmod (g u) <= 1) ->
  energy (filter_frequencies times xs g fr) <= energy xs.
Proof. exact filter_passive_lemma. Qed.
Print Assumptions filter_passive.

(* a pure delay of m samples (0 <= m <= N) moves the samples later and drops what leaves
   the window: nothing wraps round to the start *)
Theorem delay_no_wraparound : forall times xs m fr n,
  0 < sig_dt times -> length times = length xs -> (m <= length xs)%nat -> (n < length xs)%nat ->
  nth n (filter_frequencies times xs (delay_response (INR m * sig_dt times)) fr) 0
  = if (m <=? n)%nat then nth (n - m) xs 0 else 0.
Proof. exact delay_list_lemma. Qed.
Print Assumptions delay_no_wraparound.

(* FunctionSignal._apply_filters with one filter is the same map *)
Theorem function_signal_single_filter : forall dt values g fr times,
  sig_dt times = dt -> length times = length values ->
  apply_filters dt values [(g, fr)] = filter_frequencies times values g fr.
Proof. exact apply_filters_single. Qed.
Print Assumptions function_signal_single_filter.

(* FunctionSignal's buffer-extended grid (the times at which the function is evaluated before filtering) continues the
   time grid with the SAME step: leading samples t0 - j dt (j = nb .. 1), then the grid, then tl + j dt (j = 1 .. na) *)
Theorem function_signal_buffer_grid : forall times lead trail dt,
  length (full_times times lead trail dt) = (n_buffer lead dt + length times + n_buffer trail dt)%nat
  /\ (forall j, (j < n_buffer lead dt)%nat ->
        nth j (full_times times lead trail dt) 0 = nth 0 times 0 - INR (n_buffer lead dt - j) * dt)
  /\ (forall i, (i < length times)%nat -> nth (n_buffer lead dt + i) (full_times times lead trail dt) 0 = nth i times 0)
  /\ (forall j, (j < n_buffer trail dt)%nat ->
        nth (n_buffer lead dt + length times + j) (full_times times lead trail dt) 0 = last times 0 + INR (j + 1) * dt).
Proof.
  intros. split; [apply full_times_length | split; [|split]]; intros.
  - apply full_times_leading; assumption.
  - apply full_times_window; assumption.
  - apply full_times_trailing; assumption.
Qed.
Print Assumptions function_signal_buffer_grid.

(* scaling the samples commutes with any stack of filters (FunctionSignal multiplies by its factor before filtering) *)
Theorem scaling_commutes_with_filters : forall dt values fs c n, (n < length values)%nat ->
  nth n (apply_filters dt (map (fun v => v * c) values) fs) 0 = c * nth n (apply_filters dt values fs) 0.
Proof. exact apply_filters_scaled. Qed.
Print Assumptions scaling_commutes_with_filters.

(* ONE FunctionSignal under ANY history of filter_frequencies, in-place scalings (`*=`, `/=`) and reads: what is read at the
   end is the product of the scalings times the history's filters (in order) applied to the function's samples - in
   particular no read in between can make a later filter or scaling ineffective *)
Theorem function_signal_history : forall times fvals ops n, length fvals = length times -> (n < length times)%nat ->
  nth n (fs_read times fvals (fs_run fs_init ops)) 0
  = scale_product ops * nth n (fs_read times fvals {| fs_factor := 1; fs_filters := filters_of ops |}) 0.
Proof. exact fs_history_lemma. Qed.
Print Assumptions function_signal_history.

(* multi-term FunctionSignals (a + b concatenates the terms): what is read is the sum over the terms of what each term reads
   with ITS OWN factor and filter chain (an unfiltered first term does not switch the filters of a later term off), hence
   a + b reads as a plus b in either order, and filtering the sum filters every term *)
Theorem multi_term_read_is_sum_of_terms : forall times st n, List.Forall (group_ok times) st -> (n < length times)%nat ->
  nth n (mg_read times st) 0 = list_sum_R' (map (fun gr => nth n (group_read times gr) 0) st).
Proof. exact mg_read_nth. Qed.
Print Assumptions multi_term_read_is_sum_of_terms.

Theorem sum_of_signals_reads_additively : forall times a b n,
  List.Forall (group_ok times) a -> List.Forall (group_ok times) b -> (n < length times)%nat ->
  nth n (mg_read times (a ++ b)) 0 = nth n (mg_read times a) 0 + nth n (mg_read times b) 0.
Proof. exact mg_add_lemma. Qed.
Print Assumptions sum_of_signals_reads_additively.

Theorem filtering_a_sum_filters_every_term : forall g fr a b, mg_filter g fr (a ++ b) = mg_filter g fr a ++ mg_filter g fr b.
Proof. exact mg_filter_app. Qed.
Print Assumptions filtering_a_sum_filters_every_term.
