(* Model of pyrex/signals.py  Signal.filter_frequencies / Signal._get_filter_response /
   FunctionSignal._apply_filters  (one filter), following the code as written:

     vals      = concatenate(values, zeros(len(values)))          -- zero-pad to 2N
     spectrum  = scipy.fft.fft(vals)
     freqs     = scipy.fft.fftfreq(n=2N, d=dt)                    dt = times[1]-times[0]
     responses = _get_filter_response(freqs, g, force_real)
     filtered  = scipy.fft.ifft(responses*spectrum)
     values    = real(filtered[:len(times)])

   No proofs here.  List-level definitions (executed after extraction, O(N^2)) and the
   function-level reading used by the theorems; Proofs/C05_proofs.v shows they agree. *)
From Coq Require Import Reals ZArith List Bool Arith.
From Coquelicot Require Import Coquelicot.
From PyrexLib Require Import DFT.
Import ListNotations.
Local Open Scope R_scope.
Local Open Scope C_scope.

(* numpy/scipy fftfreq(n, d)[k]:  val = 1.0/(n*d);  k*val for k <= (n-1)//2, (k-n)*val
   after that.  For even n the Nyquist bin k = n/2 is NEGATIVE. *)
Definition fftfreq (n : nat) (d : R) (k : nat) : R :=
  let val := (1 / (INR n * d))%R in
  if (k <=? (n - 1) / 2)%nat then (INR k * val)%R else (- INR (n - k) * val)%R.

(* Signal._get_filter_response for one frequency.  Vectorised evaluation and the scalar
   fall-back (except TypeError/ValueError: one call per frequency) are both `map g`. *)
Definition response (g : R -> C) (force_real : bool) (f : R) : C :=
  if force_real then
    let r := g (Rabs f) in               (* freqs = np.abs(freqs) *)
    if Rlt_dec f 0 then Cconj r else r   (* responses.imag[true_freqs<0] *= -1 *)
  else g f.

Definition responses (n : nat) (dt : R) (g : R -> C) (force_real : bool) : list C :=
  map (fun k => response g force_real (fftfreq n dt k)) (seq 0 n).

(* indexed sum over a list, left to right *)
Fixpoint Csum_idx (f : nat -> C -> C) (l : list C) (i : nat) (acc : C) : C :=
  match l with
  | [] => acc
  | x :: t => Csum_idx f t (S i) (acc + f i x)
  end.

(* scipy.fft.fft / ifft of an array *)
Definition fft_l (xs : list C) : list C :=
  let M := length xs in
  map (fun k => Csum_idx (fun n x => x * twr M (- (Z.of_nat k * Z.of_nat n))) xs 0%nat 0) (seq 0 M).

Definition ifft_l (Xs : list C) : list C :=
  let M := length Xs in
  map (fun n => RtoC (/ INR M) * Csum_idx (fun k X => X * twr M (Z.of_nat k * Z.of_nat n)) Xs 0%nat 0)
      (seq 0 M).

Fixpoint zeros (n : nat) : list R := match n with O => [] | S n' => 0%R :: zeros n' end.

Fixpoint map2 {A B D} (f : A -> B -> D) (a : list A) (b : list B) : list D :=
  match a, b with
  | x :: a', y :: b' => f x y :: map2 f a' b'
  | _, _ => []
  end.

(* Signal.dt *)
Definition sig_dt (times : list R) : R := (nth 1 times 0 - nth 0 times 0)%R.

(* Signal.filter_frequencies(g, force_real): new .values *)
Definition filter_frequencies (times values : list R) (g : R -> C) (force_real : bool) : list R :=
  let N := length values in
  let vals := map RtoC (values ++ zeros N) in
  let spectrum := fft_l vals in
  let resp := responses (2 * N) (sig_dt times) g force_real in
  let filtered := ifft_l (map2 Cmult resp spectrum) in
  map Re (firstn (length times) filtered).

(* FunctionSignal._apply_filters with a list of (g, force_real): the responses are
   multiplied together first, then one transform pair *)
Fixpoint all_filters (n : nat) (dt : R) (fs : list ((R -> C) * bool)) : list C :=
  match fs with
  | [] => map (fun _ => RtoC 1) (seq 0 n)
  | (g, fr) :: t => map2 Cmult (all_filters n dt t) (responses n dt g fr)
  end.

Definition apply_filters (dt : R) (values : list R) (fs : list ((R -> C) * bool)) : list R :=
  let N := length values in
  let vals := map RtoC (values ++ zeros N) in
  let spectrum := fft_l vals in
  let filtered := ifft_l (map2 Cmult (all_filters (2 * N) dt (rev fs)) spectrum) in
  map Re (firstn N filtered).

(* ---------------------------------------------------------------- function-level reading *)
Definition zero_pad (N : nat) (x : nat -> R) (n : nat) : C :=
  if (n <? N)%nat then RtoC (x n) else 0.

Definition filter_fn (N : nat) (dt : R) (x : nat -> R) (g : R -> C) (fr : bool) (n : nat) : R :=
  let M := (2 * N)%nat in
  Re (idft M (fun k => response g fr (fftfreq M dt k) * dft M (zero_pad N x) k) n).

(* the same with an arbitrary per-bin response H (what the theorems are about) *)
Definition filter_H (N : nat) (H : nat -> C) (x : nat -> R) (n : nat) : R :=
  let M := (2 * N)%nat in
  Re (idft M (fun k => H k * dft M (zero_pad N x) k) n).

(* responses used in the theorems *)
Definition delay_response (tau : R) (f : R) : C := cis (- 2 * PI * f * tau).

(* ---------------------------------------------------------------- FunctionSignal buffers
   FunctionSignal._full_times / _value_window / values (one function):
     n = int(buffer/dt); if buffer % dt: n += 1                       (leading and trailing alike)
     full = linspace(t0 - nb*dt, t0, nb, endpoint=False) ++ times ++ linspace(tl, tl + na*dt, na+1)[1:]
     values = _apply_filters(func(full), filters)[nb : nb+len(times)]
   The buffer grid continues the time grid with the same step: t0 - j*dt (j = nb..1), tl + j*dt (j = 1..na). *)
Definition n_buffer (buffer dt : R) : nat :=
  let q := Int_part (buffer / dt) in
  let r := (buffer - IZR q * dt)%R in                    (* buffer % dt *)
  Z.to_nat (if Req_EM_T r 0 then q else (q + 1)%Z).

(* np.linspace(a, b, n, endpoint=False)[i] = i*((b-a)/n) + a;  np.linspace(a, b, n+1)[i] = i*((b-a)/n) + a *)
Definition full_times (times : list R) (lead trail dt : R) : list R :=
  let nb := n_buffer lead dt in
  let na := n_buffer trail dt in
  let t0 := nth 0 times 0%R in
  let tl := last times 0%R in
  let tmin := (t0 - INR nb * dt)%R in
  let tmax := (tl + INR na * dt)%R in
  map (fun i => (INR i * ((t0 - tmin) / INR nb) + tmin)%R) (seq 0 nb)
  ++ times ++
  map (fun i => (INR (i + 1) * ((tmax - tl) / INR na) + tl)%R) (seq 0 na).

(* values of a FunctionSignal with one function, given that function's values on full_times *)
Definition function_signal_values (times : list R) (lead trail : R) (fvals : list R) (fs : list ((R -> C) * bool)) : list R :=
  let dt := sig_dt times in
  let nb := n_buffer lead dt in
  let out := match fs with [] => fvals | _ => apply_filters dt fvals fs end in
  firstn (length times) (skipn nb out).

(* ---------------------------------------------------------------- op histories on ONE signal object
   FunctionSignal (one function, no buffers): state = (_factors[0], _filters[0]); the samples are recomputed from the
   state on every read:  values = _apply_filters(func(times) * factor, filters).
     filter_frequencies(g, fr) : filters ++ [(g, fr)]          `sig *= c` : factor * c        `sig /= c` : factor / c
     reading (.values, .spectrum, ...) changes nothing;  copy()/with_times(same times) carry the state over.
   Signal: the state is the values array:  filter replaces it by filter_frequencies, `*=` / `/=` scale it. *)
Inductive sig_op : Type :=
  | OpFilter (g : R -> C) (force_real : bool)
  | OpScale (c : R)
  | OpDiv (c : R)
  | OpRead.

Record fs_state := { fs_factor : R; fs_filters : list ((R -> C) * bool) }.
Definition fs_init : fs_state := {| fs_factor := 1; fs_filters := [] |}.

Definition fs_step (st : fs_state) (op : sig_op) : fs_state :=
  match op with
  | OpFilter g fr => {| fs_factor := fs_factor st; fs_filters := fs_filters st ++ [(g, fr)] |}
  | OpScale c => {| fs_factor := (fs_factor st * c)%R; fs_filters := fs_filters st |}
  | OpDiv c => {| fs_factor := (fs_factor st / c)%R; fs_filters := fs_filters st |}
  | OpRead => st
  end.

Definition fs_read (times fvals : list R) (st : fs_state) : list R :=
  function_signal_values times 0 0 (map (fun v => (v * fs_factor st)%R) fvals) (fs_filters st).

(* values read after every op of a history *)
Fixpoint fs_trace (times fvals : list R) (st : fs_state) (ops : list sig_op) : list (list R) :=
  match ops with
  | [] => []
  | op :: rest => let st' := fs_step st op in fs_read times fvals st' :: fs_trace times fvals st' rest
  end.

Definition sg_step (times : list R) (values : list R) (op : sig_op) : list R :=
  match op with
  | OpFilter g fr => filter_frequencies times values g fr
  | OpScale c => map (fun v => (v * c)%R) values
  | OpDiv c => map (fun v => (v / c)%R) values
  | OpRead => values
  end.

Fixpoint sg_trace (times values : list R) (ops : list sig_op) : list (list R) :=
  match ops with
  | [] => []
  | op :: rest => let v' := sg_step times values op in v' :: sg_trace times v' rest
  end.

(* ---------------------------------------------------------------- multi-term FunctionSignals (from __add__)
   A FunctionSignal is a list of groups (function, factor, filters); `a + b` concatenates the groups of a and b (a's first);
   filter_frequencies appends the filter to EVERY group, `*=`/`/=` scale every factor;
   values = zeros + sum over groups of  _apply_filters(func_i(times)*factor_i, filters_i)  (no filtering for an empty chain). *)
Record fs_group := { g_vals : list R; g_factor : R; g_filters : list ((R -> C) * bool) }.
Definition mg_state := list fs_group.

Definition group_read (times : list R) (gr : fs_group) : list R :=
  fs_read times (g_vals gr) {| fs_factor := g_factor gr; fs_filters := g_filters gr |}.

Definition mg_read (times : list R) (st : mg_state) : list R :=
  fold_left (fun acc gr => map2 Rplus acc (group_read times gr)) st (zeros (length times)).

Definition mg_filter (g : R -> C) (fr : bool) (st : mg_state) : mg_state :=
  map (fun gr => {| g_vals := g_vals gr; g_factor := g_factor gr; g_filters := g_filters gr ++ [(g, fr)] |}) st.
Definition mg_scale (c : R) (st : mg_state) : mg_state :=
  map (fun gr => {| g_vals := g_vals gr; g_factor := (g_factor gr * c)%R; g_filters := g_filters gr |}) st.
Definition mg_div (c : R) (st : mg_state) : mg_state :=
  map (fun gr => {| g_vals := g_vals gr; g_factor := (g_factor gr / c)%R; g_filters := g_filters gr |}) st.

(* a stack machine over signal objects: push a new one-term signal, add the two topmost (second + top), filter / scale the
   topmost, read the topmost *)
Inductive mg_op : Type :=
  | MPush (vals : list R)
  | MAdd
  | MFilter (g : R -> C) (force_real : bool)
  | MScale (c : R)
  | MDiv (c : R)
  | MRead.

Fixpoint mg_run (times : list R) (stack : list mg_state) (ops : list mg_op) : list (list R) :=
  match ops with
  | [] => []
  | op :: rest =>
    match op, stack with
    | MPush v, _ => mg_run times ([{| g_vals := v; g_factor := 1; g_filters := [] |}] :: stack) rest
    | MAdd, b :: a :: s => mg_run times ((a ++ b) :: s) rest
    | MFilter g fr, a :: s => mg_run times (mg_filter g fr a :: s) rest
    | MScale c, a :: s => mg_run times (mg_scale c a :: s) rest
    | MDiv c, a :: s => mg_run times (mg_div c a :: s) rest
    | MRead, a :: s => mg_read times a :: mg_run times stack rest
    | _, _ => mg_run times stack rest
    end
  end.
