(* Lists of reals as NumPy uses them in the tracers: np.sum, np.cumsum, zip of consecutive rows. *)
From Coq Require Import Reals List Lra.
Import ListNotations.
Open Scope R_scope.

Definition sum_list (l : list R) : R := fold_right Rplus 0 l.

Fixpoint cumsum_from (acc : R) (l : list R) : list R :=
  match l with
  | [] => []
  | x :: r => (acc + x) :: cumsum_from (acc + x) r
  end.
Definition cumsum (l : list R) : list R := cumsum_from 0 l.

(* [f a0 b0; f a1 b1; ...] for zip(a, b) *)
Fixpoint map2 {A B C} (f : A -> B -> C) (a : list A) (b : list B) : list C :=
  match a, b with
  | x :: a', y :: b' => f x y :: map2 f a' b'
  | _, _ => []
  end.

(* zip(rows[:-1], rows[1:]) *)
Definition consecutive {A C} (f : A -> A -> C) (rows : list A) : list C := map2 f (removelast rows) (tl rows).

Lemma sum_list_app a b : sum_list (a ++ b) = sum_list a + sum_list b.
Proof. induction a; simpl; [ring | rewrite IHa; ring]. Qed.

Lemma sum_list_repeat x n : sum_list (repeat x n) = INR n * x.
Proof.
  induction n; [simpl; ring|].
  change (repeat x (S n)) with (x :: repeat x n).
  change (sum_list (x :: repeat x n)) with (x + sum_list (repeat x n)).
  rewrite IHn, S_INR. ring.
Qed.

Lemma sum_list_map_scale k l : sum_list (map (fun x => k * x) l) = k * sum_list l.
Proof. induction l; simpl; [ring | rewrite IHl; ring]. Qed.

Lemma sum_list_nonneg l : Forall (fun x => 0 <= x) l -> 0 <= sum_list l.
Proof. induction 1; simpl; lra. Qed.

Lemma consecutive_cons {A C} (f : A -> A -> C) a b l :
  consecutive f (a :: b :: l) = f a b :: consecutive f (b :: l).
Proof. reflexivity. Qed.

Lemma consecutive_single {A C} (f : A -> A -> C) a : consecutive f [a] = [].
Proof. reflexivity. Qed.
