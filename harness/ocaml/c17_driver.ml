(* Driver for the extracted thermal-noise model (Model/NoiseModel.v -> noise.ml).
   One case per line, blank-separated tokens, floats in hex notation.
     fft     <t0> <tend> <dt> <unique> <ntimes> <fmin> <fmax> <rms> <nf> <amps x nf> <phases x nf> <nt> <ts x nt>
     fftfreq <unique> <ntimes> <dt> <fmin> <fmax>
     full    <n> <freqs x n> <amps x n> <phases x n> <rms> <nt> <ts x nt>
     fullfreq <fmin> <fmax> <tspan> <uf>
     rms     <has_rms 0|1> <rms> <has_T> <T> <has_R> <R> <fmin> <fmax>
     zerodc  <n> <freqs x n> <amps x n>
   Output: one line of hex floats per case ("none" when the model returns None). *)
let () =
  try
    while true do
      let line = input_line stdin in
      let toks = Array.of_list (List.filter (fun s -> s <> "") (String.split_on_char ' ' line)) in
      let pos = ref 1 in
      let nf () = let v = float_of_string toks.(!pos) in incr pos; v in
      let ni () = let v = int_of_string toks.(!pos) in incr pos; v in
      let nlist n = let rec go i acc = if i = 0 then List.rev acc else go (i - 1) (nf () :: acc) in go n [] in
      let out_r l = print_string (String.concat " " (List.map (Printf.sprintf "%h") l)); print_newline () in
      (match toks.(0) with
       | "fft" ->
         let t0 = nf () in let tend = nf () in let dt = nf () in let unique = ni () in let ntimes = ni () in
         let fmin = nf () in let fmax = nf () in let rms = nf () in
         let k = ni () in let amps = nlist k in let phases = nlist k in
         let nt = ni () in let ts = nlist nt in
         let z = { Noise.fn_t0 = t0; fn_tend = tend; fn_dt = dt; fn_unique = unique; fn_ntimes = ntimes;
                   fn_fmin = fmin; fn_fmax = fmax; fn_amps = amps; fn_phases = phases; fn_rms = rms } in
         out_r (Noise.fft_noise_values z ts)
       | "fftfreq" ->
         let unique = ni () in let ntimes = ni () in let dt = nf () in let fmin = nf () in let fmax = nf () in
         out_r (Noise.fft_freqs (Noise.fft_M unique ntimes) dt fmin fmax)
       | "full" ->
         let n = ni () in let freqs = nlist n in let amps = nlist n in let phases = nlist n in
         let rms = nf () in let nt = ni () in let ts = nlist nt in
         out_r (Noise.full_noise_values freqs amps phases rms ts)
       | "fullfreq" ->
         let fmin = nf () in let fmax = nf () in let tspan = nf () in let uf = nf () in
         out_r (Noise.full_freqs fmin fmax (Noise.full_nfreqs fmin fmax tspan uf))
       | "rms" ->
         let opt () = let h = ni () in let v = nf () in if h = 1 then Some v else None in
         let r = opt () in let t = opt () in let rs = opt () in let fmin = nf () in let fmax = nf () in
         (match Noise.noise_rms r t rs fmin fmax with Some v -> out_r [v] | None -> print_endline "none")
       | "zerodc" ->
         let n = ni () in let freqs = nlist n in let amps = nlist n in
         out_r (Noise.zero_dc freqs amps)
       | _ -> failwith ("bad op " ^ toks.(0)))
    done
  with End_of_file -> ()
