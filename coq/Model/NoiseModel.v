(* Model of pyrex/signals.py FullThermalNoise / FFTThermalNoise (= ThermalNoise), following the
   code as written (after the two `fix:` commits for the interpolation period and the Nyquist
   weight).  No proofs here.

   FFTThermalNoise.__init__ / get_fft_values:
     M         = int(uniqueness_factor) * len(times)            (uniqueness_factor < 1 -> 1)
     dt        = times[1] - times[0]
     all_freqs = rfftfreq(M, dt);  band = (all_freqs >= f_min) & (all_freqs <= f_max)
     freqs     = all_freqs[band];  amps (DC forced to 0), phases: one per band bin
     amps_all[band] = amps; phases_all[band] = phases;  (even M) amps_all[-1] *= 2
     fft_values = irfft(amps_all * exp(-1j*phases_all), n=M) * M * sqrt(1/(2*n_freqs))
     length    = (times[-1]-times[0]+dt)*unique - dt
     fft_times = linspace(times[0], times[0]+length, M)
     values    = np.interp(ts, fft_times, fft_values, period=length+dt) * rms
   FullThermalNoise: freqs = linspace(f_min, f_max, n, endpoint=False),
     f(ts) = sum(amp*cos(2 pi freq ts + phase)) * sqrt(2/n) * rms. *)
From Coq Require Import Reals ZArith List Bool Arith.
From Coquelicot Require Import Coquelicot.
From PyrexLib Require Import DFT.
Import ListNotations.
Local Open Scope R_scope.

(* ------------------------------------------------------------------ common pieces *)
Definition k_B : R := 1380649 / 10 ^ 29.          (* scipy.constants.k, exact SI value *)

(* self.rms *)
Definition noise_rms (rms_voltage temperature resistance : option R) (fmin fmax : R) : option R :=
  match rms_voltage with
  | Some r => Some r
  | None => match temperature, resistance with
            | Some T, Some Rs => Some (sqrt (k_B * T * Rs * (fmax - fmin)))
            | _, _ => None                        (* ValueError *)
            end
  end.

(* "if 0 in self.freqs: self.amps[freqs==0] = 0" *)
Fixpoint zero_dc (freqs amps : list R) : list R :=
  match freqs, amps with
  | f :: fs, a :: az => (if Req_EM_T f 0 then 0 else a) :: zero_dc fs az
  | _, _ => []
  end.

(* ------------------------------------------------------------------ FFT variant *)
Definition rfftfreq (n : nat) (d : R) (k : nat) : R := INR k * (1 / (INR n * d)).

Definition in_band (fmin fmax f : R) : bool :=
  if Rle_dec fmin f then (if Rle_dec f fmax then true else false) else false.

Definition band_bins (M : nat) (dt fmin fmax : R) : list nat :=
  filter (fun k => in_band fmin fmax (rfftfreq M dt k)) (seq 0 (M / 2 + 1)).

Definition fft_freqs (M : nat) (dt fmin fmax : R) : list R :=
  map (rfftfreq M dt) (band_bins M dt fmin fmax).

Definition fft_M (uniqueness_factor : Z) (ntimes : nat) : nat :=
  (Z.to_nat (Z.max 1 uniqueness_factor) * ntimes)%nat.

(* arr = zeros; arr[band] = vals  (boolean-mask assignment, in order) *)
Fixpoint lookup {A} (bins : list nat) (vals : list A) (k : nat) : option A :=
  match bins, vals with
  | b :: bs, v :: vs => if (b =? k)%nat then Some v else lookup bs vs k
  | _, _ => None
  end.

Definition scatter (bins : list nat) (vals : list R) (k : nat) : R :=
  match lookup bins vals k with Some v => v | None => 0 end.

(* weight of the Nyquist bin (the second fix) *)
Definition nyq_weight (M k : nat) : R := if (Nat.even M && (2 * k =? M)%nat)%bool then 2 else 1.

(* amps_all * exp(-1j*phases_all) *)
Definition noise_spectrum (M : nat) (A Phi : nat -> R) (k : nat) : C :=
  Cmult (RtoC (nyq_weight M k * A k)) (cis (- Phi k)).

(* Hermitian extension used by the inverse real transform: imaginary parts of the DC and
   Nyquist bins are ignored *)
Definition hermext (M : nat) (X : nat -> C) (k : nat) : C :=
  if (k =? 0)%nat then RtoC (Re (X k))
  else if (2 * k <? M)%nat then X k
  else if (2 * k =? M)%nat then RtoC (Re (X k))
  else Cconj (X (M - k)%nat).

Definition irfft (M : nat) (X : nat -> C) (n : nat) : R := Re (idft M (hermext M X) n).

Definition fft_value (M nf : nat) (A Phi : nat -> R) (n : nat) : R :=
  irfft M (noise_spectrum M A Phi) n * (INR M * sqrt (1 / (2 * INR nf))).

(* x % p for p > 0 *)
Definition fmod (x p : R) : R := x - IZR (Int_part (x / p)) * p.

(* np.interp(t, t0 + h*arange(M), v, period=P): periodic piecewise-linear interpolation; the
   last segment runs from knot M-1 to knot 0 of the next period *)
Definition interp_periodic (t0 h P : R) (M : nat) (v : nat -> R) (t : R) : R :=
  let u := fmod (t - t0) P in
  let j := Nat.min (Z.to_nat (Int_part (u / h))) (M - 1) in
  let x0 := INR j * h in
  let x1 := if (j =? M - 1)%nat then P else INR (j + 1) * h in
  let v0 := v j in
  let v1 := v ((j + 1) mod M)%nat in
  (v1 - v0) / (x1 - x0) * (u - x0) + v0.

Record fft_noise := {
  fn_t0 : R;  fn_tend : R;  fn_dt : R;  fn_unique : Z;  fn_ntimes : nat;
  fn_fmin : R;  fn_fmax : R;
  fn_amps : list R;  fn_phases : list R;  fn_rms : R }.

Definition fn_M (z : fft_noise) : nat := fft_M (fn_unique z) (fn_ntimes z).
Definition fn_bins (z : fft_noise) : list nat := band_bins (fn_M z) (fn_dt z) (fn_fmin z) (fn_fmax z).
Definition fn_freqs (z : fft_noise) : list R := fft_freqs (fn_M z) (fn_dt z) (fn_fmin z) (fn_fmax z).
Definition fn_length (z : fft_noise) : R :=
  (fn_tend z - fn_t0 z + fn_dt z) * IZR (Z.max 1 (fn_unique z)) - fn_dt z.

(* get_fft_values for one time *)
Definition fft_noise_value (z : fft_noise) (t : R) : R :=
  let bins := fn_bins z in
  let nf := length bins in
  if (nf =? 0)%nat then 0 else
  let M := fn_M z in
  let A := scatter bins (fn_amps z) in
  let Phi := scatter bins (fn_phases z) in
  let len := fn_length z in
  interp_periodic (fn_t0 z) (len / INR (M - 1)) (len + fn_dt z) M (fft_value M nf A Phi) t * fn_rms z.

(* .values / with_times(ts).values *)
Definition fft_noise_values (z : fft_noise) (ts : list R) : list R := map (fft_noise_value z) ts.

(* ------------------------------------------------------------------ Full variant *)
Definition full_nfreqs (fmin fmax tspan uniqueness_factor : R) : nat :=
  let n := (fmax - fmin) * tspan in
  let n := if Rlt_dec n 1 then 1 else n in
  let u := if Rlt_dec uniqueness_factor 1 then 1 else uniqueness_factor in
  Z.to_nat (Int_part (n * u)).

(* np.linspace(fmin, fmax, n, endpoint=False) *)
Definition full_freqs (fmin fmax : R) (n : nat) : list R :=
  map (fun i => INR i * ((fmax - fmin) / INR n) + fmin) (seq 0 n).

Fixpoint cos_terms (freqs amps phases : list R) (t : R) : list R :=
  match freqs, amps, phases with
  | f :: fs, a :: az, p :: ps => a * cos (2 * PI * f * t + p) :: cos_terms fs az ps t
  | _, _, _ => []
  end.

(* FullThermalNoise.f for one time: python sum() adds left to right starting from 0 *)
Definition full_noise_value (freqs amps phases : list R) (rms t : R) : R :=
  fold_left Rplus (cos_terms freqs amps phases t) 0 * sqrt (2 / INR (length freqs)) * rms.

Definition full_noise_values (freqs amps phases : list R) (rms : R) (ts : list R) : list R :=
  map (full_noise_value freqs amps phases rms) ts.
