(* NumPy primitives used by the numeric ray tracer (Gen_ray.v): np.linspace and the
   trapezoid rule with a constant step (pyrex.internal_functions.trapezoid(ys, dx=h)). *)
From Coq Require Import Reals List Bool ZArith Lra Lia.
Import ListNotations.
Open Scope R_scope.

(* np.linspace(a, b, n): n points a + i * step, step = (b - a) / (n - 1).  For n = 1 NumPy
   returns [a] and step nan; here the step is (b-a)/0, a value nothing depends on because the
   trapezoid sum over a single point is empty. *)
Definition linspace_step (a b : R) (n : Z) : R := (b - a) / IZR (n - 1).
Definition linspace (a b : R) (n : Z) : list R :=
  map (fun i : nat => a + IZR (Z.of_nat i) * linspace_step a b n) (seq 0 (Z.to_nat n)).
Definition linspace_retstep (a b : R) (n : Z) : (list R * R) := (linspace a b n, linspace_step a b n).

(* trapezoid(ys, dx=h) = sum_i h * (y_i + y_{i+1}) / 2 *)
Fixpoint trapz_dx (ys : list R) (h : R) : R :=
  match ys with
  | y0 :: ((y1 :: _) as r) => h * (y0 + y1) / 2 + trapz_dx r h
  | _ => 0
  end.
