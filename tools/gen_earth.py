"""Gen_earth.v: the Earth models of pyrex/earth_model.py.

Translated on every run (fail-closed): the class tables `earth_radius`, `radii`, `densities`
of PREM and CoreMantleCrustModel and the scalar geometry of `slant_depth` (shift to
Earth-centred coordinates, normalisation, dot product, discriminant, exit distance, the
integer step arithmetic and the number of sample points handed to np.linspace).

Hand-modelled in coq/Model/EarthModel.v and pinned by AST hash:
  * PREM.density  (np.piecewise over half-open shells)            -> shell_density
  * the tail of slant_depth after `ts = np.linspace(0, 1, <n>)`    -> chord_integral
    (sample radii along the chord, density, trapezoid rule times 100)
"""
import ast
import hashlib
import os
import sys

sys.path.insert(0, os.path.dirname(os.path.abspath(__file__)))
from py2coq import Module, ClassTr, FnTr, TranslationError, ast_pin

SOURCE = "pyrex/earth_model.py"
MODELS = ["PREM", "CoreMantleCrustModel"]
TAIL_NAMES = {"endpoint", "direction", "distance", "ts", "xs", "ys", "zs", "rs", "rhos", "np", "self", "trapezoid"}


class EarthFn(FnTr):
    """FnTr + integer arithmetic with literal ints, truthiness of a real, and the
    np.linspace hand-over to the hand-modelled chord integral."""
    prefix = None
    tail_hash = None

    def e_Constant(self, n):
        # float literals as exact decimals WITHOUT exponent (6.3710e6 -> 6371000): the value is the
        # same real number, and the float execution of the model then reads the literal with one
        # correctly rounded division at most (shell boundaries are discontinuities)
        if isinstance(n.value, float) and not isinstance(n.value, bool):
            from decimal import Decimal
            from fractions import Fraction
            text = ast.get_source_segment(self.mod.text, n) or repr(n.value)
            try:
                q = Fraction(Decimal(text.replace("_", "")))
            except Exception:
                self.err(n, "unreadable float literal")
            if q.denominator == 1:
                return (str(q.numerator) if q >= 0 else "(%d)" % q.numerator), "R"
            d = Decimal(text.replace("_", ""))
            plain = format(d, "f")
            return (plain if q >= 0 else "(%s)" % plain), "R"
        return FnTr.e_Constant(self, n)

    def e_BinOp(self, n):
        op = type(n.op).__name__
        if op in ("Add", "Sub", "Mult"):
            for a, b, flip in ((n.left, n.right, False), (n.right, n.left, True)):
                if isinstance(b, ast.Constant) and isinstance(b.value, int) and not isinstance(b.value, bool):
                    c, t = self.expr(a)
                    if t == "Z":
                        sym = {"Add": "+", "Sub": "-", "Mult": "*"}[op]
                        lit = str(b.value) if b.value >= 0 else "(%d)" % b.value
                        l, r = (lit, c) if flip else (c, lit)
                        return "(%s %s %s)%%Z" % (l, sym, r), "Z"
        return FnTr.e_BinOp(self, n)

    def boolean(self, n):
        c, t = self.expr(n)
        if t == "R":            # `if x:` on a float: true iff x != 0
            return "(negb (Reqb %s 0))" % c, "bool"
        if t == "Z":
            return "(negb (Z.eqb %s 0))" % c, "bool"
        if t != "bool":
            self.err(n, "expected a boolean, got %s" % t)
        return c, t

    def block(self, stmts, k=None):
        if stmts and isinstance(stmts[0], ast.Assign) and isinstance(stmts[0].value, ast.Call) \
                and self.dotted(stmts[0].value.func) == ("np", "linspace"):
            s = stmts[0]
            call = s.value
            if not (len(call.args) == 3 and not call.keywords
                    and isinstance(call.args[0], ast.Constant) and call.args[0].value == 0
                    and isinstance(call.args[1], ast.Constant) and call.args[1].value == 1
                    and len(s.targets) == 1 and isinstance(s.targets[0], ast.Name) and s.targets[0].id == "ts"):
                self.err(s, "np.linspace must be `ts = np.linspace(0, 1, <integer expression>)`")
            npts, t = self.expr(call.args[2])
            if t != "Z":
                self.err(s, "the number of sample points must be an integer expression, got %s" % t)
            tail = stmts[1:]
            for st in tail:
                for nd in ast.walk(st):
                    if isinstance(nd, ast.Name) and nd.id not in TAIL_NAMES:
                        self.err(nd, "the hand-modelled tail of slant_depth refers to %r" % nd.id)
            for v in ("endpoint", "direction", "distance"):
                if v not in self.vars:
                    self.err(s, "variable %r is not defined before the sampling loop" % v)
            want = {"endpoint": "vec3", "direction": "vec3", "distance": "R"}
            for v, ty in want.items():
                if self.vars[v][1] != ty:
                    self.err(s, "variable %r has type %s, expected %s" % (v, self.vars[v][1], ty))
            EarthFn.tail_hash = hashlib.sha256("\n".join(ast.dump(st, include_attributes=False) for st in tail).encode()).hexdigest()[:16]
            self.ret_types.append("R")
            return "chord_integral %s_density %s %s %s %s" % (
                self.cname, self.vars["endpoint"][0], self.vars["direction"][0], self.vars["distance"][0], npts)
        return FnTr.block(self, stmts, k)


def generate(repo):
    mod = Module(repo, SOURCE)
    mod.out.append("From PyrexModel Require Import EarthModel.")
    hashes = {}
    for cname in MODELS:
        ct = ClassTr(mod, cname, param_types={"slant_depth": {"endpoint": "vec3", "direction": "vec3"}})
        ct.fn_class = EarthFn
        for m in ("earth_radius", "radii", "densities"):
            r = ct.member(m)
            if r is None:
                raise TranslationError("%s: %s.%s not found" % (SOURCE, cname, m))
        if ct.done["radii"][2] != "listR" or ct.done["densities"][2] not in ("listfun", "listR") or ct.done["earth_radius"][2] != "R":
            raise TranslationError("%s: %s tables have unexpected types %s" % (SOURCE, cname, {k: v[2] for k, v in ct.done.items()}))
        # density: hand model (np.piecewise), instantiated with the generated tables
        # (np.piecewise treats scalar entries of funclist as constant functions)
        dens = "%s_densities" % cname if ct.done["densities"][2] == "listfun" else "(const_funs %s_densities)" % cname
        mod.emit("Definition %s_density (r : R) : R :=\n  shell_density %s_radii %s %s_earth_radius r." % (cname, cname, dens, cname))
        ct.done["density"] = ("%s_density" % cname, "method", "R")
        EarthFn.tail_hash = None
        if ct.member("slant_depth") is None:
            raise TranslationError("%s: %s.slant_depth not found" % (SOURCE, cname))
        if EarthFn.tail_hash is None:
            raise TranslationError("%s: %s.slant_depth has no `ts = np.linspace(0, 1, n)` sampling step" % (SOURCE, cname))
        hashes["%s.slant_depth.tail" % cname] = EarthFn.tail_hash
    hashes.update(mod.hashes)
    pins = {"PREM.density": ast_pin(repo, SOURCE, "PREM.density"),
            "PREM.slant_depth.tail": hashes["PREM.slant_depth.tail"],
            "normalize": ast_pin(repo, "pyrex/internal_functions.py", "normalize")}
    # subclasses must not override the hand-modelled methods
    tree = mod.classes["CoreMantleCrustModel"]
    for n in tree.body:
        if isinstance(n, ast.FunctionDef):
            raise TranslationError("%s: CoreMantleCrustModel defines method %s (expected tables only)" % (SOURCE, n.name))
    return mod.result(), {"hashes": hashes, "pins": pins}


if __name__ == "__main__":
    text, h = generate(sys.argv[1])
    print(text)
    print(h, file=sys.stderr)
