(* C03, part 3: propagate() -- time grid, linearity, passivity -- relative to C05's facts about
   Signal.filter_frequencies (hypotheses of the section, named after C05's theorems). *)
From Coq Require Import Reals List Bool ZArith Lra Lia Psatz.
From PyrexLib Require Import RealPrims Vec3Facts CPair SignalAlg ListOps.
From PyrexGen Require Import Gen_ice Gen_prop.
From PyrexModel Require Import PropagationModel.
From PyrexProofs Require Import C03_fresnel C03_proofs.
Import ListNotations.
Open Scope R_scope.
Set Default Timeout 120.

(* what propagate(signal, polarization) does, written once *)
Definition propagate_spec (filt : (R -> R * R) -> bool -> Sig -> Sig) (e r : vec3) (phi tof : R)
           (signal : Sig) (pol : vec3) (Hs Hp : R -> Cx) : (Sig * Sig) * (vec3 * vec3) :=
  let u_s0 := us0 e phi in
  let u_p0 := vnormalize (vcross u_s0 e) in
  let u_p1 := vnormalize (vcross u_s0 r) in
  ((filt Hs true (sig_shift tof (sig_scale (vdot pol u_s0) signal)),
    filt Hp true (sig_shift tof (sig_scale (vdot pol u_p0) signal))), (u_s0, u_p1)).

Lemma basic_propagate_is_spec filt self signal pol fres freqs atten_vals :
  BasicRayTracePath_propagate_both filt self signal pol fres freqs atten_vals
  = propagate_spec filt (Path_emitted_direction self) (Path_received_direction self) (Path_phi self) (Path_tof self) signal pol
      (fun f => cscale (np_interp f freqs atten_vals) (fst fres)) (fun f => cscale (np_interp f freqs atten_vals) (snd fres)).
Proof. unfold BasicRayTracePath_propagate_both, propagate_spec. destruct fres. reflexivity. Qed.

Lemma uniform_propagate_is_spec filt self signal pol fres att :
  UniformRayTracePath_propagate_both filt self signal pol fres att
  = propagate_spec filt (UPath_emitted_direction self) (UPath_received_direction self) (UPath_phi self) (UPath_tof self) signal pol
      (fun f => cscale (att f) (fst fres)) (fun f => cscale (att f) (snd fres)).
Proof. unfold UniformRayTracePath_propagate_both, propagate_spec. destruct fres. reflexivity. Qed.

Lemma layered_propagate_is_spec filt self signal pol fres att :
  LayeredRayTracePath_propagate_both filt self signal pol fres att
  = propagate_spec filt (LPath_emitted_direction self) (LPath_received_direction self) (LPath_phi self) (LPath_tof self) signal pol
      (fun f => cscale (att f) (fst fres)) (fun f => cscale (att f) (snd fres)).
Proof. unfold LayeredRayTracePath_propagate_both, propagate_spec. destruct fres. reflexivity. Qed.

(* the polarization-basis functions are the same construction *)
Lemma basic_pol_basis_is self pol :
  BasicRayTracePath_pol_basis self pol
  = let u_s0 := us0 (Path_emitted_direction self) (Path_phi self) in
    let u_p0 := vnormalize (vcross u_s0 (Path_emitted_direction self)) in
    let u_p1 := vnormalize (vcross u_s0 (Path_received_direction self)) in
    (u_s0, u_p0, u_p1, vdot pol u_s0, vdot pol u_p0).
Proof. reflexivity. Qed.

Lemma cabs_cscale_le a z : 0 <= a <= 1 -> cabs2 z <= 1 -> cabs (cscale a z) <= 1.
Proof.
  intros Ha Hz. apply cabs_le_1. rewrite cabs2_scale. pose proof (cabs2_nonneg z).
  assert (a * a <= 1) by nra. replace 1 with (1 * 1) by ring. apply Rmult_le_compat; nra.
Qed.

Section WithFilter.
  Variable F : list R -> list R -> (R -> R * R) -> bool -> list R.
  Hypothesis filter_length : forall times xs g fr,
    (length times <= 2 * length xs)%nat -> length (F times xs g fr) = length times.
  Hypothesis filter_linear : forall times xs ys a b g fr n,
    length xs = length ys -> length times = length xs -> (n < length times)%nat ->
    nth n (F times (lincomb a b xs ys) g fr) 0 = a * nth n (F times xs g fr) 0 + b * nth n (F times ys g fr) 0.
  Hypothesis filter_passive : forall times xs g fr,
    length times = length xs -> (forall u, cabs (g u) <= 1) -> energy (F times xs g fr) <= energy xs.
  (* C05 filter_offset_independent is not needed: the shifted grid is passed as is *)

  Definition sig_filter_F (g : R -> R * R) (fr : bool) (s : Sig) : Sig :=
    mkSig (sg_times s) (F (sg_times s) (sg_values s) g fr) (sg_type s).
  Definition wf (s : Sig) : Prop := length (sg_times s) = length (sg_values s).

  Lemma F_linear_list times xs ys a b g fr :
    length xs = length ys -> length times = length xs ->
    F times (lincomb a b xs ys) g fr = lincomb a b (F times xs g fr) (F times ys g fr).
  Proof.
    intros L1 L2.
    assert (La : length (F times (lincomb a b xs ys) g fr) = length times)
      by (apply filter_length; rewrite lincomb_length by assumption; lia).
    assert (Lx : length (F times xs g fr) = length times) by (apply filter_length; lia).
    assert (Ly : length (F times ys g fr) = length times) by (apply filter_length; lia).
    apply nth_ext_R.
    - rewrite La, lincomb_length by congruence. congruence.
    - intros n Hn. rewrite La in Hn. rewrite nth_lincomb by congruence. apply filter_linear; assumption.
  Qed.

  Variables (e r : vec3) (phi tof : R) (Hs Hp : R -> Cx).
  Notation prop := (propagate_spec sig_filter_F e r phi tof).

  (* output grid = input grid + tof, same length, same number of samples *)
  Lemma propagate_grid signal pol : wf signal ->
    let '((os, op), _) := prop signal pol Hs Hp in
    sg_times os = map (fun t => t + tof) (sg_times signal) /\ sg_times op = map (fun t => t + tof) (sg_times signal) /\
    length (sg_values os) = length (sg_times signal) /\ length (sg_values op) = length (sg_times signal).
  Proof.
    intros W. unfold propagate_spec, sig_filter_F, sig_shift, sig_scale; simpl.
    unfold wf in W. repeat split; try reflexivity; apply eq_trans with (length (map (fun t => t + tof) (sg_times signal)));
      try (apply filter_length; rewrite !map_length; lia); apply map_length.
  Qed.

  Lemma scale_lincomb c a b xs ys : length xs = length ys ->
    map (Rmult c) (lincomb a b xs ys) = lincomb a b (map (Rmult c) xs) (map (Rmult c) ys).
  Proof. intros _. apply map_scale_lincomb. Qed.

  Lemma scale_sum_lincomb a b s1 s2 xs :
    map (Rmult (a * s1 + b * s2)) xs = lincomb a b (map (Rmult s1) xs) (map (Rmult s2) xs).
  Proof. unfold lincomb. induction xs; simpl; [reflexivity | rewrite IHxs; f_equal; ring]. Qed.

  (* linear in the signal *)
  Lemma propagate_linear_signal a b x y pol :
    wf x -> sg_times y = sg_times x -> length (sg_values y) = length (sg_values x) ->
    let sxy := mkSig (sg_times x) (lincomb a b (sg_values x) (sg_values y)) (sg_type x) in
    let '((os, op), _) := prop sxy pol Hs Hp in
    let '((xs_, xp_), _) := prop x pol Hs Hp in
    let '((ys_, yp_), _) := prop y pol Hs Hp in
    sg_values os = lincomb a b (sg_values xs_) (sg_values ys_) /\ sg_values op = lincomb a b (sg_values xp_) (sg_values yp_).
  Proof.
    intros W T L. unfold propagate_spec, sig_filter_F, sig_shift, sig_scale; simpl. unfold wf in W.
    rewrite T. split; (rewrite scale_lincomb by congruence; apply F_linear_list; rewrite !map_length; congruence).
  Qed.

  (* linear in the polarization vector *)
  Lemma propagate_linear_polarization a b x p q :
    wf x ->
    let '((os, op), _) := prop x (vadd (vscale a p) (vscale b q)) Hs Hp in
    let '((ps_, pp_), _) := prop x p Hs Hp in
    let '((qs_, qp_), _) := prop x q Hs Hp in
    sg_values os = lincomb a b (sg_values ps_) (sg_values qs_) /\ sg_values op = lincomb a b (sg_values pp_) (sg_values qp_).
  Proof.
    intros W. unfold propagate_spec, sig_filter_F, sig_shift, sig_scale; simpl. unfold wf in W.
    assert (D : forall u, vdot (vadd (vscale a p) (vscale b q)) u = a * vdot p u + b * vdot q u)
      by (intros; unfold vdot, vadd, vscale, vx, vy, vz; simpl; ring).
    rewrite !D, !scale_sum_lincomb.
    split; apply F_linear_list; rewrite !map_length; congruence.
  Qed.

  (* passive: with |H_s|, |H_p| <= 1 the two outputs together carry at most |pol|^2 times the
     input energy *)
  Lemma propagate_passive signal pol : wf signal ->
    (forall u, cabs (Hs u) <= 1) -> (forall u, cabs (Hp u) <= 1) ->
    let '((os, op), _) := prop signal pol Hs Hp in
    energy (sg_values os) + energy (sg_values op) <= vdot pol pol * energy (sg_values signal).
  Proof.
    intros W H1 H2. unfold propagate_spec, sig_filter_F, sig_shift, sig_scale; simpl. unfold wf in W.
    set (ps := vdot pol (us0 e phi)).
    set (pp := vdot pol (vnormalize (vcross (us0 e phi) e))).
    assert (E1 : energy (F (map (fun t => t + tof) (sg_times signal)) (map (Rmult ps) (sg_values signal)) Hs true)
                 <= ps * ps * energy (sg_values signal)).
    { rewrite <- energy_scale. apply filter_passive; [rewrite !map_length; assumption | assumption]. }
    assert (E2 : energy (F (map (fun t => t + tof) (sg_times signal)) (map (Rmult pp) (sg_values signal)) Hp true)
                 <= pp * pp * energy (sg_values signal)).
    { rewrite <- energy_scale. apply filter_passive; [rewrite !map_length; assumption | assumption]. }
    pose proof (pol_amplitudes_bounded e phi pol) as B. cbv zeta in B. fold ps pp in B.
    pose proof (energy_nonneg (sg_values signal)) as EN. nra.
  Qed.
End WithFilter.

(* non-vacuity of the hypotheses used in this part *)
Example increasing_grid_exists : increasing [-2; -1; 0; 1; 2].
Proof. simpl. repeat split; lra. Qed.
Example non_vertical_direction_exists : vnorm (vcross (1, 0, 0) zhat) <> 0.
Proof.
  unfold vnorm, vdot, vcross, zhat, vx, vy, vz; simpl.
  replace ((0 * 1 - 0 * 0) * (0 * 1 - 0 * 0) + (0 * 0 - 1 * 1) * (0 * 0 - 1 * 1) + (1 * 0 - 0 * 0) * (1 * 0 - 0 * 0)) with 1 by ring.
  rewrite sqrt_1. lra.
Qed.
Example temperature_in_range_at_depth : temp_ok (-1000).
Proof. unfold temp_ok, AntarcticIce_temperature, zero_Celsius. lra. Qed.

(* ---- assembled statements (the Props file only says `exact`) ---- *)
Lemma attenuation_in_unit_interval_all_tracers_stmt :
  (forall p f, 0 < BasicRayTracePath_attenuation p f <= 1) /\
  (forall f beta ice segs, 0 < specialized_attenuation f beta ice segs <= 1) /\
  (forall self f dz points, 0 < uniform_attenuation self f dz points <= 1) /\
  (forall parts, (forall x, In x parts -> 0 < x <= 1) -> 0 < layered_attenuation parts <= 1).
Proof.
  split; [exact basic_attenuation_unit|]. split; [exact specialized_attenuation_unit|].
  split; [exact uniform_attenuation_unit | exact layered_attenuation_unit].
Qed.

Lemma atten_length_antitone_in_f_stmt :
  (forall s z f1 f2, temp_ok z -> 0 < f1 <= f2 ->
     AntarcticIce_attenuation_length s z f2 <= AntarcticIce_attenuation_length s z f1) /\
  (forall s z f1 f2, -100 <= UniformIce_temperature z - zero_Celsius <= 5 -> 0 < f1 <= f2 ->
     UniformIce_attenuation_length s z f2 <= UniformIce_attenuation_length s z f1) /\
  (forall s z f1 f2, f1 <= f2 -> GreenlandIce_attenuation_length s z f2 <= GreenlandIce_attenuation_length s z f1) /\
  (forall s z f1 f2, ArasimIce_attenuation_length s z f1 = ArasimIce_attenuation_length s z f2).
Proof.
  split; [exact antarctic_atten_length_antitone|]. split; [exact uniform_atten_length_antitone|].
  split; [exact greenland_atten_length_antitone | exact arasim_atten_length_constant].
Qed.

Lemma fresnel_basic_stmt : forall p,
  let top := snd (Ice_valid_range (Path_ice p)) in
  let n_1 := AntarcticIce_index (Path_ice p) top in
  let n_2 := AntarcticIce_index_above (Path_ice p) in
  let th := BasicRayTracePath_theta p top in
  (basic_reflects p = false -> BasicRayTracePath_fresnel p = (c_one, c_one)) /\
  (0 < n_1 -> 0 < n_2 -> 0 < cos th -> 0 <= sin th ->
   cabs2 (fst (BasicRayTracePath_fresnel p)) <= 1 /\ cabs2 (snd (BasicRayTracePath_fresnel p)) <= 1 /\
   (basic_reflects p = true -> 1 < n_1 / n_2 * sin th ->
      cabs2 (fst (BasicRayTracePath_fresnel p)) = 1 /\ cabs2 (snd (BasicRayTracePath_fresnel p)) = 1)).
Proof.
  intros p. split; [apply basic_fresnel_direct | apply basic_fresnel_le_1].
Qed.

Lemma fresnel_layered_transmission_le_1_refuted_stmt :
  exists n_1 n_2 rz1, 0 < n_2 /\ n_2 < n_1 /\ -1 <= rz1 <= 1 /\
  1 < cabs2 (fst (LayeredRayTracePath_fresnel_transmit n_1 n_2 rz1 c_one c_one)).
Proof.
  exists 1.78, 1.40, 1. repeat split; try lra. exact layered_transmit_exceeds_1.
Qed.

Lemma propagate_is_one_construction_stmt : forall filt,
  (forall self signal pol fres freqs atten_vals,
     BasicRayTracePath_propagate_both filt self signal pol fres freqs atten_vals
     = propagate_spec filt (Path_emitted_direction self) (Path_received_direction self) (Path_phi self) (Path_tof self) signal pol
         (fun f => cscale (np_interp f freqs atten_vals) (fst fres)) (fun f => cscale (np_interp f freqs atten_vals) (snd fres))) /\
  (forall self signal pol fres att,
     UniformRayTracePath_propagate_both filt self signal pol fres att
     = propagate_spec filt (UPath_emitted_direction self) (UPath_received_direction self) (UPath_phi self) (UPath_tof self) signal pol
         (fun f => cscale (att f) (fst fres)) (fun f => cscale (att f) (snd fres))) /\
  (forall self signal pol fres att,
     LayeredRayTracePath_propagate_both filt self signal pol fres att
     = propagate_spec filt (LPath_emitted_direction self) (LPath_received_direction self) (LPath_phi self) (LPath_tof self) signal pol
         (fun f => cscale (att f) (fst fres)) (fun f => cscale (att f) (snd fres))).
Proof.
  intros filt. split; [intros; apply basic_propagate_is_spec|].
  split; intros; [apply uniform_propagate_is_spec | apply layered_propagate_is_spec].
Qed.

Lemma propagate_grid_stmt :
  forall F : list R -> list R -> (R -> R * R) -> bool -> list R,
  (forall times xs g fr, (length times <= 2 * length xs)%nat -> length (F times xs g fr) = length times) ->
  forall e r phi tof Hs Hp signal pol, wf signal ->
  let '((os, op), _) := propagate_spec (sig_filter_F F) e r phi tof signal pol Hs Hp in
  sg_times os = map (fun t => t + tof) (sg_times signal) /\ sg_times op = map (fun t => t + tof) (sg_times signal) /\
  length (sg_values os) = length (sg_times signal) /\ length (sg_values op) = length (sg_times signal).
Proof.
  intros F H. exact (propagate_grid F H).
Qed.

Lemma propagate_linear_stmt :
  forall F : list R -> list R -> (R -> R * R) -> bool -> list R,
  (forall times xs g fr, (length times <= 2 * length xs)%nat -> length (F times xs g fr) = length times) ->
  (forall times xs ys a b g fr n, length xs = length ys -> length times = length xs -> (n < length times)%nat ->
     nth n (F times (lincomb a b xs ys) g fr) 0 = a * nth n (F times xs g fr) 0 + b * nth n (F times ys g fr) 0) ->
  forall e r phi tof Hs Hp,
  (forall a b x y pol, wf x -> sg_times y = sg_times x -> length (sg_values y) = length (sg_values x) ->
     let sxy := mkSig (sg_times x) (lincomb a b (sg_values x) (sg_values y)) (sg_type x) in
     let '((os, op), _) := propagate_spec (sig_filter_F F) e r phi tof sxy pol Hs Hp in
     let '((xs_, xp_), _) := propagate_spec (sig_filter_F F) e r phi tof x pol Hs Hp in
     let '((ys_, yp_), _) := propagate_spec (sig_filter_F F) e r phi tof y pol Hs Hp in
     sg_values os = lincomb a b (sg_values xs_) (sg_values ys_) /\ sg_values op = lincomb a b (sg_values xp_) (sg_values yp_)) /\
  (forall a b x p q, wf x ->
     let '((os, op), _) := propagate_spec (sig_filter_F F) e r phi tof x (vadd (vscale a p) (vscale b q)) Hs Hp in
     let '((ps_, pp_), _) := propagate_spec (sig_filter_F F) e r phi tof x p Hs Hp in
     let '((qs_, qp_), _) := propagate_spec (sig_filter_F F) e r phi tof x q Hs Hp in
     sg_values os = lincomb a b (sg_values ps_) (sg_values qs_) /\ sg_values op = lincomb a b (sg_values pp_) (sg_values qp_)).
Proof.
  intros F H1 H2 e r phi tof Hs Hp. split.
  - exact (propagate_linear_signal F H1 H2 e r phi tof Hs Hp).
  - exact (propagate_linear_polarization F H1 H2 e r phi tof Hs Hp).
Qed.

Lemma propagate_passive_stmt :
  forall F : list R -> list R -> (R -> R * R) -> bool -> list R,
  (forall times xs g fr, length times = length xs -> (forall u, cabs (g u) <= 1) -> energy (F times xs g fr) <= energy xs) ->
  forall e r phi tof Hs Hp signal pol, wf signal ->
  (forall u, cabs (Hs u) <= 1) -> (forall u, cabs (Hp u) <= 1) ->
  let '((os, op), _) := propagate_spec (sig_filter_F F) e r phi tof signal pol Hs Hp in
  energy (sg_values os) + energy (sg_values op) <= vdot pol pol * energy (sg_values signal).
Proof.
  intros F H. exact (propagate_passive F H).
Qed.

Lemma pol_basis_without_vertical_case_refuted_stmt : exists e r, vdot e e = 1 /\ vdot r r = 1 /\
  let u_s0 := vnormalize (vcross e zhat) in
  let u_p1 := vnormalize (vcross u_s0 r) in
  u_s0 = (0, 0, 0) /\ u_p1 = (0, 0, 0) /\ vdot u_s0 u_s0 <> 1.
Proof.
  exists zhat, zhat. split; [unfold vdot, zhat, vx, vy, vz; simpl; ring|].
  split; [unfold vdot, zhat, vx, vy, vz; simpl; ring|]. exact (pol_basis_vertical_zero zhat).
Qed.

Lemma pol_basis_plane_lemma : forall e phi r,
  (vnorm (vcross e zhat) <> 0 -> vdot (vcross e zhat) r = 0 -> vdot (us0 e phi) r = 0) /\
  (vnorm (vcross e zhat) = 0 -> vx r * sin phi - vy r * cos phi = 0 -> vdot (us0 e phi) r = 0) /\
  vdot (us0 e phi) (us0 e phi) = 1 /\ vdot (us0 e phi) e = 0.
Proof.
  intros e phi r. split; [apply us0_perp_r_nonvertical|]. split; [apply us0_perp_r_vertical|].
  split; [apply us0_unit | apply us0_perp_e].
Qed.
