(* C01, part 3: the numeric tracer (BasicRayTracePath.z_integral / BasicRayTracer._direct_r):
   trapezoid sums lie in the Darboux bracket of the partition, and the np.linspace grid has a
   step in [dz, 2 dz) (or degenerates to a single point, integral 0). *)
From Coq Require Import Reals List Bool Lra Lia ZArith.
From Coquelicot Require Import Coquelicot.
From PyrexLib Require Import RealPrims RayPrims.
Import ListNotations.
Open Scope R_scope.

Fixpoint lower_sum (ys : list R) (h : R) : R :=
  match ys with
  | y0 :: ((y1 :: _) as r) => h * Rmin y0 y1 + lower_sum r h
  | _ => 0
  end.
Fixpoint upper_sum (ys : list R) (h : R) : R :=
  match ys with
  | y0 :: ((y1 :: _) as r) => h * Rmax y0 y1 + upper_sum r h
  | _ => 0
  end.

Lemma trapz_between_sums ys h : 0 <= h -> lower_sum ys h <= trapz_dx ys h <= upper_sum ys h.
Proof.
  intros Hh. induction ys as [|y0 r IH]; [simpl; lra|].
  destruct r as [|y1 r']; [simpl; lra|].
  change (lower_sum (y0 :: y1 :: r') h) with (h * Rmin y0 y1 + lower_sum (y1 :: r') h).
  change (upper_sum (y0 :: y1 :: r') h) with (h * Rmax y0 y1 + upper_sum (y1 :: r') h).
  change (trapz_dx (y0 :: y1 :: r') h) with (h * (y0 + y1) / 2 + trapz_dx (y1 :: r') h).
  pose proof (Rmin_l y0 y1). pose proof (Rmin_r y0 y1). pose proof (Rmax_l y0 y1). pose proof (Rmax_r y0 y1).
  assert (h * Rmin y0 y1 <= h * (y0 + y1) / 2 <= h * Rmax y0 y1) by (split; nra).
  lra.
Qed.

(* the integral over one cell lies between the same bounds as the trapezoid of that cell *)
Lemma cell_integral_bracket (f : R -> R) x h m M I : 0 <= h ->
  is_RInt f x (x + h) I -> (forall t, x <= t <= x + h -> m <= f t <= M) -> h * m <= I <= h * M.
Proof.
  intros Hh HI Hb.
  assert (Hm : is_RInt (fun _ => m) x (x + h) (h * m)).
  { replace (h * m) with (scal (x + h - x) m) by (unfold scal; simpl; unfold mult; simpl; ring). apply @is_RInt_const. }
  assert (HM : is_RInt (fun _ => M) x (x + h) (h * M)).
  { replace (h * M) with (scal (x + h - x) M) by (unfold scal; simpl; unfold mult; simpl; ring). apply @is_RInt_const. }
  split.
  - apply (is_RInt_le (fun _ => m) f x (x + h)); try assumption; [lra|]. intros t Ht. apply Hb. lra.
  - apply (is_RInt_le f (fun _ => M) x (x + h)); try assumption; [lra|]. intros t Ht. apply Hb. lra.
Qed.

Lemma cell_trapezoid_bracket y0 y1 h m M : 0 <= h -> m <= y0 <= M -> m <= y1 <= M ->
  h * m <= h * (y0 + y1) / 2 <= h * M.
Proof. intros. split; nra. Qed.

(* hence on one cell |trapezoid - integral| <= h (M - m); summed over the cells this is the
   Darboux bound used for the tolerance of the numeric tracer *)
Lemma cell_error_bound (f : R -> R) x h m M I : 0 <= h ->
  is_RInt f x (x + h) I -> (forall t, x <= t <= x + h -> m <= f t <= M) ->
  Rabs (h * (f x + f (x + h)) / 2 - I) <= h * (M - m).
Proof.
  intros Hh HI Hb.
  pose proof (cell_integral_bracket f x h m M I Hh HI Hb).
  assert (m <= f x <= M) by (apply Hb; lra).
  assert (m <= f (x + h) <= M) by (apply Hb; lra).
  pose proof (cell_trapezoid_bracket (f x) (f (x + h)) h m M Hh H0 H1).
  apply Rabs_le. lra.
Qed.

(* ---------------------------------------------------------------- the linspace grid *)
Lemma Rtrunc_nonneg x : 0 <= x -> IZR (Rtrunc x) <= x < IZR (Rtrunc x) + 1.
Proof.
  intros Hx. unfold Rtrunc.
  assert (E : Rltb x 0 = false) by (apply Rltb_false; exact Hx). rewrite E.
  unfold Rfloor_Z. rewrite minus_IZR. destruct (archimed x) as [H1 H2]. simpl. lra.
Qed.

Lemma Rtrunc_small x : 0 <= x < 1 -> Rtrunc x = 0%Z.
Proof.
  intros Hx. pose proof (Rtrunc_nonneg x (proj1 Hx)) as [H1 H2].
  assert (-1 < IZR (Rtrunc x) < 1) by lra.
  destruct H as [Ha Hb]. apply lt_IZR in Ha. apply lt_IZR in Hb. lia.
Qed.

(* n_zs = int(|z1 - z0| / dz); the grid has n_zs + 1 points and step (z1 - z0) / n_zs *)
Lemma grid_step_bounds z0 z1 dz : 0 < dz -> dz <= Rabs (z1 - z0) ->
  let n := Rtrunc (Rabs (z1 - z0) / dz) in
  (1 <= n)%Z /\ dz <= Rabs (linspace_step z0 z1 (n + 1)) < 2 * dz.
Proof.
  intros Hdz Hd. cbv zeta.
  set (x := Rabs (z1 - z0) / dz).
  assert (Hx1 : 1 <= x) by (unfold x; apply Rle_div_r; lra).
  destruct (Rtrunc_nonneg x) as [H1 H2]; [lra|].
  set (n := Rtrunc x) in *.
  assert (Hn : (1 <= n)%Z).
  { assert (0 < IZR n) by lra. apply lt_IZR in H. lia. }
  split; [exact Hn|].
  assert (Hn' : 1 <= IZR n) by (apply IZR_le in Hn; exact Hn).
  unfold linspace_step. replace (n + 1 - 1)%Z with n by lia.
  unfold Rdiv. rewrite Rabs_mult, Rabs_inv, (Rabs_right (IZR n)) by lra.
  assert (Hxd : Rabs (z1 - z0) = x * dz) by (unfold x; field; lra).
  rewrite Hxd. split.
  - apply Rle_trans with (IZR n * dz * / IZR n); [right; field; lra|].
    apply Rmult_le_compat_r; [left; apply Rinv_0_lt_compat; lra | nra].
  - apply Rlt_le_trans with ((IZR n + 1) * dz * / IZR n).
    + apply Rmult_lt_compat_r; [apply Rinv_0_lt_compat; lra | nra].
    + apply Rle_trans with (2 * IZR n * dz * / IZR n); [|right; field; lra].
      apply Rmult_le_compat_r; [left; apply Rinv_0_lt_compat; lra | nra].
Qed.

(* closer than dz: a single grid point, the trapezoid sum is empty *)
Lemma grid_degenerate (f : R -> R) z0 z1 dz : 0 < dz -> Rabs (z1 - z0) < dz ->
  let n := Rtrunc (Rabs (z1 - z0) / dz) in
  n = 0%Z /\ linspace z0 z1 (n + 1) = [z0 + 0 * linspace_step z0 z1 1] /\
  forall h, trapz_dx (map f (linspace z0 z1 (n + 1))) h = 0.
Proof.
  intros Hdz Hd. cbv zeta.
  assert (E : Rtrunc (Rabs (z1 - z0) / dz) = 0%Z).
  { apply Rtrunc_small. split; [apply Rdiv_le_0_compat; [apply Rabs_pos | lra] | apply Rlt_div_l; lra]. }
  rewrite E. split; [reflexivity|]. split; [reflexivity|]. intros h. reflexivity.
Qed.
