(* C14, tree half: the Event index machinery (Model/EventTree.v) refines a list of
   (parent, child) edges, for ALL add_children sequences that add fresh particles; the
   well-formedness facts of the property are then proved on the edge list. *)
From Coq Require Import List Arith Bool Lia ZArith.
From PyrexModel Require Import EventTree.
Import ListNotations.

(* ------------------------------------------------------------------ list lemmas *)
Lemma index_of_Some x l i : index_of x l = Some i -> i < length l /\ nth i l 0 = x.
Proof.
  revert i; induction l as [|y t IH]; simpl; intros i H. { discriminate. }
  destruct (Nat.eqb x y) eqn:E.
  - apply Nat.eqb_eq in E; subst. inversion H; subst. split; [lia|reflexivity].
  - destruct (index_of x t) as [j|]; simpl in H; inversion H; subst.
    destruct (IH j eq_refl). split; [lia|assumption].
Qed.

Lemma index_of_In x l : In x l -> exists i, index_of x l = Some i.
Proof.
  induction l as [|y t IH]; simpl; intros H. { contradiction. }
  destruct (Nat.eqb x y) eqn:E. { eauto. }
  apply Nat.eqb_neq in E. destruct H as [H|H]. { congruence. }
  destruct (IH H) as [i Hi]. rewrite Hi. simpl. eauto.
Qed.

Lemma index_of_notin x l : ~ In x l -> index_of x l = None.
Proof.
  intros H. destruct (index_of x l) eqn:E; [|reflexivity].
  apply index_of_Some in E. destruct E as [E1 E2]. exfalso. apply H. rewrite <- E2. apply nth_In; assumption.
Qed.

Lemma index_of_nth l i : NoDup l -> i < length l -> index_of (nth i l 0) l = Some i.
Proof.
  intros ND. revert i. induction ND as [|y t Hy ND IH]; simpl; intros i Hi. { lia. }
  destruct i as [|i].
  - rewrite Nat.eqb_refl. reflexivity.
  - destruct (Nat.eqb (nth i t 0) y) eqn:E.
    + apply Nat.eqb_eq in E. exfalso. apply Hy. rewrite <- E. apply nth_In. lia.
    + rewrite IH by lia. reflexivity.
Qed.

Lemma NoDup_nth_inj (l : list nat) i j :
  NoDup l -> i < length l -> j < length l -> nth i l 0 = nth j l 0 -> i = j.
Proof. intros ND Hi Hj E. apply (proj1 (NoDup_nth l 0) ND i j Hi Hj E). Qed.

Lemma length_update_nth {A} k (f : A -> A) l : length (update_nth k f l) = length l.
Proof. revert k; induction l; intros [|k]; simpl; auto. Qed.

Lemma nth_update_nth {A} k (f : A -> A) l i d :
  k < length l ->
  nth i (update_nth k f l) d = if Nat.eqb i k then f (nth i l d) else nth i l d.
Proof.
  revert k i; induction l as [|x t IH]; intros k i Hk; simpl in *. { lia. }
  destruct k as [|k]; destruct i as [|i]; simpl; try reflexivity.
  apply IH. lia.
Qed.

Lemma map_nth_seq_app (l cs : list nat) :
  map (fun j => nth j (l ++ cs) 0) (seq (length l) (length cs)) = cs.
Proof.
  revert l. induction cs as [|c cs IH]; intros l; simpl. { reflexivity. }
  f_equal.
  - rewrite app_nth2 by lia. rewrite Nat.sub_diag. reflexivity.
  - specialize (IH (l ++ [c])). rewrite app_length in IH. simpl in IH.
    rewrite Nat.add_1_r in IH. rewrite <- app_assoc in IH. simpl in IH. exact IH.
Qed.

Lemma NoDup_snoc (l : list nat) c : NoDup l -> ~ In c l -> NoDup (l ++ [c]).
Proof.
  intros ND H. apply NoDup_rev in ND. rewrite <- (rev_involutive (l ++ [c])).
  apply NoDup_rev. rewrite rev_app_distr. simpl. constructor; [|assumption].
  rewrite <- in_rev. assumption.
Qed.

Lemma NoDup_app_l (l1 l2 : list nat) : NoDup (l1 ++ l2) -> NoDup l1.
Proof.
  induction l1 as [|x t IH]; simpl; intros H. { constructor. }
  inversion H; subst. constructor; [|auto]. intros Hx. apply H2. apply in_or_app; auto.
Qed.
Lemma NoDup_app_r (l1 l2 : list nat) : NoDup (l1 ++ l2) -> NoDup l2.
Proof. induction l1 as [|x t IH]; simpl; intros H; [assumption|]. inversion H; auto. Qed.

Lemma existsb_eqb_In x l : existsb (Nat.eqb x) l = true <-> In x l.
Proof.
  rewrite existsb_exists. split.
  - intros [y [Hy E]]. apply Nat.eqb_eq in E. subst. assumption.
  - intros H. exists x. split; [assumption|apply Nat.eqb_refl].
Qed.

(* ------------------------------------------------------------------ the specification *)
Definition edge := (pid * pid)%type.   (* (parent, child) *)

Definition children_abs (edges : list edge) (q : pid) : list pid :=
  map snd (filter (fun e => Nat.eqb (fst e) q) edges).

Definition nodes (roots : list pid) (edges : list edge) : list pid := roots ++ map snd edges.

Fixpoint level_abs_from (edges : list edge) (ps : list pid) (n : nat) : list pid :=
  match n with O => ps | S m => level_abs_from edges (flat_map (children_abs edges) ps) m end.

Definition level_abs (roots : list pid) (edges : list edge) (n : nat) : list pid :=
  level_abs_from edges roots n.

(* well-formed edge lists: every edge attaches a NEW node to an EXISTING node *)
Inductive Tree (roots : list pid) : list edge -> Prop :=
| T_nil : NoDup roots -> Tree roots []
| T_snoc edges q c :
    Tree roots edges -> In q (nodes roots edges) -> ~ In c (nodes roots edges) ->
    Tree roots (edges ++ [(q, c)]).

Inductive AtLevel (roots : list pid) (edges : list edge) : nat -> pid -> Prop :=
| L_root r : In r roots -> AtLevel roots edges 0 r
| L_child n q c : AtLevel roots edges n q -> In (q, c) edges -> AtLevel roots edges (S n) c.

Lemma In_children_abs edges q c : In c (children_abs edges q) <-> In (q, c) edges.
Proof.
  unfold children_abs. rewrite in_map_iff. split.
  - intros [[a b] [E H]]. simpl in E. subst. apply filter_In in H. destruct H as [H1 H2].
    simpl in H2. apply Nat.eqb_eq in H2. subst. assumption.
  - intros H. exists (q, c). split; [reflexivity|]. apply filter_In. split; [assumption|].
    simpl. apply Nat.eqb_refl.
Qed.

Lemma children_abs_app edges1 edges2 q :
  children_abs (edges1 ++ edges2) q = children_abs edges1 q ++ children_abs edges2 q.
Proof. unfold children_abs. rewrite filter_app, map_app. reflexivity. Qed.

Lemma children_abs_pairs q x cs :
  children_abs (map (pair q) cs) x = if Nat.eqb q x then cs else [].
Proof.
  unfold children_abs. induction cs as [|c cs IH]; simpl.
  - destruct (Nat.eqb q x); reflexivity.
  - destruct (Nat.eqb q x) eqn:E; simpl; rewrite IH; reflexivity.
Qed.

Lemma nodes_snoc roots edges q c : nodes roots (edges ++ [(q, c)]) = nodes roots edges ++ [c].
Proof. unfold nodes. rewrite map_app, app_assoc. reflexivity. Qed.

Lemma Tree_nodup roots edges : Tree roots edges -> NoDup (nodes roots edges).
Proof.
  induction 1 as [ND|edges q c T IH Hq Hc].
  - unfold nodes. simpl. rewrite app_nil_r. assumption.
  - rewrite nodes_snoc. apply NoDup_snoc; assumption.
Qed.

(* ------------------------------------------------------------------ facts about well-formed edge lists *)
Lemma Tree_edge_nodes roots edges q c :
  Tree roots edges -> In (q, c) edges -> In q (nodes roots edges) /\ In c (nodes roots edges).
Proof.
  induction 1 as [ND|edges q' c' T IH Hq Hc]; intros H. { contradiction. }
  rewrite nodes_snoc. apply in_app_or in H. destruct H as [H|[H|[]]].
  - destruct (IH H). split; apply in_or_app; left; assumption.
  - inversion H; subst. split; apply in_or_app; [left; assumption|right; left; reflexivity].
Qed.

Lemma Tree_snd_nodup roots edges : Tree roots edges -> NoDup (map snd edges).
Proof.
  intros T. apply Tree_nodup in T. unfold nodes in T. apply NoDup_app_r in T. assumption.
Qed.

Lemma NoDup_map_snd_inj (edges : list edge) q q' c :
  NoDup (map snd edges) -> In (q, c) edges -> In (q', c) edges -> q = q'.
Proof.
  induction edges as [|[a b] t IH]; simpl; intros ND H1 H2. { contradiction. }
  inversion ND as [|x l Hx ND']; subst.
  destruct H1 as [H1|H1]; destruct H2 as [H2|H2].
  - congruence.
  - inversion H1; subst. exfalso. apply Hx. apply in_map_iff. exists (q', c). auto.
  - inversion H2; subst. exfalso. apply Hx. apply in_map_iff. exists (q, c). auto.
  - apply IH; assumption.
Qed.

Lemma Tree_parent_unique roots edges q q' c :
  Tree roots edges -> In (q, c) edges -> In (q', c) edges -> q = q'.
Proof. intros T. apply NoDup_map_snd_inj. eapply Tree_snd_nodup; eassumption. Qed.

Lemma Tree_root_no_parent roots edges q r :
  Tree roots edges -> In r roots -> ~ In (q, r) edges.
Proof.
  intros T Hr H. apply Tree_nodup in T. unfold nodes in T.
  assert (In r (map snd edges)) by (apply in_map_iff; exists (q, r); auto).
  revert T Hr H0. generalize (map snd edges). intros l. induction roots as [|x t IH]; simpl; intros ND Hr Hl.
  - contradiction.
  - inversion ND; subst. destruct Hr as [Hr|Hr].
    + subst. apply H2. apply in_or_app. right. assumption.
    + apply IH; assumption.
Qed.

Lemma children_abs_nodup edges q : NoDup (map snd edges) -> NoDup (children_abs edges q).
Proof.
  unfold children_abs. induction edges as [|[a b] t IH]; simpl; intros ND. { constructor. }
  inversion ND; subst. destruct (Nat.eqb a q); simpl; [|auto].
  constructor; [|auto]. intros H. apply H1. apply in_map_iff in H. destruct H as [e [E H]].
  apply filter_In in H. destruct H as [H _]. apply in_map_iff. exists e. auto.
Qed.

Lemma NoDup_flat_map (f : pid -> list pid) (l : list pid) :
  NoDup l -> (forall x, In x l -> NoDup (f x)) ->
  (forall x y c, In x l -> In y l -> In c (f x) -> In c (f y) -> x = y) ->
  NoDup (flat_map f l).
Proof.
  induction 1 as [|x t Hx ND IH]; simpl; intros Hf Hd. { constructor. }
  assert (NDx : NoDup (f x)) by (apply Hf; auto).
  assert (NDt : NoDup (flat_map f t)) by (apply IH; intros; [apply Hf; auto|eapply Hd; eauto]).
  assert (Hdis : forall c, In c (f x) -> ~ In c (flat_map f t)).
  { intros c Hc Hc'. apply in_flat_map in Hc'. destruct Hc' as [y [Hy Hcy]].
    assert (x = y) by (eapply Hd; eauto). subst. contradiction. }
  clear - NDx NDt Hdis. induction (f x) as [|a l IHl]; simpl. { assumption. }
  inversion NDx; subst. constructor.
  - intros H. apply in_app_or in H. destruct H as [H|H]; [contradiction|]. apply (Hdis a); simpl; auto.
  - apply IHl; [assumption|]. intros c Hc. apply Hdis. simpl; auto.
Qed.

(* levels: membership = AtLevel *)
Lemma level_abs_from_S edges ps n :
  level_abs_from edges ps (S n) = flat_map (children_abs edges) (level_abs_from edges ps n).
Proof.
  revert ps. induction n as [|n IH]; intros ps; simpl. { reflexivity. }
  rewrite <- IH. reflexivity.
Qed.

Lemma level_abs_AtLevel roots edges n p : In p (level_abs roots edges n) <-> AtLevel roots edges n p.
Proof.
  unfold level_abs. revert p. induction n as [|n IH]; intros p.
  - simpl. split; [apply L_root|]. intros H. inversion H; assumption.
  - rewrite level_abs_from_S. rewrite in_flat_map. split.
    + intros [q [Hq Hc]]. apply IH in Hq. apply In_children_abs in Hc. eapply L_child; eassumption.
    + intros H. inversion H; subst. exists q. split; [apply IH; assumption|apply In_children_abs; assumption].
Qed.

Lemma AtLevel_mono roots edges more n p : AtLevel roots edges n p -> AtLevel roots (edges ++ more) n p.
Proof.
  induction 1; [apply L_root; assumption|]. eapply L_child; [eassumption|]. apply in_or_app; auto.
Qed.

Lemma AtLevel_total roots edges : Tree roots edges -> forall p, In p (nodes roots edges) -> exists n, AtLevel roots edges n p.
Proof.
  induction 1 as [ND|edges q c T IH Hq Hc]; intros p Hp.
  - unfold nodes in Hp. simpl in Hp. rewrite app_nil_r in Hp. exists 0. apply L_root; assumption.
  - rewrite nodes_snoc in Hp. apply in_app_or in Hp. destruct Hp as [Hp|[Hp|[]]].
    + destruct (IH p Hp) as [n Hn]. exists n. apply AtLevel_mono; assumption.
    + subst p. destruct (IH q Hq) as [n Hn]. exists (S n). eapply L_child.
      * apply AtLevel_mono; eassumption.
      * apply in_or_app; right; left; reflexivity.
Qed.

Lemma AtLevel_unique roots edges n m p :
  Tree roots edges -> AtLevel roots edges n p -> AtLevel roots edges m p -> n = m.
Proof.
  intros T H. revert m. induction H as [r Hr|n q c Hq IH Hc]; intros m Hm.
  - inversion Hm; subst; [reflexivity|]. exfalso. eapply Tree_root_no_parent; eassumption.
  - inversion Hm; subst.
    + exfalso. eapply Tree_root_no_parent; eassumption.
    + assert (q0 = q) by (eapply Tree_parent_unique; eassumption). subst. f_equal. apply IH; assumption.
Qed.

Lemma AtLevel_node roots edges n p : Tree roots edges -> AtLevel roots edges n p -> In p (nodes roots edges).
Proof.
  intros T H. inversion H; subst.
  - unfold nodes. apply in_or_app; left; assumption.
  - eapply Tree_edge_nodes; eassumption.
Qed.

Lemma level_abs_nodup roots edges n : Tree roots edges -> NoDup (level_abs roots edges n).
Proof.
  intros T. unfold level_abs. induction n as [|n IH].
  - simpl. apply Tree_nodup in T. unfold nodes in T. apply NoDup_app_l in T. assumption.
  - rewrite level_abs_from_S. apply NoDup_flat_map.
    + assumption.
    + intros x _. apply children_abs_nodup. eapply Tree_snd_nodup; eassumption.
    + intros x y c _ _ Hx Hy. apply In_children_abs in Hx, Hy. eapply Tree_parent_unique; eassumption.
Qed.

Lemma Tree_add_list roots edges q cs :
  Tree roots edges -> In q (nodes roots edges) -> NoDup cs ->
  (forall c, In c cs -> ~ In c (nodes roots edges)) ->
  Tree roots (edges ++ map (pair q) cs).
Proof.
  intros T Hq ND. revert edges T Hq. induction ND as [|c cs Hc ND IH]; intros edges T Hq Hfresh; simpl.
  - rewrite app_nil_r. assumption.
  - replace (edges ++ (q, c) :: map (pair q) cs) with ((edges ++ [(q, c)]) ++ map (pair q) cs)
      by (rewrite <- app_assoc; reflexivity).
    apply IH.
    + apply T_snoc; [assumption|assumption|apply Hfresh; left; reflexivity].
    + rewrite nodes_snoc. apply in_or_app; left; assumption.
    + intros c' Hc'. rewrite nodes_snoc. intros H. apply in_app_or in H. destruct H as [H|[H|[]]].
      * eapply Hfresh; [right; eassumption|assumption].
      * subst. contradiction.
Qed.

(* ------------------------------------------------------------------ refinement invariant *)
Record Inv (e : event) (edges : list edge) : Prop := {
  inv_all : ev_all e = nodes (ev_roots e) edges;
  inv_tree : Tree (ev_roots e) edges;
  inv_len : length (ev_children e) = length (ev_all e);
  inv_bound : forall i j, In j (nth i (ev_children e) []) -> j < length (ev_all e);
  inv_children : forall i, i < length (ev_all e) ->
      map (fun j => nth j (ev_all e) 0) (nth i (ev_children e) []) = children_abs edges (nth i (ev_all e) 0)
}.

Lemma nth_blanks {B} k (l : list B) : nth k (map (fun _ => @nil nat) l) [] = [].
Proof. revert k; induction l; intros [|k]; simpl; auto. Qed.

Lemma Inv_nodup e edges : Inv e edges -> NoDup (ev_all e).
Proof. intros I. rewrite (inv_all _ _ I). apply Tree_nodup. apply (inv_tree _ _ I). Qed.

Lemma Inv_init roots : NoDup roots -> Inv (init roots) [].
Proof.
  intros ND. constructor; simpl.
  - unfold nodes. simpl. rewrite app_nil_r. reflexivity.
  - constructor. assumption.
  - apply map_length.
  - intros i j. rewrite nth_blanks. intros [].
  - intros i _. rewrite nth_blanks. reflexivity.
Qed.

Lemma map_snd_pairs (q : pid) (cs : list pid) : map snd (map (pair q) cs) = cs.
Proof. induction cs; simpl; congruence. Qed.

Lemma nil_if_no_member {A} (l : list A) : (forall c, ~ In c l) -> l = [].
Proof. destruct l; [reflexivity|]. intros H. exfalso. apply (H a). left; reflexivity. Qed.

Lemma nth_new_children (children : list (list nat)) (blanks : list (list nat)) pi idx i :
  pi < length children -> (forall k, nth k blanks [] = []) ->
  nth i (update_nth pi (fun l => l ++ idx) (children ++ blanks)) [] =
  nth i children [] ++ (if Nat.eqb i pi then idx else []).
Proof.
  intros Hpi Hb. rewrite nth_update_nth by (rewrite app_length; lia).
  assert (E : nth i (children ++ blanks) [] = nth i children []).
  { destruct (Nat.lt_ge_cases i (length children)).
    - apply app_nth1; assumption.
    - rewrite app_nth2 by assumption. rewrite Hb. symmetry. apply nth_overflow. assumption. }
  rewrite E. destruct (Nat.eqb i pi); [reflexivity|]. rewrite app_nil_r. reflexivity.
Qed.

Lemma Inv_add e edges q cs e' :
  Inv e edges -> add_children e q cs = Some e' -> NoDup cs ->
  (forall c, In c cs -> ~ In c (ev_all e)) ->
  Inv e' (edges ++ map (pair q) cs).
Proof.
  intros I Hadd NDcs Hfresh. pose proof (Inv_nodup _ _ I) as NDall.
  destruct I as [Iall Itree Ilen Ibound Ich].
  unfold add_children in Hadd. destruct (index_of q (ev_all e)) as [pi|] eqn:Epi; [|discriminate].
  apply index_of_Some in Epi. destruct Epi as [Hpi Hq].
  inversion Hadd; subst e'; clear Hadd.
  assert (Hblank : forall k, nth k (map (fun _ : nat => @nil nat) (seq (length (ev_all e)) (length cs))) [] = [])
    by (intros; apply nth_blanks).
  assert (Hqall : In q (ev_all e)) by (rewrite <- Hq; apply nth_In; assumption).
  constructor; simpl.
  - rewrite Iall. unfold nodes. rewrite map_app, map_snd_pairs, app_assoc. reflexivity.
  - apply Tree_add_list; try assumption.
    + rewrite <- Iall. assumption.
    + intros c Hc. rewrite <- Iall. apply Hfresh. assumption.
  - rewrite length_update_nth, !app_length, map_length, seq_length. lia.
  - intros i j. rewrite nth_new_children by (try assumption; lia). rewrite app_length. intros H.
    apply in_app_or in H. destruct H as [H|H].
    + apply Ibound in H. lia.
    + destruct (Nat.eqb i pi); [|contradiction]. apply in_seq in H. lia.
  - intros i Hi. rewrite app_length in Hi.
    rewrite nth_new_children by (try assumption; lia).
    rewrite map_app, children_abs_app, children_abs_pairs.
    destruct (Nat.lt_ge_cases i (length (ev_all e))) as [Hlt|Hge].
    + rewrite (app_nth1 _ _ 0 Hlt). f_equal.
      * etransitivity; [|apply (Ich i Hlt)]. apply map_ext_in. intros j Hj. apply Ibound in Hj. apply app_nth1. assumption.
      * destruct (Nat.eqb i pi) eqn:E.
        -- apply Nat.eqb_eq in E. subst i. rewrite Hq. rewrite Nat.eqb_refl. apply map_nth_seq_app.
        -- apply Nat.eqb_neq in E. destruct (Nat.eqb q (nth i (ev_all e) 0)) eqn:E2; [|reflexivity].
           apply Nat.eqb_eq in E2. exfalso. apply E. apply (NoDup_nth_inj (ev_all e)); try assumption. congruence.
    + rewrite (nth_overflow (ev_children e)) by lia. simpl.
      assert (Hne : Nat.eqb i pi = false) by (apply Nat.eqb_neq; lia). rewrite Hne. simpl.
      set (x := nth i (ev_all e ++ cs) 0).
      assert (Hx : In x cs).
      { unfold x. rewrite app_nth2 by assumption. apply nth_In. lia. }
      assert (Hxall : ~ In x (ev_all e)) by (apply Hfresh; assumption).
      assert (E1 : children_abs edges x = []).
      { apply nil_if_no_member. intros c Hc. apply In_children_abs in Hc.
        apply (Tree_edge_nodes _ _ _ _ Itree) in Hc. destruct Hc as [Hc _]. rewrite <- Iall in Hc. contradiction. }
      rewrite E1. destruct (Nat.eqb q x) eqn:E2; [|reflexivity].
      apply Nat.eqb_eq in E2. subst x. rewrite <- E2 in Hxall. contradiction.
Qed.

(* ------------------------------------------------------------------ the queries, on well-formed events *)
Lemma get_children_spec e edges q :
  Inv e edges -> In q (ev_all e) -> get_children e q = Some (children_abs edges q).
Proof.
  intros I Hq. pose proof (Inv_nodup _ _ I) as ND. unfold get_children.
  destruct (index_of_In _ _ Hq) as [i Hi]. rewrite Hi. apply index_of_Some in Hi. destruct Hi as [Hi E].
  rewrite (inv_children _ _ I i Hi). rewrite E. reflexivity.
Qed.

Lemma get_children_absent e q : ~ In q (ev_all e) -> get_children e q = None.
Proof. intros H. unfold get_children. rewrite index_of_notin by assumption. reflexivity. Qed.

Lemma find_parent_Some ci chs k0 k :
  find_parent ci chs k0 = Some k -> k0 <= k /\ k - k0 < length chs /\ In ci (nth (k - k0) chs []).
Proof.
  revert k0. induction chs as [|l t IH]; simpl; intros k0 H. { discriminate. }
  destruct (existsb (Nat.eqb ci) l) eqn:E.
  - inversion H; subst. rewrite Nat.sub_diag. apply existsb_eqb_In in E. repeat split; [lia|lia|assumption].
  - apply IH in H. destruct H as [H1 [H2 H3]]. replace (k - k0) with (S (k - S k0)) by lia.
    repeat split; [lia|lia|assumption].
Qed.

Lemma find_parent_None ci chs k0 : find_parent ci chs k0 = None -> forall i, ~ In ci (nth i chs []).
Proof.
  revert k0. induction chs as [|l t IH]; simpl; intros k0 H i. { destruct i; simpl; tauto. }
  destruct (existsb (Nat.eqb ci) l) eqn:E; [discriminate|].
  destruct i as [|i].
  - intros Hin. apply existsb_eqb_In in Hin. congruence.
  - eapply IH; eassumption.
Qed.

(* position-level reading of the children lists *)
Lemma children_index_edge e edges k ci :
  Inv e edges -> k < length (ev_all e) -> ci < length (ev_all e) ->
  (In ci (nth k (ev_children e) []) <-> In (nth k (ev_all e) 0, nth ci (ev_all e) 0) edges).
Proof.
  intros I Hk Hci. pose proof (Inv_nodup _ _ I) as ND.
  rewrite <- In_children_abs. rewrite <- (inv_children _ _ I k Hk). rewrite in_map_iff. split.
  - intros H. exists ci. auto.
  - intros [j [E Hj]]. pose proof (inv_bound _ _ I _ _ Hj) as Hjb.
    assert (j = ci) by (apply (NoDup_nth_inj (ev_all e)); assumption). subst. assumption.
Qed.

Lemma get_parent_spec e edges c :
  Inv e edges -> In c (ev_all e) ->
  exists r, get_parent e c = Some r /\
    (forall q, r = Some q <-> In (q, c) edges) /\
    (r = None <-> forall q, ~ In (q, c) edges).
Proof.
  intros I Hc. pose proof (Inv_nodup _ _ I) as ND. unfold get_parent.
  destruct (index_of_In _ _ Hc) as [ci Hci]. rewrite Hci. apply index_of_Some in Hci. destruct Hci as [Hcib Ec].
  eexists. split; [reflexivity|].
  destruct (find_parent ci (ev_children e) 0) as [k|] eqn:F; simpl.
  - apply find_parent_Some in F. rewrite Nat.sub_0_r in F. destruct F as [_ [Hk Hin]].
    rewrite (inv_len _ _ I) in Hk.
    apply (children_index_edge e edges k ci I Hk Hcib) in Hin. rewrite Ec in Hin.
    split.
    + intros q. split.
      * intros E. inversion E; subst. assumption.
      * intros Hq. f_equal. eapply Tree_parent_unique; [apply (inv_tree _ _ I)|eassumption|eassumption].
    + split; [discriminate|]. intros H. exfalso. eapply H. eassumption.
  - pose proof (find_parent_None _ _ _ F) as Hn.
    assert (Hno : forall q, ~ In (q, c) edges).
    { intros q Hq. pose proof (Tree_edge_nodes _ _ _ _ (inv_tree _ _ I) Hq) as [Hqn _].
      rewrite <- (inv_all _ _ I) in Hqn. destruct (index_of_In _ _ Hqn) as [k Hk].
      apply index_of_Some in Hk. destruct Hk as [Hkb Ek].
      apply (Hn k). apply (children_index_edge e edges k ci I Hkb Hcib). rewrite Ek, Ec. assumption. }
    split.
    + intros q. split; [discriminate|]. intros Hq. exfalso. eapply Hno. eassumption.
    + split; auto.
Qed.

Lemma next_level_spec e edges ps :
  Inv e edges -> (forall p, In p ps -> In p (ev_all e)) ->
  next_level e ps = Some (flat_map (children_abs edges) ps).
Proof.
  intros I. induction ps as [|p t IH]; simpl; intros H. { reflexivity. }
  rewrite (get_children_spec e edges p I) by (apply H; auto).
  rewrite IH by (intros; apply H; auto). reflexivity.
Qed.

Lemma children_in_event e edges ps :
  Inv e edges -> forall p, In p (flat_map (children_abs edges) ps) -> In p (ev_all e).
Proof.
  intros I p H. apply in_flat_map in H. destruct H as [q [_ H]]. apply In_children_abs in H.
  rewrite (inv_all _ _ I). eapply Tree_edge_nodes; [apply (inv_tree _ _ I)|eassumption].
Qed.

Lemma level_from_spec e edges ps n :
  Inv e edges -> (forall p, In p ps -> In p (ev_all e)) ->
  level_from e ps n = Some (level_abs_from edges ps n).
Proof.
  intros I. revert ps. induction n as [|n IH]; intros ps H; simpl. { reflexivity. }
  rewrite (next_level_spec e edges ps I H). apply IH. apply (children_in_event e edges ps I).
Qed.

Lemma get_from_level_spec e edges z :
  Inv e edges -> get_from_level e z = Some (level_abs (ev_roots e) edges (Z.to_nat z)).
Proof.
  intros I. unfold get_from_level, level_abs. apply level_from_spec; [assumption|].
  intros p Hp. rewrite (inv_all _ _ I). unfold nodes. apply in_or_app; left; assumption.
Qed.

(* ------------------------------------------------------------------ all histories *)
(* every accepted add_children call adds particles that are new to the event (fresh
   Particle objects), a rejected call (parent not in the event) may name anything *)
Fixpoint FreshSeq (e : event) (ops : list op) : Prop :=
  match ops with
  | [] => True
  | Add p cs :: t =>
      NoDup cs /\ (forall c, In c cs -> ~ In c (ev_all e)) /\ FreshSeq (step e (Add p cs)) t
  end.

(* the particles handed to accepted add_children calls, in call order *)
Fixpoint added (e : event) (ops : list op) : list pid :=
  match ops with
  | [] => []
  | Add p cs :: t =>
      (match index_of p (ev_all e) with Some _ => cs | None => [] end) ++ added (step e (Add p cs)) t
  end.

Lemma fold_inv ops : forall e edges,
  Inv e edges -> FreshSeq e ops -> exists edges', Inv (fold_left step ops e) edges'.
Proof.
  induction ops as [|[p cs] t IH]; simpl; intros e edges I F. { eauto. }
  destruct F as [ND [Hf F]].
  destruct (add_children e p cs) as [e'|] eqn:A.
  - eapply IH; [|exact F]. eapply Inv_add; eassumption.
  - eapply IH; eassumption.
Qed.

Lemma run_inv roots ops :
  NoDup roots -> FreshSeq (init roots) ops -> exists edges, Inv (run roots ops) edges.
Proof. intros ND F. unfold run. eapply fold_inv; [apply Inv_init; assumption|assumption]. Qed.

Lemma step_roots e o : ev_roots (step e o) = ev_roots e.
Proof.
  destruct o as [p cs]. simpl. unfold add_children. destruct (index_of p (ev_all e)); reflexivity.
Qed.

Lemma run_roots roots ops : ev_roots (run roots ops) = roots.
Proof.
  unfold run. assert (H : forall e, ev_roots (fold_left step ops e) = ev_roots e).
  { induction ops as [|o t IH]; intros e; simpl; [reflexivity|]. rewrite IH. apply step_roots. }
  rewrite H. reflexivity.
Qed.

Lemma fold_iter ops : forall e, iter (fold_left step ops e) = iter e ++ added e ops.
Proof.
  induction ops as [|[p cs] t IH]; intros e; simpl. { rewrite app_nil_r. reflexivity. }
  rewrite IH. unfold iter, add_children. destruct (index_of p (ev_all e)); simpl.
  - rewrite app_assoc. reflexivity.
  - reflexivity.
Qed.

Lemma add_absent_parent_rejected_lemma e p cs : ~ In p (ev_all e) -> add_children e p cs = None.
Proof. intros H. unfold add_children. rewrite index_of_notin by assumption. reflexivity. Qed.

Lemma add_present_parent_accepted_lemma e p cs :
  In p (ev_all e) -> exists e', add_children e p cs = Some e' /\
     iter e' = iter e ++ cs /\ len e' = len e + length cs /\ ev_roots e' = ev_roots e.
Proof.
  intros H. unfold add_children. destruct (index_of_In _ _ H) as [i Hi]. rewrite Hi.
  eexists. split; [reflexivity|]. unfold iter, len. simpl. rewrite app_length. auto.
Qed.

Section AllHistories.
  Variable roots : list pid.
  Variable ops : list op.
  Hypothesis roots_distinct : NoDup roots.
  Hypothesis fresh : FreshSeq (init roots) ops.
  Let e := run roots ops.

  Lemma len_children_inv_lemma :
    length (ev_children e) = length (ev_all e) /\
    (forall i j, In j (nth i (ev_children e) []) -> j < length (ev_all e)).
  Proof.
    destruct (run_inv roots ops roots_distinct fresh) as [edges I]. fold e in I.
    split; [apply (inv_len _ _ I)|apply (inv_bound _ _ I)].
  Qed.

  Lemma child_index_unique_lemma :
    (forall i, NoDup (nth i (ev_children e) [])) /\
    (forall i j k, In k (nth i (ev_children e) []) -> In k (nth j (ev_children e) []) -> i = j).
  Proof.
    destruct (run_inv roots ops roots_distinct fresh) as [edges I]. fold e in I.
    pose proof (Inv_nodup _ _ I) as ND.
    assert (Hlt : forall i k, In k (nth i (ev_children e) []) -> i < length (ev_all e)).
    { intros i k H. destruct (Nat.lt_ge_cases i (length (ev_all e))); [assumption|].
      rewrite nth_overflow in H by (rewrite (inv_len _ _ I); assumption). contradiction. }
    split.
    - intros i. destruct (Nat.lt_ge_cases i (length (ev_all e))) as [Hi|Hi].
      + apply (NoDup_map_inv (fun j => nth j (ev_all e) 0)). rewrite (inv_children _ _ I i Hi).
        apply children_abs_nodup. eapply Tree_snd_nodup. apply (inv_tree _ _ I).
      + rewrite nth_overflow by (rewrite (inv_len _ _ I); assumption). constructor.
    - intros i j k Hi Hj.
      pose proof (Hlt _ _ Hi) as Hib. pose proof (Hlt _ _ Hj) as Hjb.
      pose proof (inv_bound _ _ I _ _ Hi) as Hkb.
      apply (children_index_edge e edges i k I Hib Hkb) in Hi.
      apply (children_index_edge e edges j k I Hjb Hkb) in Hj.
      apply (NoDup_nth_inj (ev_all e)); try assumption.
      eapply Tree_parent_unique; [apply (inv_tree _ _ I)|eassumption|eassumption].
  Qed.

  Lemma iter_each_once_lemma :
    iter e = roots ++ added (init roots) ops /\
    NoDup (iter e) /\
    (forall p, In p (iter e) -> count_occ Nat.eq_dec (iter e) p = 1) /\
    len e = length (iter e).
  Proof.
    destruct (run_inv roots ops roots_distinct fresh) as [edges I]. fold e in I.
    assert (ND : NoDup (iter e)) by (apply (Inv_nodup _ _ I)).
    split; [|split; [assumption|split; [|reflexivity]]].
    - unfold e, run. rewrite fold_iter. reflexivity.
    - intros p Hp. apply NoDup_count_occ'; assumption.
  Qed.

  Lemma parent_children_consistent_lemma : forall p q,
    In p (iter e) -> In q (iter e) ->
    exists cs r, get_children e q = Some cs /\ get_parent e p = Some r /\
                 (In p cs <-> r = Some q) /\
                 (r = None <-> In p roots) /\
                 (forall c, In c cs -> In c (iter e)) /\
                 (forall q', r = Some q' -> In q' (iter e)).
  Proof.
    intros p q Hp Hq.
    destruct (run_inv roots ops roots_distinct fresh) as [edges I]. fold e in I.
    pose proof (inv_tree _ _ I) as T. pose proof (run_roots roots ops) as Er. fold e in Er. rewrite Er in T.
    destruct (get_parent_spec e edges p I Hp) as [r [Hr [Hr1 Hr2]]].
    exists (children_abs edges q), r. split; [apply get_children_spec; assumption|]. split; [assumption|].
    split; [|split; [|split]].
    - rewrite In_children_abs. symmetry. apply Hr1.
    - rewrite Hr2. split.
      + intros Hno. unfold iter in Hp. rewrite (inv_all _ _ I), Er in Hp. unfold nodes in Hp.
        apply in_app_or in Hp. destruct Hp as [Hp|Hp]; [assumption|].
        apply in_map_iff in Hp. destruct Hp as [[a b] [E Hin]]. simpl in E. subst b. exfalso. eapply Hno; eassumption.
      + intros Hroot q' Hq'. eapply Tree_root_no_parent; eassumption.
    - intros c Hc. apply In_children_abs in Hc. unfold iter. rewrite (inv_all _ _ I), Er.
      apply (proj2 (Tree_edge_nodes _ _ _ _ T Hc)).
    - intros q' E. apply Hr1 in E. unfold iter. rewrite (inv_all _ _ I), Er.
      apply (proj1 (Tree_edge_nodes _ _ _ _ T E)).
  Qed.

  Lemma levels_partition_lemma :
    (forall z, (z <= 0)%Z -> get_from_level e z = Some roots) /\
    (forall z, exists l, get_from_level e z = Some l /\ NoDup l /\ (forall p, In p l -> In p (iter e))) /\
    (forall p, In p (iter e) ->
       exists n : nat,
         (exists l, get_from_level e (Z.of_nat n) = Some l /\ In p l) /\
         (forall m l', get_from_level e (Z.of_nat m) = Some l' -> In p l' -> m = n)).
  Proof.
    destruct (run_inv roots ops roots_distinct fresh) as [edges I]. fold e in I.
    pose proof (inv_tree _ _ I) as T. pose proof (run_roots roots ops) as Er. fold e in Er. rewrite Er in T.
    split; [|split].
    - intros z Hz. rewrite (get_from_level_spec e edges z I). rewrite Er.
      replace (Z.to_nat z) with 0%nat by lia. reflexivity.
    - intros z. rewrite (get_from_level_spec e edges z I). rewrite Er. eexists. split; [reflexivity|].
      split; [apply level_abs_nodup; assumption|].
      intros p Hp. apply level_abs_AtLevel in Hp. unfold iter. rewrite (inv_all _ _ I), Er.
      eapply AtLevel_node; eassumption.
    - intros p Hp. unfold iter in Hp. rewrite (inv_all _ _ I), Er in Hp.
      destruct (AtLevel_total roots edges T p Hp) as [n Hn]. exists n. split.
      + rewrite (get_from_level_spec e edges _ I), Er, Nat2Z.id. eexists. split; [reflexivity|].
        apply level_abs_AtLevel. assumption.
      + intros m l' Hl' Hin. rewrite (get_from_level_spec e edges _ I), Er, Nat2Z.id in Hl'.
        inversion Hl'; subst l'. apply level_abs_AtLevel in Hin.
        eapply AtLevel_unique; eassumption.
  Qed.

  Lemma absent_queries_raise_lemma : forall p, ~ In p (iter e) ->
    get_children e p = None /\ get_parent e p = None /\ add_children e p [] = None.
  Proof.
    intros p H. unfold iter in H. split; [apply get_children_absent; assumption|].
    split; [|apply add_absent_parent_rejected_lemma; assumption].
    unfold get_parent. rewrite index_of_notin by assumption. reflexivity.
  Qed.
End AllHistories.

(* ------------------------------------------------------------------ interleaved reads *)
(* In the model every read operation (get_children, get_parent, get_from_level, iteration, len) is
   the identity on the state: the state after an interleaved history is the state after its
   add_children calls alone, so every theorem above holds after EVERY operation of a history that
   mixes reads and adds; and each answer is the query evaluated in the state reached so far. *)
Lemma state_after_adds h : forall e, state_after e h = fold_left step (adds_of h) e.
Proof.
  induction h as [|[p cs|q] t IH]; intros e; simpl; [reflexivity| |]; apply IH.
Qed.

Lemma reads_identity_lemma :
  (forall e q t, state_after e (HAsk q :: t) = state_after e t) /\
  (forall roots h, state_after (init roots) h = run roots (adds_of h)) /\
  (forall e h1 q h2, nth (length h1) (run_history e (h1 ++ HAsk q :: h2)) AErr = ask (state_after e h1) q) /\
  (forall e h, length (run_history e h) = length h).
Proof.
  split; [reflexivity|]. split; [intros; apply state_after_adds|]. split.
  - intros e h1. revert e. induction h1 as [|[p cs|q'] t IH]; intros e q h2; simpl.
    + reflexivity.
    + destruct (add_children e p cs) eqn:A; simpl; apply IH.
    + apply IH.
  - intros e h. revert e. induction h as [|[p cs|q] t IH]; intros e; simpl; [reflexivity| |].
    + destruct (add_children e p cs); simpl; rewrite IH; reflexivity.
    + rewrite IH. reflexivity.
Qed.

(* the in-Coq comparison used by the correspondence check is sound *)
Lemma list_eqb_eq {A} (eqb : A -> A -> bool) :
  (forall x y, eqb x y = true -> x = y) -> forall l1 l2, list_eqb eqb l1 l2 = true -> l1 = l2.
Proof.
  intros H. induction l1 as [|x t IH]; intros [|y u] E; simpl in E; try discriminate; [reflexivity|].
  apply andb_true_iff in E. destruct E as [E1 E2]. f_equal; [apply H; assumption|apply IH; assumption].
Qed.

Lemma nat_eqb_eq x y : Nat.eqb x y = true -> x = y.
Proof. apply Nat.eqb_eq. Qed.

Lemma answer_eqb_eq a b : answer_eqb a b = true -> a = b.
Proof.
  destruct a as [|l|[x|]|n|r al c]; destruct b as [|l'|[y|]|m|r' al' c']; simpl; intros E; try discriminate; try reflexivity.
  - f_equal. apply (list_eqb_eq Nat.eqb nat_eqb_eq); assumption.
  - apply Nat.eqb_eq in E. subst. reflexivity.
  - apply Nat.eqb_eq in E. subst. reflexivity.
  - apply andb_true_iff in E. destruct E as [E E3]. apply andb_true_iff in E. destruct E as [E1 E2].
    f_equal; [apply (list_eqb_eq Nat.eqb nat_eqb_eq); assumption|apply (list_eqb_eq Nat.eqb nat_eqb_eq); assumption|].
    apply (list_eqb_eq (list_eqb Nat.eqb)); [apply (list_eqb_eq Nat.eqb nat_eqb_eq)|assumption].
Qed.

Lemma first_mismatch_none xs : forall ys k, first_mismatch xs ys k = None -> xs = ys.
Proof.
  induction xs as [|x t IH]; intros [|y u] k E; simpl in E; try discriminate; [reflexivity|].
  destruct (answer_eqb x y) eqn:A; [|discriminate]. apply answer_eqb_eq in A. subst. f_equal. eapply IH; eassumption.
Qed.

(* ------------------------------------------------------------------ non-vacuity *)
Definition ex_roots : list pid := [0; 1].
Definition ex_ops : list op := [Add 0 [2; 3]; Add 2 [4]; Add 9 [5]; Add 1 []; Add 3 [5; 6]].

Example ex_fresh : NoDup ex_roots /\ FreshSeq (init ex_roots) ex_ops.
Proof.
  unfold ex_roots, ex_ops. split.
  - repeat constructor; simpl; intuition lia.
  - simpl. repeat split; try (repeat constructor; simpl; intuition lia);
      try (intros c Hc Hin; simpl in *; intuition lia).
Qed.

Example ex_run :
  iter (run ex_roots ex_ops) = [0; 1; 2; 3; 4; 5; 6] /\
  get_children (run ex_roots ex_ops) 3 = Some [5; 6] /\
  get_parent (run ex_roots ex_ops) 4 = Some (Some 2) /\
  get_parent (run ex_roots ex_ops) 1 = Some None /\
  get_from_level (run ex_roots ex_ops) 2 = Some [4; 5; 6] /\
  get_from_level (run ex_roots ex_ops) 3 = Some [] /\
  get_children (run ex_roots ex_ops) 9 = None.
Proof. vm_compute. repeat split. Qed.

(* without freshness "exactly once" fails: the faithful model returns a re-added particle twice *)
Example ex_not_fresh : iter (run [0] [Add 0 [1]; Add 0 [1]]) = [0; 1; 1].
Proof. reflexivity. Qed.
