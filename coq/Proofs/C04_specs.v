(* C04: functional specifications of add / scale / copy / with_times on the heap model. *)
From Coq Require Import List QArith Qabs Bool Arith Lia Permutation.
From PyrexLib Require Import InterpQ.
From PyrexModel Require Import SignalModel.
From PyrexProofs Require Import C04_proofs.
Import ListNotations.
Open Scope Q_scope.

Definition result_obs (st : state) (id : nat) : option (cls * bool * vtype * list Q * list Q) :=
  match get_obj st id with
  | Some o => Some (s_cls o, s_sub o, s_vt o, times_of st o, values_of st o)
  | None => None
  end.

Definition add_cls (a b : cls) : cls :=
  match a with
  | Sig => Sig
  | Empty => b
  | Fun => match b with Sig => Sig | _ => Fun end
  end.

Definition eqQ_list (a b : list Q) : Prop := Forall2 Qeq a b.

Lemma eqQ_list_refl : forall a, eqQ_list a a.
Proof. induction a; constructor; auto. reflexivity. Qed.

Lemma list_eqb_length : forall a b, list_eqb a b = true -> length a = length b.
Proof.
  induction a; destruct b; simpl; intros; try discriminate; auto.
  apply andb_true_iff in H. destruct H. f_equal. auto.
Qed.

Lemma list_eqb_iff : forall a b, list_eqb a b = true <-> eqQ_list a b.
Proof.
  induction a; destruct b; simpl; split; intros H; try discriminate; try constructor; try (inversion H; fail).
  - apply andb_true_iff in H. destruct H. apply Qeq_bool_iff. assumption.
  - apply andb_true_iff in H. destruct H. apply IHa. assumption.
  - inversion H; subst. apply andb_true_iff. split; [apply Qeq_bool_iff; assumption|apply IHa; assumption].
Qed.

Lemma map2_qadd_eq : forall a b, eqQ_list (map2 qadd a b) (map2 Qplus a b).
Proof.
  induction a; destruct b; simpl; try constructor; auto; try apply IHa. unfold qadd. apply qn_eq.
Qed.

(* reading back a freshly constructed object *)
Lemma read_mk_sig : forall st c sub td vd vt,
  result_obs (fst (mk_sig st c sub td vd vt)) (length (objs st)) =
  Some (c, sub, vt, td, pad_trunc (length td) vd).
Proof.
  intros. rewrite mk_sig_spec. unfold result_obs, get_obj. simpl.
  rewrite nth_error_app2 by lia. rewrite Nat.sub_diag. simpl.
  unfold times_of, values_of, cell. simpl.
  rewrite app_nth1 by (rewrite app_length; simpl; lia).
  rewrite app_nth2 by lia. rewrite Nat.sub_diag. simpl.
  rewrite app_nth2 by lia. rewrite Nat.sub_diag. reflexivity.
Qed.

Lemma read_mk_fun : forall st sub td cs vt,
  result_obs (fst (mk_fun st sub td cs vt)) (length (objs st)) =
  Some (Fun, sub, vt, td, fun_values td cs).
Proof.
  intros. rewrite mk_fun_spec. unfold result_obs, get_obj. simpl.
  rewrite nth_error_app2 by lia. rewrite Nat.sub_diag. simpl.
  unfold times_of, values_of, times_of, cell. simpl.
  rewrite !app_nth2 by lia. rewrite !Nat.sub_diag. reflexivity.
Qed.

Lemma read_set_vt : forall st id vt c sub v0 t v,
  result_obs st id = Some (c, sub, v0, t, v) -> result_obs (set_vt st id vt) id = Some (c, sub, vt, t, v).
Proof.
  intros st id vt c sub v0 t v H. unfold result_obs in *. unfold set_vt.
  destruct (get_obj st id) eqn:E; [|discriminate]. inversion H; subst.
  unfold get_obj, set_obj in *. simpl.
  rewrite nth_error_upd_same by (apply nth_error_Some; congruence). reflexivity.
Qed.

Lemma values_len : forall st o, obj_wfL (lens st) o -> length (values_of st o) = length (times_of st o).
Proof.
  intros st o [Ht Hv]. unfold values_of, times_of. destruct (s_vals o).
  - destruct Hv as (_ & He & _). rewrite !clen_lens. exact He.
  - apply map_length.
Qed.

Lemma snd_mk_sig : forall st c sub td vd vt, snd (mk_sig st c sub td vd vt) = length (objs st).
Proof. reflexivity. Qed.
Lemma snd_mk_fun : forall st sub td cs vt, snd (mk_fun st sub td cs vt) = length (objs st).
Proof. reflexivity. Qed.

Lemma read_do_copy : forall st o, obj_wfL (lens st) o ->
  (s_cls o = Empty -> eqQ_list (values_of st o) (zeros (length (times_of st o))) -> True) ->
  snd (do_copy st o) = length (objs st) /\
  exists v, result_obs (fst (do_copy st o)) (length (objs st)) = Some (s_cls o, false, s_vt o, times_of st o, v) /\
            (s_cls o <> Empty -> v = values_of st o) /\ (s_cls o = Empty -> v = zeros (length (times_of st o))).
Proof.
  intros st o W _. unfold do_copy. destruct (s_cls o) eqn:C.
  - split; [reflexivity|]. eexists. split; [apply read_mk_sig|]. split; [|discriminate].
    intros _. rewrite <- (values_len st o W). apply pad_trunc_same.
  - split; [reflexivity|]. eexists. split; [apply read_mk_sig|]. split; [congruence|].
    intros _. rewrite <- (zeros_length (length (times_of st o))) at 1. apply pad_trunc_same.
  - split; [reflexivity|]. eexists. split; [apply read_mk_fun|]. split; [|discriminate].
    intros _. unfold values_of. destruct W as [_ Hv]. destruct (s_vals o); [|reflexivity].
    destruct Hv as (_ & _ & Hc). congruence.
Qed.

(* ---------------------------------------------------------------- addition *)
Definition compatible (a b : vtype) : bool := vt_eqb a Undef || vt_eqb b Undef || vt_eqb a b.

Lemma add_type_table : forall a b,
  add_type a b = if compatible a b then Some (if vt_eqb a Undef then b else a) else None.
Proof. destruct a, b; reflexivity. Qed.

(* defined iff equal time grids and compatible value types; otherwise ValueError, state untouched *)
Lemma add_defined_iff_lemma : forall st a b,
  (exists st' id, do_add st a b = (st', RObj id)) <->
  (eqQ_list (times_of st a) (times_of st b) /\ compatible (s_vt a) (s_vt b) = true).
Proof.
  intros st a b. unfold do_add. rewrite add_type_table. split.
  - intros (st' & id & H).
    destruct (list_eqb (times_of st a) (times_of st b)) eqn:E; simpl in H; [|discriminate].
    destruct (compatible (s_vt a) (s_vt b)); [|discriminate].
    split; [apply list_eqb_iff; exact E|reflexivity].
  - intros [E C]. apply list_eqb_iff in E. rewrite E, C. simpl.
    destruct (s_cls a); [| |destruct (s_cls b)];
    repeat match goal with
    | |- context [mk_sig ?s ?c ?sb ?t ?d ?v] => destruct (mk_sig s c sb t d v)
    | |- context [mk_fun ?s ?sb ?t ?d ?v] => destruct (mk_fun s sb t d v)
    | |- context [do_copy ?s ?o] => destruct (do_copy s o)
    end; eauto.
Qed.

Lemma add_refused_lemma : forall st a b,
  ~ (eqQ_list (times_of st a) (times_of st b) /\ compatible (s_vt a) (s_vt b) = true) ->
  do_add st a b = (st, RErr ValueErr).
Proof.
  intros st a b H. unfold do_add. rewrite add_type_table.
  destruct (list_eqb (times_of st a) (times_of st b)) eqn:E; simpl; [|reflexivity].
  destruct (compatible (s_vt a) (s_vt b)) eqn:C; [|reflexivity].
  exfalso. apply H. split; [apply list_eqb_iff; exact E|reflexivity].
Qed.

Lemma fold_qadd_shift : forall (g : comp -> Q) cs a,
  fold_left (fun acc c => qadd acc (g c)) cs a == a + fold_left (fun acc c => qadd acc (g c)) cs 0.
Proof.
  induction cs; simpl; intros.
  - ring.
  - rewrite IHcs. rewrite (IHcs (qadd 0 (g a))). unfold qadd. rewrite !qn_eq. ring.
Qed.

Lemma fun_values_app : forall ts A B,
  eqQ_list (fun_values ts (A ++ B)) (map2 Qplus (fun_values ts A) (fun_values ts B)).
Proof.
  induction ts; simpl; intros; constructor.
  - rewrite fold_left_app. apply fold_qadd_shift.
  - apply IHts.
Qed.

Definition add_vt (a b : vtype) : vtype := if vt_eqb a Undef then b else a.

Lemma eqQ_list_sym : forall a b, eqQ_list a b -> eqQ_list b a.
Proof. induction 1; constructor; auto. symmetry. assumption. Qed.

(* the sum: class table, coerced type, same grid, pointwise values *)
Lemma add_result_lemma : forall st a b st' id,
  obj_wfL (lens st) a -> obj_wfL (lens st) b ->
  do_add st a b = (st', RObj id) ->
  id = length (objs st) /\
  exists t v, result_obs st' id = Some (add_cls (s_cls a) (s_cls b), false, add_vt (s_vt a) (s_vt b), t, v) /\
    eqQ_list t (times_of st a) /\
    match s_cls a, s_cls b with
    | Empty, Empty => v = zeros (length (times_of st b))           (* an empty signal again *)
    | Empty, _ => v = values_of st b                                 (* the other operand, copied *)
    | Fun, Empty => v = values_of st a
    | Fun, Fun =>   (* the other signal's components are evaluated on this signal's (Qeq-equal) grid *)
        eqQ_list v (map2 Qplus (values_of st a) (fun_values (times_of st a) (s_comps b)))
    | _, _ => eqQ_list v (map2 Qplus (values_of st a) (values_of st b))   (* pointwise *)
    end.
Proof.
  intros st a b st' id Wa Wb H. unfold do_add in H. rewrite add_type_table in H.
  destruct (list_eqb (times_of st a) (times_of st b)) eqn:E; cbn [negb] in H; [|discriminate].
  destruct (compatible (s_vt a) (s_vt b)) eqn:C; [|discriminate].
  pose proof (list_eqb_length _ _ E) as LT.
  assert (LEN : length (map2 qadd (values_of st a) (values_of st b)) = length (times_of st a)).
  { rewrite map2_length, (values_len _ _ Wa), (values_len _ _ Wb), <- LT. apply Nat.min_id. }
  fold (add_vt (s_vt a) (s_vt b)) in H.
  assert (SIGCASE : forall st' id,
     (let '(st'0, id0) := mk_sig st Sig false (times_of st a) (map2 qadd (values_of st a) (values_of st b))
                                 (add_vt (s_vt a) (s_vt b)) in (st'0, RObj id0)) = (st', RObj id) ->
     id = length (objs st) /\
     exists t v, result_obs st' id = Some (Sig, false, add_vt (s_vt a) (s_vt b), t, v) /\
       eqQ_list t (times_of st a) /\ eqQ_list v (map2 Qplus (values_of st a) (values_of st b))).
  { intros st2 id2 H2.
    match type of H2 with context [mk_sig ?s ?c ?sb ?t ?d ?v] =>
      pose proof (read_mk_sig s c sb t d v) as R; pose proof (snd_mk_sig s c sb t d v) as S;
      destruct (mk_sig s c sb t d v) eqn:M end.
    simpl in *. inversion H2; subst. split; [reflexivity|]. do 2 eexists. split; [exact R|].
    split; [apply eqQ_list_refl|]. rewrite <- LEN, pad_trunc_same. apply map2_qadd_eq. }
  destruct (s_cls a) eqn:Ca.
  - (* Signal + anything *)
    destruct (SIGCASE _ _ H) as (I1 & t & v & R & T & V). split; [exact I1|].
    exists t, v. simpl. split; [exact R|]. split; [exact T|]. destruct (s_cls b); exact V.
  - (* EmptySignal + other: copy of other, coerced type *)
    destruct (read_do_copy st b Wb (fun _ _ => I)) as (S & v & R & V1 & V2).
    destruct (do_copy st b) eqn:M. simpl in *. inversion H; subst.
    split; [reflexivity|]. exists (times_of st b), v. split; [|split].
    + apply (read_set_vt _ _ (add_vt (s_vt a) (s_vt b))) in R. exact R.
    + apply eqQ_list_sym. apply list_eqb_iff. exact E.
    + destruct (s_cls b); [apply V1; discriminate|apply V2; reflexivity|apply V1; discriminate].
  - destruct (s_cls b) eqn:Cb.
    + destruct (SIGCASE _ _ H) as (I1 & t & v & R & T & V). split; [exact I1|].
      exists t, v. simpl. auto.
    + destruct (read_do_copy st a Wa (fun _ _ => I)) as (S & v & R & V1 & V2).
      destruct (do_copy st a) eqn:M. simpl in *. inversion H; subst.
      split; [reflexivity|]. exists (times_of st a), v. split; [|split].
      * apply (read_set_vt _ _ (add_vt (s_vt a) (s_vt b))) in R. rewrite Ca in R. exact R.
      * apply eqQ_list_refl.
      * apply V1. congruence.
    + match type of H with context [mk_fun ?s ?sb ?t ?d ?v] =>
        pose proof (read_mk_fun s sb t d v) as R; pose proof (snd_mk_fun s sb t d v) as S;
        destruct (mk_fun s sb t d v) eqn:M end.
      simpl in *. inversion H; subst. split; [reflexivity|].
      do 2 eexists. split; [|split].
      * apply (read_set_vt _ _ (add_vt (s_vt a) (s_vt b))) in R. exact R.
      * apply eqQ_list_refl.
      * assert (Va : values_of st a = fun_values (times_of st a) (s_comps a)).
        { unfold values_of. destruct Wa as [_ Hv]. destruct (s_vals a); [|reflexivity].
          destruct Hv as (_ & _ & Hc). congruence. }
        rewrite Va. apply fun_values_app.
Qed.

(* ---------------------------------------------------------------- scaling *)
Lemma scale_result_lemma : forall st o f st' r,
  obj_wfL (lens st) o -> do_scale st o f = (st', r) ->
  r = RObj (length (objs st)) /\
  exists v, result_obs st' (length (objs st)) =
              Some (match s_cls o with Fun => Fun | _ => Sig end, false, s_vt o, times_of st o, v) /\
    match s_cls o with
    | Fun => v = fun_values (times_of st o) (scale_comps f (s_comps o))
    | _ => v = map f (values_of st o)
    end.
Proof.
  intros st o f st' r W H. unfold do_scale in H.
  assert (LEN : length (map f (values_of st o)) = length (times_of st o))
    by (rewrite map_length; apply values_len; exact W).
  destruct (s_cls o);
  match type of H with
  | context [mk_sig ?s ?c ?sb ?t ?d ?v] =>
      pose proof (read_mk_sig s c sb t d v) as R; destruct (mk_sig s c sb t d v) eqn:M
  | context [mk_fun ?s ?sb ?t ?d ?v] =>
      pose proof (read_mk_fun s sb t d v) as R; destruct (mk_fun s sb t d v) eqn:M
  end; simpl in R; inversion H; subst;
  (split; [f_equal; first [rewrite mk_sig_spec in M|rewrite mk_fun_spec in M]; inversion M; reflexivity|]);
  eexists; (split; [exact R|]); try reflexivity; rewrite <- LEN; apply pad_trunc_same.
Qed.

Lemma fold_scaled : forall (g g' : comp -> Q) (cs cs' : list comp) q,
  Forall2 (fun c c' => g' c' == g c * q) cs cs' ->
  fold_left (fun acc c => qadd acc (g' c)) cs' 0 == fold_left (fun acc c => qadd acc (g c)) cs 0 * q.
Proof.
  intros g g' cs cs' q H. induction H; simpl.
  - ring.
  - rewrite (fold_qadd_shift g' l' (qadd 0 (g' y))). rewrite (fold_qadd_shift g l (qadd 0 (g x))).
    rewrite IHForall2. unfold qadd. rewrite !qn_eq. rewrite H. ring.
Qed.

(* scaling a function-backed signal multiplies every value *)
Lemma fun_scale_values : forall ts cs q,
  eqQ_list (fun_values ts (scale_comps (fun v => qmul v q) cs)) (map (fun x => x * q) (fun_values ts cs)).
Proof.
  induction ts; simpl; intros; constructor; [|apply IHts].
  apply fold_scaled. unfold scale_comps. induction cs; cbn [map]; constructor; auto.
  unfold comp_val, qmul. cbn [c_fn c_t0 c_factor c_lead c_trail]. rewrite !qn_eq. ring.
Qed.

Lemma mapi_from_const : forall (f : Q -> Q) l k, mapi_from k (fun _ v => f v) l = map f l.
Proof. induction l; simpl; intros; auto. f_equal. apply IHl. Qed.

(* in-place scaling writes exactly the signal's own value array; every other array is untouched *)
Lemma iscale_result_lemma : forall st i o f vc,
  s_vals o = Some vc -> (vc < length (arrs st))%nat ->
  do_iscale st i o f = (write st vc (fun _ v => f v), RSame i) /\
  cell (write st vc (fun _ v => f v)) vc = map f (cell st vc) /\
  (forall c, c <> vc -> cell (write st vc (fun _ v => f v)) c = cell st c).
Proof.
  intros st i o f vc H L. unfold do_iscale. rewrite H. split; [reflexivity|]. split.
  - unfold write, cell at 1. simpl. rewrite nth_upd_same by exact L. unfold mapi. apply mapi_from_const.
  - intros c Hc. unfold write, cell at 1. simpl. rewrite nth_upd_other by exact Hc. reflexivity.
Qed.

(* writes through one array never change another one (frame rule used with no_sharing) *)
Lemma write_frame_lemma : forall st c c' f, c' <> c -> cell (write st c f) c' = cell st c'.
Proof. intros. unfold write, cell at 1. simpl. rewrite nth_upd_other by assumption. reflexivity. Qed.

(* ---------------------------------------------------------------- re-gridding *)
Lemma fun_values_buf : forall ts l t cs, fun_values ts (buf_comps l t cs) = fun_values ts cs.
Proof.
  intros. unfold fun_values. apply map_ext. intro x. unfold buf_comps.
  generalize 0. induction cs; simpl; intros; auto.
Qed.

Lemma with_times_sig_lemma : forall st o tc st' r,
  s_cls o = Sig -> do_with_times false st o tc = (st', r) ->
  match interp_all (times_of st o) (values_of st o) (cell st tc) with
  | None => r = RErr ValueErr /\ st' = st
  | Some nv => r = RObj (length (objs st)) /\
               result_obs st' (length (objs st)) = Some (Sig, false, s_vt o, cell st tc, nv) /\
               nv = map (fun x => match interp (times_of st o) (values_of st o) x with Some v => v | None => 0 end)
                        (cell st tc)
  end.
Proof.
  intros st o tc st' r C H. unfold do_with_times in H. rewrite C in H.
  destruct (interp_all (times_of st o) (values_of st o) (cell st tc)) eqn:E.
  - match type of H with context [mk_sig ?s ?c ?sb ?t ?d ?v] =>
      pose proof (read_mk_sig s c sb t d v) as R; destruct (mk_sig s c sb t d v) eqn:M end.
    rewrite mk_sig_spec in M. inversion M; subst. inversion H; subst. simpl in R.
    assert (NV : l = map (fun x => match interp (times_of st o) (values_of st o) x with Some v => v | None => 0 end) (cell st tc)).
    { unfold interp_all in E. destruct (cell st tc) eqn:CT; [inversion E; reflexivity|].
      destruct (times_of st o); [discriminate|]. destruct (values_of st o); [discriminate|].
      inversion E. reflexivity. }
    split; [reflexivity|]. split; [|exact NV].
    rewrite R. repeat f_equal. rewrite NV at 2. rewrite <- (map_length (fun x => match interp (times_of st o) (values_of st o) x with Some v => v | None => 0 end) (cell st tc)).
    rewrite <- NV. apply pad_trunc_same.
  - inversion H. split; reflexivity.
Qed.

Lemma with_times_empty_lemma : forall st o tc st' r,
  s_cls o = Empty -> do_with_times false st o tc = (st', r) ->
  r = RObj (length (objs st)) /\
  result_obs st' (length (objs st)) = Some (Empty, false, s_vt o, cell st tc, zeros (length (cell st tc))).
Proof.
  intros st o tc st' r C H. unfold do_with_times in H. rewrite C in H. unfold mk_empty in H.
  match type of H with context [mk_sig ?s ?c ?sb ?t ?d ?v] =>
      pose proof (read_mk_sig s c sb t d v) as R; destruct (mk_sig s c sb t d v) eqn:M end.
  rewrite mk_sig_spec in M. inversion M; subst. inversion H; subst. simpl in R. split; [reflexivity|].
  rewrite R. repeat f_equal. rewrite <- (zeros_length (length (cell st tc))) at 1. apply pad_trunc_same.
Qed.

(* a function-backed signal is re-evaluated on the new grid: same components (only the buffers
   may grow), hence exactly the function values at the new times *)
Lemma with_times_fun_lemma : forall st o tc st' id,
  s_cls o = Fun -> do_with_times false st o tc = (st', RObj id) ->
  id = length (objs st) /\
  result_obs st' id = Some (Fun, false, s_vt o, cell st tc, fun_values (cell st tc) (s_comps o)).
Proof.
  intros st o tc st' id C H. unfold do_with_times in H. rewrite C in H.
  rewrite mk_fun_spec in H. unfold alloc, set_times_cell, get_obj in H. simpl in H.
  rewrite nth_error_app2 in H by lia. rewrite Nat.sub_diag in H. simpl in H.
  unfold set_obj in H. simpl in H. rewrite upd_app_last in H.
  assert (READ : forall cs,
    result_obs {| arrs := (arrs st ++ [times_of st o]) ++ [cell st tc];
                  objs := objs st ++ [{| s_cls := Fun; s_sub := false;
                                         s_times := length (arrs st ++ [times_of st o]);
                                         s_vals := None; s_vt := s_vt o; s_comps := cs |}];
                  ext := ext st |} (length (objs st)) =
    Some (Fun, false, s_vt o, cell st tc, fun_values (cell st tc) cs)).
  { intro cs. unfold result_obs, get_obj. simpl. rewrite nth_error_app2 by lia. rewrite Nat.sub_diag. simpl.
    unfold values_of, times_of, cell. simpl. rewrite !app_nth2 by lia. rewrite !Nat.sub_diag. reflexivity. }
  destruct (hd_Q (cell st tc)); [|discriminate].
  destruct (last_Q (cell st tc)); [|discriminate].
  destruct (hd_Q (times_of st o)); [|discriminate].
  destruct (last_Q (times_of st o)); [|discriminate].
  match type of H with context [if ?c then _ else _] => destruct c end.
  - unfold set_comps, get_obj in H. simpl in H. rewrite nth_error_app2 in H by lia.
    rewrite Nat.sub_diag in H. simpl in H. unfold set_obj in H. simpl in H. rewrite upd_app_last in H.
    inversion H; subst. split; [reflexivity|]. rewrite READ. rewrite fun_values_buf. reflexivity.
  - inversion H; subst. split; [reflexivity|]. apply READ.
Qed.

(* ---------------------------------------------------------------- non-vacuity examples *)
Definition demo_history : list op :=
  [ONewArr [0; 1; 2; 3]; ONewArr [5; 6];
   OMk Sig false 0 1 (fun t => t) Volt;                    (* values padded to [5;6;0;0] *)
   OMk Fun false 0 0 (fun t => 2 * t + 1) Undef;
   OAdd 0 1;                                               (* Signal + FunctionSignal *)
   ONewArr [1 # 2; 1; 7]; OWithTimes 0 2; OWithTimes 1 2; OMk Empty false 0 0 (fun t => t) Power;
   OAdd 5 0].                                              (* Empty(power) + Signal(voltage): refused *)

Example demo_outcomes :
  map out_code (snd (run false init demo_history)) =
  [(2, 0); (2, 0); (0, 0); (0, 1); (0, 2); (2, 0); (0, 3); (0, 4); (0, 5); (3, 0)]%Z.
Proof. vm_compute. reflexivity. Qed.

Example demo_values :
  let st := run_state false demo_history in
  map (fun o => map qpair (values_of st o)) (objs st) =
  [[(5, 1); (6, 1); (0, 1); (0, 1)]; [(1, 1); (3, 1); (5, 1); (7, 1)]; [(6, 1); (9, 1); (5, 1); (7, 1)];
   [(11, 2); (6, 1); (0, 1)]; [(2, 1); (3, 1); (15, 1)]; [(0, 1); (0, 1); (0, 1); (0, 1)]]%Z.
Proof. vm_compute. reflexivity. Qed.

(* ---------------------------------------------------------------- the empty signal is neutral for function backing *)
(* EmptySignal + FunctionSignal and FunctionSignal + EmptySignal are FUNCTION-BACKED with exactly the
   FunctionSignal's components, so a later re-gridding re-evaluates the function (with_times_fun_lemma)
   instead of interpolating stored samples *)
Lemma add_with_empty_keeps_function_lemma : forall st a b st' id,
  ((s_cls a = Empty /\ s_cls b = Fun) \/ (s_cls a = Fun /\ s_cls b = Empty)) ->
  do_add st a b = (st', RObj id) ->
  exists o', get_obj st' id = Some o' /\ s_cls o' = Fun /\
             s_comps o' = s_comps (match s_cls a with Empty => b | _ => a end).
Proof.
  intros st a b st' id C H. unfold do_add in H.
  destruct (negb (list_eqb (times_of st a) (times_of st b))); [discriminate|].
  destruct (add_type (s_vt a) (s_vt b)); [|discriminate].
  destruct C as [[Ca Cb]|[Ca Cb]]; rewrite Ca in *; try rewrite Cb in *;
    unfold do_copy in H; try rewrite Ca in H; try rewrite Cb in H;
    rewrite mk_fun_spec in H; unfold set_vt, get_obj in H; simpl in H;
    rewrite nth_error_app2 in H by lia; rewrite Nat.sub_diag in H; simpl in H;
    unfold set_obj in H; simpl in H; rewrite upd_app_last in H; inversion H; subst;
    eexists; (split; [unfold get_obj; simpl; rewrite nth_error_app2 by lia; rewrite Nat.sub_diag; reflexivity|]);
    split; reflexivity.
Qed.
