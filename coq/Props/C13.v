(* C13: generators throw uniform, isotropic, correctly weighted neutrinos and count throws.
   Statements only.  Generator_* / Cylindrical_* / Rectangular_* are regenerated from
   pyrex/generation.py on every run with the np.random draws as parameters u1 u2 ... (Gen/Gen_generation.v);
   box_exit_points / cyl_side_points / create_event / l_step are the pinned hand model
   (Model/GeneratorModel.v). *)
From Coq Require Import Reals List Bool ZArith Lia.
From PyrexLib Require Import RealPrims.
From PyrexModel Require Import GeneratorModel.
From PyrexGen Require Import Gen_generation.
From PyrexProofs Require Import C13_proofs C13_closed_proofs C13_cyl_proofs.
Import ListNotations.
Open Scope R_scope.

(* --- directions: unit vectors, isotropic ----------------------------------------------------- *)
Theorem direction_unit : forall u1 u2, 0 <= u1 <= 1 ->
  vdot (Generator_get_direction u1 u2) (Generator_get_direction u1 u2) = 1.
Proof. exact direction_unit_lemma. Qed.
Print Assumptions direction_unit.

(* z = 2 u1 - 1, azimuth 2 pi u2; the pre-image of the cap-sector {z <= c, azimuth <= p} is a
   rectangle of area = the fraction p (c+1) / 4 pi of the sphere covered by the cap-sector *)
Theorem direction_isotropic : forall u1 u2 c p, 0 <= u1 <= 1 ->
  let v := Generator_get_direction u1 u2 in
  vz v = 2 * u1 - 1 /\
  vx v = sqrt (1 - (vz v) ^ 2) * cos (2 * PI * u2) /\
  vy v = sqrt (1 - (vz v) ^ 2) * sin (2 * PI * u2) /\
  0 <= sqrt (1 - (vz v) ^ 2) /\
  (vz v <= c <-> u1 <= (c + 1) / 2) /\
  (2 * PI * u2 <= p <-> u2 <= p / (2 * PI)) /\
  ((c + 1) / 2) * (p / (2 * PI)) = (p * (c + 1)) / (4 * PI).
Proof. exact direction_isotropic_lemma. Qed.
Print Assumptions direction_isotropic.

(* --- vertices: inside the volume and uniform -------------------------------------------------- *)
Theorem cyl_vertex_inside : forall g u1 u2 u3,
  0 <= Cyl_dr g -> 0 <= Cyl_dz g -> 0 <= u1 <= 1 -> 0 <= u3 <= 1 ->
  let v := Cylindrical_get_vertex g u1 u2 u3 in
  vx v * vx v + vy v * vy v <= Cyl_dr g * Cyl_dr g /\ - Cyl_dz g <= vz v <= 0.
Proof. exact cyl_vertex_inside_lemma. Qed.
Print Assumptions cyl_vertex_inside.

(* r = dr sqrt(u1): the pre-image of the cell {r <= rho, azimuth <= p, z >= -h} is a box of volume
   = (volume of the cell) / (volume of the cylinder) *)
Theorem cyl_vertex_uniform : forall g u1 u2 u3 rho p h,
  0 < Cyl_dr g -> 0 < Cyl_dz g -> 0 <= u1 -> 0 <= rho ->
  let v := Cylindrical_get_vertex g u1 u2 u3 in
  vx v = sqrt (vx v * vx v + vy v * vy v) * cos (2 * PI * u2) /\
  vy v = sqrt (vx v * vx v + vy v * vy v) * sin (2 * PI * u2) /\
  (vx v * vx v + vy v * vy v <= rho * rho <-> u1 <= (rho / Cyl_dr g) ^ 2) /\
  (2 * PI * u2 <= p <-> u2 <= p / (2 * PI)) /\
  (- h <= vz v <-> u3 <= h / Cyl_dz g) /\
  (rho / Cyl_dr g) ^ 2 * (p / (2 * PI)) * (h / Cyl_dz g)
    = (p / 2 * (rho * rho) * h) / (PI * (Cyl_dr g * Cyl_dr g) * Cyl_dz g).
Proof. exact cyl_vertex_uniform_lemma. Qed.
Print Assumptions cyl_vertex_uniform.

Theorem box_vertex_inside : forall g u1 u2 u3,
  0 <= Box_dx g -> 0 <= Box_dy g -> 0 <= Box_dz g -> 0 <= u1 <= 1 -> 0 <= u2 <= 1 -> 0 <= u3 <= 1 ->
  let v := Rectangular_get_vertex g u1 u2 u3 in
  - Box_dx g / 2 <= vx v <= Box_dx g / 2 /\ - Box_dy g / 2 <= vy v <= Box_dy g / 2 /\ - Box_dz g <= vz v <= 0.
Proof. exact box_vertex_inside_lemma. Qed.
Print Assumptions box_vertex_inside.

Theorem box_vertex_uniform : forall g u1 u2 u3 a b c,
  0 < Box_dx g -> 0 < Box_dy g -> 0 < Box_dz g ->
  let v := Rectangular_get_vertex g u1 u2 u3 in
  (vx v <= a <-> u1 <= (a + Box_dx g / 2) / Box_dx g) /\
  (vy v <= b <-> u2 <= (b + Box_dy g / 2) / Box_dy g) /\
  (vz v <= c <-> u3 <= (c + Box_dz g) / Box_dz g) /\
  ((a + Box_dx g / 2) / Box_dx g) * ((b + Box_dy g / 2) / Box_dy g) * ((c + Box_dz g) / Box_dz g)
    = ((a + Box_dx g / 2) * (b + Box_dy g / 2) * (c + Box_dz g)) / (Box_dx g * Box_dy g * Box_dz g).
Proof. exact box_vertex_uniform_lemma. Qed.
Print Assumptions box_vertex_uniform.

(* --- flavours and nu/nubar in the configured ratios (pgamma: 0.78, 0.61, 0.61; pp: 1/2) --------- *)
Theorem flavour_ratios_cosmogenic : forall g u1 u2, ratio_ok g ->
  flavour_spec (Generator_cosmogenic_get_particle_type g u1 u2) g u1 u2 (78 / 100) (61 / 100) (61 / 100).
Proof. exact flavour_cosmogenic_lemma. Qed.
Print Assumptions flavour_ratios_cosmogenic.

Theorem flavour_ratios_astrophysical : forall g u1 u2, ratio_ok g ->
  flavour_spec (Generator_astrophysical_get_particle_type g u1 u2) g u1 u2 (1 / 2) (1 / 2) (1 / 2).
Proof. exact flavour_astrophysical_lemma. Qed.
Print Assumptions flavour_ratios_astrophysical.

Theorem flavour_ratio_normalised : forall a b c, 0 <= a -> 0 <= b -> 0 <= c -> 0 < a + b + c ->
  ratio_ok (mkGen (a / (a + b + c), b / (a + b + c), c / (a + b + c))).
Proof. exact ratio_normalised. Qed.
Print Assumptions flavour_ratio_normalised.

(* --- exit points ----------------------------------------------------------------------------- *)
(* box: for a vertex strictly inside and a non-zero direction get_exit_points returns two points
   that lie on the boundary of the box, on the line of flight, the entry behind and the exit ahead
   of the vertex (good_point ... true/false = exists s<0 / s>0, p = v + s d, p on the boundary) *)
Theorem exit_points_box : forall dx dy dz v d,
  box_strictly_inside dx dy dz v -> (exists k, (k < 3)%nat /\ vnth d k <> 0) ->
  exists en ex, box_exit_points dx dy dz v d = Some (en, ex) /\
                good_point dx dy dz v d true en /\ good_point dx dy dz v d false ex.
Proof. exact exit_points_box_lemma. Qed.
Print Assumptions exit_points_box.

(* and whatever it returns has these properties (also when the direction is zero: it then raises) *)
Theorem exit_points_box_sound : forall dx dy dz v d en ex,
  box_strictly_inside dx dy dz v ->
  box_exit_points dx dy dz v d = Some (en, ex) ->
  good_point dx dy dz v d true en /\ good_point dx dy dz v d false ex.
Proof. exact exit_points_box_sound_lemma. Qed.
Print Assumptions exit_points_box_sound.

(* the same on the CLOSED box: a vertex on a face, an edge or a corner (np.random.uniform includes the
   lower faces; an interaction at the surface z = 0) and a non-zero direction still yield two points on
   the boundary and on the line of flight, with the vertex weakly between them (s <= 0 <= t) ... *)
Theorem exit_points_box_closed : forall dx dy dz v d,
  box_closed dx dy dz v -> (exists k, (k < 3)%nat /\ vnth d k <> 0) ->
  exists en ex, box_exit_points dx dy dz v d = Some (en, ex) /\
                good_point_c dx dy dz v d true en /\ good_point_c dx dy dz v d false ex.
Proof. exact exit_points_box_closed_lemma. Qed.
Print Assumptions exit_points_box_closed.

(* ... and when the direction crosses the face the vertex lies on, the vertex itself is the exit
   point (direction leaving the box there) or the entry point (direction entering there) *)
Theorem boundary_vertex_is_exit_or_entry : forall dx dy dz v d p c, (c < 3)%nat ->
  (good_point_c dx dy dz v d false p ->
   (vnth v c = hi_side dx dy dz c /\ 0 < vnth d c) \/ (vnth v c = lo_side dx dy dz c /\ vnth d c < 0) -> p = v) /\
  (good_point_c dx dy dz v d true p ->
   (vnth v c = hi_side dx dy dz c /\ vnth d c < 0) \/ (vnth v c = lo_side dx dy dz c /\ 0 < vnth d c) -> p = v).
Proof.
  intros dx dy dz v d p c Hc. split; intros G H.
  - apply (vertex_is_exit_lemma dx dy dz v d p c Hc G H).
  - apply (vertex_is_entry_lemma dx dy dz v d p c Hc G H).
Qed.
Print Assumptions boundary_vertex_is_exit_or_entry.

(* cylinder (the whole routine: side wall, both caps, horizontal, vertical and every other non-zero
   direction): for every vertex of the CLOSED cylinder get_exit_points returns two points on the
   boundary (x^2+y^2 = dr^2 within the height range, or z = 0 / z = -dz within the radius), on the line
   of flight, the entry behind (s <= 0) and the exit ahead (t >= 0) of the vertex ... *)
Theorem exit_points_cyl : forall dr dz v d,
  cyl_closed dr dz v -> (vx d <> 0 \/ vy d <> 0 \/ vz d <> 0) ->
  exists en ex, cyl_exit_points dr dz v d = Some (en, ex) /\
    exists s t, s <= 0 <= t /\ en = line_point v d s /\ ex = line_point v d t /\
                cyl_on_boundary dr dz en /\ cyl_on_boundary dr dz ex.
Proof. exact exit_points_cyl_closed_lemma. Qed.
Print Assumptions exit_points_cyl.

(* ... strictly between them when the vertex is strictly inside *)
Theorem exit_points_cyl_strict : forall dr dz v d,
  cyl_strictly_inside dr dz v -> (vx d <> 0 \/ vy d <> 0 \/ vz d <> 0) ->
  exists en ex, cyl_exit_points dr dz v d = Some (en, ex) /\
    exists s t, s < 0 < t /\ en = line_point v d s /\ ex = line_point v d t /\
                cyl_on_boundary dr dz en /\ cyl_on_boundary dr dz ex.
Proof.
  intros dr dz v d Hin Hd.
  assert (Hc : cyl_closed dr dz v) by (destruct Hin as [A B]; split; Lra.lra).
  destruct (exit_points_cyl_closed_lemma dr dz v d Hc Hd) as (en & ex & E & R).
  exists en, ex. split; [assumption|]. apply (exit_points_cyl_strict_lemma dr dz v d en ex Hin R).
Qed.
Print Assumptions exit_points_cyl_strict.

(* --- weights --------------------------------------------------------------------------------- *)
Theorem weights_spec : forall p en ex t l_int,
  let L_ice := l_int / (92 / 100) / 100 in
  Generator_get_weights p en ex t l_int
  = (exp (- (t / l_int)), dist ex en / L_ice * exp (- dist (Particle_vertex p) en / L_ice)).
Proof. exact weights_spec_lemma. Qed.
Print Assumptions weights_spec.

Theorem weights_range : forall p en ex t l_int, 0 <= t -> 0 < l_int ->
  0 < fst (Generator_get_weights p en ex t l_int) <= 1 /\ 0 <= snd (Generator_get_weights p en ex t l_int).
Proof. exact weights_range_lemma. Qed.
Print Assumptions weights_range.

(* --- shadowing: rejected with probability 1 - survival weight --------------------------------- *)
Theorem shadow_accept_prob : forall (T : Type) (p : T) w u c f, 0 <= w <= 1 -> 0 <= u < 1 ->
  (create_event true (S f) c [(p, w, u)] = Some (p, 1, (c + 1)%Z, []) <-> 0 <= u < w) /\
  (create_event true (S f) c [(p, w, u)] = None <-> w <= u < 1).
Proof. exact shadow_accept_lemma. Qed.
Print Assumptions shadow_accept_prob.

(* --- count increases by one for every throw, including rejected ones -------------------------- *)
Theorem count_counts_throws : forall (T : Type) shadow fuel c (throws : list (@throw T)) p w c' rest,
  create_event shadow fuel c throws = Some (p, w, c', rest) ->
  exists rejected pl wl ul,
    throws = rejected ++ (pl, wl, ul) :: rest /\
    c' = (c + Z.of_nat (length rejected) + 1)%Z /\
    p = pl /\
    (shadow = false -> rejected = [] /\ w = wl) /\
    (shadow = true -> w = 1 /\ ul < wl /\ List.Forall (fun t => snd (fst t) <= snd t) rejected).
Proof. exact count_counts_throws_lemma. Qed.
Print Assumptions count_counts_throws.

(* --- list generators cycle or stop as configured; count bookkeeping -------------------------- *)
Theorem list_cycles : forall n k i a,
  l_run n true (mkL i a) (repeat Create k)
  = (mkL (i + Z.of_nat k) a, map (fun j : nat => Ev ((i + Z.of_nat j) mod n)%Z) (seq 0 k)).
Proof. exact l_cycles. Qed.
Print Assumptions list_cycles.

Theorem list_stops : forall n k i a, (0 <= i)%Z ->
  ((i + Z.of_nat k <= n)%Z ->
     l_run n false (mkL i a) (repeat Create k)
     = (mkL (i + Z.of_nat k) a, map (fun j : nat => Ev (i + Z.of_nat j)%Z) (seq 0 k))) /\
  ((n <= i)%Z -> l_run n false (mkL i a) (repeat Create k) = (mkL i a, repeat Stop k)).
Proof.
  intros n k i a Hi. split; intro H.
  - apply l_stops_prefix; assumption.
  - apply l_stops_after; assumption.
Qed.
Print Assumptions list_stops.

Theorem list_count : forall n loop,
  (forall ops s, l_index (fst (l_run n loop s ops)) = (l_index s + creates (snd (l_run n loop s ops)))%Z) /\
  (forall ops s, List.Forall (fun o => match o with SetCount _ => False | _ => True end) ops ->
     l_count (fst (l_run n loop s ops)) = (l_count s + creates (snd (l_run n loop s ops)))%Z) /\
  (forall s c, l_count (fst (l_step n loop s (SetCount c))) = c).
Proof.
  intros n loop. split; [|split].
  - apply l_run_index.
  - apply l_count_no_set.
  - apply l_count_set.
Qed.
Print Assumptions list_count.

(* --- energies from the supplied source, exactly, for stateful sources ------------------------- *)
(* for ALL histories of create_event calls (with any numbers of rejected throws), direct get_energy()
   calls and count assignments: the source has been called exactly once per throw (rejected ones
   included) plus once per direct call -- and not at construction (g_init is at position 0) ... *)
Theorem energy_source_called_once_per_throw : forall ops s,
  g_pos (fst (g_run s ops)) = (g_pos s + sumZ source_calls ops)%Z /\
  (List.Forall (fun o => match o with SetCountG _ => False | _ => True end) ops ->
   g_count (fst (g_run s ops)) = (g_count s + sumZ op_throws ops)%Z).
Proof. intros ops s. split; [apply g_run_pos|apply g_run_count]. Qed.
Print Assumptions energy_source_called_once_per_throw.

(* ... every event carries the value drawn in its own accepted throw, and a direct call returns the
   next value ... *)
Theorem energy_source_step : forall s r,
  g_step s (Throws r) = (mkG (g_pos s + (Z.of_nat r + 1)) (g_count s + (Z.of_nat r + 1)),
                         GEvent (g_pos s + Z.of_nat r) (g_count s + (Z.of_nat r + 1))) /\
  g_step s DirectEnergy = (mkG (g_pos s + 1) (g_count s), GEnergy (g_pos s)).
Proof. intros. split; reflexivity. Qed.
Print Assumptions energy_source_step.

(* ... so with create_event calls only, throw number k overall uses the k-th value of the source *)
Theorem kth_throw_uses_kth_energy : forall c0 ops, only_throws ops ->
  List.Forall (event_matches c0) (snd (g_run (g_init c0) ops)).
Proof.
  intros c0 ops H. apply (g_run_kth c0 ops (g_init c0) H). unfold g_init; cbn. lia.
Qed.
Print Assumptions kth_throw_uses_kth_energy.
