(* C07: index lemmas for the list manipulations of Model/AskaryanIndex.v (axiom-free). *)
From Coq Require Import List ZArith Bool Lia.
From PyrexModel Require Import AskaryanIndex.
Import ListNotations.
Open Scope Z_scope.

Section IndexLemmas.
  Variable A : Type.
  Variable zero : A.

  (* ---------------------------------------------------------------- *)
  (* nat-level helpers (proved here so that nothing depends on the     *)
  (* exact contents of the 8.16 List library)                          *)
  (* ---------------------------------------------------------------- *)

  Lemma nth_firstn_nat : forall n (l : list A) m d,
    nth m (firstn n l) d = if (m <? n)%nat then nth m l d else d.
  Proof.
    induction n; intros l m d.
    - simpl. destruct m; reflexivity.
    - destruct l as [|x l].
      + simpl. destruct m; destruct (_ <? _)%nat; reflexivity.
      + destruct m as [|m].
        * reflexivity.
        * simpl firstn. simpl nth. rewrite IHn. reflexivity.
  Qed.

  Lemma nth_skipn_nat : forall n (l : list A) m d,
    nth m (skipn n l) d = nth (n + m) l d.
  Proof.
    induction n; intros l m d.
    - reflexivity.
    - destruct l as [|x l].
      + simpl. destruct m; reflexivity.
      + simpl. apply IHn.
  Qed.

  Lemma nth_repeat_nat : forall (a : A) n m, nth m (repeat a n) a = a.
  Proof.
    induction n; intros m.
    - destruct m; reflexivity.
    - destruct m; simpl; [reflexivity | apply IHn].
  Qed.

  Lemma nth_map_seq : forall (f : nat -> A) n m d, (m < n)%nat ->
    nth m (map f (seq 0 n)) d = f m.
  Proof.
    intros f n m d H.
    rewrite nth_indep with (d' := f 0%nat) by (rewrite map_length, seq_length; exact H).
    rewrite map_nth. rewrite seq_nth by exact H. reflexivity.
  Qed.

  (* ---------------------------------------------------------------- *)
  (* zlen                                                              *)
  (* ---------------------------------------------------------------- *)

  Lemma zlen_nonneg : forall (l : list A), 0 <= zlen l.
  Proof. intros. unfold zlen. lia. Qed.

  Lemma zlen_app : forall (l1 l2 : list A), zlen (l1 ++ l2) = zlen l1 + zlen l2.
  Proof. intros. unfold zlen. rewrite app_length. lia. Qed.

  Lemma zlen_zeros : forall k, zlen (zeros zero k) = Z.max 0 k.
  Proof. intros. unfold zlen, zeros. rewrite repeat_length. lia. Qed.

  Lemma zlen_firstn_skipn : forall n a (l : list A),
    zlen (firstn n (skipn a l)) = Z.min (Z.of_nat n) (Z.max 0 (zlen l - Z.of_nat a)).
  Proof. intros. unfold zlen. rewrite firstn_length, skipn_length. lia. Qed.

  (* ---------------------------------------------------------------- *)
  (* 1. getz                                                           *)
  (* ---------------------------------------------------------------- *)

  Lemma getz_nth : forall (l : list A) i, 0 <= i -> getz zero l i = nth (Z.to_nat i) l zero.
  Proof.
    intros l i H. unfold getz. destruct (Z.ltb_spec i 0); [lia | reflexivity].
  Qed.

  Lemma getz_neg : forall (l : list A) i, i < 0 -> getz zero l i = zero.
  Proof.
    intros l i H. unfold getz. destruct (Z.ltb_spec i 0); [reflexivity | lia].
  Qed.

  Lemma getz_out : forall (l : list A) i, i < 0 \/ zlen l <= i -> getz zero l i = zero.
  Proof.
    intros l i [H | H].
    - apply getz_neg; exact H.
    - unfold zlen in H. unfold getz. destruct (Z.ltb_spec i 0); [reflexivity|].
      apply nth_overflow. lia.
  Qed.

  Lemma getz_app : forall (l1 l2 : list A) i,
    getz zero (l1 ++ l2) i
    = if i <? zlen l1 then getz zero l1 i else getz zero l2 (i - zlen l1).
  Proof.
    intros. unfold getz, zlen.
    destruct (Z.ltb_spec i 0).
    - destruct (Z.ltb_spec i (Z.of_nat (length l1))); [reflexivity | lia].
    - destruct (Z.ltb_spec i (Z.of_nat (length l1))).
      + apply app_nth1. lia.
      + destruct (Z.ltb_spec (i - Z.of_nat (length l1)) 0); [lia|].
        rewrite app_nth2 by lia. f_equal. lia.
  Qed.

  Lemma getz_app_l : forall (l1 l2 : list A) i, i < zlen l1 ->
    getz zero (l1 ++ l2) i = getz zero l1 i.
  Proof.
    intros. rewrite getz_app. destruct (Z.ltb_spec i (zlen l1)); [reflexivity | lia].
  Qed.

  Lemma getz_app_r : forall (l1 l2 : list A) i, zlen l1 <= i ->
    getz zero (l1 ++ l2) i = getz zero l2 (i - zlen l1).
  Proof.
    intros. rewrite getz_app. destruct (Z.ltb_spec i (zlen l1)); [lia | reflexivity].
  Qed.

  Lemma getz_zeros : forall k i, getz zero (zeros zero k) i = zero.
  Proof.
    intros. unfold getz, zeros. destruct (i <? 0); [reflexivity | apply nth_repeat_nat].
  Qed.

  Lemma getz_firstn : forall n (l : list A) i,
    getz zero (firstn n l) i = if i <? Z.of_nat n then getz zero l i else zero.
  Proof.
    intros. unfold getz.
    destruct (Z.ltb_spec i 0).
    - destruct (Z.ltb_spec i (Z.of_nat n)); reflexivity.
    - rewrite nth_firstn_nat.
      destruct (Z.ltb_spec i (Z.of_nat n)); destruct (Nat.ltb_spec (Z.to_nat i) n);
        try reflexivity; lia.
  Qed.

  Lemma getz_skipn : forall n (l : list A) i, 0 <= i ->
    getz zero (skipn n l) i = getz zero l (i + Z.of_nat n).
  Proof.
    intros. rewrite !getz_nth by lia. rewrite nth_skipn_nat. f_equal. lia.
  Qed.

  Lemma getz_firstn_skipn : forall n a (l : list A) i, 0 <= i ->
    getz zero (firstn n (skipn a l)) i
    = if i <? Z.of_nat n then getz zero l (i + Z.of_nat a) else zero.
  Proof.
    intros. rewrite getz_firstn. rewrite getz_skipn by assumption. reflexivity.
  Qed.

  (* ---------------------------------------------------------------- *)
  (* 7. extensionality                                                 *)
  (* ---------------------------------------------------------------- *)

  Lemma list_ext_getz : forall (l1 l2 : list A), zlen l1 = zlen l2 ->
    (forall j, 0 <= j < zlen l1 -> getz zero l1 j = getz zero l2 j) -> l1 = l2.
  Proof.
    intros l1 l2 Hlen H. unfold zlen in *.
    apply nth_ext with (d := zero) (d' := zero).
    - lia.
    - intros n Hn. specialize (H (Z.of_nat n)).
      rewrite !getz_nth in H by lia. rewrite Nat2Z.id in H. apply H. lia.
  Qed.

  (* ---------------------------------------------------------------- *)
  (* 2./3. arz_assemble                                                *)
  (* ---------------------------------------------------------------- *)

  Ltac split_ltb :=
    repeat match goal with
           | |- context [?a <? ?b] => destruct (Z.ltb_spec a b)
           end.

  Lemma arz_outside_false : forall ns ne nd,
    arz_outside ns ne nd = false -> - ns < nd /\ ns - ne < nd.
  Proof.
    intros ns ne nd H. unfold arz_outside in H.
    apply orb_false_elim in H. destruct H as [H1 H2].
    rewrite Z.geb_leb in H1, H2. apply Z.leb_gt in H1. apply Z.leb_gt in H2.
    split; assumption.
  Qed.

  Lemma arz_assemble_length : forall (conv : list A) ns ne nd,
    zlen conv = nd + ne -> 0 <= nd -> arz_outside ns ne nd = false ->
    zlen (arz_assemble zero conv ns ne) = nd.
  Proof.
    intros conv ns ne nd Hlen Hnd Hout.
    apply arz_outside_false in Hout. destruct Hout as [H1 H2].
    unfold arz_assemble. rewrite Z.gtb_ltb, Z.geb_leb.
    destruct (Z.ltb_spec 0 ns); destruct (Z.leb_spec 0 (ns - ne));
      unfold slice_from, slice_to, slice, py_index;
      rewrite ?zlen_app, ?zlen_zeros, ?zlen_firstn_skipn;
      split_ltb; lia.
  Qed.

  Lemma arz_assemble_nth : forall (conv : list A) ns ne nd j,
    zlen conv = nd + ne -> 0 <= nd -> arz_outside ns ne nd = false -> 0 <= j < nd ->
    getz zero (arz_assemble zero conv ns ne) j = getz zero conv (j + ns).
  Proof.
    intros conv ns ne nd j Hlen Hnd Hout Hj.
    apply arz_outside_false in Hout. destruct Hout as [H1 H2].
    unfold arz_assemble. rewrite Z.gtb_ltb, Z.geb_leb.
    destruct (Z.ltb_spec 0 ns); destruct (Z.leb_spec 0 (ns - ne));
      unfold slice_from, slice_to, slice, py_index;
      rewrite ?getz_app, ?zlen_app, ?zlen_zeros, ?zlen_firstn_skipn;
      split_ltb;
      rewrite ?getz_zeros, ?getz_firstn_skipn by lia;
      split_ltb;
      try lia;
      try (f_equal; lia);
      try (symmetry; apply getz_out; lia).
  Qed.

  (* ---------------------------------------------------------------- *)
  (* 4. decimate                                                       *)
  (* ---------------------------------------------------------------- *)

  Lemma decimate_length : forall k (l : list A) n, 0 < k -> 0 <= n -> zlen l = n * k ->
    zlen (decimate zero k l) = n.
  Proof.
    intros k l n Hk Hn Hl. unfold decimate. unfold zlen at 1.
    rewrite map_length, seq_length. rewrite Hl.
    replace (n * k + k - 1) with ((k - 1) + n * k) by lia.
    rewrite Z_div_plus by lia. rewrite Z.div_small by lia. lia.
  Qed.

  Lemma decimate_nth : forall k (l : list A) j, 0 < k -> 0 <= j -> j * k < zlen l ->
    getz zero (decimate zero k l) j = getz zero l (j * k).
  Proof.
    intros k l j Hk Hj Hjk.
    assert (Hjk0 : 0 <= j * k) by (apply Z.mul_nonneg_nonneg; lia).
    rewrite !getz_nth by lia. unfold decimate.
    assert (Hq : j + 1 <= (zlen l + k - 1) / k).
    { apply Z.div_le_lower_bound; [lia|]. lia. }
    rewrite nth_map_seq by lia.
    f_equal. rewrite Z2Nat.inj_mul by lia. reflexivity.
  Qed.

  Lemma arz_decimate_length : forall k (l : list A) n, 0 < k -> 0 <= n -> zlen l = n * k ->
    zlen (arz_decimate zero k l) = n.
  Proof.
    intros k l n Hk Hn Hl. unfold arz_decimate.
    destruct (Z.eqb_spec k 1).
    - subst k. lia.
    - apply decimate_length; assumption.
  Qed.

  Lemma arz_decimate_nth : forall k (l : list A) j, 0 < k -> 0 <= j -> j * k < zlen l ->
    getz zero (arz_decimate zero k l) j = getz zero l (j * k).
  Proof.
    intros k l j Hk Hj Hjk. unfold arz_decimate.
    destruct (Z.eqb_spec k 1).
    - subst k. f_equal. lia.
    - apply decimate_nth; assumption.
  Qed.

  (* ---------------------------------------------------------------- *)
  (* 5. roll                                                           *)
  (* ---------------------------------------------------------------- *)

  Lemma roll_length : forall (l : list A) s, length (roll zero l s) = length l.
  Proof. intros. unfold roll. rewrite map_length, seq_length. reflexivity. Qed.

  Lemma roll_nth : forall (l : list A) s j, 0 <= j < zlen l ->
    getz zero (roll zero l s) j = getz zero l ((j - s) mod zlen l).
  Proof.
    intros l s j Hj.
    assert (Hm : 0 <= (j - s) mod zlen l < zlen l) by (apply Z.mod_pos_bound; lia).
    rewrite !getz_nth by lia. unfold roll.
    unfold zlen in Hj.
    rewrite nth_map_seq by lia.
    rewrite Z2Nat.id by lia. reflexivity.
  Qed.

  (* ---------------------------------------------------------------- *)
  (* 6. avz_place                                                      *)
  (* ---------------------------------------------------------------- *)

  Lemma avz_place_length : forall (tr : list A) s, length (avz_place zero tr s) = length tr.
  Proof.
    intros. unfold avz_place. rewrite firstn_length, roll_length, app_length.
    unfold zeros, zlen. rewrite repeat_length. lia.
  Qed.

  Lemma avz_place_nth : forall (tr : list A) s j, Z.abs s <= zlen tr -> 0 <= j < zlen tr ->
    getz zero (avz_place zero tr s) j = getz zero tr (j - s).
  Proof.
    intros tr s j Hs Hj. unfold avz_place.
    rewrite getz_firstn. fold (zlen tr).
    destruct (Z.ltb_spec j (zlen tr)); [|lia].
    assert (HL : zlen (tr ++ zeros zero (zlen tr)) = 2 * zlen tr).
    { rewrite zlen_app, zlen_zeros. lia. }
    rewrite roll_nth by lia. rewrite HL.
    rewrite getz_app, getz_zeros.
    destruct (Z.le_gt_cases 0 (j - s)) as [Hpos | Hneg].
    - rewrite Z.mod_small by lia.
      destruct (Z.ltb_spec (j - s) (zlen tr)); [reflexivity|].
      symmetry. apply getz_out. lia.
    - assert (E : (j - s) mod (2 * zlen tr) = j - s + 2 * zlen tr).
      { symmetry. apply Z.mod_unique with (q := -1); lia. }
      rewrite E.
      destruct (Z.ltb_spec (j - s + 2 * zlen tr) (zlen tr)); [lia|].
      symmetry. apply getz_out. lia.
  Qed.

  (* consequence: moving the placement by m whole samples moves the content by m samples *)
  Lemma avz_place_shift : forall (tr : list A) s m j,
    Z.abs s <= zlen tr -> Z.abs (s + m) <= zlen tr ->
    0 <= j < zlen tr -> 0 <= j - m < zlen tr ->
    getz zero (avz_place zero tr (s + m)) j = getz zero (avz_place zero tr s) (j - m).
  Proof.
    intros tr s m j Hs Hsm Hj Hjm.
    rewrite !avz_place_nth by assumption. f_equal. lia.
  Qed.

  (* when |s| > len the code returns zeros instead; that agrees with the placement formula *)
  Lemma avz_far_is_zero : forall (tr : list A) s j, zlen tr < Z.abs s -> 0 <= j < zlen tr ->
    getz zero tr (j - s) = zero.
  Proof.
    intros tr s j Hs Hj. apply getz_out. lia.
  Qed.

  (* the four-case assembly is exactly "element j is conv[j + ns], zero outside", so two
     different (ns, ne) describing the same placement give the same list *)
  Lemma arz_assemble_ext : forall (conv1 conv2 : list A) ns1 ne1 ns2 ne2 nd,
    zlen conv1 = nd + ne1 -> zlen conv2 = nd + ne2 -> 0 <= nd ->
    arz_outside ns1 ne1 nd = false -> arz_outside ns2 ne2 nd = false ->
    (forall j, 0 <= j < nd -> getz zero conv1 (j + ns1) = getz zero conv2 (j + ns2)) ->
    arz_assemble zero conv1 ns1 ne1 = arz_assemble zero conv2 ns2 ne2.
  Proof.
    intros conv1 conv2 ns1 ne1 ns2 ne2 nd H1 H2 Hnd O1 O2 H.
    apply list_ext_getz.
    - rewrite (arz_assemble_length _ _ _ _ H1 Hnd O1).
      rewrite (arz_assemble_length _ _ _ _ H2 Hnd O2). reflexivity.
    - intros j Hj. rewrite (arz_assemble_length _ _ _ _ H1 Hnd O1) in Hj.
      rewrite (arz_assemble_nth _ _ _ _ _ H1 Hnd O1 Hj).
      rewrite (arz_assemble_nth _ _ _ _ _ H2 Hnd O2 Hj).
      apply H. exact Hj.
  Qed.

End IndexLemmas.

