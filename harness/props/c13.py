"""C13: generators throw uniform, isotropic, correctly weighted neutrinos and count throws."""
import importlib
import json
import math
import os
import sys

import numpy as np

from harness import common, realextract as rx
from harness.common import REPO, ROOT
from harness.props import c15 as earthref          # independent Earth profile + chord quadrature oracle

sys.path.insert(0, os.path.join(ROOT, "tools"))
PIN_FILE = os.path.join(ROOT, "harness", "pins", "C13.json")
PI_61 = math.cos(math.pi / 2)                    # 6.123e-17: what a rotation by 90 degrees leaves in a component

KEY_CYL_NEAR_AXIS = "cyl-exit-points-direction-nearly-parallel-to-y-or-z"


def gen_files(scratch):
    import gen_generation
    importlib.reload(gen_generation)
    text, side = gen_generation.generate(REPO)
    return {"Gen_generation": text}, side


# ------------------------------------------------------------------ scripted numpy.random
class Script:
    """Replaces np.random.random_sample / rand / random / uniform by a prepared sequence."""
    NAMES = ("random_sample", "rand", "random", "uniform")

    def __init__(self, values):
        self.values = list(values)
        self.pos = 0
        self.calls = []

    def take(self, kind):
        if self.pos >= len(self.values):
            raise IndexError("scripted random stream exhausted")
        v = self.values[self.pos]
        self.pos += 1
        self.calls.append(kind)
        return v

    def __enter__(self):
        self.saved = {n: getattr(np.random, n) for n in self.NAMES}
        np.random.random_sample = lambda *a, **k: self._scalar("random_sample", a, k)
        np.random.rand = lambda *a, **k: self._scalar("rand", a, k)
        np.random.random = lambda *a, **k: self._scalar("random", a, k)
        np.random.uniform = self._uniform
        return self

    def __exit__(self, *a):
        for n, f in self.saved.items():
            setattr(np.random, n, f)

    def _scalar(self, kind, a, k):
        if not a and not k:
            return self.take(kind)
        # size argument(s): random_sample(size) / random(size) / rand(d0, d1, ...): consecutive variates
        if kind == "rand":
            shape = tuple(int(x) for x in a)
        else:
            size = a[0] if a else k.get("size")
            shape = () if size is None else (tuple(int(x) for x in size) if isinstance(size, (tuple, list)) else (int(size),))
        if set(k) - {"size"} or (kind != "rand" and len(a) > 1):
            raise TypeError("scripted np.random.%s called with arguments %r %r" % (kind, a, k))
        n = int(np.prod(shape)) if shape else 1
        vals = np.array([self.take(kind) for _ in range(n)])
        return vals.reshape(shape) if shape else float(vals[0])

    def _uniform(self, low=0.0, high=1.0, size=None):
        low, high = np.asarray(low, dtype=float), np.asarray(high, dtype=float)
        shape = np.broadcast(low, high).shape if size is None else (size if isinstance(size, tuple) else (size,))
        u = np.array([self.take("uniform") for _ in range(int(np.prod(shape)) if shape else 1)]).reshape(shape)
        return low + (high - low) * u


class StubInteraction:
    """interaction model without random draws and with a prescribed interaction length"""
    length = 1e9

    def __init__(self, particle, kind=None):
        self.particle = particle
        self.kind = kind
        self.total_interaction_length = type(self).length


class StubEarth:
    """earth model with a prescribed column depth (to script survival weights)"""
    def __init__(self, depth):
        self.depth = depth
        self.calls = []

    def slant_depth(self, endpoint, direction, step=500):
        self.calls.append((np.array(endpoint, dtype=float), np.array(direction, dtype=float)))
        return self.depth(np.array(endpoint, dtype=float), np.array(direction, dtype=float))


def gmod():
    import pyrex.generation as g
    return g


def vec(t):
    return "((%s, %s), %s)" % tuple(rx.ocf(float(x)) for x in t)


def close(a, b, rel, abs_):
    if isinstance(a, (tuple, list, np.ndarray)):
        return len(a) == len(b) and all(close(x, y, rel, abs_) for x, y in zip(a, b))
    a, b = float(a), float(b)
    if math.isnan(a) or math.isnan(b):
        return math.isnan(a) and math.isnan(b)
    if math.isinf(a) or math.isinf(b):
        return a == b
    return abs(a - b) <= abs_ + rel * max(abs(a), abs(b))


def variate(rng):
    k = rng.random()
    if k < 0.08:
        return rng.choice([0.0, 0.25, 0.5, 0.75, 1 - 2.0 ** -53, 2.0 ** -53, 0.125, 1.0 / 3, 2.0 / 3])
    return rng.random()


# ------------------------------------------------------------------ correspondence A: draws -> vertex, direction, type, weights
def corr_draws(ctx, escalate):
    g = gmod()
    rng = ctx.rng
    n = ctx.n(150, 3000) * (3 if escalate else 1)
    cases, expect, meta = [], [], []

    def add(code, exp, m, tol):
        cases.append(code)
        expect.append(exp)
        meta.append(dict(m, tol=tol))
    sources = {"cosmogenic": "cosmogenic", "pgamma": "cosmogenic", "astrophysical": "astrophysical", "pp": "astrophysical"}
    for i in range(n):
        dr, dz = rng.choice([1000.0, 5000.0, 123.5, 1.0]), rng.choice([1000.0, 2800.0, 77.25, 1.0])
        dx, dy = rng.choice([1000.0, 10000.0, 3.5]), rng.choice([1000.0, 250.0, 8.0])
        fr = rng.choice([(1, 1, 1), (1, 2, 0), (0, 0, 1), (1, 0, 0), (0.2, 0.3, 0.5), (3, 1, 2), (1, 1e-3, 1)])
        src = rng.choice(list(sources))
        us = [variate(rng) for _ in range(12)]
        cyl = g.CylindricalGenerator(dr, dz, 1e9, flavor_ratio=fr, source=src, interaction_model=StubInteraction)
        box = g.RectangularGenerator(dx, dy, dz, 1e9, flavor_ratio=fr, source=src, interaction_model=StubInteraction)
        with np.errstate(all="ignore"):
            with Script(us) as sc:
                vc = cyl.get_vertex()
                calls_c = list(sc.calls)
            with Script(us) as sc:
                vb = box.get_vertex()
                calls_b = list(sc.calls)
            with Script(us) as sc:
                dd = cyl.get_direction()
                calls_d = list(sc.calls)
            with Script(us) as sc:
                ty = cyl.get_particle_type()
                calls_t = list(sc.calls)
        if not (len(calls_c) == 3 and len(calls_b) == 3 and len(calls_d) == 2 and len(calls_t) == 2):
            ctx.oblige("corr:draw-counts", False, "numbers of draws %s %s %s %s differ from the model's (3,3,2,2)" % (calls_c, calls_b, calls_d, calls_t))
            continue
        m = {"us": us[:3], "dims": [dr, dz, dx, dy], "ratio": list(fr), "source": src}
        add("pr3 (M.cylindrical_get_vertex {M.cyl_dr=%s; M.cyl_dz=%s} %s %s %s)" % tuple(rx.ocf(x) for x in (dr, dz, us[0], us[1], us[2])),
            tuple(float(x) for x in vc), dict(m, fn="cyl.get_vertex"), (1e-13, 1e-13 * dr))
        add("pr3 (M.rectangular_get_vertex {M.box_dx=%s; M.box_dy=%s; M.box_dz=%s} %s %s %s)" % tuple(rx.ocf(x) for x in (dx, dy, dz, us[0], us[1], us[2])),
            tuple(float(x) for x in vb), dict(m, fn="box.get_vertex"), (1e-14, 1e-13 * max(dx, dy, dz)))
        add("pr3 (M.generator_get_direction %s %s)" % (rx.ocf(us[0]), rx.ocf(us[1])),
            tuple(float(x) for x in dd), dict(m, fn="get_direction"), (1e-13, 1e-15))
        ratio = np.array(fr) / np.sum(fr)
        add("prz (M.generator_%s_get_particle_type %s %s %s)" % (sources[src], vec(ratio), rx.ocf(us[0]), rx.ocf(us[1])),
            (float(ty.value),), dict(m, fn="get_particle_type"), (0, 0))
        if not np.allclose(cyl.ratio, ratio, rtol=0, atol=0):
            ctx.oblige("corr:ratio-normalisation", False, "Generator.ratio %r != flavor_ratio/sum %r" % (cyl.ratio, ratio))
        # weights formula with arbitrary inputs
        t = 10 ** rng.uniform(3, 11)
        lint = 10 ** rng.uniform(5, 10)
        en = (rng.uniform(-dr, dr), rng.uniform(-dr, dr), rng.uniform(-dz, 0))
        ex = (rng.uniform(-dr, dr), rng.uniform(-dr, dr), rng.uniform(-dz, 0))

        class Fixed(g.Generator):
            def get_exit_points(self, particle, en=en, ex=ex):
                return np.array(en), np.array(ex)
        StubInteraction.length = lint
        earth = StubEarth(lambda e, d, t=t: t)
        fx = Fixed(1e9, interaction_model=StubInteraction, earth_model=earth)
        part = g.Particle(ty, vc, dd, 1e9, interaction_model=StubInteraction)
        with np.errstate(all="ignore"):
            ws, wi = fx.get_weights(part)
        argok = len(earth.calls) == 1 and np.array_equal(earth.calls[0][0], part.vertex) and np.array_equal(earth.calls[0][1], -part.direction)
        if not argok:
            ctx.oblige("corr:slant-arguments", False, "get_weights did not call slant_depth(vertex, -direction) exactly once")
        add("pr2 (M.generator_get_weights {M.particle_vertex=%s; M.particle_direction=%s} %s %s %s %s)" % (
            vec(part.vertex), vec(part.direction), vec(en), vec(ex), rx.ocf(t), rx.ocf(lint)),
            (float(ws), float(wi)), dict(m, fn="get_weights", t=t, l_int=lint, entry=en, exit=ex), (1e-12, 1e-300))
    StubInteraction.length = 1e9
    fns = ["Cylindrical_get_vertex", "Rectangular_get_vertex", "Generator_get_direction", "Generator_cosmogenic_get_particle_type",
           "Generator_astrophysical_get_particle_type", "Generator_get_weights"]
    res = rx.run(ctx, "From PyrexLib Require Import RealPrims.\nFrom PyrexGen Require Import Gen_generation.\n" + earthref.Q2R, fns, cases, name="gen")
    bad = 0
    for r, e, m in zip(res, expect, meta):
        ctx.case(key=(m["fn"], tuple(m["us"]), tuple(m["dims"]), tuple(m["ratio"]), m["source"], m.get("t")), sample={"case": m, "model": r, "impl": e})
        if r == "EXC" or not close(r, e, *m["tol"]):
            bad += 1
            if bad <= 5:
                ctx.oblige("corr:%s" % m["fn"], False, "generated model %r != implementation %r at %s" % (r, e, json.dumps(m, default=str)))
    ctx.oblige("corr:draws(%d cases)" % len(cases), bad == 0, "%d disagreements" % bad)


# ------------------------------------------------------------------ correspondence B: exit points (hand model)
def particle_cases(rng, n, dims, cyl):
    """(vertex strictly inside, direction): generic, axis-parallel, grazing, nearly vertical."""
    out = []
    for _ in range(n):
        if cyl:
            dr, dz = dims
            r = dr * math.sqrt(rng.random()) * rng.choice([1.0, 0.999, 0.5, 0.0])
            ph = rng.uniform(0, 2 * math.pi)
            v = (r * math.cos(ph), r * math.sin(ph), -dz * rng.uniform(0.001, 0.999))
        else:
            dx, dy, dz = dims
            v = (rng.uniform(-dx / 2, dx / 2) * 0.999, rng.uniform(-dy / 2, dy / 2) * 0.999, -dz * rng.uniform(0.001, 0.999))
            if rng.random() < 0.15:
                v = (0.0, 0.0, -dz / 2)
        k = rng.random()
        if k < 0.45:
            d = earthref.rand_dir(rng)
        elif k < 0.65:
            ax = rng.randrange(3)
            d = [0.0, 0.0, 0.0]
            d[ax] = rng.choice([1.0, -1.0])
            d = tuple(d)
        elif k < 0.8:       # in a coordinate plane
            a = rng.uniform(0, 2 * math.pi)
            ax = rng.randrange(3)
            d = [math.cos(a), math.sin(a)]
            d.insert(ax, 0.0)
            d = tuple(d)
        else:               # grazing: one component small but well above rounding level
            d = list(earthref.rand_dir(rng))
            d[rng.randrange(3)] = rng.choice([1e-3, -1e-4, 1e-6, -1e-7])
            d = tuple(d)
        nrm = math.sqrt(sum(x * x for x in d))
        out.append((v, tuple(x / nrm for x in d)))
    return out


BOX_EDGE_CASES = [((0.0, 0.0, -500.0), d) for d in
                  [(1.0, 1.0, 0.0), (1.0, -1.0, 0.0), (1.0, 1.0, 1.0), (-1.0, 1.0, -1.0), (1.0, 0.0, 1.0), (0.0, 1.0, -1.0),
                   (-1.0, -1.0, 1.0), (2.0, 2.0, 0.0), (0.5, 0.5, 0.5)]] + \
                 [((250.0, 0.0, -500.0), (1.0, 2.0, 0.0)), ((0.0, -250.0, -250.0), (2.0, 1.0, 1.0))]
# the line of flight passes exactly through an edge / corner of the 1000 m cube (intersection == bound exactly)


KEY_CYL_WALL = "cyl-exit-points-vertex-on-side-wall"


def boundary_cases(rng, dims, cyl, n_extra):
    """Vertices exactly ON the boundary (each face, edge, corner; cylinder: caps, rim, side wall) with
    inward, outward, tangential, axis-parallel ({-1,0,1}^3, exact arithmetic) and generic directions."""
    import itertools
    lattice = [d for d in itertools.product((-1.0, 0.0, 1.0), repeat=3) if any(d)]
    out = []
    if cyl:
        dr, dz = dims
        xy = [(0.0, 0.0), (0.3 * dr, 0.4 * dr), (dr, 0.0), (0.0, -dr), (0.6 * dr, 0.8 * dr), (-dr, 0.0),
              (dr * math.cos(1.0) * (1 - 1e-12), dr * math.sin(1.0) * (1 - 1e-12))]   # last one: inside by more than rounding
        verts = [(x, y, z) for x, y in xy for z in (0.0, -0.0, -dz, -dz / 2)
                 if not (x * x + y * y < 0.99 * dr * dr and z == -dz / 2)]
    else:
        dx, dy, dz = dims
        verts = [(x, y, z) for x in (-dx / 2, dx / 2, 0.0, 0.123 * dx) for y in (-dy / 2, dy / 2, 0.0) for z in (0.0, -0.0, -dz, -dz / 2)
                 if not (abs(x) < dx / 2 and abs(y) < dy / 2 and z == -dz / 2)]
    for v in verts:
        for d in lattice:
            out.append((v, d))
        for _ in range(2):
            out.append((v, earthref.rand_dir(rng)))
    rng.shuffle(out)
    keep = [c for c in out if c[1] in lattice][:n_extra] + [c for c in out if c[1] not in lattice][:n_extra // 3]
    return keep


def on_cyl_wall(dims, v):
    return abs(v[0] * v[0] + v[1] * v[1] - dims[0] * dims[0]) <= 1e-9 * dims[0] * dims[0]


class FakeParticle:
    def __init__(self, v, d):
        self.vertex = np.array(v, dtype=float)
        self.direction = np.array(d, dtype=float)


def impl_exit(gen, v, d):
    try:
        with np.errstate(all="ignore"):
            en, ex = gen.get_exit_points(FakeParticle(v, d))
        return tuple(float(x) for x in en) + tuple(float(x) for x in ex)
    except ValueError:
        return None


PR_EXIT = ('(match %s with None -> print_string "None\\n" | Some (((a, b), c), ((e, f), g)) -> '
           'Printf.printf "%%h %%h %%h %%h %%h %%h\\n" a b c e f g)')


def corr_exit(ctx, escalate):
    g = gmod()
    rng = ctx.rng
    n = ctx.n(120, 2500) * (3 if escalate else 1)
    cases, expect, meta = [], [], []
    for dims in ((1000.0, 1000.0), (5000.0, 2800.0), (10.0, 3000.0)):
        gen = g.CylindricalGenerator(dims[0], dims[1], 1e9)
        for v, d in boundary_cases(rng, dims, True, ctx.n(250, 2000)) + particle_cases(rng, n, dims, True):
            cases.append(PR_EXIT % ("M.cyl_exit_points %s %s %s %s" % (rx.ocf(dims[0]), rx.ocf(dims[1]), vec(v), vec(d))))
            expect.append(impl_exit(gen, v, d))
            meta.append({"gen": "cyl", "dims": dims, "vertex": v, "direction": d})
    for dims in ((1000.0, 1000.0, 1000.0), (10000.0, 250.0, 2800.0)):
        gen = g.RectangularGenerator(dims[0], dims[1], dims[2], 1e9)
        for v, d in (BOX_EDGE_CASES if dims == (1000.0, 1000.0, 1000.0) else []) + boundary_cases(rng, dims, False, ctx.n(400, 3000)) + particle_cases(rng, n, dims, False):
            cases.append(PR_EXIT % ("M.box_exit_points %s %s %s %s %s" % (rx.ocf(dims[0]), rx.ocf(dims[1]), rx.ocf(dims[2]), vec(v), vec(d))))
            expect.append(impl_exit(gen, v, d))
            meta.append({"gen": "box", "dims": dims, "vertex": v, "direction": d})
    res = rx.run(ctx, "From PyrexLib Require Import RealPrims.\nFrom PyrexModel Require Import GeneratorModel.\n" + earthref.Q2R,
                 ["cyl_exit_points", "box_exit_points"], cases, name="exitp")
    bad = 0
    for r, e, m in zip(res, expect, meta):
        ctx.case(key=("exit", m["gen"], m["dims"], m["vertex"], m["direction"]), sample={"case": m, "model": r, "impl": e})
        scale = max(m["dims"])
        ok = (r == "None" and e is None) or (r not in ("None", "EXC") and e is not None and close(r, e, 1e-9, 1e-9 * scale))
        if not ok:
            bad += 1
            if bad <= 4:
                ctx.oblige("corr:exit_points:%s" % m["gen"], False, "hand model %r != implementation %r at %s" % (r, e, json.dumps(m)))
    ctx.oblige("corr:exit_points(%d cases)" % len(cases), bad == 0, "%d disagreements" % bad)


# ------------------------------------------------------------------ correspondence C: create_event / count / shadow
def corr_create(ctx, escalate):
    g = gmod()
    rng = ctx.rng
    n = ctx.n(60, 1500) * (3 if escalate else 1)
    cases, expect, meta = [], [], []
    bad_direct = 0
    for i in range(n):
        shadow = rng.random() < 0.7
        cyl = rng.random() < 0.5
        lint = 10 ** rng.uniform(8.0, 9.5)
        StubInteraction.length = lint
        earth = StubEarth(lambda e, d, lint=lint: lint * (0.02 + 2.5 * abs(d[2])))      # survival weights spread over (0.08, 0.98)
        if cyl:
            gen = g.CylindricalGenerator(1000.0, 1500.0, 1e9, shadow=shadow, interaction_model=StubInteraction, earth_model=earth)
        else:
            gen = g.RectangularGenerator(2000.0, 1000.0, 1500.0, 1e9, shadow=shadow, interaction_model=StubInteraction, earth_model=earth)
        start = rng.choice([0, 0, 5, 1000])
        gen.count = start
        nthrow_max = 12
        us = []
        for _ in range(nthrow_max):
            us += [rng.random() for _ in range(7)]
            if shadow:
                us.append(rng.choice([rng.random(), rng.random() * 0.2, 0.0, 1 - 2.0 ** -53]))
        # run the implementation on the scripted stream, recording every throw's survival weight
        throws = []
        orig = gen.get_weights

        def spy(particle, orig=orig, throws=throws):
            w = orig(particle)
            throws.append((float(w[0]), float(w[1]), particle))
            return w
        gen.get_weights = spy
        try:
            with np.errstate(all="ignore"):
                with Script(us) as sc:
                    ev = gen.create_event()
                    used = sc.pos
                    calls = list(sc.calls)
        except (IndexError, RecursionError):
            continue
        except Exception as e:
            ctx.fail("create-event-raises:%s:%s:%r" % (shadow, cyl, us[:16]),
                     "%s.create_event() on the scripted stream %r... raises %r" % (type(gen).__name__, us[:8], e),
                     {"kind": "create", "shadow": shadow, "cyl": cyl, "start": start, "us": us, "l_int": lint})
            bad_direct += 1
            continue
        k = len(throws)
        per = 8 if shadow else 7
        p = ev.roots[0]
        accept_us = [us[j * per + 7] for j in range(k)] if shadow else [0.0] * k
        rep = {"kind": "create", "shadow": shadow, "cyl": cyl, "start": start, "us": us[:used], "l_int": lint}
        vdims = (1000.0, 1500.0) if cyl else (2000.0, 1000.0, 1500.0)
        if not in_volume(cyl, vdims, p.vertex):
            ctx.fail("vertex-outside:%s:%r" % (cyl, us[:used][-per:]), "%s%r throws the vertex %r outside its volume for the variates %r" % (
                type(gen).__name__, vdims, [float(x) for x in p.vertex], us[:used][-per:][:3]), rep)
        # direct bookkeeping checks on the implementation (exact)
        ok = used == k * per and gen.count == start + k and p is throws[-1][2]
        if shadow:
            ok = ok and all(accept_us[j] >= throws[j][0] for j in range(k - 1)) and accept_us[k - 1] < throws[k - 1][0] \
                and p.survival_weight == 1 and p.interaction_weight == throws[-1][1]
        else:
            ok = ok and k == 1 and p.survival_weight == throws[0][0] and p.interaction_weight == throws[0][1]
        ctx.case(key=("create", shadow, cyl, start, tuple(us[:used])), nontrivial=k > 1 or not shadow, sample={"shadow": shadow, "throws": k, "count": gen.count})
        if not ok:
            bad_direct += 1
            ctx.fail("create-event:%s:%s:%r" % (shadow, cyl, us[:used]),
                     "create_event (shadow=%s) on a scripted random stream: %d throws with survival weights %s and accept variates %s; variates used %d; count %d -> %d; returned weights (%r, %r)" % (
                         shadow, k, [t[0] for t in throws], accept_us, used, start, gen.count, p.survival_weight, p.interaction_weight), rep)
        # the same history on the Coq model of create_event
        tl = "[" + "; ".join("((%s, %s), %s)" % (rx.ocf(float(j)), rx.ocf(throws[j][0]), rx.ocf(accept_us[j])) for j in range(k)) + "]"
        cases.append('(match M.create_event %s (nat_of_int 50) (z_of_int %d) %s with None -> print_string "None\\n" '
                     '| Some (((p, w), c), rest) -> Printf.printf "%%h %%h %%h %%h\\n" p w (z_to_float c) (float_of_int (List.length rest)))' % (
                         "true" if shadow else "false", start, tl))
        expect.append((float(k - 1), float(p.survival_weight), float(gen.count), 0.0))
        meta.append(rep)
    StubInteraction.length = 1e9
    pre = ("let rec nat_of_int n = if n <= 0 then M.O else M.S (nat_of_int (n-1))\n"
           "let rec pos_of_int n = if n <= 1 then M.XH else if n land 1 = 1 then M.XI (pos_of_int (n lsr 1)) else M.XO (pos_of_int (n lsr 1))\n"
           "let z_of_int n = if n = 0 then M.Z0 else if n > 0 then M.Zpos (pos_of_int n) else M.Zneg (pos_of_int (-n))\n")
    old = rx.OCAML_PRELUDE
    rx.OCAML_PRELUDE = old + pre
    try:
        res = rx.run(ctx, "From PyrexLib Require Import RealPrims.\nFrom PyrexModel Require Import GeneratorModel.\n", ["create_event"], cases, name="create")
    finally:
        rx.OCAML_PRELUDE = old
    bad = 0
    for r, e, m in zip(res, expect, meta):
        if r in ("None", "EXC") or tuple(r) != e:
            bad += 1
            if bad <= 3:
                ctx.oblige("corr:create_event", False, "model (accepted throw, weight, count, rest) %r != implementation %r at %s" % (r, e, json.dumps(m)[:600]))
    ctx.oblige("corr:create_event(%d histories)" % len(cases), bad == 0 and bad_direct == 0, "%d model / %d bookkeeping disagreements" % (bad, bad_direct))


# ------------------------------------------------------------------ correspondence D: ListGenerator (exact, vm_compute)
def corr_list(ctx, escalate):
    g = gmod()
    rng = ctx.rng
    n = ctx.n(120, 2500) * (3 if escalate else 1)
    exprs, expect, meta = [], [], []
    for _ in range(n):
        nev = rng.randint(1, 5)
        loop = rng.random() < 0.5
        single = nev == 1 and rng.random() < 0.5
        parts = [g.Particle(g.Particle.Type.electron_neutrino, (0, 0, -100.0 * (i + 1)), (0, 0, 1), 1e9, interaction_model=StubInteraction) for i in range(nev)]
        style = rng.choice(["events", "particles", "single"]) if single else rng.choice(["events", "particles"])
        if style == "events":
            arg = [g.Event(p) for p in parts]
        elif style == "particles":
            arg = list(parts)
        else:
            arg = g.Event(parts[0]) if rng.random() < 0.5 else parts[0]
        lg = g.ListGenerator(arg, loop=loop)
        ops = []
        for _ in range(rng.randint(1, 14)):
            k = rng.random()
            ops.append(("Create",) if k < 0.6 else ("SetCount", rng.choice([0, 3, -2, 10, nev, 100])) if k < 0.75 else ("GetCount",))
        outs = []
        for op in ops:
            if op[0] == "Create":
                try:
                    ev = lg.create_event()
                    idx = [i for i, p in enumerate(parts) if ev.roots[0] is p]
                    outs.append("Ev %s" % common.coq_lit(idx[0]) if len(idx) == 1 and isinstance(ev, g.Event) else "Ev (-999)")
                except StopIteration:
                    outs.append("Stop")
            elif op[0] == "SetCount":
                lg.count = op[1]
                outs.append("Done")
            else:
                outs.append("Cnt %s" % common.coq_lit(int(lg.count)))
        coq_ops = "[" + "; ".join("Create" if o[0] == "Create" else "GetCount" if o[0] == "GetCount" else "SetCount %s" % common.coq_lit(o[1]) for o in ops) + "]"
        exprs.append("snd (l_run %d %s l_init %s)" % (nev, "true" if loop else "false", coq_ops))
        expect.append("[" + "; ".join(outs) + "]")
        meta.append({"kind": "list", "n": nev, "loop": loop, "style": style, "ops": ops, "impl": outs})
    imports = "From Coq Require Import ZArith List.\nFrom PyrexModel Require Import GeneratorModel.\nImport ListNotations.\nOpen Scope Z_scope.\n"
    res = ctx.coq_eval_exprs(imports, exprs)
    bad = 0
    for r, e, m in zip(res, expect, meta):
        ctx.case(key=("list", m["n"], m["loop"], tuple(m["ops"])), sample={"case": m, "model": r})
        if common.norm_coq(r) != common.norm_coq(e):
            bad += 1
            ctx.fail("list-generator:%d:%s:%r" % (m["n"], m["loop"], m["ops"]),
                     "ListGenerator(%d events, loop=%s) on %s: implementation %s, model %s" % (m["n"], m["loop"], m["ops"], e, r), m)
    ctx.oblige("corr:ListGenerator(%d histories)" % len(exprs), bad == 0, "%d disagreements" % bad)


# ------------------------------------------------------------------ correspondence E: the energy source
class CountingSource:
    """tabulated spectrum replay: the k-th call returns table[k]"""
    def __init__(self, base):
        self.base, self.n = base, 0

    def __call__(self):
        self.n += 1
        return self.base + (self.n - 1)


def make_source(kind, base):
    """(callable, position()) for a stateful energy source producing base, base+1, base+2, ..."""
    if kind == "counter":
        src = CountingSource(base)
        return src, (lambda: src.n)
    if kind == "iterator":
        state = {"n": 0}

        def gen():
            while True:
                state["n"] += 1
                yield base + (state["n"] - 1)
        it = gen()
        return it.__next__, (lambda: state["n"])
    # closure with its own RNG and bookkeeping (a sampler drawing from a private stream)
    import random as _random
    priv = _random.Random(12345)
    state = {"n": 0}

    def sampler():
        priv.random()
        state["n"] += 1
        return base + (state["n"] - 1)
    return sampler, (lambda: state["n"])


def corr_energy(ctx, escalate):
    """create_event / get_energy() / count assignments with a stateful energy source, shadow on and off,
    both volumes: the k-th value the source produces goes to the k-th throw (rejected ones included), the
    source is called once per throw and not at construction.  Judged directly (independent bookkeeping in
    the harness) and against g_run (vm_compute), exactly."""
    g = gmod()
    rng = ctx.rng
    n = ctx.n(60, 1200) * (3 if escalate else 1)
    base = 1.0e9
    exprs, expect, meta = [], [], []
    for i in range(n):
        shadow = rng.random() < 0.6
        cyl = rng.random() < 0.5
        kind = rng.choice(["counter", "iterator", "sampler"])
        src, position = make_source(kind, base)
        lint = 10 ** rng.uniform(8.0, 9.5)
        StubInteraction.length = lint
        earth = StubEarth(lambda e, d, lint=lint: lint * (0.02 + 2.5 * abs(d[2])))
        c0 = rng.choice([0, 0, 7, 1000])
        if cyl:
            gen = g.CylindricalGenerator(1000.0, 1500.0, src, shadow=shadow, interaction_model=StubInteraction, earth_model=earth)
        else:
            gen = g.RectangularGenerator(2000.0, 1000.0, 1500.0, src, shadow=shadow, interaction_model=StubInteraction, earth_model=earth)
        hist, outs, ops, want = [], [], [], []
        what = None
        if position() != 0:
            what = "the energy source was called %d time(s) during construction" % position()
        gen.count = c0
        count_ref, pos_ref = c0, position()
        nthrows = [0]
        orig = gen.get_weights

        def spy(particle, orig=orig, nthrows=nthrows):
            nthrows[0] += 1
            return orig(particle)
        gen.get_weights = spy
        us = [rng.random() for _ in range(8 * 60)]
        try:
            with np.errstate(all="ignore"):
                with Script(us) as sc:
                    for _ in range(rng.randint(1, 6)):
                        k = rng.random()
                        if k < 0.65:
                            nthrows[0] = 0
                            p = gen.create_event().roots[0]
                            r = nthrows[0] - 1
                            hist.append(["create_event", r])
                            ops.append("Throws %d" % r)
                            outs.append("GEvent %s %s" % (common.coq_lit(int(round(float(p.energy) - base))), common.coq_lit(int(gen.count))))
                            # independent bookkeeping: the accepted throw made the (pos_ref + r + 1)-th call
                            want.append("GEvent %s %s" % (common.coq_lit(pos_ref + r), common.coq_lit(count_ref + r + 1)))
                            pos_ref += r + 1
                            count_ref += r + 1
                        elif k < 0.88:
                            e = gen.get_energy()
                            hist.append(["get_energy"])
                            ops.append("DirectEnergy")
                            outs.append("GEnergy %s" % common.coq_lit(int(round(float(e) - base))))
                            want.append("GEnergy %s" % common.coq_lit(pos_ref))
                            pos_ref += 1
                        else:
                            c = rng.choice([0, 3, 50])
                            gen.count = c
                            count_ref = c
                            hist.append(["count=", c])
                            ops.append("SetCountG %d" % c)
                            outs.append("GDone")
                            want.append("GDone")
                    used = sc.pos
        except (IndexError, RecursionError):
            continue
        except Exception as e:
            what = "raised %r" % (e,)
            used = 0
        rep = {"kind": "energy", "source": kind, "shadow": shadow, "cyl": cyl, "count0": c0, "history": hist, "l_int": lint, "us": us[:used]}
        ctx.case(key=("energy", kind, shadow, cyl, c0, json.dumps(hist), tuple(us[:8])), nontrivial=len(hist) > 1 or shadow, sample={"history": hist, "outputs": outs})
        if what is None and outs != want:
            j = next(i_ for i_, (a, b) in enumerate(zip(outs, want)) if a != b)
            what = "step %d (%s) gave %s but the %s value of the source belongs there: expected %s" % (j, hist[j], outs[j], "next", want[j])
        if what is None and position() != pos_ref:
            what = "the source was called %d times for %d throws + direct calls" % (position(), pos_ref)
        if what:
            ctx.fail("energy-source:%s:%s:%s:%s:%r" % (kind, shadow, cyl, json.dumps(hist), us[:8]),
                     "%s with a stateful energy source (%s, values E0, E0+1, ...; shadow=%s; count preset %d) and the history %s (create_event with the number of rejected throws): %s" % (
                         type(gen).__name__, kind, shadow, c0, json.dumps(hist), what), rep)
        exprs.append("(let r := g_run (g_init %s) [%s] in (snd r, g_pos (fst r), g_count (fst r)))" % (common.coq_lit(c0), "; ".join(ops)))
        expect.append("([%s], %s, %s)" % ("; ".join(outs), common.coq_lit(position()), common.coq_lit(int(gen.count))))
        meta.append(rep)
    StubInteraction.length = 1e9
    imports = "From Coq Require Import ZArith List.\nFrom PyrexModel Require Import GeneratorModel.\nImport ListNotations.\nOpen Scope Z_scope.\n"
    res = ctx.coq_eval_exprs(imports, exprs)
    bad = 0
    for r, e, m in zip(res, expect, meta):
        if common.norm_coq(r) != common.norm_coq(e):
            bad += 1
            ctx.fail("energy-source-model:%s:%s:%s:%r" % (m["source"], m["shadow"], json.dumps(m["history"]), m["us"][:8]),
                     "energy-source history %s: implementation (outputs, source position, count) %s, model %s" % (json.dumps(m["history"]), e, r), m)
    ctx.oblige("corr:energy_source(%d histories)" % len(exprs), bad == 0, "%d disagreements" % bad)


# ------------------------------------------------------------------ probes on the implementation
def slab_oracle(cyl, dims, v, d):
    """Independent entry/exit parameters (s_in < 0 < s_out) of the line v + s d through the volume."""
    lo, hi = -math.inf, math.inf
    if cyl:
        dr, dz = dims
        a = d[0] * d[0] + d[1] * d[1]
        if a > 0:
            b = v[0] * d[0] + v[1] * d[1]
            c = v[0] * v[0] + v[1] * v[1] - dr * dr
            disc = b * b - a * c
            disc = max(disc, 0.0)
            q = -(b + math.copysign(math.sqrt(disc), b))
            roots = sorted([q / a, c / q]) if q != 0 else [0.0, 0.0]       # q = 0: vertex on the wall, tangential line
            lo, hi = max(lo, roots[0]), min(hi, roots[1])
        slabs = [(2, -dz, 0.0)]
    else:
        dx, dy, dz = dims
        slabs = [(0, -dx / 2, dx / 2), (1, -dy / 2, dy / 2), (2, -dz, 0.0)]
    for i, l, h in slabs:
        if d[i] != 0:
            s1, s2 = (l - v[i]) / d[i], (h - v[i]) / d[i]
            lo, hi = max(lo, min(s1, s2)), min(hi, max(s1, s2))
    return lo, hi


def probe_exit(ctx):
    """Geometric clauses on the implementation: on the boundary, on the line, vertex between; equal to the
    slab-method oracle.  Tolerance 1e-6 * size (a stable double-precision computation is ~1e-12 * size)."""
    g = gmod()
    rng = ctx.rng
    n = ctx.n(150, 4000)
    fixed_cyl = [((10.0, 20.0, -50.0), (PI_61, 1.0, 0.3)), ((10.0, 20.0, -50.0), (PI_61, 0.0, 1.0)), ((10.0, 20.0, -50.0), (1.0, PI_61, 0.3)), ((10.0, 20.0, -50.0), (PI_61, PI_61, 1.0)), ((10.0, 20.0, -50.0), (0.0, PI_61, -1.0)),
                 ((10.0, 20.0, -50.0), (1e-12, 1.0, 0.3)), ((999.0, 0.0, -999.0), (-PI_61, 1.0, 1e-9)),
                 ((10.0, 20.0, -50.0), (0.0, 1.0, 0.3)), ((10.0, 20.0, -50.0), (0.0, 0.0, 1.0)), ((10.0, 20.0, -50.0), (0.0, 0.0, -1.0)),
                 ((10.0, 20.0, -50.0), (1.0, 0.0, 0.0)), ((0.0, 0.0, -500.0), (0.0, -1.0, 0.0)), ((0.0, 0.0, -500.0), (1.0, 1.0, 0.0))]
    worst = 0.0
    for cyl, dims in ((True, (1000.0, 1000.0)), (True, (5000.0, 2800.0)), (False, (1000.0, 1000.0, 1000.0)), (False, (10000.0, 250.0, 2800.0))):
        gen = g.CylindricalGenerator(dims[0], dims[1], 1e9) if cyl else g.RectangularGenerator(dims[0], dims[1], dims[2], 1e9)
        plist = (fixed_cyl if cyl and dims == (1000.0, 1000.0) else []) + particle_cases(rng, n, dims, cyl)
        exact = (BOX_EDGE_CASES if dims == (1000.0, 1000.0, 1000.0) else []) + boundary_cases(rng, dims, cyl, ctx.n(400, 3000))
        for j, (v, d) in enumerate(exact + plist):
            if j >= len(exact):
                nrm = math.sqrt(sum(x * x for x in d))
                d = tuple(x / nrm for x in d)
            size = max(dims)
            tol = 1e-6 * size
            res = impl_exit(gen, v, d)
            lo, hi = slab_oracle(cyl, dims, v, d)
            rep = {"kind": "exit", "cyl": cyl, "dims": list(dims), "vertex": list(v), "direction": list(d)}
            ctx.case(key=("exit-probe", cyl, dims, v, d))
            what = None
            if res is None:
                what = "raises ValueError for a vertex in the closed volume and a non-zero direction (the line meets the boundary at %r / %r)" % (
                    tuple(v[i] + lo * d[i] for i in range(3)), tuple(v[i] + hi * d[i] for i in range(3)))
            else:
                en, ex = res[:3], res[3:]
                want_en = tuple(v[i] + lo * d[i] for i in range(3))
                want_ex = tuple(v[i] + hi * d[i] for i in range(3))
                err = max(max(abs(en[i] - want_en[i]) for i in range(3)), max(abs(ex[i] - want_ex[i]) for i in range(3)))
                worst = max(worst, err / tol)
                if not err <= tol:
                    what = "entry/exit %r / %r but the line meets the boundary at %r / %r (error %.3g m, tolerance %.3g m)" % (en, ex, want_en, want_ex, err, tol)
            if what:
                key = "exit-points:%s:%r:%r:%r" % ("cyl" if cyl else "box", dims, v, d)
                ctx.fail(key, "%s.get_exit_points(vertex=%r, direction=%r) with dimensions %r: %s" % (
                    "CylindricalGenerator" if cyl else "RectangularGenerator", v, d, dims, what), rep)
    ctx.extra["probe_exit_worst_error_over_tolerance"] = round(worst, 6)


# Published total cross sections, typed here independently of pyrex/particle.py.
# CTW: A. Connolly, R. Thorne, D. Waters, Phys. Rev. D 83, 113009 (2011), Eq. (7) and Table III:
#   log10(sigma / cm^2) = C1 + C2 ln(eps - C0) + C3 ln^2(eps - C0) + C4 / ln(eps - C0),  eps = log10(E / GeV)
CTW_TABLE = {   # (C0, C1, C2, C3, C4)
    ("nu", "cc"): (-1.826, -17.31, -6.406, 1.431, -17.91), ("nu", "nc"): (-1.826, -17.31, -6.448, 1.431, -18.61),
    ("nubar", "cc"): (-1.033, -15.95, -7.247, 1.569, -17.72), ("nubar", "nc"): (-1.033, -15.95, -7.296, 1.569, -18.30)}
# GQRS: R. Gandhi, C. Quigg, M. Reno, I. Sarcevic, Phys. Rev. D 58, 093009 (1998): sigma_tot = 7.84e-36 (E/GeV)^0.363 cm^2
# for neutrinos, 7.80e-36 for antineutrinos
GQRS_TOTAL = {"nu": 7.84e-36, "nubar": 7.80e-36}
AVOGADRO = 6.02214076e23


def ref_interaction_length(model_name, pid, energy):
    """total interaction length (cm water equivalent) = 1 / (N_A sigma_total)"""
    kind = "nu" if pid > 0 else "nubar"
    if model_name.startswith("GQRS"):
        sigma = GQRS_TOTAL[kind] * energy ** 0.363
    else:
        eps = math.log10(energy)
        sigma = 0.0
        for ch in ("cc", "nc"):
            c0, c1, c2, c3, c4 = CTW_TABLE[(kind, ch)]
            lt = math.log(eps - c0)
            sigma += 10 ** (c1 + c2 * lt + c3 * lt * lt + c4 / lt)
    return 1.0 / (AVOGADRO * sigma)


def in_volume(cyl, dims, v, slack=1e-9):
    if cyl:
        return v[0] * v[0] + v[1] * v[1] <= dims[0] * dims[0] * (1 + slack) and -dims[1] * (1 + slack) <= v[2] <= 0
    return abs(v[0]) <= dims[0] / 2 * (1 + slack) and abs(v[1]) <= dims[1] / 2 * (1 + slack) and -dims[2] * (1 + slack) <= v[2] <= 0


def probe_weights(ctx):
    """Weights of real events against independent computations: survival = exp(-X/L) with X the quadrature
    of the reference Earth profile along the chord behind the vertex (tolerance from the C15 discretisation
    bound), interaction = (chord in ice / L_ice) exp(-path in ice / L_ice) with the slab-method chord."""
    g = gmod()
    import pyrex.particle as pp
    rng = ctx.rng
    st = np.random.get_state()
    fixed_E = [1e3, 1e12, 1e4, 3e3, 9.99e3, 1.0001e3]
    try:
        for model in (pp.CTWInteraction, pp.GQRSInteraction):
            for cyl in (True, False):
                for i in range(ctx.n(10, 200)):
                    # 1e3..1e12 GeV log-uniform incl. both end points and the decade 1e3..1e4
                    E = fixed_E[i] if i < len(fixed_E) else 10 ** rng.uniform(3, 4) if i % 3 == 0 else 10 ** rng.uniform(3, 12)
                    dims = ((rng.choice([1000.0, 5000.0]), rng.choice([1500.0, 2800.0])) if cyl else
                            (rng.choice([2000.0, 8000.0]), rng.choice([3000.0, 500.0]), rng.choice([1000.0, 2800.0])))     # dx != dy != dz
                    gen = g.CylindricalGenerator(dims[0], dims[1], E, interaction_model=model) if cyl else g.RectangularGenerator(dims[0], dims[1], dims[2], E, interaction_model=model)
                    c0 = gen.count
                    seed = (ctx.seed * 1000003 + 7919 * i + (17 if cyl else 0) + (5 if model is pp.GQRSInteraction else 0)) % (2 ** 32)
                    np.random.seed(seed)
                    rep = {"kind": "weights", "cyl": cyl, "dims": list(dims), "energy": E, "model": model.__name__, "numpy_seed": seed}
                    try:
                        with np.errstate(all="ignore"):
                            ev = gen.create_event()
                    except Exception as e:
                        ctx.fail("create-event-raises:%s:%s:%r:%r:%d" % (model.__name__, cyl, dims, E, seed),
                                 "%s(%r).create_event() after np.random.seed(%d) raises %r" % (type(gen).__name__, dims, seed, e), rep)
                        continue
                    p = ev.roots[0]
                    v, d = tuple(float(x) for x in p.vertex), tuple(float(x) for x in p.direction)
                    rep.update(vertex=list(v), direction=list(d), id=p.id.name)
                    ctx.case(key=("weights", model.__name__, cyl, E, v, d))
                    if gen.count != c0 + 1:
                        ctx.fail("count:%r" % (rep,), "count went from %d to %d for one unshadowed throw" % (c0, gen.count), rep)
                    if not in_volume(cyl, dims, v):
                        ctx.fail("vertex-outside:%s:%r:%d" % (cyl, dims, seed), "%s(%r) after np.random.seed(%d) throws the vertex %r outside its volume" % (type(gen).__name__, dims, seed, v), rep)
                        continue
                    if float(p.energy) != E:
                        ctx.fail("energy:%r:%d" % (E, seed), "particle energy %r differs from the configured %r" % (p.energy, E), rep)
                    # independent interaction length (published formulas)
                    L = ref_interaction_length(model.__name__, p.id.value, E)
                    Limpl = float(p.interaction.total_interaction_length)
                    if not abs(Limpl - L) <= 1e-9 * L:
                        ctx.fail("interaction-length:%s:%s:%r" % (model.__name__, "nu" if p.id.value > 0 else "nubar", E),
                                 "%s total_interaction_length of a %s at %r GeV = %r cmwe, the published total cross section gives %r" % (model.__name__, p.id.name, E, Limpl, L), rep)
                    o = earthref.chord_oracle("PREM", v, tuple(-x for x in d))
                    X, B = (o["I"], earthref.bound(o, 500.0)) if o else (0.0, 0.0)
                    want = math.exp(-X / L)
                    tol = want * (math.exp(B / L) - 1) + 1e-12
                    if not abs(p.survival_weight - want) <= tol:
                        ctx.fail("survival-weight:%s:%r:%r:%r" % (model.__name__, E, v, d), "survival weight %r of a %s at %r GeV but exp(-column depth / interaction length) = exp(-%r/%r) = %r (tolerance %.3g from the slant-depth step)" % (
                            p.survival_weight, p.id.name, E, X, L, want, tol), rep)
                    lo, hi = slab_oracle(cyl, dims, v, d)
                    Li = L / 0.92 / 100
                    wi = (hi - lo) / Li * math.exp(lo / Li)            # |d| = 1: chord = hi - lo, path in ice = -lo
                    if not abs(p.interaction_weight - wi) <= 1e-7 * wi + 1e-300:
                        ctx.fail("interaction-weight:%s:%r:%r:%r" % (model.__name__, E, v, d), "interaction weight %r of a %s at %r GeV but (chord %r m / %r m) exp(-%r m / %r m) = %r" % (
                            p.interaction_weight, p.id.name, E, hi - lo, Li, -lo, Li, wi), rep)
    finally:
        np.random.set_state(st)


def probe_statistics(ctx):
    """Supplementary large-sample evidence (never a proof): DKW / Hoeffding bounds, total false-alarm
    probability < 1e-9 for a correct generator (18 tests at delta = 2e-11)."""
    g = gmod()
    st = np.random.get_state()
    np.random.seed((ctx.seed * 7919 + 13) % (2 ** 32))
    delta = 2e-11
    N = 200000 if ctx.thorough else 30000
    out = {}

    def ks_uniform(name, x):
        x = np.sort(np.asarray(x))
        n = len(x)
        dplus = np.max(np.arange(1, n + 1) / n - x)
        dminus = np.max(x - np.arange(0, n) / n)
        D = max(dplus, dminus)
        crit = math.sqrt(math.log(2 / delta) / (2 * n))
        out[name] = {"D": round(float(D), 6), "critical(DKW)": round(crit, 6)}
        if D > crit:
            ctx.fail("statistics:%s" % name, "%s: Kolmogorov distance %.5f from uniform exceeds the DKW bound %.5f (n=%d, false-alarm probability %.0e)" % (name, D, crit, n, delta),
                     {"kind": "statistics", "test": name, "D": float(D), "critical": crit, "seed": ctx.seed})

    def freq(name, k, n, p):
        crit = math.sqrt(math.log(2 / delta) / (2 * n))
        out[name] = {"freq": round(k / n, 6), "expected": round(p, 6), "critical(Hoeffding)": round(crit, 6)}
        if abs(k / n - p) > crit:
            ctx.fail("statistics:%s" % name, "%s: frequency %.5f differs from %.5f by more than the Hoeffding bound %.5f (n=%d)" % (name, k / n, p, crit, n),
                     {"kind": "statistics", "test": name, "freq": k / n, "expected": p, "seed": ctx.seed})
    try:
        gen = g.CylindricalGenerator(1000.0, 2000.0, 1e9, flavor_ratio=(1, 2, 3), source="pgamma", interaction_model=StubInteraction)
        dirs = np.array([gen.get_direction() for _ in range(N)])
        ks_uniform("direction cos(theta) uniform", (dirs[:, 2] + 1) / 2)
        ks_uniform("direction azimuth uniform", (np.arctan2(dirs[:, 1], dirs[:, 0]) % (2 * np.pi)) / (2 * np.pi))
        ks_uniform("direction x uniform (Archimedes)", (dirs[:, 0] + 1) / 2)
        vs = np.array([gen.get_vertex() for _ in range(N)])
        ks_uniform("cylinder r^2 uniform", (vs[:, 0] ** 2 + vs[:, 1] ** 2) / 1000.0 ** 2)
        ks_uniform("cylinder azimuth uniform", (np.arctan2(vs[:, 1], vs[:, 0]) % (2 * np.pi)) / (2 * np.pi))
        ks_uniform("cylinder z uniform", -vs[:, 2] / 2000.0)
        ks_uniform("cylinder x marginal", None if False else _semicircle_cdf(vs[:, 0] / 1000.0))
        box = g.RectangularGenerator(300.0, 5000.0, 1200.0, 1e9, interaction_model=StubInteraction)
        vb = np.array([box.get_vertex() for _ in range(N)])
        ks_uniform("box x uniform", vb[:, 0] / 300.0 + 0.5)
        ks_uniform("box y uniform", vb[:, 1] / 5000.0 + 0.5)
        ks_uniform("box z uniform", -vb[:, 2] / 1200.0)
        ks_uniform("box x+y joint (sum of two uniforms)", _tri_cdf(vb[:, 0] / 300.0 + 0.5 + vb[:, 1] / 5000.0 + 0.5))
        types = [gen.get_particle_type().value for _ in range(N)]
        types = np.array(types)
        for code, frac in ((12, 1 / 6), (14, 2 / 6), (16, 3 / 6)):
            freq("flavour |id|=%d" % code, int(np.sum(np.abs(types) == code)), N, frac)
        for code, nu in ((12, 0.78), (14, 0.61), (16, 0.61)):
            sel = types[np.abs(types) == code]
            freq("neutrino fraction of |id|=%d (pgamma)" % code, int(np.sum(sel > 0)), len(sel), nu)
        # shadow rejection: accepted fraction = mean survival weight
        lint = 2e9
        StubInteraction.length = lint
        earth = StubEarth(lambda e, d: lint * (0.1 + 2.0 * abs(d[2])))
        sh = g.CylindricalGenerator(1000.0, 2000.0, 1e9, shadow=True, interaction_model=StubInteraction, earth_model=earth)
        ws = []
        orig = sh.get_weights
        sh.get_weights = lambda particle: (ws.append(float(orig(particle)[0])) or (ws[-1], 0.5))
        M = 40000 if ctx.thorough else 5000
        for _ in range(M):
            sh.create_event()
        n = len(ws)
        crit = math.sqrt(2 * math.log(2 / delta) / n)
        dev = abs(M / n - float(np.mean(ws)))
        out["shadow accepted fraction"] = {"accepted": M, "throws": n, "count": sh.count, "mean survival weight": round(float(np.mean(ws)), 6), "critical(Hoeffding)": round(crit, 6)}
        if dev > crit or sh.count != n:
            ctx.fail("statistics:shadow", "shadowing accepted %d of %d throws (%.5f) but the mean survival weight is %.5f (bound %.5f); count=%d" % (M, n, M / n, np.mean(ws), crit, sh.count),
                     {"kind": "statistics", "test": "shadow", "seed": ctx.seed})
    finally:
        StubInteraction.length = 1e9
        np.random.set_state(st)
    ctx.extra["statistics(supplementary)"] = out


def _semicircle_cdf(x):
    """CDF of one coordinate of a point uniform in the unit disc."""
    x = np.clip(x, -1, 1)
    return 0.5 + (x * np.sqrt(1 - x * x) + np.arcsin(x)) / np.pi


def _tri_cdf(s):
    """CDF of the sum of two independent uniforms on [0,1]."""
    s = np.clip(s, 0, 2)
    return np.where(s < 1, s * s / 2, 1 - (2 - s) ** 2 / 2)


# ------------------------------------------------------------------ reconfiguration histories
class StubInteractionB(StubInteraction):
    """a second interaction model (different interaction length), also without random draws"""
    length = 3.7e8


def ref_particle_type(ratio, source_code, u1, u2):
    """the property's rule, written independently: flavour by cumulative ratio, neutrino iff u2 < fraction
    (pgamma/cosmogenic 0.78, 0.61, 0.61; pp/astrophysical 0.5)"""
    fr = {1: (0.78, 0.61, 0.61), 2: (0.5, 0.5, 0.5)}[source_code]
    k = 0 if u1 < ratio[0] else 1 if u1 < ratio[0] + ratio[1] else 2
    return (12, 14, 16)[k] * (1 if u2 < fr[k] else -1)


SOURCE_SPELLINGS = [("cosmogenic", 1), ("pgamma", 1), ("astrophysical", 2), ("pp", 2), (1, 1), (2, 2), ("enum:cosmogenic", 1), ("enum:pp", 2)]
DYADIC_RATIOS = [(0.25, 0.25, 0.5), (0.5, 0.5, 0.0), (0.0, 0.0, 1.0), (0.125, 0.375, 0.5), (1.0, 0.0, 0.0), (0.5, 0.25, 0.25)]


def probe_reconfigure(ctx):
    """Every public configuration attribute is reassigned after construction; the next throws (scripted
    stream, so the comparison is exact) must be those of a freshly constructed generator with the
    CURRENT configuration, and the particle type must follow the property's rule for the current
    source and ratio.  Does not depend on the translation, so it also runs when that fails."""
    g = gmod()
    rng = ctx.rng
    energies = {"E1": (lambda: 1e9), "E2": (lambda: 3.5e6), "E3": (lambda: 1e11)}
    models = {"A": StubInteraction, "B": StubInteractionB}
    StubInteraction.length = 1e9

    def src_value(sp):
        return getattr(g.Generator.SourceType, sp[5:]) if isinstance(sp, str) and sp.startswith("enum:") else sp

    def build(cfg):
        kw = dict(energy=energies[cfg["energy"]], shadow=cfg["shadow"], flavor_ratio=cfg["ratio"], source=src_value(cfg["source"][0]),
                  interaction_model=models[cfg["model"]])
        if cfg["cyl"]:
            return g.CylindricalGenerator(cfg["dims"][0], cfg["dims"][1], **kw)
        return g.RectangularGenerator(cfg["dims"][0], cfg["dims"][1], cfg["dims"][2], **kw)

    def rand_cfg(cyl):
        return {"cyl": cyl, "dims": ([rng.choice([1000.0, 512.0]), rng.choice([1000.0, 2048.0])] if cyl else
                                     [rng.choice([1000.0, 256.0]), rng.choice([2000.0, 64.0]), rng.choice([1000.0, 2048.0])]),
                "energy": rng.choice(list(energies)), "shadow": rng.random() < 0.3, "ratio": rng.choice(DYADIC_RATIOS),
                "source": rng.choice(SOURCE_SPELLINGS), "model": rng.choice(list(models))}

    def observe(gen, us, nev):
        out = []
        with np.errstate(all="ignore"):
            with Script(us) as sc:
                for _ in range(nev):
                    c0 = gen.count
                    p0 = sc.pos
                    try:
                        p = gen.create_event().roots[0]
                    except Exception as e:
                        out.append(("EXC", type(e).__name__))
                        break
                    out.append((tuple(float(x) for x in p.vertex), tuple(float(x) for x in p.direction), int(p.id.value), float(p.energy),
                                float(p.survival_weight), float(p.interaction_weight), type(p.interaction).__name__,
                                gen.count - c0, tuple(us[p0:sc.pos])))
        return out
    attrs = ["source", "ratio", "get_energy", "interaction_model", "shadow", "dims"]
    for i in range(ctx.n(120, 2500)):
        cfg = rand_cfg(rng.random() < 0.5)
        gen = build(cfg)
        hist = []
        todo = [attrs[i % len(attrs)]] + [rng.choice(attrs) for _ in range(rng.randint(0, 3))]      # every attribute in turn, then random
        for a in todo:
            if a == "source":
                cfg["source"] = rng.choice([sp for sp in SOURCE_SPELLINGS if sp[1] != cfg["source"][1]] if rng.random() < 0.8 else SOURCE_SPELLINGS)
                gen.source = src_value(cfg["source"][0])
                hist.append(["source", str(cfg["source"][0])])
            elif a == "ratio":
                cfg["ratio"] = rng.choice(DYADIC_RATIOS)
                gen.ratio = np.array(cfg["ratio"])
                hist.append(["ratio", list(cfg["ratio"])])
            elif a == "get_energy":
                cfg["energy"] = rng.choice(list(energies))
                gen.get_energy = energies[cfg["energy"]]
                hist.append(["get_energy", cfg["energy"]])
            elif a == "interaction_model":
                cfg["model"] = rng.choice(list(models))
                gen.interaction_model = models[cfg["model"]]
                hist.append(["interaction_model", cfg["model"]])
            elif a == "shadow":
                cfg["shadow"] = not cfg["shadow"]
                gen.shadow = cfg["shadow"]
                hist.append(["shadow", cfg["shadow"]])
            else:
                j = rng.randrange(len(cfg["dims"]))
                cfg["dims"][j] = rng.choice([128.0, 1000.0, 4096.0, 750.0])
                setattr(gen, (["dr", "dz"] if cfg["cyl"] else ["dx", "dy", "dz"])[j], cfg["dims"][j])
                hist.append(["dims", j, cfg["dims"][j]])
        fresh = build(cfg)
        start = gen.count
        fresh.count = start
        nev = 2
        us = [variate(rng) for _ in range(8 * 14 * nev)]
        got, want = observe(gen, us, nev), observe(fresh, us, nev)
        rep = {"kind": "reconfigure", "cyl": cfg["cyl"], "assignments": hist, "final": {k: (list(v) if isinstance(v, tuple) else v) for k, v in cfg.items()},
               "us": us[:48]}
        ctx.case(key=("reconfig", cfg["cyl"], json.dumps(hist), tuple(us[:16])), sample={"assignments": hist})
        what = None
        if gen.source is not fresh.source:
            what = "source reads back %r, expected %r" % (gen.source, fresh.source)
        elif got != want:
            diff = next((k for k, (a_, b_) in enumerate(zip(got, want)) if a_ != b_), min(len(got), len(want)))
            what = "throw %d differs from a freshly constructed generator with the current configuration: %r vs fresh %r" % (
                diff, got[diff] if diff < len(got) else None, want[diff] if diff < len(want) else None)
        else:
            for ev in got:
                if ev[0] == "EXC":
                    continue
                used = ev[8]
                # accepted throw = the last one: vertex (3 draws), direction (2), flavour, nu/nubar (, accept variate)
                off = (len(used) - 8 if cfg["shadow"] else 0) + 3 + 2
                exp = ref_particle_type(cfg["ratio"], cfg["source"][1], used[off], used[off + 1])
                if ev[2] != exp:
                    what = "particle id %d for variates (%r, %r) but the configured ratios %r / source %r give %d" % (
                        ev[2], used[off], used[off + 1], cfg["ratio"], cfg["source"][0], exp)
                    break
        if what:
            ctx.fail("reconfigure:%s:%s:%r" % ("cyl" if cfg["cyl"] else "box", json.dumps(hist), us[:16]),
                     "%s after the assignments %s: %s" % ("CylindricalGenerator" if cfg["cyl"] else "RectangularGenerator", json.dumps(hist), what), rep)


# ------------------------------------------------------------------ each coordinate depends on its own variate
def _cyl_coords(v, dims):
    return [(v[0] * v[0] + v[1] * v[1]) / (dims[0] * dims[0]), (math.atan2(v[1], v[0]) % (2 * math.pi)) / (2 * math.pi), -v[2] / dims[1]]


def _box_coords(v, dims):
    return [v[0] / dims[0] + 0.5, v[1] / dims[1] + 0.5, -v[2] / dims[2]]


def _dir_coords(d, dims=None):
    return [(d[2] + 1) / 2, (math.atan2(d[1], d[0]) % (2 * math.pi)) / (2 * math.pi)]


def probe_own_variate(ctx):
    """Uniformity / isotropy as implemented (sqrt-radius, uniform azimuth and depth; affine box coordinates;
    uniform cos(theta) and azimuth; flavour and nu/nubar thresholds) needs every coordinate to be driven by a
    variate of its own.  Scripted streams, one variate varied at a time: exactly one of the (volume-uniform)
    coordinates may change, different variates drive different coordinates, and all coordinates are driven.
    No particular assignment of variates to coordinates is assumed."""
    g = gmod()
    rng = ctx.rng
    for _ in range(ctx.n(25, 400)):
        cd = (rng.choice([1000.0, 512.0]), rng.choice([1500.0, 2800.0]))
        bd = (rng.choice([1000.0, 256.0]), rng.choice([3000.0, 64.0]), rng.choice([1500.0, 2048.0]))
        cyl = g.CylindricalGenerator(cd[0], cd[1], 1e9, interaction_model=StubInteraction)
        box = g.RectangularGenerator(bd[0], bd[1], bd[2], 1e9, interaction_model=StubInteraction)
        targets = [("CylindricalGenerator%r.get_vertex" % (cd,), cyl.get_vertex, 3, lambda v: _cyl_coords(v, cd), 1),
                   ("RectangularGenerator%r.get_vertex" % (bd,), box.get_vertex, 3, lambda v: _box_coords(v, bd), None),
                   ("get_direction", cyl.get_direction, 2, _dir_coords, 1)]
        for name, fn, nvar, coords, cyclic in targets:
            u0 = [rng.uniform(0.15, 0.85) for _ in range(nvar)]
            pad = [0.5] * 8

            def run(us):
                with np.errstate(all="ignore"):
                    with Script(list(us) + pad) as sc:
                        out = fn()
                        return coords([float(x) for x in out]), sc.pos
            try:
                c0, used = run(u0)
            except Exception as e:
                ctx.fail("own-variate-raises:%s:%r" % (name, u0), "%s raises %r on the scripted variates %r" % (name, e, u0), {"kind": "own_variate", "fn": name, "us": u0})
                continue
            ctx.case(key=("own-variate", name, tuple(u0)))
            if used != nvar:
                continue                    # a different number of draws: not this probe's business (the correspondence reports it)
            driven = {}
            what = None
            for j in range(nvar):
                changed = set()
                for delta in (0.07, -0.11, 0.13):
                    u1 = list(u0)
                    u1[j] = u0[j] + delta
                    c1, _ = run(u1)
                    for i, (a, b) in enumerate(zip(c0, c1)):
                        dist = min(abs(a - b), 1 - abs(a - b)) if i == cyclic else abs(a - b)      # the azimuth is cyclic
                        if dist > 1e-9:
                            changed.add(i)
                driven[j] = sorted(changed)
                if len(changed) != 1:
                    what = "varying variate %d alone (from %r by +0.07, -0.11, +0.13) changes the coordinates %s (exactly one expected)" % (j + 1, u0[j], sorted(changed))
                    break
            if what is None and sorted(x[0] for x in driven.values()) != list(range(nvar)):
                what = "the variates drive the coordinates %s: some coordinate has no variate of its own" % driven
            if what:
                labels = {"get_direction": "(cos theta, azimuth)"}.get(name, "(r^2, azimuth, depth)" if name.startswith("Cyl") else "(x, y, z)")
                ctx.fail("own-variate:%s:%r" % (name, u0), "%s on the scripted variates %r, normalised coordinates %s = %r: %s" % (name, u0, labels, c0, what),
                         {"kind": "own_variate", "fn": name, "us": u0})
        # particle type: flavour from u1 only, neutrino/antineutrino from u2 only
        gen = g.CylindricalGenerator(1000.0, 1000.0, 1e9, flavor_ratio=(0.25, 0.25, 0.5), source=rng.choice(["pgamma", "pp"]), interaction_model=StubInteraction)

        def ptype(u1, u2):
            with Script([u1, u2] + [0.5] * 4) as sc:
                t = gen.get_particle_type().value
                return t, sc.pos
        grid = [0.05, 0.3, 0.45, 0.7, 0.95]
        try:
            tab = {(a, b): ptype(a, b) for a in grid for b in grid}
        except Exception as e:
            ctx.fail("own-variate-raises:get_particle_type", "get_particle_type raises %r on scripted variates" % (e,), {"kind": "own_variate", "fn": "get_particle_type"})
            continue
        if any(v[1] != 2 for v in tab.values()):
            continue
        what = None
        for a in grid:
            if len({abs(tab[(a, b)][0]) for b in grid}) != 1:
                what = "the flavour changes with the second variate alone (first variate %r): %s" % (a, [tab[(a, b)][0] for b in grid])
        for b in (0.05, 0.3, 0.45):         # below every neutrino fraction (0.5 .. 0.78): always a neutrino, whatever the flavour
            if len({tab[(a, b)][0] > 0 for a in grid}) != 1:
                what = "neutrino / antineutrino changes with the first variate alone (second variate %r): %s" % (b, [tab[(a, b)][0] for a in grid])
        if what is None and (len({abs(v[0]) for v in tab.values()}) < 3 or len({v[0] > 0 for v in tab.values()}) < 2):
            what = "the variates do not reach all three flavours and both signs: %s" % sorted({v[0] for v in tab.values()})
        ctx.case(key=("own-variate", "type", gen.source.name))
        if what:
            ctx.fail("own-variate:get_particle_type:%s" % gen.source.name, "get_particle_type (ratio 1:1:2, source %s) on scripted variates from %r: %s" % (gen.source.name, grid, what),
                     {"kind": "own_variate", "fn": "get_particle_type", "grid": grid})


def probe_joint_uniformity(ctx):
    """Joint (not only marginal) uniformity: equal-volume cells 4 x 4 x 4 of (r^2, azimuth, depth) / (x, y, z) and 8 x 8 of
    (cos theta, azimuth).  Each cell frequency is within sqrt(ln(2 m / delta) / (2 N)) of 1/m (Hoeffding + union bound over
    the m cells, delta = 2e-11 per test: rigorous for every N); the Pearson chi-square is recorded for information."""
    g = gmod()
    st = np.random.get_state()
    np.random.seed((ctx.seed * 104729 + 71) % (2 ** 32))
    N = 200000 if ctx.thorough else 100000
    delta = 2e-11
    out = {}
    try:
        cd, bd = (700.0, 1900.0), (300.0, 5000.0, 1200.0)
        cyl = g.CylindricalGenerator(cd[0], cd[1], 1e9, interaction_model=StubInteraction)
        box = g.RectangularGenerator(bd[0], bd[1], bd[2], 1e9, interaction_model=StubInteraction)
        for name, fn, coords, bins in (("cylinder vertex (r^2, azimuth, depth)", cyl.get_vertex, lambda v: _cyl_coords(v, cd), (4, 4, 4)),
                                       ("box vertex (x, y, z)", box.get_vertex, lambda v: _box_coords(v, bd), (4, 4, 4)),
                                       ("direction (cos theta, azimuth)", cyl.get_direction, _dir_coords, (8, 8))):
            pts = np.array([coords(fn()) for _ in range(N)])
            idx = np.zeros(N, dtype=int)
            m = 1
            for k, b in enumerate(bins):
                idx = idx * b + np.clip((pts[:, k] * b).astype(int), 0, b - 1)
                m *= b
            counts = np.bincount(idx, minlength=m)
            crit = math.sqrt(math.log(2 * m / delta) / (2 * N))
            dev = float(np.max(np.abs(counts / N - 1.0 / m)))
            chi2 = float(np.sum((counts - N / m) ** 2 / (N / m)))
            out[name] = {"cells": m, "N": N, "max |freq - 1/m|": round(dev, 6), "critical(Hoeffding+union)": round(crit, 6), "pearson chi2": round(chi2, 1), "dof": m - 1}
            if dev > crit:
                worst = int(np.argmax(np.abs(counts / N - 1.0 / m)))
                ctx.fail("joint-uniformity:%s" % name, "%s: cell %d of %d equal-volume cells holds %d of %d points (%.5f, expected %.5f +- %.5f, false-alarm probability %.0e); Pearson chi2 = %.0f on %d dof" % (
                    name, worst, m, counts[worst], N, counts[worst] / N, 1.0 / m, crit, delta, chi2, m - 1),
                    {"kind": "statistics", "test": "joint " + name, "seed": ctx.seed, "numpy_seed": (ctx.seed * 104729 + 71) % (2 ** 32), "N": N})
    finally:
        np.random.set_state(st)
    ctx.extra["joint_uniformity(supplementary)"] = out


def probes(ctx):
    probe_own_variate(ctx)
    probe_reconfigure(ctx)
    probe_exit(ctx)
    probe_weights(ctx)
    if ctx.thorough or ctx.broken:
        # search for a concrete (statistical) witness when a proof / correspondence broke
        probe_statistics(ctx)
        probe_joint_uniformity(ctx)


# ------------------------------------------------------------------ entry points
def run(ctx):
    ctx.rule = ("scripted numpy.random streams (uniform variates incl. 0, 1-2^-53, 1/4, 1/2, 3/4) fed to the real generators: vertices, directions, "
                "particle types, weights, create_event histories (shadow on/off, up to 12 throws, count preset), exit points for vertices strictly "
                "inside with generic / axis-parallel / in-plane / grazing directions, ListGenerator op sequences (Create/SetCount/GetCount, loop on/off, "
                "1-5 events, Event / Particle / single inputs); non-trivial = distinct inputs (create_event: histories with a rejection or shadow off)")
    ctx.trusted += ["Coq 8.16.1 kernel", "tools/py2coq.py + tools/gen_generation.py (translator; np.random draws become parameters in program order; "
                    "self.source specialised per supported source; slant depth, exit points and interaction length of get_weights become parameters after a syntactic check of the call forms)",
                    "Model/GeneratorModel.v hand model of both get_exit_points, create_event and ListGenerator (pinned by AST hash, validated by correspondence)",
                    "harness/realextract.py extraction directives (validation only); the scripted replacement of np.random.* in the harness process",
                    "the solid-angle / volume formulas in direction_isotropic, cyl_vertex_uniform, box_vertex_uniform are stated, not derived from a measure theory (Archimedes' hat-box theorem is cited)"]
    ctx.assumptions += ["np.random.random_sample/rand/uniform are i.i.d. uniform on [0,1) (the distributional clauses are facts about the map variates -> result)",
                        "theorems are over the real numbers; rounding is covered by the numeric correspondence and probes only",
                        "exit points: proved in full for both volumes on the closed volume (hand models of the six-face loop and of the parametric cylinder routine, pinned and validated by correspondence); in floats b^2 underflows for a line tangent to the wall within 1e-154 (outside the probed inputs)",
                        "energies come from the user's get_energy callable (not modelled); interaction lengths are C14's",
                        "statistical tests are supplementary evidence (thorough tier), false-alarm probability < 1e-9 by DKW / Hoeffding"]
    
    try:
        files, side = gen_files(ctx.scratch)
        for k, v in files.items():
            ctx.write_gen(k, v)
        ctx.oblige("gen:Gen_generation", True)
        ctx.extra["translated_functions"] = side["hashes"]
    except Exception as e:
        ctx.oblige("gen:Gen_generation", False, "translation failed (fail-closed): %s" % e)
        probes(ctx)
        return
    recorded = json.load(open(PIN_FILE)) if os.path.exists(PIN_FILE) else {}
    changed = [k for k, v in side["pins"].items() if recorded.get(k) != v]
    ctx.extra["pins"] = {"current": side["pins"], "changed_since_validation": changed}
    ok = ctx.coq_build("C13", timeout=240)
    todo = [("exit_points", corr_exit), ("create_event", corr_create), ("ListGenerator", corr_list), ("energy_source", corr_energy)]
    if ok:
        todo.insert(0, ("draws", corr_draws))
    else:
        ctx.extra["corr_draws_skipped"] = "Coq build failed; the float run of the generated definitions was skipped"
    for name, fn in todo:
        try:
            fn(ctx, bool(changed))
        except Exception as e:
            import traceback
            ctx.oblige("corr:" + name, False, (repr(e) + traceback.format_exc())[-1500:])
    probes(ctx)


def replay(ctx, obj):
    g = gmod()
    print(json.dumps(obj, indent=1, default=str)[:3000])
    k = obj.get("kind")
    if k == "exit":
        dims = obj["dims"]
        gen = g.CylindricalGenerator(dims[0], dims[1], 1e9) if obj["cyl"] else g.RectangularGenerator(dims[0], dims[1], dims[2], 1e9)
        v, d = tuple(obj["vertex"]), tuple(obj["direction"])
        print("implementation get_exit_points:", impl_exit(gen, v, d))
        lo, hi = slab_oracle(obj["cyl"], tuple(dims), v, d)
        print("slab oracle: entry", tuple(v[i] + lo * d[i] for i in range(3)), "exit", tuple(v[i] + hi * d[i] for i in range(3)))
        try:
            code = PR_EXIT % (("M.cyl_exit_points %s %s %s %s" % (rx.ocf(dims[0]), rx.ocf(dims[1]), vec(v), vec(d))) if obj["cyl"] else
                              ("M.box_exit_points %s %s %s %s %s" % (rx.ocf(dims[0]), rx.ocf(dims[1]), rx.ocf(dims[2]), vec(v), vec(d))))
            res = rx.run(ctx, "From PyrexLib Require Import RealPrims.\nFrom PyrexModel Require Import GeneratorModel.\n" + earthref.Q2R,
                         ["cyl_exit_points", "box_exit_points"], [code], name="replay")
            print("hand model (as floats):", res[0])
        except Exception as e:
            print("model run failed:", repr(e)[:300])
    elif k == "create":
        StubInteraction.length = obj["l_int"]
        lint = obj["l_int"]
        earth = StubEarth(lambda e, d: lint * (0.02 + 2.5 * abs(d[2])))
        gen = (g.CylindricalGenerator(1000.0, 1500.0, 1e9, shadow=obj["shadow"], interaction_model=StubInteraction, earth_model=earth) if obj["cyl"]
               else g.RectangularGenerator(2000.0, 1000.0, 1500.0, 1e9, shadow=obj["shadow"], interaction_model=StubInteraction, earth_model=earth))
        gen.count = obj["start"]
        with Script(obj["us"] + [0.5] * 64) as sc:
            ev = gen.create_event()
            print("implementation: variates used", sc.pos, "count", gen.count, "weights", ev.roots[0].survival_weight, ev.roots[0].interaction_weight)
    elif k == "energy":
        print("re-run: construct the generator with a counting energy source (k-th call returns E0 + k), shadow=%s, apply obj['history'] "
              "on the scripted stream obj['us']; the event energies / get_energy() values must be E0 + (number of source calls made before)" % obj.get("shadow"))
    elif k == "reconfigure":
        print("re-run with: construct the initial generator, apply obj['assignments'] in order, then create_event on the scripted stream obj['us']; "
              "compare with a fresh generator built from obj['final']")
    elif k == "list":
        print("implementation outputs:", obj.get("impl"))
    return 1
