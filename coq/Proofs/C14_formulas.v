(* C14, formula half, part 2: the definitions generated from pyrex/particle.py
   (Gen/Gen_particle.v, regenerated on every run) equal short specifications built from the
   published constants (typed in here, independently of the source), and the clauses of the
   property hold for the specifications. *)
From Coq Require Import Reals List Bool ZArith Lra Lia Psatz.
From PyrexLib Require Import RealPrims PartPrims.
From PyrexGen Require Import Gen_particle.
From PyrexProofs Require Import C14_real.
Import ListNotations.
Open Scope R_scope.

Definition neutrino (p : Z) : Prop :=
  p = 12%Z \/ p = (-12)%Z \/ p = 14%Z \/ p = (-14)%Z \/ p = 16%Z \/ p = (-16)%Z.
Definition electron_flavour (p : Z) : Prop := p = 12%Z \/ p = (-12)%Z.
Definition cc_or_nc (k : Z) : Prop := k = 1%Z \/ k = 2%Z.
Definition eps (s : Inter) : R := log10 (Inter_energy s).

(* the enum values the generated code was built with are the ones used here *)
Lemma enum_values :
  Type_cc = 1%Z /\ Type_nc = 2%Z /\ Pid_electron_neutrino = 12%Z /\ Pid_electron_antineutrino = (-12)%Z /\
  Pid_muon_neutrino = 14%Z /\ Pid_muon_antineutrino = (-14)%Z /\ Pid_tau_neutrino = 16%Z /\
  Pid_tau_antineutrino = (-16)%Z /\ default_model_is_CTW = true.
Proof. repeat split. Qed.

Ltac zsimp :=
  cbv beta iota zeta delta [orb negb andb Z.eqb Z.gtb Z.ltb Z.compare Pos.compare Pos.compare_cont Pos.eqb CompOpp
                            Inter_kind Inter_pid Inter_energy Inter_inelasticity Inter_include_secondaries].
Ltac zsimp_eq :=
  cbv beta iota zeta delta [orb negb andb Z.eqb Pos.eqb
                            Inter_kind Inter_pid Inter_energy Inter_inelasticity Inter_include_secondaries].
Ltac cases_kind_pid Hk Hp :=
  destruct Hk as [Hk|Hk]; destruct Hp as [Hp|[Hp|[Hp|[Hp|[Hp|Hp]]]]]; subst.

(* ------------------------------------------------------------------ CC / NC choice *)
Lemma gqrs_choice_lemma s u : GQRS_choose_interaction s u = if Rltb u 0.6865254 then 1%Z else 2%Z.
Proof. reflexivity. Qed.

Lemma ctw_choice_lemma s u : CTW_choose_interaction s u = if Rltb u (nc_frac (eps s)) then 2%Z else 1%Z.
Proof. reflexivity. Qed.

(* ------------------------------------------------------------------ inelasticity *)
Lemma gqrs_y_lemma s u : 0 <= u < 1 -> 0 < GQRS_choose_inelasticity s u <= 1.
Proof. intros Hu. unfold GQRS_choose_inelasticity. cbv zeta. apply gqrs_y_bounds. assumption. Qed.

(* CTW 2011 table V (parameters of c1), typed independently of the source *)
Definition ctw_a (low : bool) (kind pid : Z) : R * R * R * R :=
  if low then (0, 0.0941, 4.72, 0.456)
  else if (kind =? 1)%Z then (if (pid >? 0)%Z then (- 0.008, 0.26, 3, 1.7) else (- 0.0026, 0.085, 4.1, 1.7))
  else (- 0.005, 0.23, 3, 1.7).
Definition ctw_c1 (low : bool) (kind pid : Z) (e : R) : R :=
  let '(a0, a1, a2, a3) := ctw_a low kind pid in a0 - a1 * exp (- (e - a2) / a3).
Definition ctw_c2 (e : R) : R := 2.55 - 0.0949 * e.
Definition ctw_is_low (e u1 : R) : bool := Rltb u1 (0.128 * sin (- 0.197 * (e - 21.8))).
Definition ctw_y (kind pid : Z) (e u1 u2 : R) : R :=
  if ctw_is_low e u1 then low_sample (ctw_c1 true kind pid e) (ctw_c2 e) u2
  else high_sample (ctw_c1 false kind pid e) u2.

Lemma ctw_c1_neg low kind pid e : ctw_c1 low kind pid e < 0.
Proof.
  unfold ctw_c1, ctw_a.
  destruct low; [|destruct (kind =? 1)%Z; [destruct (pid >? 0)%Z|]];
    match goal with |- ?a0 - ?a1 * exp ?x < 0 => pose proof (exp_pos x) end; nra.
Qed.

Lemma ctw_c2_gt1 e : e <= 12 -> 1 < ctw_c2 e.
Proof. unfold ctw_c2. intros. lra. Qed.

Lemma ctw_y_bounds kind pid e u1 u2 : e <= 12 -> 0 <= u2 <= 1 -> 0 <= ctw_y kind pid e u1 u2 <= 1.
Proof.
  intros He Hu. unfold ctw_y. destruct (ctw_is_low e u1).
  - pose proof (low_sample_bounds _ _ (ctw_c1_neg true kind pid e) (ctw_c2_gt1 e He) u2 Hu). lra.
  - pose proof (high_sample_bounds _ (ctw_c1_neg false kind pid e) u2 Hu). lra.
Qed.

Lemma clamp_id y lo hi : lo <= y <= hi -> Rmin (Rmax y lo) hi = y.
Proof.
  intros H. rewrite Rmax_left by lra. rewrite Rmin_left by lra. reflexivity.
Qed.

Lemma ctw_y_lemma s u1 u2 :
  cc_or_nc (Inter_kind s) -> neutrino (Inter_pid s) -> eps s <= 12 -> 0 <= u2 <= 1 ->
  CTW_choose_inelasticity s u1 u2 = Some (ctw_y (Inter_kind s) (Inter_pid s) (eps s) u1 u2).
Proof.
  intros Hk Hp He Hu. destruct s as [k p E y inc]. unfold eps in *. simpl in Hk, Hp, He.
  unfold ctw_y, ctw_is_low. unfold CTW_choose_inelasticity. cbv beta zeta delta [Inter_kind Inter_pid Inter_energy].
  match goal with |- context [Rltb u1 ?t] => destruct (Rltb u1 t) eqn:Elow end.
  - pose proof (low_sample_bounds _ _ (ctw_c1_neg true k p (log10 E)) (ctw_c2_gt1 _ He) u2 Hu) as B.
    f_equal. rewrite <- (clamp_id _ 0 1e-3 B) at 1. reflexivity.
  - pose proof (high_sample_bounds _ (ctw_c1_neg false k p (log10 E)) u2 Hu) as B.
    cases_kind_pid Hk Hp; zsimp; f_equal;
      match goal with |- _ = high_sample ?c ?r => rewrite <- (clamp_id (high_sample c r) 1e-3 1 B) at 1 end;
      reflexivity.
Qed.

(* ------------------------------------------------------------------ cross sections *)
(* CTW 2011 table III, typed independently of the source *)
Definition ctw_c (kind pid : Z) : R * R * R * R * R :=
  if (pid >? 0)%Z
  then (if (kind =? 1)%Z then (- 1.826, - 17.31, - 6.406, 1.431, - 17.91) else (- 1.826, - 17.31, - 6.448, 1.431, - 18.61))
  else (if (kind =? 1)%Z then (- 1.033, - 15.95, - 7.247, 1.569, - 17.72) else (- 1.033, - 15.95, - 7.296, 1.569, - 18.30)).
Definition ctw_sigma (kind pid : Z) (e : R) : R :=
  let '(c0, c1, c2, c3, c4) := ctw_c kind pid in Rpower 10 (sigma_power c0 c1 c2 c3 c4 e).

(* GQRS 1998 *)
Definition gqrs_coeff (kind pid : Z) : R :=
  if (pid >? 0)%Z then (if (kind =? 1)%Z then 5.53e-36 else 2.31e-36)
  else (if (kind =? 1)%Z then 5.52e-36 else 2.29e-36).
Definition gqrs_total_coeff (pid : Z) : R := if (pid >? 0)%Z then 7.84e-36 else 7.80e-36.
Definition gqrs_sigma (kind pid : Z) (E : R) : R := gqrs_coeff kind pid * Rpower E 0.363.
Definition gqrs_total_sigma (pid : Z) (E : R) : R := gqrs_total_coeff pid * Rpower E 0.363.

Lemma ctw_cross_section_lemma s : cc_or_nc (Inter_kind s) -> neutrino (Inter_pid s) ->
  CTW_cross_section s = Some (ctw_sigma (Inter_kind s) (Inter_pid s) (eps s)).
Proof.
  intros Hk Hp. destruct s as [k p E y inc]. unfold eps. simpl in Hk, Hp.
  cases_kind_pid Hk Hp; reflexivity.
Qed.

Lemma ctw_total_cross_section_lemma s : neutrino (Inter_pid s) ->
  CTW_total_cross_section s = Some (ctw_sigma 1 (Inter_pid s) (eps s) + ctw_sigma 2 (Inter_pid s) (eps s)).
Proof.
  intros Hp. destruct s as [k p E y inc]. unfold eps. simpl in Hp.
  destruct Hp as [Hp|[Hp|[Hp|[Hp|[Hp|Hp]]]]]; subst; reflexivity.
Qed.

Lemma gqrs_cross_section_lemma s : cc_or_nc (Inter_kind s) -> neutrino (Inter_pid s) ->
  GQRS_cross_section s = Some (gqrs_sigma (Inter_kind s) (Inter_pid s) (Inter_energy s)).
Proof.
  intros Hk Hp. destruct s as [k p E y inc]. simpl in Hk, Hp.
  cases_kind_pid Hk Hp; reflexivity.
Qed.

Lemma gqrs_total_cross_section_lemma s : neutrino (Inter_pid s) ->
  GQRS_total_cross_section s = Some (gqrs_total_sigma (Inter_pid s) (Inter_energy s)).
Proof.
  intros Hp. destruct s as [k p E y inc]. simpl in Hp.
  destruct Hp as [Hp|[Hp|[Hp|[Hp|[Hp|Hp]]]]]; subst; reflexivity.
Qed.

Lemma ctw_sigma_pos kind pid e : 0 < ctw_sigma kind pid e.
Proof. unfold ctw_sigma. destruct (ctw_c kind pid) as [[[[c0 c1] c2] c3] c4]. apply Rpower_pos. Qed.

Lemma ctw_sigma_increasing kind pid e1 e2 : cc_or_nc kind -> neutrino pid ->
  3 <= e1 -> e1 < e2 -> e2 <= 12 -> ctw_sigma kind pid e1 < ctw_sigma kind pid e2.
Proof.
  intros Hk Hp H1 H12 H2. unfold ctw_sigma, ctw_c.
  cases_kind_pid Hk Hp; cbv beta iota zeta delta [Z.eqb Z.gtb Z.compare Pos.compare Pos.compare_cont Pos.eqb];
    apply pow10_increasing;
    first [apply sigma_power_increasing_nu_cc; assumption | apply sigma_power_increasing_nu_nc; assumption
          | apply sigma_power_increasing_nubar_cc; assumption | apply sigma_power_increasing_nubar_nc; assumption].
Qed.

Lemma gqrs_coeff_pos kind pid : 0 < gqrs_coeff kind pid.
Proof. unfold gqrs_coeff. destruct (pid >? 0)%Z; destruct (kind =? 1)%Z; lra. Qed.
Lemma gqrs_total_coeff_pos pid : 0 < gqrs_total_coeff pid.
Proof. unfold gqrs_total_coeff. destruct (pid >? 0)%Z; lra. Qed.

Lemma gqrs_sigma_pos kind pid E : 0 < gqrs_sigma kind pid E.
Proof. unfold gqrs_sigma. apply Rmult_lt_0_compat; [apply gqrs_coeff_pos|apply Rpower_pos]. Qed.

Lemma gqrs_sigma_increasing kind pid E1 E2 : 0 < E1 -> E1 < E2 -> gqrs_sigma kind pid E1 < gqrs_sigma kind pid E2.
Proof.
  intros H1 H2. unfold gqrs_sigma. apply Rmult_lt_compat_l; [apply gqrs_coeff_pos|].
  apply Rlt_Rpower_l; lra.
Qed.
Lemma gqrs_total_sigma_increasing pid E1 E2 : 0 < E1 -> E1 < E2 -> gqrs_total_sigma pid E1 < gqrs_total_sigma pid E2.
Proof.
  intros H1 H2. unfold gqrs_total_sigma. apply Rmult_lt_compat_l; [apply gqrs_total_coeff_pos|].
  apply Rlt_Rpower_l; lra.
Qed.

(* the design-time note, re-verified: in the GQRS constants CC+NC is the total for neutrinos
   (5.53+2.31 = 7.84) but NOT for antineutrinos (5.52+2.29 = 7.81 <> 7.80) *)
Lemma gqrs_sum_rule_neutrino E : gqrs_sigma 1 12 E + gqrs_sigma 2 12 E = gqrs_total_sigma 12 E.
Proof. unfold gqrs_sigma, gqrs_total_sigma, gqrs_coeff, gqrs_total_coeff. simpl. lra. Qed.
Lemma gqrs_sum_rule_antineutrino_fails E :
  gqrs_sigma 1 (-12) E + gqrs_sigma 2 (-12) E - gqrs_total_sigma (-12) E = 1e-38 * Rpower E 0.363.
Proof. unfold gqrs_sigma, gqrs_total_sigma, gqrs_coeff, gqrs_total_coeff. simpl. lra. Qed.

(* ------------------------------------------------------------------ interaction lengths *)
Lemma ctw_length_lemma s :
  CTW_interaction_length s = option_map (fun sigma => 1 / (avogadro * sigma)) (CTW_cross_section s) /\
  CTW_total_interaction_length s = option_map (fun sigma => 1 / (avogadro * sigma)) (CTW_total_cross_section s).
Proof.
  unfold CTW_interaction_length, CTW_total_interaction_length.
  destruct (CTW_cross_section s); destruct (CTW_total_cross_section s); split; reflexivity.
Qed.
Lemma gqrs_length_lemma s :
  GQRS_interaction_length s = option_map (fun sigma => 1 / (avogadro * sigma)) (GQRS_cross_section s) /\
  GQRS_total_interaction_length s = option_map (fun sigma => 1 / (avogadro * sigma)) (GQRS_total_cross_section s).
Proof.
  unfold GQRS_interaction_length, GQRS_total_interaction_length.
  destruct (GQRS_cross_section s); destruct (GQRS_total_cross_section s); split; reflexivity.
Qed.

Lemma avogadro_value : avogadro = 6.02214076e23.
Proof. reflexivity. Qed.
Lemma avogadro_pos : 0 < avogadro.
Proof. unfold avogadro. lra. Qed.

(* ------------------------------------------------------------------ shower fractions *)
Definition is_electron (pid : Z) : bool := ((pid =? 12)%Z || (pid =? -12)%Z)%bool.

(* primary fractions (em, had) *)
Definition primary (kind pid : Z) (y : R) : R * R :=
  if (kind =? 2)%Z then (0, y) else if is_electron pid then (1 - y, y) else (0, y).

(* one pass of the retry loop: accept the secondaries if they conserve energy *)
Definition accept (sec : nat -> R -> Z -> R * R) (E le : R) (ei : Z) (em had : R) (it : nat) : option (R * R) :=
  let '(a, b) := sec it le ei in
  if Rleb (a + b) le
  then (if Rgtb (a + b) ((em + had) * E) then Some (a / E, b / E) else Some (em, had))
  else None.

Definition clamp_index (le : R) : Z :=
  let i := Rtrunc (2 * (log10 le - 18)) in
  if (i <? 0)%Z then 0%Z else if (i >? 6)%Z then 6%Z else i.

Definition shower_spec (s : Inter) (sec : nat -> R -> Z -> R * R) : option (option (R * R)) :=
  let E := Inter_energy s in
  let y := Inter_inelasticity s in
  let '(em, had) := primary (Inter_kind s) (Inter_pid s) y in
  if negb (Inter_include_secondaries s) then Some (Some (em, had))
  else if (Inter_kind s =? 2)%Z then Some (Some (em, had))
  else if Rleb (E * (1 - y)) 0 then Some (Some (em, had))
  else Some (retry_loop 1000 0 (accept sec E (E * (1 - y)) (clamp_index (E * (1 - y))) em had)).

Lemma gqrs_shower_lemma s sec : cc_or_nc (Inter_kind s) -> neutrino (Inter_pid s) ->
  GQRS_choose_shower_fractions s sec = shower_spec s sec.
Proof.
  intros Hk Hp. destruct s as [k p E y inc]. simpl in Hk, Hp.
  unfold GQRS_choose_shower_fractions, shower_spec, primary, is_electron, clamp_index, accept.
  cases_kind_pid Hk Hp; destruct inc; zsimp_eq; try reflexivity;
    destruct (Rleb (E * (1 - y)) 0); try reflexivity;
    destruct (Rtrunc (2 * (log10 (E * (1 - y)) - 18)) <? 0)%Z; try reflexivity;
    destruct (Rtrunc (2 * (log10 (E * (1 - y)) - 18)) >? 6)%Z; reflexivity.
Qed.

Lemma ctw_shower_lemma s sec : cc_or_nc (Inter_kind s) -> neutrino (Inter_pid s) ->
  CTW_choose_shower_fractions s sec = shower_spec s sec.
Proof.
  intros Hk Hp. destruct s as [k p E y inc]. simpl in Hk, Hp.
  unfold CTW_choose_shower_fractions, shower_spec, primary, is_electron, clamp_index, accept.
  cases_kind_pid Hk Hp; destruct inc; zsimp_eq; try reflexivity;
    destruct (Rleb (E * (1 - y)) 0); try reflexivity;
    destruct (Rtrunc (2 * (log10 (E * (1 - y)) - 18)) <? 0)%Z; try reflexivity;
    destruct (Rtrunc (2 * (log10 (E * (1 - y)) - 18)) >? 6)%Z; reflexivity.
Qed.

(* what the property demands of a result (em, had) *)
Definition fractions_ok (kind pid : Z) (y em had : R) : Prop :=
  0 <= em /\ 0 <= had /\ em + had <= 1 /\
  (kind = 2%Z -> em = 0 /\ had = y) /\
  (kind = 1%Z -> electron_flavour pid -> em = 1 - y /\ had = y /\ em + had = 1).

Lemma is_electron_true pid : is_electron pid = true <-> electron_flavour pid.
Proof.
  unfold is_electron, electron_flavour. rewrite orb_true_iff, !Z.eqb_eq. tauto.
Qed.

Lemma primary_ok kind pid y : cc_or_nc kind -> 0 <= y <= 1 ->
  fractions_ok kind pid y (fst (primary kind pid y)) (snd (primary kind pid y)).
Proof.
  intros Hk Hy. unfold primary, fractions_ok.
  destruct Hk as [Hk|Hk]; subst kind; simpl (_ =? _)%Z; cbv iota.
  - destruct (is_electron pid) eqn:El; simpl fst; simpl snd.
    + apply is_electron_true in El.
      repeat match goal with |- _ /\ _ => split end; try lra; try (intros; discriminate); intros;
        first [lra | contradiction | (repeat split; lra)].
    + assert (~ electron_flavour pid) by (intros H; apply is_electron_true in H; congruence).
      repeat match goal with |- _ /\ _ => split end; try lra; try (intros; discriminate); intros;
        first [lra | contradiction | (left; split; lra)].
  - simpl fst; simpl snd.
    repeat match goal with |- _ /\ _ => split end; try lra; try (intros; discriminate); intros;
      first [lra | discriminate].
Qed.

Lemma accept_ok sec kind pid E y ei it v :
  kind = 1%Z -> 0 < E -> 0 <= y <= 1 -> 0 < E * (1 - y) ->
  (forall i le e, 0 <= le -> 0 <= fst (sec i le e) /\ 0 <= snd (sec i le e)) ->
  (electron_flavour pid -> forall i le e, sec i le e = (0, 0)) ->
  accept sec E (E * (1 - y)) ei (fst (primary kind pid y)) (snd (primary kind pid y)) it = Some v ->
  fractions_ok kind pid y (fst v) (snd v).
Proof.
  intros Hk HE Hy Hle Hnn Hel. pose proof (primary_ok kind pid y (or_introl Hk) Hy) as Hprim.
  unfold accept. destruct (sec it (E * (1 - y)) ei) as [a b] eqn:Es.
  destruct (Hnn it (E * (1 - y)) ei ltac:(lra)) as [Ha Hb]. rewrite Es in Ha, Hb. simpl in Ha, Hb.
  destruct (Rleb (a + b) (E * (1 - y))) eqn:C1; [|discriminate]. apply Rleb_true in C1.
  destruct (Rgtb (a + b) _) eqn:C2; intros Hv; inversion Hv; subst v; clear Hv; [|assumption].
  apply Rgtb_true in C2. simpl fst; simpl snd.
  assert (HiE : 0 < / E) by (apply Rinv_0_lt_compat; assumption).
  assert (Hsum : a / E + b / E = (a + b) / E) by (field; lra).
  assert (Hup : (a + b) / E <= 1 - y).
  { apply (Rmult_le_reg_r E); [assumption|]. unfold Rdiv. rewrite Rmult_assoc, Rinv_l by lra. lra. }
  assert (Hea : 0 <= a / E) by (unfold Rdiv; apply Rmult_le_pos; lra).
  assert (Heb : 0 <= b / E) by (unfold Rdiv; apply Rmult_le_pos; lra).
  unfold fractions_ok. subst kind.
  destruct (is_electron pid) eqn:El.
  - apply is_electron_true in El. rewrite (Hel El) in Es. inversion Es; subst a b.
    unfold primary in C2. simpl (_ =? _)%Z in C2. cbv iota in C2.
    assert (E2 : is_electron pid = true) by (apply is_electron_true; assumption). rewrite E2 in C2. simpl in C2. nra.
  - assert (Hne : ~ electron_flavour pid) by (intros H; apply is_electron_true in H; congruence).
    unfold primary in C2. simpl (_ =? _)%Z in C2. cbv iota in C2. rewrite El in C2. simpl in C2.
    assert (Hlow : y < (a + b) / E).
    { apply (Rmult_lt_reg_r E); [assumption|]. unfold Rdiv. rewrite Rmult_assoc, Rinv_l by lra. lra. }
    repeat match goal with |- _ /\ _ => split end; try lra; try (intros; discriminate); intros;
      first [lra | contradiction | (right; lra)].
Qed.

Lemma shower_spec_ok s sec :
  cc_or_nc (Inter_kind s) -> neutrino (Inter_pid s) -> 0 < Inter_energy s -> 0 <= Inter_inelasticity s <= 1 ->
  (forall i le e, 0 <= le -> 0 <= fst (sec i le e) /\ 0 <= snd (sec i le e)) ->
  (electron_flavour (Inter_pid s) -> forall i le e, sec i le e = (0, 0)) ->
  match shower_spec s sec with
  | None => False
  | Some None =>   (* 1000 rejected draws: the Python function returns None *)
      Inter_kind s = 1%Z /\ ~ electron_flavour (Inter_pid s) /\ Inter_include_secondaries s = true
  | Some (Some (em, had)) =>
      fractions_ok (Inter_kind s) (Inter_pid s) (Inter_inelasticity s) em had /\
      (Inter_include_secondaries s = false ->
         (em, had) = primary (Inter_kind s) (Inter_pid s) (Inter_inelasticity s))
  end.
Proof.
  intros Hk Hp HE Hy Hnn Hel. destruct s as [k p E y inc]. simpl in *.
  unfold shower_spec. cbv beta zeta delta [Inter_kind Inter_pid Inter_energy Inter_inelasticity Inter_include_secondaries].
  pose proof (primary_ok k p y Hk Hy) as Hprim.
  destruct (primary k p y) as [em had] eqn:Ep. simpl in Hprim.
  destruct inc; simpl negb; cbv iota; [|split; [assumption|reflexivity]].
  destruct (k =? 2)%Z eqn:K2; [split; [assumption|discriminate]|].
  assert (K1 : k = 1%Z). { destruct Hk as [Hk|Hk]; [assumption|]. subst. discriminate. }
  destruct (Rleb (E * (1 - y)) 0) eqn:C0; [split; [assumption|discriminate]|]. apply Rleb_false in C0.
  destruct (retry_loop _ _ _) as [[em' had']|] eqn:L.
  - split; [|discriminate].
    apply (retry_loop_some (fun v => fractions_ok k p y (fst v) (snd v))) in L; [exact L|].
    intros j v Hv. replace em with (fst (primary k p y)) in Hv by (rewrite Ep; reflexivity).
    replace had with (snd (primary k p y)) in Hv by (rewrite Ep; reflexivity).
    apply (accept_ok sec k p E y (clamp_index (E * (1 - y))) j v K1 HE Hy C0 Hnn Hel Hv).
  - split; [assumption|]. split; [|reflexivity].
    intros El. change 1000%nat with (S 999) in L. rewrite (retry_loop_first 999 _ (em, had)) in L; [discriminate|].
    unfold accept. rewrite (Hel El). rewrite Rplus_0_r.
    assert (C1 : Rleb 0 (E * (1 - y)) = true) by (apply Rleb_true; lra). rewrite C1.
    assert (C2 : Rgtb 0 ((em + had) * E) = false).
    { apply Rgtb_false. destruct Hprim as (A & B & _). nra. }
    rewrite C2. reflexivity.
Qed.

(* ------------------------------------------------------------------ the secondaries (generated) *)
(* GQRS_choose_secondary_fractions is translated from _choose_secondary_fractions: the module-level
   tables are the record `tabs` (arbitrary), numpy.random.poisson / rand are the streams ns / us. *)
Definition bounded (le : R) (m : R * R) : Prop := 0 <= fst m <= le /\ 0 <= snd m <= le.
Definition st_bounded (le : R) (st : R * R * list Z * list R) : Prop := bounded le (fst (fst st)).

Lemma interp_unit r cum : in_unit (np_interp_last r cum (linspace01 (List.length cum))).
Proof. apply np_interp_last_unit. apply linspace01_unit. Qed.

Ltac split_lets :=
  repeat match goal with
  | |- context [draw ?u] => destruct (draw u)
  | |- context [draw_poisson ?l ?n] => destruct (draw_poisson l n)
  end.
Ltac split_ifs :=
  repeat match goal with
  | |- context [if ?c then _ else _] => destruct c
  end.
Ltac leaf le :=
  unfold st_bounded, bounded in *; cbn [fst snd] in *;
  repeat match goal with
  | |- context [np_interp_last ?r ?c (linspace01 (List.length ?c))] =>
      lazymatch goal with
      | _ : in_unit (np_interp_last r c (linspace01 (List.length c))) |- _ => fail
      | _ => pose proof (interp_unit r c)
      end
  end;
  unfold in_unit in *; repeat split; nra.

Lemma secondary_fractions_bounded self tabs le ei ns us :
  0 <= le -> bounded le (GQRS_choose_secondary_fractions self tabs le ei ns us).
Proof.
  intros Hle. unfold GQRS_choose_secondary_fractions. cbv beta zeta.
  assert (H0 : bounded le (0, 0)) by (unfold bounded; simpl; lra).
  destruct (_ || _)%bool.
  - split_lets.
    match goal with |- context [for_range ?n ?body ?init] =>
      assert (Hinv : st_bounded le (for_range n body init));
        [apply for_range_inv; [|exact H0] | destruct (for_range n body init) as [[[em had] ns'] us']; exact Hinv]
    end.
    intros [[[em had] ns'] us'] HP. split_lets. split_ifs; leaf le.
  - destruct (_ || _)%bool; [|exact H0].
    split_lets.
    match goal with |- context [for_range ?n ?body ?init] =>
      assert (Hinv : st_bounded le (for_range n body init));
        [apply for_range_inv; [|exact H0] | destruct (for_range n body init) as [[[em had] ns'] us'] ]
    end.
    + intros [[[em had] ns'] us'] HP. split_lets. split_ifs; leaf le.
    + split_lets. split_ifs; leaf le.
Qed.

Lemma secondary_fractions_electron self tabs le ei ns us :
  electron_flavour (Inter_pid self) -> GQRS_choose_secondary_fractions self tabs le ei ns us = (0, 0).
Proof. destruct self as [k p E y inc]. simpl. intros [H|H]; subst; reflexivity. Qed.

(* the i-th call of _choose_secondary_fractions: arbitrary tables and arbitrary Poisson / uniform
   streams per call *)
Definition model_sec (f : Inter -> SecTables -> R -> Z -> list Z -> list R -> R * R)
           (s : Inter) (tabs : SecTables) (ns : nat -> list Z) (us : nat -> list R)
  : nat -> R -> Z -> R * R :=
  fun it le ei => f s tabs le ei (ns it) (us it).

Lemma fractions_lemma s tabs ns us :
  cc_or_nc (Inter_kind s) -> neutrino (Inter_pid s) -> 0 < Inter_energy s -> 0 <= Inter_inelasticity s <= 1 ->
  match shower_spec s (model_sec GQRS_choose_secondary_fractions s tabs ns us) with
  | None => False
  | Some None => Inter_kind s = 1%Z /\ ~ electron_flavour (Inter_pid s) /\ Inter_include_secondaries s = true
  | Some (Some (em, had)) =>
      fractions_ok (Inter_kind s) (Inter_pid s) (Inter_inelasticity s) em had /\
      (Inter_include_secondaries s = false ->
         (em, had) = primary (Inter_kind s) (Inter_pid s) (Inter_inelasticity s))
  end.
Proof.
  intros Hk Hp HE Hy. apply shower_spec_ok; try assumption.
  - intros i le e Hle. unfold model_sec.
    destruct (secondary_fractions_bounded s tabs le e (ns i) (us i) Hle) as [[A _] [B _]]. split; assumption.
  - intros El i le e. unfold model_sec. apply secondary_fractions_electron. assumption.
Qed.

(* CTWInteraction inherits the method unchanged *)
Lemma ctw_secondaries_inherited : CTW_choose_secondary_fractions = GQRS_choose_secondary_fractions.
Proof. reflexivity. Qed.

(* non-vacuity: concrete valid records *)
Example ex_inter : exists s, cc_or_nc (Inter_kind s) /\ neutrino (Inter_pid s) /\ 10 ^ 3 <= Inter_energy s <= 10 ^ 12 /\
                             0 <= Inter_inelasticity s <= 1.
Proof.
  exists (mkInter 1 14 (10 ^ 9) 0.25 true). simpl. unfold cc_or_nc, neutrino. repeat split; try lra; auto.
  all: try (apply Rle_pow; [lra|lia]).
Qed.
