(* List-level NumPy operations the generated propagation formulas (Gen_prop.v) use:
   numpy.linspace (closed / endpoint=False, with retstep), trapezoid with constant dx,
   numpy.prod. *)
From Coq Require Import Reals List ZArith Lra.
From PyrexLib Require Import RealPrims.
Import ListNotations.
Open Scope R_scope.

(* a + i*step for i = 0 .. n-1 *)
Fixpoint arange_from (a step i : R) (n : nat) : list R :=
  match n with O => [] | S n' => (a + i * step) :: arange_from a step (i + 1) n' end.
Definition arange_affine (a step : R) (n : nat) : list R := arange_from a step 0 n.

(* numpy.linspace(a, b, num, retstep=True): step = (b-a)/(num-1) *)
Definition linspace_closed_step (a b : R) (num : Z) : R := (b - a) / IZR (num - 1).
Definition linspace_closed (a b : R) (num : Z) : list R :=
  arange_affine a (linspace_closed_step a b num) (Z.to_nat num).

(* numpy.linspace(a, b, num, endpoint=False, retstep=True): step = (b-a)/num *)
Definition linspace_open_step (a b : R) (num : Z) : R := (b - a) / IZR num.
Definition linspace_open (a b : R) (num : Z) : list R :=
  arange_affine a (linspace_open_step a b num) (Z.to_nat num).

(* trapezoid(ys, dx=dx) = sum over consecutive pairs of dx * (y_i + y_{i+1}) / 2; a single sample gives the
   empty sum 0 whatever dx is (numpy.linspace(a, b, 1, retstep=True) returns step = nan) *)
Fixpoint trapz_dx (dx : R) (ys : list R) : R :=
  match ys with
  | y0 :: ((y1 :: _) as t) => dx * (y0 + y1) / 2 + trapz_dx dx t
  | _ => 0
  end.

Fixpoint list_prod (l : list R) : R := match l with [] => 1 | x :: t => x * list_prod t end.

(* numpy.any on a 3-vector *)
Definition vany (v : vec3) : bool := negb (Reqb (vx v) 0) || negb (Reqb (vy v) 0) || negb (Reqb (vz v) 0).

(* trapezoid(ys, x=xs) on a list of nodes (x, y) *)
Fixpoint trapz_nodes (l : list (R * R)) : R :=
  match l with
  | (x0, y0) :: (((x1, y1) :: _) as t) => (x1 - x0) * (y0 + y1) / 2 + trapz_nodes t
  | _ => 0
  end.
