(* C17: proofs about the thermal-noise model (Model/NoiseModel.v) from the DFT theory. *)
From Coq Require Import Reals ZArith List Bool Arith Lia Lra.
From Coquelicot Require Import Coquelicot.
From PyrexLib Require Import DFT.
From PyrexModel Require Import NoiseModel.
Import ListNotations.
Local Open Scope R_scope.

(* ------------------------------------------------------------------ band selection *)
Lemma in_band_true fmin fmax f : in_band fmin fmax f = true -> fmin <= f <= fmax.
Proof.
  unfold in_band. destruct (Rle_dec fmin f); [|discriminate].
  destruct (Rle_dec f fmax); [|discriminate]. intros _. split; assumption.
Qed.

Lemma band_bins_spec M dt fmin fmax k :
  In k (band_bins M dt fmin fmax) <->
  (k < M / 2 + 1)%nat /\ fmin <= rfftfreq M dt k <= fmax.
Proof.
  unfold band_bins. rewrite filter_In, in_seq. split.
  - intros [H1 H2]. split; [lia | apply in_band_true; assumption].
  - intros [H1 [H2 H3]]. split; [lia|]. unfold in_band.
    destruct (Rle_dec fmin (rfftfreq M dt k)); [|contradiction].
    destruct (Rle_dec (rfftfreq M dt k) fmax); [reflexivity | contradiction].
Qed.

Lemma fft_freqs_in_band M dt fmin fmax f :
  In f (fft_freqs M dt fmin fmax) -> fmin <= f <= fmax.
Proof.
  unfold fft_freqs. rewrite in_map_iff. intros [k [<- Hk]].
  apply band_bins_spec in Hk. tauto.
Qed.

Lemma band_bins_NoDup M dt fmin fmax : NoDup (band_bins M dt fmin fmax).
Proof. unfold band_bins. apply NoDup_filter, seq_NoDup. Qed.

Lemma full_freqs_in_band fmin fmax n f : fmin < fmax ->
  In f (full_freqs fmin fmax n) -> fmin <= f < fmax.
Proof.
  intros Hb. unfold full_freqs. rewrite in_map_iff. intros [i [<- Hi]].
  apply in_seq in Hi. assert (Hn : 0 < INR n) by (apply lt_0_INR; lia).
  assert (H0 : 0 <= INR i) by apply pos_INR.
  assert (H1 : INR i < INR n) by (apply lt_INR; lia).
  assert (Hs : 0 < (fmax - fmin) / INR n) by (apply Rdiv_lt_0_compat; lra).
  split; [nra|].
  assert (INR i * ((fmax - fmin) / INR n) < INR n * ((fmax - fmin) / INR n)) by (apply Rmult_lt_compat_r; assumption).
  replace (INR n * ((fmax - fmin) / INR n)) with (fmax - fmin) in H by (field; lra). lra.
Qed.

Lemma full_freqs_length fmin fmax n : length (full_freqs fmin fmax n) = n.
Proof. unfold full_freqs. rewrite map_length, seq_length. reflexivity. Qed.

(* ------------------------------------------------------------------ rms *)
Lemma rms_given r T Rs fmin fmax : noise_rms (Some r) T Rs fmin fmax = Some r.
Proof. reflexivity. Qed.

Lemma rms_kTRB_lemma T Rs fmin fmax :
  noise_rms None (Some T) (Some Rs) fmin fmax = Some (sqrt (k_B * T * Rs * (fmax - fmin))).
Proof. reflexivity. Qed.

Lemma rms_missing T Rs fmin fmax : (T = None \/ Rs = None) -> noise_rms None T Rs fmin fmax = None.
Proof. intros [-> | ->]; [|destruct T]; reflexivity. Qed.

(* ------------------------------------------------------------------ Full variant *)
Fixpoint list_sum_R (l : list R) : R := match l with [] => 0 | x :: t => x + list_sum_R t end.

Lemma fold_left_Rplus l acc : fold_left Rplus l acc = acc + list_sum_R l.
Proof.
  revert acc. induction l; intros acc; simpl; [ring|]. rewrite IHl. ring.
Qed.

Lemma full_is_cosine_sum_lemma freqs amps phases rms t :
  full_noise_value freqs amps phases rms t
  = rms * sqrt (2 / INR (length freqs)) * list_sum_R (cos_terms freqs amps phases t).
Proof. unfold full_noise_value. rewrite fold_left_Rplus. ring. Qed.

Lemma cos_terms_nth freqs amps phases t i :
  (i < length freqs)%nat -> length amps = length freqs -> length phases = length freqs ->
  nth i (cos_terms freqs amps phases t) 0 = nth i amps 0 * cos (2 * PI * nth i freqs 0 * t + nth i phases 0).
Proof.
  revert amps phases i. induction freqs as [|f fs IH]; intros [|a az] [|p ps] i Hi La Lp; simpl in *; try lia.
  destruct i; [reflexivity|]. apply IH; lia.
Qed.

Lemma cos_terms_length freqs amps phases t :
  length amps = length freqs -> length phases = length freqs ->
  length (cos_terms freqs amps phases t) = length freqs.
Proof.
  revert amps phases. induction freqs as [|f fs IH]; intros [|a az] [|p ps] La Lp; simpl in *; try lia.
  rewrite IH; lia.
Qed.

(* ------------------------------------------------------------------ inverse real transform *)
Local Open Scope C_scope.

Definition onesided (M : nat) (X : nat -> C) (k : nat) : C :=
  if (k =? 0)%nat then X k
  else if (2 * k <? M)%nat then RtoC 2 * X k
  else if (2 * k =? M)%nat then X k
  else 0.

Lemma half_times_two (z : C) : RtoC (/ 2) * (RtoC 2 * z) = z.
Proof. rewrite Cmult_assoc, <- RtoC_mult. replace (/ 2 * 2)%R with 1%R by field. ring. Qed.

Lemma hermext_herm M X k : (k < M)%nat -> hermext M X k = herm M (onesided M X) k.
Proof.
  intros Hk. unfold hermext, herm, onesided.
  destruct (Nat.eqb_spec k 0) as [->|H0].
  - rewrite negidx_0. simpl Nat.eqb. cbv iota. apply RtoC_Re_conj.
  - rewrite negidx_pos by lia.
    destruct (Nat.eqb_spec (M - k) 0); [lia|].
    destruct (Nat.ltb_spec (2 * k) M).
    + destruct (Nat.ltb_spec (2 * (M - k)) M); [lia|].
      destruct (Nat.eqb_spec (2 * (M - k)) M); [lia|].
      replace (Cconj 0) with (RtoC 0) by (unfold Cconj, RtoC; simpl; f_equal; ring).
      rewrite Cplus_0_r. symmetry. apply half_times_two.
    + destruct (Nat.eqb_spec (2 * k) M).
      * replace (M - k)%nat with k by lia.
        destruct (Nat.ltb_spec (2 * k) M); [lia|].
        destruct (Nat.eqb_spec (2 * k) M); [|lia]. apply RtoC_Re_conj.
      * destruct (Nat.ltb_spec (2 * (M - k)) M); [|lia].
        rewrite Cplus_0_l, Cconj_mult, Cconj_RtoC. symmetry. apply half_times_two.
Qed.

Lemma irfft_onesided M X n : irfft M X n = Re (idft M (onesided M X) n).
Proof.
  unfold irfft.
  rewrite (idft_ext _ _ (herm M (onesided M X))) by (intros; apply hermext_herm; assumption).
  rewrite <- Re_idft_herm. reflexivity.
Qed.

Lemma Re_scal (c : R) z : Re (RtoC c * z) = (c * Re z)%R.
Proof. destruct z. simpl. ring. Qed.

Lemma Re_cis_term (c phi th : R) : Re (RtoC c * cis (- phi) * cis th) = (c * cos (th - phi))%R.
Proof.
  rewrite <- Cmult_assoc, <- cis_plus, Re_scal. unfold cis; simpl. f_equal. f_equal. ring.
Qed.

Lemma nyq_weight_at M k : (2 * k = M)%nat -> nyq_weight M k = 2%R.
Proof.
  intros H. unfold nyq_weight. rewrite (proj2 (Nat.eqb_eq _ _) H).
  replace (Nat.even M) with true; [reflexivity|]. subst M. symmetry.
  rewrite Nat.even_mul. reflexivity.
Qed.

Lemma nyq_weight_off M k : (2 * k <> M)%nat -> nyq_weight M k = 1%R.
Proof.
  intros H. unfold nyq_weight. rewrite (proj2 (Nat.eqb_neq _ _) H), andb_false_r. reflexivity.
Qed.

(* the trace on the M-sample grid is a sum of cosines over the rfft bins *)
Lemma irfft_cosine_sum M A Phi n : (0 < M)%nat -> A 0%nat = 0%R ->
  (irfft M (noise_spectrum M A Phi) n * INR M)%R
  = (2 * Rsum (fun k => A k * cos (2 * PI * IZR (Z.of_nat k * Z.of_nat n) / INR M - Phi k)) (M / 2 + 1))%R.
Proof.
  intros HM HA0. rewrite irfft_onesided, idft_tw, Re_scal, Re_Csum.
  assert (HMr : INR M <> 0%R) by (apply not_0_INR; lia).
  replace (/ INR M * Rsum (fun i => Re (Cmult (onesided M (noise_spectrum M A Phi) i) (tw M (Z.of_nat i * Z.of_nat n)))) M * INR M)%R
    with (Rsum (fun i => Re (Cmult (onesided M (noise_spectrum M A Phi) i) (tw M (Z.of_nat i * Z.of_nat n)))) M) by (field; assumption).
  assert (Hsplit : (M = (M / 2 + 1) + (M - (M / 2 + 1)))%nat).
  { assert (M / 2 < M)%nat by (apply Nat.div_lt; lia). lia. }
  rewrite Hsplit at 1. rewrite Rsum_split.
  rewrite (Rsum_ext (fun i => Re (onesided M (noise_spectrum M A Phi) (M / 2 + 1 + i) * tw M (Z.of_nat (M / 2 + 1 + i) * Z.of_nat n)))
                    (fun _ => 0%R)).
  2:{ intros i Hi. unfold onesided.
      assert (M < 2 * (M / 2 + 1 + i))%nat.
      { assert (H := Nat.div_mod M 2 ltac:(lia)). assert (M mod 2 < 2)%nat by (apply Nat.mod_upper_bound; lia). lia. }
      destruct (Nat.eqb_spec (M / 2 + 1 + i) 0); [lia|].
      destruct (Nat.ltb_spec (2 * (M / 2 + 1 + i)) M); [lia|].
      destruct (Nat.eqb_spec (2 * (M / 2 + 1 + i)) M); [lia|].
      rewrite Cmult_0_l. reflexivity. }
  rewrite Rsum_0, Rplus_0_r, <- Rsum_scal. apply Rsum_ext. intros k Hk.
  unfold onesided, noise_spectrum, tw.
  destruct (Nat.eqb_spec k 0) as [->|H0].
  - rewrite HA0, Rmult_0_r, !Cmult_0_l. simpl. ring.
  - destruct (Nat.ltb_spec (2 * k) M).
    + rewrite nyq_weight_off by lia. rewrite Rmult_1_l.
      rewrite <- !Cmult_assoc, Re_scal, Cmult_assoc, Re_cis_term. ring.
    + destruct (Nat.eqb_spec (2 * k) M).
      * rewrite nyq_weight_at by assumption. rewrite Re_cis_term. ring.
      * exfalso. assert (H1 := Nat.div_mod M 2 ltac:(lia)).
        assert (M mod 2 < 2)%nat by (apply Nat.mod_upper_bound; lia). lia.
Qed.

Local Close Scope C_scope.

Lemma sqrt_two_over nf : (0 < nf)%nat -> 2 * sqrt (1 / (2 * INR nf)) = sqrt (2 / INR nf).
Proof.
  intros H. assert (Hn : 0 < INR nf) by (apply lt_0_INR; lia).
  replace 2 with (sqrt 4) at 1.
  - rewrite <- sqrt_mult by (try lra; apply Rlt_le, Rdiv_lt_0_compat; lra).
    f_equal. field. lra.
  - replace 4 with (2 * 2) by ring. apply sqrt_square. lra.
Qed.

Lemma fft_value_cosine_sum M nf A Phi n : (0 < M)%nat -> (0 < nf)%nat -> A 0%nat = 0 ->
  fft_value M nf A Phi n
  = sqrt (2 / INR nf) * Rsum (fun k => A k * cos (2 * PI * IZR (Z.of_nat k * Z.of_nat n) / INR M - Phi k)) (M / 2 + 1).
Proof.
  intros HM Hnf HA. unfold fft_value.
  replace (irfft M (noise_spectrum M A Phi) n * (INR M * sqrt (1 / (2 * INR nf))))
    with (irfft M (noise_spectrum M A Phi) n * INR M * sqrt (1 / (2 * INR nf))) by ring.
  rewrite irfft_cosine_sum by assumption. rewrite <- sqrt_two_over by assumption. ring.
Qed.

(* ------------------------------------------------------------------ periodic interpolation *)
Lemma Int_part_unique (r : R) (z : Z) : IZR z <= r < IZR z + 1 -> z = Int_part r.
Proof.
  intros [H1 H2]. unfold Int_part. rewrite <- (up_tech r z H1); [lia|].
  rewrite plus_IZR. exact H2.
Qed.

Lemma Int_part_IZR z : Int_part (IZR z) = z.
Proof.
  symmetry. apply Int_part_unique. lra.
Qed.

Lemma Int_part_div (a b : Z) : (0 < b)%Z -> Int_part (IZR a / IZR b) = (a / b)%Z.
Proof.
  intros Hb. symmetry. apply Int_part_unique.
  assert (Hbr : 0 < IZR b) by (apply IZR_lt; assumption).
  assert (E := Z.div_mod a b ltac:(lia)). assert (Hm := Z.mod_pos_bound a b Hb).
  assert (Er : IZR a = IZR b * IZR (a / b) + IZR (a mod b)) by (rewrite <- mult_IZR, <- plus_IZR; f_equal; exact E).
  assert (H0 : 0 <= IZR (a mod b)) by (apply IZR_le; lia).
  assert (H1 : IZR (a mod b) < IZR b) by (apply IZR_lt; lia).
  replace (IZR a / IZR b) with (IZR (a / b) + IZR (a mod b) / IZR b) by (rewrite Er; field; lra).
  assert (0 <= IZR (a mod b) / IZR b) by (apply Rmult_le_pos; [assumption | apply Rlt_le, Rinv_0_lt_compat; assumption]).
  assert (IZR (a mod b) / IZR b < 1).
  { apply Rmult_lt_reg_r with (IZR b); [assumption|]. unfold Rdiv. rewrite Rmult_assoc, Rinv_l by lra. lra. }
  split; lra.
Qed.

Lemma fmod_grid (n : Z) (M : nat) dt : 0 < dt -> (0 < M)%nat ->
  fmod (IZR n * dt) (INR M * dt) = IZR (n mod Z.of_nat M) * dt.
Proof.
  intros Hdt HM. unfold fmod.
  assert (HMr : 0 < INR M) by (apply lt_0_INR; lia).
  replace (IZR n * dt / (INR M * dt)) with (IZR n / IZR (Z.of_nat M)) by (rewrite <- INR_IZR_INZ; field; lra).
  rewrite Int_part_div by lia.
  assert (E := Z.div_mod n (Z.of_nat M) ltac:(lia)).
  assert (Er : IZR n = IZR (Z.of_nat M) * IZR (n / Z.of_nat M) + IZR (n mod Z.of_nat M))
    by (rewrite <- mult_IZR, <- plus_IZR; f_equal; exact E).
  rewrite Er at 1. rewrite <- INR_IZR_INZ. ring.
Qed.

(* on the sampling lattice t0 + n dt, for every integer n (any period, before or after the
   window), the interpolant returns the FFT sample n mod M *)
Lemma interp_on_grid t0 dt M v (n : Z) : 0 < dt -> (0 < M)%nat ->
  interp_periodic t0 dt (INR M * dt) M v (t0 + IZR n * dt) = v (Z.to_nat (n mod Z.of_nat M)).
Proof.
  intros Hdt HM. unfold interp_periodic.
  replace (t0 + IZR n * dt - t0) with (IZR n * dt) by ring.
  rewrite fmod_grid by assumption.
  set (r := (n mod Z.of_nat M)%Z).
  assert (Hr := Z.mod_pos_bound n (Z.of_nat M) ltac:(lia)). fold r in Hr.
  replace (IZR r * dt / dt) with (IZR r) by (field; lra).
  rewrite Int_part_IZR.
  rewrite Nat.min_l by lia.
  assert (Ej : INR (Z.to_nat r) = IZR r) by (rewrite INR_IZR_INZ, Z2Nat.id by lia; reflexivity).
  rewrite Ej. unfold Rdiv. ring.
Qed.

Lemma fn_length_uniform z :
  fn_tend z = fn_t0 z + INR (fn_ntimes z - 1) * fn_dt z -> (1 <= fn_ntimes z)%nat ->
  fn_length z = INR (fn_M z - 1) * fn_dt z /\ fn_length z + fn_dt z = INR (fn_M z) * fn_dt z.
Proof.
  intros Hu Hn. unfold fn_length, fn_M, fft_M. rewrite Hu.
  set (u := Z.max 1 (fn_unique z)). assert (Hu1 : (1 <= u)%Z) by (unfold u; lia).
  assert (E : INR (Z.to_nat u * fn_ntimes z) = IZR u * INR (fn_ntimes z)).
  { rewrite mult_INR, INR_IZR_INZ, Z2Nat.id by lia. reflexivity. }
  assert (E1 : INR (Z.to_nat u * fn_ntimes z - 1) = IZR u * INR (fn_ntimes z) - 1).
  { rewrite minus_INR, E; [reflexivity|]. assert (1 <= Z.to_nat u)%nat by lia. nia. }
  rewrite E, E1. rewrite minus_INR by lia. simpl INR. split; ring.
Qed.

(* ------------------------------------------------------------------ DC amplitude *)
Lemma lookup_notin {A} bins (vals : list A) k : ~ In k bins -> lookup bins vals k = None.
Proof.
  revert vals. induction bins as [|b bs IH]; intros [|v vs] H; simpl; try reflexivity.
  destruct (Nat.eqb_spec b k); [exfalso; apply H; left; assumption|].
  apply IH. intros Hin. apply H. right. assumption.
Qed.

Lemma scatter_dc_zero M dt fmin fmax amps0 :
  scatter (band_bins M dt fmin fmax) (zero_dc (fft_freqs M dt fmin fmax) amps0) 0 = 0.
Proof.
  unfold scatter, fft_freqs, band_bins.
  replace (M / 2 + 1)%nat with (S (M / 2)) by lia. simpl seq. simpl filter.
  destruct (in_band fmin fmax (rfftfreq M dt 0)).
  - simpl map. destruct amps0 as [|a az]; simpl; [reflexivity|].
    unfold rfftfreq at 1. simpl INR. destruct (Req_EM_T (0 * (1 / (INR M * dt))) 0) as [_|Hne]; [reflexivity|].
    exfalso. apply Hne. ring.
  - rewrite lookup_notin; [reflexivity|].
    rewrite filter_In, in_seq. lia.
Qed.

(* ------------------------------------------------------------------ cosine sum on the lattice *)
Lemma cos_shift_period (a : R) (j : Z) : cos (a + 2 * PI * IZR j) = cos a.
Proof.
  assert (H := cis_plus a (2 * PI * IZR j)). rewrite cis_2PI_Z in H.
  unfold cis in H. apply (f_equal fst) in H. simpl in H. rewrite H. ring.
Qed.

Definition grid_cosine_sum (M : nat) (dt : R) (A Phi : nat -> R) (tau : R) : R :=
  Rsum (fun k => A k * cos (2 * PI * rfftfreq M dt k * tau - Phi k)) (M / 2 + 1).

Lemma fft_noise_on_grid z (n : Z) :
  let M := fn_M z in let bins := fn_bins z in let nf := length bins in
  let A := scatter bins (fn_amps z) in let Phi := scatter bins (fn_phases z) in
  0 < fn_dt z -> (2 <= M)%nat -> (1 <= fn_ntimes z)%nat -> (0 < nf)%nat ->
  fn_tend z = fn_t0 z + INR (fn_ntimes z - 1) * fn_dt z ->
  A 0%nat = 0 ->
  fft_noise_value z (fn_t0 z + IZR n * fn_dt z)
  = fn_rms z * sqrt (2 / INR nf) * grid_cosine_sum M (fn_dt z) A Phi (IZR n * fn_dt z).
Proof.
  intros M bins nf A Phi Hdt HM Hn Hnf Hu HA.
  unfold fft_noise_value. fold bins nf M A Phi.
  destruct (Nat.eqb_spec nf 0); [lia|].
  destruct (fn_length_uniform z Hu Hn) as [L1 L2]. fold M in L1, L2.
  rewrite L2. rewrite L1.
  assert (HM1 : INR (M - 1) <> 0) by (apply not_0_INR; lia).
  replace (INR (M - 1) * fn_dt z / INR (M - 1)) with (fn_dt z) by (field; assumption).
  rewrite interp_on_grid by (try assumption; lia).
  rewrite fft_value_cosine_sum by (try assumption; lia).
  unfold grid_cosine_sum.
  rewrite (Rsum_ext _ (fun k => A k * cos (2 * PI * rfftfreq M (fn_dt z) k * (IZR n * fn_dt z) - Phi k))).
  - ring.
  - intros k Hk. f_equal.
    set (r := (n mod Z.of_nat M)%Z).
    assert (Hr := Z.mod_pos_bound n (Z.of_nat M) ltac:(lia)). fold r in Hr.
    rewrite Z2Nat.id by lia.
    assert (E := Z.div_mod n (Z.of_nat M) ltac:(lia)). fold r in E.
    assert (HMr : INR M <> 0) by (apply not_0_INR; lia).
    replace (2 * PI * rfftfreq M (fn_dt z) k * (IZR n * fn_dt z) - Phi k)
      with (2 * PI * IZR (Z.of_nat k * r) / INR M - Phi k + 2 * PI * IZR (Z.of_nat k * (n / Z.of_nat M))).
    + rewrite cos_shift_period. reflexivity.
    + unfold rfftfreq. rewrite E at 2. rewrite !mult_IZR, plus_IZR, mult_IZR, <- !INR_IZR_INZ.
      field. split; lra.
Qed.

(* ------------------------------------------------------------------ mean square over the period *)
Lemma Rsum_negidx f M : Rsum (fun k => f (negidx M k)) M = Rsum f M.
Proof.
  apply RtoC_inj. rewrite <- !Csum_RtoC.
  apply (Csum_negidx (fun k => RtoC (f k))).
Qed.

Lemma Cnorm2_conj z : Cnorm2 (Cconj z) = Cnorm2 z.
Proof. destruct z. unfold Cnorm2; simpl. ring. Qed.

Lemma Cnorm2_spectrum M A Phi k : Cnorm2 (noise_spectrum M A Phi k) = (nyq_weight M k * A k) * (nyq_weight M k * A k).
Proof.
  unfold noise_spectrum. rewrite Cnorm2_mult, Cnorm2_RtoC.
  replace (Cnorm2 (cis (- Phi k))) with 1; [ring|].
  rewrite Cnorm2_Cmod, Cmod_cis. ring.
Qed.

Lemma spectrum_zero M A Phi k : A k = 0 -> noise_spectrum M A Phi k = RtoC 0.
Proof. intros H. unfold noise_spectrum. rewrite H, Rmult_0_r. apply Cmult_0_l. Qed.

Lemma Cnorm2_Re_zero : Cnorm2 (RtoC (Re (RtoC 0))) = 0.
Proof. unfold Cnorm2; simpl. ring. Qed.

Definition interior (M k : nat) : bool := (negb (k =? 0)%nat && (2 * k <? M)%nat)%bool.

(* amplitudes supported on interior bins (no DC, no Nyquist) *)
Definition interior_support (M : nat) (A : nat -> R) : Prop :=
  forall k, (k < M / 2 + 1)%nat -> interior M k = false -> A k = 0.

Lemma hermext_norm_sum M A Phi : (0 < M)%nat -> interior_support M A ->
  Rsum (fun k => Cnorm2 (hermext M (noise_spectrum M A Phi) k)) M
  = 2 * Rsum (fun k => A k * A k) (M / 2 + 1).
Proof.
  intros HM HS.
  set (X := noise_spectrum M A Phi).
  set (U := fun k => if interior M k then A k * A k else 0).
  assert (HU : forall k, (k < M)%nat -> Cnorm2 (hermext M X k) = U k + U (negidx M k)).
  { intros k Hk. unfold hermext, U, interior.
    assert (Hd := Nat.div_mod M 2 ltac:(lia)). assert (M mod 2 < 2)%nat by (apply Nat.mod_upper_bound; lia).
    destruct (Nat.eqb_spec k 0) as [->|H0].
    - rewrite negidx_0. simpl Nat.eqb. simpl negb. rewrite andb_false_l.
      unfold X. rewrite spectrum_zero by (apply HS; [lia | reflexivity]).
      rewrite Cnorm2_Re_zero. ring.
    - rewrite negidx_pos by lia. simpl negb. rewrite !andb_true_l.
      destruct (Nat.eqb_spec (M - k) 0); [lia|]. simpl negb. rewrite andb_true_l.
      destruct (Nat.ltb_spec (2 * k) M).
      + destruct (Nat.ltb_spec (2 * (M - k)) M); [lia|].
        unfold X. rewrite Cnorm2_spectrum, nyq_weight_off by lia. ring.
      + destruct (Nat.eqb_spec (2 * k) M).
        * destruct (Nat.ltb_spec (2 * (M - k)) M); [lia|].
          unfold X. rewrite spectrum_zero.
          -- rewrite Cnorm2_Re_zero. ring.
          -- apply HS; [lia|]. unfold interior. destruct (Nat.ltb_spec (2 * k) M); [lia|]. apply andb_false_r.
        * destruct (Nat.ltb_spec (2 * (M - k)) M); [|lia].
          rewrite Cnorm2_conj. unfold X. rewrite Cnorm2_spectrum, nyq_weight_off by lia. ring. }
  rewrite (Rsum_ext _ (fun k => U k + U (negidx M k))) by assumption.
  rewrite Rsum_plus, Rsum_negidx.
  replace (Rsum U M + Rsum U M) with (2 * Rsum U M) by ring. f_equal.
  assert (Hsplit : (M = (M / 2 + 1) + (M - (M / 2 + 1)))%nat).
  { assert (M / 2 < M)%nat by (apply Nat.div_lt; lia). lia. }
  rewrite Hsplit at 1. rewrite Rsum_split.
  rewrite (Rsum_ext (fun i => U (M / 2 + 1 + i)%nat) (fun _ => 0)).
  - rewrite Rsum_0, Rplus_0_r. apply Rsum_ext. intros k Hk. unfold U.
    destruct (interior M k) eqn:E; [reflexivity|]. rewrite (HS k Hk E). ring.
  - intros i Hi. unfold U, interior.
    assert (Hd := Nat.div_mod M 2 ltac:(lia)). assert (M mod 2 < 2)%nat by (apply Nat.mod_upper_bound; lia).
    destruct (Nat.ltb_spec (2 * (M / 2 + 1 + i)) M); [lia|]. rewrite andb_false_r. reflexivity.
Qed.

Lemma hermext_hermitian M X k : (k < M)%nat -> Cconj (hermext M X k) = hermext M X (negidx M k).
Proof.
  intros Hk. rewrite hermext_herm by assumption. rewrite herm_hermitian by assumption.
  rewrite hermext_herm by (apply negidx_lt; lia). reflexivity.
Qed.

Lemma irfft_is_real M X n : idft M (hermext M X) n = RtoC (irfft M X n).
Proof.
  unfold irfft. rewrite Re_idft_herm. apply idft_ext. intros k Hk.
  unfold herm. rewrite <- hermext_hermitian by assumption. rewrite Cconj_invol.
  destruct (hermext M X k). unfold RtoC, Cplus, Cmult; simpl. f_equal; field.
Qed.

(* mean square of the trace over its M-sample period (Parseval) *)
Lemma fft_mean_square M nf A Phi rms : (0 < M)%nat -> (0 < nf)%nat -> interior_support M A ->
  / INR M * Rsum (fun n => (fft_value M nf A Phi n * rms) * (fft_value M nf A Phi n * rms)) M
  = rms * rms * (Rsum (fun k => A k * A k) (M / 2 + 1) / INR nf).
Proof.
  intros HM Hnf HS.
  assert (HMr : 0 < INR M) by (apply lt_0_INR; lia).
  assert (Hnr : 0 < INR nf) by (apply lt_0_INR; lia).
  set (X := noise_spectrum M A Phi).
  assert (P := idft_parseval M (hermext M X) HM).
  rewrite (Rsum_ext _ (fun n => irfft M X n * irfft M X n)) in P
    by (intros; rewrite irfft_is_real; apply Cnorm2_RtoC).
  unfold X in P. rewrite hermext_norm_sum in P by assumption. fold X in P.
  unfold fft_value. fold X.
  rewrite (Rsum_ext _ (fun n => (INR M * INR M * (sqrt (1 / (2 * INR nf)) * sqrt (1 / (2 * INR nf))) * (rms * rms)) * (irfft M X n * irfft M X n)))
    by (intros; ring).
  rewrite Rsum_scal, P, sqrt_sqrt by (apply Rlt_le, Rdiv_lt_0_compat; lra).
  field. split; lra.
Qed.

(* ------------------------------------------------------------------ sums over the scattered arrays *)
Fixpoint sum_pairs {A} (T : A -> nat -> R) (bins : list nat) (vals : list A) : R :=
  match bins, vals with
  | b :: bs, v :: vs => T v b + sum_pairs T bs vs
  | _, _ => 0
  end.

Lemma Rsum_update (g : nat -> R) b u K : (b < K)%nat ->
  Rsum (fun k => if (b =? k)%nat then u else g k) K = u - g b + Rsum g K.
Proof.
  induction K; intros H; [lia|]. simpl.
  destruct (Nat.eqb_spec b K).
  - subst. rewrite (Rsum_ext _ g); [ring|].
    intros i Hi. destruct (Nat.eqb_spec K i); [lia | reflexivity].
  - rewrite IHK by lia. ring.
Qed.

Lemma Rsum_lookup {A} (T : A -> nat -> R) bins (vals : list A) K :
  NoDup bins -> (forall b, In b bins -> (b < K)%nat) -> length vals = length bins ->
  Rsum (fun k => match lookup bins vals k with Some v => T v k | None => 0 end) K = sum_pairs T bins vals.
Proof.
  revert vals. induction bins as [|b bs IH]; intros [|v vs] ND HB L; simpl in *; try lia.
  - apply Rsum_0.
  - inversion ND as [|? ? Hnotin ND']. subst.
    rewrite (Rsum_ext _ (fun k => if (b =? k)%nat then T v b
                                  else match lookup bs vs k with Some v0 => T v0 k | None => 0 end)).
    + rewrite Rsum_update by (apply HB; left; reflexivity).
      rewrite (lookup_notin bs vs b Hnotin). rewrite IH; [ring | assumption | intros; apply HB; right; assumption | lia].
    + intros k Hk. destruct (Nat.eqb_spec b k); [subst; reflexivity | reflexivity].
Qed.

Lemma band_bins_lt M dt fmin fmax b : In b (band_bins M dt fmin fmax) -> (b < M / 2 + 1)%nat.
Proof. intros H. apply band_bins_spec in H. tauto. Qed.

Lemma scatter_sq_sum bins vals K :
  NoDup bins -> (forall b, In b bins -> (b < K)%nat) -> length vals = length bins ->
  Rsum (fun k => scatter bins vals k * scatter bins vals k) K = sum_pairs (fun v _ => v * v) bins vals.
Proof.
  intros ND HB L. rewrite <- (Rsum_lookup (fun v _ => v * v) bins vals K ND HB L).
  apply Rsum_ext. intros k Hk. unfold scatter. destruct (lookup bins vals k); ring.
Qed.

Lemma sum_pairs_ones bins vals : length vals = length bins -> List.Forall (fun v => v = 1) vals ->
  sum_pairs (fun v (_ : nat) => v * v) bins vals = INR (length bins).
Proof.
  revert vals. induction bins as [|b bs IH]; intros [|v vs] L F; simpl length in *; try lia.
  - reflexivity.
  - inversion F; subst. simpl sum_pairs. rewrite IH by (try assumption; lia).
    rewrite S_INR. ring.
Qed.

Lemma interior_support_bins M bins vals :
  (forall b, In b bins -> interior M b = true) -> interior_support M (scatter bins vals).
Proof.
  intros HI k Hk Hint. unfold scatter. rewrite lookup_notin; [reflexivity|].
  intros Hin. rewrite (HI k Hin) in Hint. discriminate.
Qed.

(* unit amplitudes on interior band bins: the mean square over the period is rms^2 exactly *)
Lemma unit_amp_rms_lemma z :
  let M := fn_M z in let bins := fn_bins z in let nf := length bins in
  let A := scatter bins (fn_amps z) in let Phi := scatter bins (fn_phases z) in
  (0 < M)%nat -> (0 < nf)%nat -> length (fn_amps z) = nf ->
  List.Forall (fun a => a = 1) (fn_amps z) ->
  (forall b, In b bins -> interior M b = true) ->
  / INR M * Rsum (fun n => (fft_value M nf A Phi n * fn_rms z) * (fft_value M nf A Phi n * fn_rms z)) M
  = fn_rms z * fn_rms z.
Proof.
  intros M bins nf A Phi HM Hnf L F HI.
  rewrite fft_mean_square by (try assumption; apply interior_support_bins; assumption).
  unfold A. rewrite scatter_sq_sum;
    [| apply band_bins_NoDup | intros b Hb; apply (band_bins_lt _ _ _ _ _ Hb) | assumption].
  rewrite sum_pairs_ones by assumption. fold nf. field.
  apply not_0_INR. lia.
Qed.

(* the cosine sum over all rfft bins is the sum over the published basis *)
Fixpoint basis_cosine_sum (freqs amps phases : list R) (tau : R) : R :=
  match freqs, amps, phases with
  | f :: fs, a :: az, p :: ps => a * cos (2 * PI * f * tau - p) + basis_cosine_sum fs az ps tau
  | _, _, _ => 0
  end.

Lemma lookup_combine {A B} bins (xs : list A) (ys : list B) k : length xs = length ys ->
  lookup bins (combine xs ys) k =
  match lookup bins xs k, lookup bins ys k with Some x, Some y => Some (x, y) | _, _ => None end.
Proof.
  revert xs ys. induction bins as [|b bs IH]; intros [|x xs] [|y ys] L; simpl in *; try lia; try reflexivity.
  destruct (b =? k)%nat; [reflexivity|]. apply IH. lia.
Qed.

Lemma lookup_some_iff {A} bins (xs : list A) k : length xs = length bins ->
  (lookup bins xs k = None <-> ~ In k bins).
Proof.
  revert xs. induction bins as [|b bs IH]; intros [|x xs] L; simpl in *; try lia.
  - tauto.
  - destruct (Nat.eqb_spec b k).
    + split; [discriminate | intros H; exfalso; apply H; left; assumption].
    + rewrite IH by lia. split; [intros H [E|Hin]; [lia | contradiction] | intros H Hin; apply H; right; assumption].
Qed.

Lemma sum_pairs_basis M dt bins amps phases tau :
  length amps = length bins -> length phases = length bins ->
  sum_pairs (fun (v : R * R) b => fst v * cos (2 * PI * rfftfreq M dt b * tau - snd v)) bins (combine amps phases)
  = basis_cosine_sum (map (rfftfreq M dt) bins) amps phases tau.
Proof.
  revert amps phases. induction bins as [|b bs IH]; intros [|a az] [|p ps] La Lp; simpl in *; try lia; try reflexivity.
  rewrite IH by lia. reflexivity.
Qed.

Lemma grid_cosine_sum_basis z tau :
  length (fn_amps z) = length (fn_bins z) -> length (fn_phases z) = length (fn_bins z) ->
  grid_cosine_sum (fn_M z) (fn_dt z) (scatter (fn_bins z) (fn_amps z)) (scatter (fn_bins z) (fn_phases z)) tau
  = basis_cosine_sum (fn_freqs z) (fn_amps z) (fn_phases z) tau.
Proof.
  intros La Lp. unfold grid_cosine_sum, fn_freqs, fft_freqs. fold (fn_bins z).
  rewrite <- sum_pairs_basis by assumption.
  rewrite <- (Rsum_lookup _ (fn_bins z) (combine (fn_amps z) (fn_phases z)) (fn_M z / 2 + 1)).
  - apply Rsum_ext. intros k Hk. unfold scatter. rewrite lookup_combine by lia.
    destruct (lookup (fn_bins z) (fn_amps z) k) eqn:Ea; destruct (lookup (fn_bins z) (fn_phases z) k) eqn:Ep; simpl; try ring.
    exfalso. apply (lookup_some_iff _ _ _ Lp) in Ep. apply (lookup_some_iff _ _ _ La) in Ep. congruence.
  - apply band_bins_NoDup.
  - intros b Hb. apply (band_bins_lt _ _ _ _ _ Hb).
  - rewrite combine_length. lia.
Qed.

(* ------------------------------------------------------------------ with_times / basis *)
Lemma fft_values_nth z ts i : (i < length ts)%nat ->
  nth i (fft_noise_values z ts) 0 = fft_noise_value z (nth i ts 0).
Proof.
  intros H. unfold fft_noise_values.
  rewrite (nth_indep _ 0 (fft_noise_value z 0)) by (rewrite map_length; assumption).
  apply map_nth.
Qed.

Lemma full_values_nth freqs amps phases rms ts i : (i < length ts)%nat ->
  nth i (full_noise_values freqs amps phases rms ts) 0 = full_noise_value freqs amps phases rms (nth i ts 0).
Proof.
  intros H. unfold full_noise_values.
  rewrite (nth_indep _ 0 (full_noise_value freqs amps phases rms 0)) by (rewrite map_length; assumption).
  apply map_nth.
Qed.

Lemma fft_absolute_time z ts1 ts2 i j : (i < length ts1)%nat -> (j < length ts2)%nat ->
  nth i ts1 0 = nth j ts2 0 ->
  nth i (fft_noise_values z ts1) 0 = nth j (fft_noise_values z ts2) 0.
Proof. intros Hi Hj E. rewrite !fft_values_nth by assumption. rewrite E. reflexivity. Qed.

Lemma full_absolute_time freqs amps phases rms ts1 ts2 i j : (i < length ts1)%nat -> (j < length ts2)%nat ->
  nth i ts1 0 = nth j ts2 0 ->
  nth i (full_noise_values freqs amps phases rms ts1) 0 = nth j (full_noise_values freqs amps phases rms ts2) 0.
Proof. intros Hi Hj E. rewrite !full_values_nth by assumption. rewrite E. reflexivity. Qed.

(* non-vacuity: an interior band bin exists, e.g. M = 8, bin 2 *)
Example interior_example : interior 8 2 = true /\ interior 8 0 = false /\ interior 8 4 = false.
Proof. repeat split. Qed.

Example band_example : In 2%nat (band_bins 8 1 (1 / 5) (3 / 10)).
Proof.
  apply band_bins_spec. split; [simpl; lia|]. unfold rfftfreq. simpl INR. lra.
Qed.

(* ================================================================== deepening
   (1) mean square over the period for EVERY band (DC amplitude zero, Nyquist bin allowed) *)
Definition nyq_factor (M : nat) (Phi : nat -> R) (k : nat) : R :=
  if (2 * k =? M)%nat then 2 * (cos (Phi k) * cos (Phi k)) else 1.

Lemma Re_spectrum M A Phi k : Re (noise_spectrum M A Phi k) = nyq_weight M k * A k * cos (Phi k).
Proof.
  unfold noise_spectrum. rewrite Re_scal. unfold cis; simpl. rewrite cos_neg. reflexivity.
Qed.

Lemma hermext_norm_sum_gen M A Phi : (0 < M)%nat -> A 0%nat = 0 ->
  Rsum (fun k => Cnorm2 (hermext M (noise_spectrum M A Phi) k)) M
  = 2 * Rsum (fun k => A k * A k * nyq_factor M Phi k) (M / 2 + 1).
Proof.
  intros HM HA0.
  set (X := noise_spectrum M A Phi).
  set (U := fun k => if (k =? 0)%nat then 0
                     else if (2 * k <? M)%nat then A k * A k
                     else if (2 * k =? M)%nat then 2 * (A k * A k * (cos (Phi k) * cos (Phi k))) else 0).
  assert (HU : forall k, (k < M)%nat -> Cnorm2 (hermext M X k) = U k + U (negidx M k)).
  { intros k Hk. unfold hermext, U.
    assert (Hd := Nat.div_mod M 2 ltac:(lia)). assert (M mod 2 < 2)%nat by (apply Nat.mod_upper_bound; lia).
    destruct (Nat.eqb_spec k 0) as [->|H0].
    - rewrite negidx_0. simpl Nat.eqb. cbv iota.
      unfold X. rewrite spectrum_zero by assumption. rewrite Cnorm2_Re_zero. ring.
    - rewrite negidx_pos by lia.
      destruct (Nat.eqb_spec (M - k) 0); [lia|].
      destruct (Nat.ltb_spec (2 * k) M).
      + destruct (Nat.ltb_spec (2 * (M - k)) M); [lia|].
        destruct (Nat.eqb_spec (2 * (M - k)) M); [lia|].
        unfold X. rewrite Cnorm2_spectrum, nyq_weight_off by lia. ring.
      + destruct (Nat.eqb_spec (2 * k) M).
        * replace (M - k)%nat with k by lia.
          destruct (Nat.ltb_spec (2 * k) M); [lia|].
          destruct (Nat.eqb_spec (2 * k) M); [|lia].
          unfold X. rewrite Cnorm2_RtoC, Re_spectrum, nyq_weight_at by assumption. ring.
        * destruct (Nat.ltb_spec (2 * (M - k)) M); [|lia].
          rewrite Cnorm2_conj. unfold X. rewrite Cnorm2_spectrum, nyq_weight_off by lia. ring. }
  rewrite (Rsum_ext _ (fun k => U k + U (negidx M k))) by assumption.
  rewrite Rsum_plus, Rsum_negidx.
  replace (Rsum U M + Rsum U M) with (2 * Rsum U M) by ring. f_equal.
  assert (Hsplit : (M = (M / 2 + 1) + (M - (M / 2 + 1)))%nat).
  { assert (M / 2 < M)%nat by (apply Nat.div_lt; lia). lia. }
  rewrite Hsplit at 1. rewrite Rsum_split.
  assert (Hd := Nat.div_mod M 2 ltac:(lia)). assert (M mod 2 < 2)%nat by (apply Nat.mod_upper_bound; lia).
  rewrite (Rsum_ext (fun i => U (M / 2 + 1 + i)%nat) (fun _ => 0)).
  - rewrite Rsum_0, Rplus_0_r. apply Rsum_ext. intros k Hk. unfold U, nyq_factor.
    destruct (Nat.eqb_spec k 0) as [->|H0]; [rewrite HA0; ring|].
    destruct (Nat.ltb_spec (2 * k) M).
    + destruct (Nat.eqb_spec (2 * k) M); [lia | ring].
    + destruct (Nat.eqb_spec (2 * k) M); [ring | lia].
  - intros i Hi. unfold U.
    destruct (Nat.eqb_spec (M / 2 + 1 + i) 0); [reflexivity|].
    destruct (Nat.ltb_spec (2 * (M / 2 + 1 + i)) M); [lia|].
    destruct (Nat.eqb_spec (2 * (M / 2 + 1 + i)) M); [lia | reflexivity].
Qed.

Lemma fft_mean_square_gen M nf A Phi rms : (0 < M)%nat -> (0 < nf)%nat -> A 0%nat = 0 ->
  / INR M * Rsum (fun n => (fft_value M nf A Phi n * rms) * (fft_value M nf A Phi n * rms)) M
  = rms * rms * (Rsum (fun k => A k * A k * nyq_factor M Phi k) (M / 2 + 1) / INR nf).
Proof.
  intros HM Hnf HA0.
  assert (HMr : 0 < INR M) by (apply lt_0_INR; lia).
  assert (Hnr : 0 < INR nf) by (apply lt_0_INR; lia).
  set (X := noise_spectrum M A Phi).
  assert (P := idft_parseval M (hermext M X) HM).
  rewrite (Rsum_ext _ (fun n => irfft M X n * irfft M X n)) in P
    by (intros; rewrite irfft_is_real; apply Cnorm2_RtoC).
  unfold X in P. rewrite hermext_norm_sum_gen in P by assumption. fold X in P.
  unfold fft_value. fold X.
  rewrite (Rsum_ext _ (fun n => (INR M * INR M * (sqrt (1 / (2 * INR nf)) * sqrt (1 / (2 * INR nf))) * (rms * rms)) * (irfft M X n * irfft M X n)))
    by (intros; ring).
  rewrite Rsum_scal, P, sqrt_sqrt by (apply Rlt_le, Rdiv_lt_0_compat; lra).
  field. split; lra.
Qed.

(* the same in terms of the published basis *)
Lemma fft_mean_square_published z :
  let M := fn_M z in let bins := fn_bins z in let nf := length bins in
  let A := scatter bins (fn_amps z) in let Phi := scatter bins (fn_phases z) in
  (0 < M)%nat -> (0 < nf)%nat -> length (fn_amps z) = nf -> A 0%nat = 0 ->
  / INR M * Rsum (fun n => (fft_value M nf A Phi n * fn_rms z) * (fft_value M nf A Phi n * fn_rms z)) M
  = fn_rms z * fn_rms z * (sum_pairs (fun a b => a * a * nyq_factor M Phi b) bins (fn_amps z) / INR nf).
Proof.
  intros M bins nf A Phi HM Hnf L HA0.
  rewrite fft_mean_square_gen by assumption. do 2 f_equal.
  rewrite <- (Rsum_lookup (fun a b => a * a * nyq_factor M Phi b) bins (fn_amps z) (M / 2 + 1));
    [| apply band_bins_NoDup | intros b Hb; apply (band_bins_lt _ _ _ _ _ Hb) | assumption].
  apply Rsum_ext. intros k Hk. unfold A, scatter. destruct (lookup bins (fn_amps z) k); ring.
Qed.

(* unit amplitudes: every bin counts 1 except the Nyquist bin, which counts 2 cos^2(phase) *)
Lemma sum_pairs_unit_factor (F : nat -> R) bins (vals : list R) :
  length vals = length bins -> List.Forall (fun v => v = 1) vals ->
  sum_pairs (fun a b => a * a * F b) bins vals = list_sum_R (map F bins).
Proof.
  revert vals. induction bins as [|b bs IH]; intros [|v vs] L Fa; simpl in *; try lia; try reflexivity.
  inversion Fa; subst. rewrite IH by (try assumption; lia). ring.
Qed.

Lemma list_sum_factor (c : R) (N : nat) bins : NoDup bins ->
  list_sum_R (map (fun b => if (b =? N)%nat then c else 1) bins)
  = INR (length bins) + (if existsb (Nat.eqb N) bins then c - 1 else 0).
Proof.
  induction bins as [|b bs IH]; intros ND.
  - simpl. ring.
  - inversion ND as [|? ? Hn ND']; subst.
    cbn [map list_sum_R existsb length]. rewrite IH by assumption. rewrite S_INR.
    destruct (Nat.eqb_spec b N) as [->|Hne].
    + rewrite Nat.eqb_refl. cbn [orb].
      replace (existsb (Nat.eqb N) bs) with false; [ring|].
      symmetry. apply not_true_is_false. intros E. apply existsb_exists in E. destruct E as [x [Hx Ex]].
      apply Nat.eqb_eq in Ex. subst. contradiction.
    + destruct (Nat.eqb_spec N b); [lia|]. cbn [orb]. ring.
Qed.

Lemma unit_amp_mean_square_lemma z :
  let M := fn_M z in let bins := fn_bins z in let nf := length bins in
  let A := scatter bins (fn_amps z) in let Phi := scatter bins (fn_phases z) in
  (0 < M)%nat -> (0 < nf)%nat -> length (fn_amps z) = nf ->
  List.Forall (fun a => a = 1) (fn_amps z) -> ~ In 0%nat bins ->
  / INR M * Rsum (fun n => (fft_value M nf A Phi n * fn_rms z) * (fft_value M nf A Phi n * fn_rms z)) M
  = fn_rms z * fn_rms z *
    (1 + (if (Nat.even M && existsb (Nat.eqb (M / 2)) bins)%bool then 2 * (cos (Phi (M / 2)%nat) * cos (Phi (M / 2)%nat)) - 1 else 0) / INR nf).
Proof.
  intros M bins nf A Phi HM Hnf L F H0.
  assert (HA0 : A 0%nat = 0) by (unfold A, scatter; rewrite lookup_notin by assumption; reflexivity).
  etransitivity; [apply fft_mean_square_published; assumption|]. fold M bins nf Phi. f_equal.
  rewrite sum_pairs_unit_factor by assumption.
  assert (Hnr : INR nf <> 0) by (apply not_0_INR; lia).
  destruct (Nat.even M) eqn:Ev.
  - assert (E2 : (2 * (M / 2) = M)%nat).
    { apply Nat.even_spec in Ev. destruct Ev as [q ->]. rewrite (Nat.mul_comm 2 q), Nat.div_mul by lia. lia. }
    rewrite (map_ext _ (fun b => if (b =? M / 2)%nat then 2 * (cos (Phi (M / 2)%nat) * cos (Phi (M / 2)%nat)) else 1)).
    + rewrite list_sum_factor by apply band_bins_NoDup. fold nf. cbn [andb].
      destruct (existsb (Nat.eqb (M / 2)) bins); cbn [andb]; cbv iota; field; assumption.
    + intros b. unfold nyq_factor.
      destruct (Nat.eqb_spec (2 * b) M); destruct (Nat.eqb_spec b (M / 2)); try reflexivity; try lia.
      subst b. reflexivity.
  - cbn [andb]. cbv iota.
    rewrite (map_ext _ (fun _ => 1)).
    + replace (list_sum_R (map (fun _ : nat => 1) bins)) with (INR nf); [field; assumption|].
      unfold nf. clear. induction bins; simpl length; [reflexivity|]. rewrite S_INR. simpl. rewrite <- IHbins. ring.
    + intros b. unfold nyq_factor. destruct (Nat.eqb_spec (2 * b) M); [|reflexivity].
      exfalso. rewrite <- e in Ev. rewrite Nat.even_mul in Ev. discriminate.
Qed.

(* ================================================================== (2) Full variant: discrete mean square over a
   common period.  Frequencies m_i * df (m_i distinct, 0 < 2 m_i < M), M = 1/(df dt) samples, any window start. *)
Lemma scatter_cos_sum bins amps phis K (theta : nat -> R) :
  NoDup bins -> (forall b, In b bins -> (b < K)%nat) -> length amps = length bins -> length phis = length bins ->
  Rsum (fun k => scatter bins amps k * cos (theta k - scatter bins phis k)) K
  = sum_pairs (fun (v : R * R) b => fst v * cos (theta b - snd v)) bins (combine amps phis).
Proof.
  intros ND HB La Lp.
  rewrite <- (Rsum_lookup _ bins (combine amps phis) K ND HB) by (rewrite combine_length; lia).
  apply Rsum_ext. intros k Hk. unfold scatter. rewrite lookup_combine by lia.
  destruct (lookup bins amps k) eqn:Ea; destruct (lookup bins phis k) eqn:Ep; simpl; try ring.
  exfalso. apply (lookup_some_iff _ _ _ Lp) in Ep. apply (lookup_some_iff _ _ _ La) in Ep. congruence.
Qed.

Definition lattice_sum (M : nat) (A Phi : nat -> R) (n : nat) : R :=
  Rsum (fun k => A k * cos (2 * PI * IZR (Z.of_nat k * Z.of_nat n) / INR M - Phi k)) (M / 2 + 1).

Lemma cosine_sum_mean_square M A Phi : (0 < M)%nat -> interior_support M A ->
  / INR M * Rsum (fun n => lattice_sum M A Phi n * lattice_sum M A Phi n) M
  = Rsum (fun k => A k * A k) (M / 2 + 1) / 2.
Proof.
  intros HM HS.
  assert (HA0 : A 0%nat = 0) by (apply HS; [lia | reflexivity]).
  assert (P := fft_mean_square M 1 A Phi 1 HM ltac:(lia) HS).
  rewrite (Rsum_ext _ (fun n => 2 * (lattice_sum M A Phi n * lattice_sum M A Phi n))) in P.
  - rewrite Rsum_scal in P. simpl INR in P. lra.
  - intros n Hn. rewrite fft_value_cosine_sum by (try assumption; lia). fold (lattice_sum M A Phi n).
    simpl INR. replace (2 / 1) with 2 by field.
    transitivity (sqrt 2 * sqrt 2 * (lattice_sum M A Phi n * lattice_sum M A Phi n)); [ring|].
    rewrite sqrt_sqrt by lra. reflexivity.
Qed.

Fixpoint lattice_phases (ms : list nat) (phases : list R) (df ts : R) : list R :=
  match ms, phases with
  | m :: ms', p :: ps' => - (p + 2 * PI * (INR m * df) * ts) :: lattice_phases ms' ps' df ts
  | _, _ => []
  end.

Lemma lattice_phases_length ms phases df ts : length phases = length ms ->
  length (lattice_phases ms phases df ts) = length ms.
Proof.
  revert phases. induction ms; intros [|p ps] L; simpl in *; try lia. rewrite IHms; lia.
Qed.

Lemma full_terms_lattice ms amps phases df dt (M : nat) ts n :
  (0 < M)%nat -> INR M * df * dt = 1 -> length amps = length ms -> length phases = length ms ->
  list_sum_R (cos_terms (map (fun m => INR m * df) ms) amps phases (ts + INR n * dt))
  = sum_pairs (fun (v : R * R) b => fst v * cos (2 * PI * IZR (Z.of_nat b * Z.of_nat n) / INR M - snd v))
              ms (combine amps (lattice_phases ms phases df ts)).
Proof.
  intros HM HP. assert (HMr : INR M <> 0) by (apply not_0_INR; lia).
  assert (E : df * dt = / INR M).
  { apply Rmult_eq_reg_l with (INR M); [|assumption]. rewrite Rinv_r by assumption. lra. }
  revert amps phases. induction ms as [|m ms IH]; intros [|a0 az] [|p ps] La Lp; simpl in *; try lia; try reflexivity.
  rewrite IH by lia. f_equal. f_equal. f_equal.
  replace (2 * PI * (INR m * df) * (ts + INR n * dt) + p)
    with (2 * PI * (INR m * INR n) * (df * dt) + p + 2 * PI * (INR m * df) * ts) by ring.
  rewrite E, mult_IZR, <- !INR_IZR_INZ. field. assumption.
Qed.

Lemma interior_lt M m : interior M m = true -> (m < M / 2 + 1)%nat.
Proof.
  unfold interior. intros H. apply andb_true_iff in H. destruct H as [_ H]. apply Nat.ltb_lt in H.
  destruct (Nat.eq_dec M 0) as [->|HM]; [lia|].
  assert (Hd := Nat.div_mod M 2 ltac:(lia)). assert (M mod 2 < 2)%nat by (apply Nat.mod_upper_bound; lia). lia.
Qed.

Lemma sum_pairs_sq_list ms (amps : list R) : length amps = length ms ->
  sum_pairs (fun v (_ : nat) => v * v) ms amps = list_sum_R (map (fun a => a * a) amps).
Proof.
  revert amps. induction ms as [|m ms IH]; intros [|a0 az] L; simpl in *; try lia; try reflexivity. rewrite IH by lia. reflexivity.
Qed.

Lemma full_mean_square_lemma ms df dt (M : nat) amps phases rms ts :
  (0 < M)%nat -> INR M * df * dt = 1 -> NoDup ms -> (forall m, In m ms -> interior M m = true) ->
  ms <> [] -> length amps = length ms -> length phases = length ms ->
  / INR M * Rsum (fun n => let v := full_noise_value (map (fun m => INR m * df) ms) amps phases rms (ts + INR n * dt) in v * v) M
  = rms * rms * (list_sum_R (map (fun a => a * a) amps) / INR (length ms)).
Proof.
  intros HM HP ND HI Hne La Lp.
  set (phis := lattice_phases ms phases df ts).
  assert (Lq : length phis = length ms) by (apply lattice_phases_length; assumption).
  set (A := scatter ms amps). set (Phi := scatter ms phis).
  assert (HB : forall b, In b ms -> (b < M / 2 + 1)%nat) by (intros b Hb; apply interior_lt, HI, Hb).
  assert (HN : 0 < INR (length ms)) by (apply lt_0_INR; destruct ms; [congruence | simpl; lia]).
  rewrite (Rsum_ext _ (fun n => (rms * rms * (2 / INR (length ms))) * (lattice_sum M A Phi n * lattice_sum M A Phi n))).
  - rewrite Rsum_scal.
    replace (/ INR M * (rms * rms * (2 / INR (length ms)) * Rsum (fun n => lattice_sum M A Phi n * lattice_sum M A Phi n) M))
      with (rms * rms * (2 / INR (length ms)) * (/ INR M * Rsum (fun n => lattice_sum M A Phi n * lattice_sum M A Phi n) M)) by ring.
    rewrite cosine_sum_mean_square by (try assumption; apply interior_support_bins; assumption).
    unfold A. rewrite scatter_sq_sum by assumption. rewrite sum_pairs_sq_list by assumption.
    field. lra.
  - intros n Hn. cbv zeta. rewrite full_is_cosine_sum_lemma, map_length.
    rewrite (full_terms_lattice ms amps phases df dt M ts n) by assumption. fold phis.
    unfold lattice_sum, A, Phi. rewrite scatter_cos_sum by assumption.
    set (S := sum_pairs _ ms (combine amps phis)).
    transitivity (rms * rms * (sqrt (2 / INR (length ms)) * sqrt (2 / INR (length ms))) * (S * S)); [ring|].
    rewrite sqrt_sqrt by (apply Rlt_le, Rdiv_lt_0_compat; lra). reflexivity.
Qed.

Lemma list_sum_sq_ones (amps : list R) : List.Forall (fun a => a = 1) amps ->
  list_sum_R (map (fun a => a * a) amps) = INR (length amps).
Proof.
  induction amps; intros F; [reflexivity|]. inversion F; subst. cbn [map list_sum_R length].
  rewrite IHamps by assumption. rewrite S_INR. ring.
Qed.

Lemma full_unit_amp_rms_lemma ms df dt (M : nat) amps phases rms ts :
  (0 < M)%nat -> INR M * df * dt = 1 -> NoDup ms -> (forall m, In m ms -> interior M m = true) ->
  ms <> [] -> length amps = length ms -> length phases = length ms -> List.Forall (fun a => a = 1) amps ->
  / INR M * Rsum (fun n => let v := full_noise_value (map (fun m => INR m * df) ms) amps phases rms (ts + INR n * dt) in v * v) M
  = rms * rms.
Proof.
  intros HM HP ND HI Hne La Lp F.
  rewrite full_mean_square_lemma by assumption. rewrite list_sum_sq_ones by assumption. rewrite La.
  field. apply not_0_INR. destruct ms; [congruence | simpl; lia].
Qed.

(* non-vacuity: three frequencies 1,2,3 * df on a period of 8 samples *)
Example full_period_example : (forall m, In m [1; 2; 3]%nat -> interior 8 m = true) /\ NoDup [1; 2; 3]%nat /\ INR 8 * (1 / 4) * (1 / 2) = 1.
Proof.
  split; [|split].
  - intros m [<-|[<-|[<-|[]]]]; reflexivity.
  - repeat constructor; simpl; intuition lia.
  - simpl. lra.
Qed.

(* ================================================================== amplitude precedence: total table *)
Lemma rms_table rms T Rs fmin fmax :
  noise_rms rms T Rs fmin fmax =
  match rms, T, Rs with
  | Some r, _, _ => Some r
  | None, Some t, Some rs => Some (sqrt (k_B * t * rs * (fmax - fmin)))
  | None, _, _ => None
  end.
Proof. destruct rms, T, Rs; reflexivity. Qed.

Lemma rms_zero T Rs fmin fmax : noise_rms (Some 0) T Rs fmin fmax = Some 0.
Proof. reflexivity. Qed.

Lemma fft_zero_rms z t : fn_rms z = 0 -> fft_noise_value z t = 0.
Proof.
  intros H. unfold fft_noise_value. cbv zeta.
  destruct (length (fn_bins z) =? 0)%nat; [reflexivity|]. rewrite H. ring.
Qed.

Lemma full_zero_rms freqs amps phases t : full_noise_value freqs amps phases 0 t = 0.
Proof. unfold full_noise_value. ring. Qed.
