(* C07: executable model over R of the three Askaryan signal classes of pyrex/askaryan.py
   (`.values` as FunctionSignal evaluates them: the constructor's function applied to `times`).
   The formulas (spectral amplitudes, RAC, shower profiles, every scalar / integer of
   shower_signal) are the GENERATED definitions of Gen/Gen_askaryan.v; this file adds, by hand,
   what surrounds them in the source: frequency grids, the inverse transforms written as real
   trigonometric sums, np.roll / zero extension, the convolution and its placement, np.diff.
   Hand-written parts are pinned by AST hash and validated by correspondence.  No proofs here. *)
From Coq Require Import Reals List Bool ZArith.
From PyrexLib Require Import RealPrims.
From PyrexGen Require Import Gen_askaryan.
From PyrexModel Require Import AskaryanIndex.
Import ListNotations.
Open Scope R_scope.

(* ---------------------------------------------------------------- small list primitives *)
Definition rsum (f : nat -> R) (n : nat) : R := fold_right Rplus 0 (map f (seq 0 n)).
Fixpoint diff (l : list R) : list R :=                         (* np.diff *)
  match l with
  | a :: ((b :: _) as t) => (b - a) :: diff t
  | _ => []
  end.
Fixpoint padd (a b : list R) : list R :=                        (* pointwise sum, shorter list extended by 0 *)
  match a, b with
  | [], _ => b
  | _, [] => a
  | x :: a', y :: b' => (x + y) :: padd a' b'
  end.
Fixpoint convolve (a b : list R) : list R :=                    (* scipy.signal.convolve(a, b, 'full') *)
  match a with
  | [] => []
  | x :: a' => padd (map (Rmult x) b) (match a' with [] => [] | _ => 0 :: convolve a' b end)
  end.
Fixpoint trapz_dx (y : list R) (dx : R) : R :=                  (* trapezoid(y, dx=dx) *)
  match y with
  | a :: ((b :: _) as t) => dx * (b + a) / 2 + trapz_dx t dx
  | _ => 0
  end.
Definition all_zero (l : list R) : bool := forallb (fun x => Reqb x 0) l.
Definition zerosR (n : nat) : list R := repeat 0 n.
Definition first_time (times : list R) : R := nth 0 times 0.
Definition second_time (times : list R) : R := nth 1 times 0.
Definition ZL (times : list R) : Z := Z.of_nat (length times).

(* ---------------------------------------------------------------- ZHS *)
(* scipy.fft.fftfreq(M, d)[k] *)
Definition fftfreq (M : Z) (d : R) (k : Z) : R :=
  IZR (if (k <? (M - 1) / 2 + 1)%Z then k else (k - M)%Z) * (1 / (IZR M * d)).

(* real part of ifft(e_omega * exp(-1j*2*pi*freqs*(t0-times[0])))[j], divided by dt; j may be any integer *)
Definition zhs_sample (energy dist psi n : R) (N : Z) (dt tau : R) (j : Z) : R :=
  rsum (fun k =>
          let f := fftfreq (2 * N) dt (Z.of_nat k) in
          ZHS_e_omega energy dist psi (ZHS_theta psi) (ZHS_theta_c n) f
          * cos (2 * PI * IZR (Z.of_nat k * j) / IZR (2 * N) - 2 * PI * f * tau))
       (Z.to_nat (2 * N)) / IZR (2 * N) / dt.

Definition zhs_values (times : list R) (energy dist psi n t0 : R) : list R :=
  let N := ZL times in
  let t_0 := first_time times in
  let t_1 := second_time times in
  if Reqb energy 0 then zerosR (length times)
  else if ZHS_zeroed t_0 t_1 N t0 then zerosR (length times)
  else map (fun j => zhs_sample energy dist psi n N (t_1 - t_0) (t0 - t_0) (Z.of_nat j)) (seq 0 (length times)).

(* ---------------------------------------------------------------- AVZ *)
(* np.fft.rfftfreq(N, dt)[k] *)
Definition rfftfreq (N : Z) (d : R) (k : Z) : R := IZR k * (1 / (IZR N * d)).

(* np.fft.irfft(tmp * exp(0.5j*pi), n=N)[j] / dt  with tmp[0] = 0, tmp[k] = AVZ_tmp(f_k):
   only the imaginary parts i*tmp[k] of the interior bins contribute, as -2/N * tmp[k] * sin(2 pi j k / N) *)
Definition avz_trace_sample (emE hadE emf hadf dist theta theta_c : R) (N : Z) (dt : R) (j : Z) : R :=
  - (2 / IZR N) *
  rsum (fun k' => let k := Z.of_nat (S k') in
          AVZ_tmp emE hadE emf hadf dist theta theta_c (rfftfreq N dt k)
          * sin (2 * PI * IZR (k * j) / IZR N))
       (Z.to_nat ((N - 1) / 2)) / dt.

Definition avz_values (times : list R) (emE hadE emf hadf dist psi n t0 : R) : list R :=
  let N := ZL times in
  let t_0 := first_time times in
  let t_1 := second_time times in
  let theta := Rabs psi in
  let theta_c := acos (1 / n) in
  let trace := map (fun j => avz_trace_sample emE hadE emf hadf dist theta theta_c N (t_1 - t_0) (Z.of_nat j))
                   (seq 0 (length times)) in
  let trace := roll 0 trace (AVZ_center_shift N) in
  if AVZ_zeroed t_0 t_1 N t0 then zerosR (length times)
  else avz_place 0 trace (AVZ_shift t_0 t_1 N t0).

(* ---------------------------------------------------------------- ARZ *)
Section Shower.
  Variable profile : R -> R -> R.       (* profile_function(z, energy), defaults filled in *)
  Variable rac : R -> R -> R.           (* potential_function(time, energy) *)

  Definition arz_Q (nQ nQneg : Z) (dz z_to_t energy : R) : list R :=
    map (fun i => profile (sign z_to_t * (IZR (Z.of_nat i - nQneg) * Rabs dz)) energy) (seq 0 (Z.to_nat nQ)).
  Definition arz_RAC (nRAC nshift : Z) (dz z_to_t t_start energy : R) : list R :=
    map (fun r => rac (IZR (Z.of_nat r - nshift) * dz * z_to_t + t_start) energy) (seq 0 (Z.to_nat nRAC)).

  Definition shower_signal (times : list R) (energy theta dist n t0 : R) : list R :=
    let L := ZL times in
    let t_0 := first_time times in
    let t_1 := second_time times in
    if ARZ_ss_zero_energy energy then zerosR (length times)
    else if ARZ_ss_oncone t_0 t_1 L energy theta n t0 then
      let dt := ARZ_ss_dt t_0 t_1 L energy theta n t0 in
      let ts := map (fun t => t - t0) (times ++ [last times 0 + dt]) in
      let A := map (fun t => rac t energy / dist) ts in
      map (fun d => - d / dt) (diff A)
    else
      let z_to_t := ARZ_ss_z_to_t t_0 t_1 L energy theta n t0 in
      let div := ARZ_ss_dt_divider t_0 t_1 L energy theta n t0 in
      let dz := ARZ_ss_dz t_0 t_1 L energy theta n t0 in
      let nQ := ARZ_ss_n_Q t_0 t_1 L energy theta n t0 in
      let nQneg := ARZ_ss_n_Q_negative t_0 t_1 L energy theta n t0 in
      let t_start := ARZ_ss_t_start t_0 t_1 L energy theta n t0 in
      let nshift := ARZ_ss_n_shift t_0 t_1 L energy theta n t0 in
      let nextra := ARZ_ss_n_extra t_0 t_1 L energy theta n t0 in
      let nRAC := ARZ_ss_n_RAC t_0 t_1 L energy theta n t0 in
      if ARZ_ss_outside t_0 t_1 L energy theta n t0 then zerosR (length times)
      else
        let Q := arz_Q nQ nQneg dz z_to_t energy in
        if all_zero Q && (0 <? zlen Q)%Z then zerosR (length times)
        else
          let RA_C := arz_RAC nRAC nshift dz z_to_t t_start energy in
          let conv := convolve Q RA_C in
          let conv := arz_assemble 0 conv (ARZ_ss_n_shift_total t_0 t_1 L energy theta n t0) nextra in
          let conv := arz_decimate 0 div conv in
          let LQ := trapz_dx Q dz in
          let A := map (fun c => ARZ_ss_A t_0 t_1 L energy theta n t0 c LQ) conv in
          map (fun d => d / dist) (diff A).
End Shower.

Fixpoint map2 (f : R -> R -> R) (a b : list R) : list R :=
  match a, b with
  | x :: a', y :: b' => f x y :: map2 f a' b'
  | _, _ => []
  end.

(* ARZAskaryanSignal.__init__ / get_signal_from_showers *)
Definition arz_values (times : list R) (emE hadE dist psi n t0 : R) : list R :=
  let theta := Rabs psi in
  map2 Rplus
    (shower_signal ARZ_em_shower_profile_default ARZAskaryanSignal_em_shower_RAC times emE theta dist n t0)
    (shower_signal ARZ_had_shower_profile_default ARZAskaryanSignal_had_shower_RAC times hadE theta dist n t0).

(* ---------------------------------------------------------------- magnitude scales
   Upper bounds of |sample| used ONLY by the harness to scale the rounding tolerance of the
   float correspondence (sum of absolute values of the terms each sample is a sum of). *)
Definition zhs_scale (times : list R) (energy dist psi n : R) : R :=
  let N := ZL times in
  let dt := second_time times - first_time times in
  rsum (fun k => Rabs (ZHS_e_omega energy dist psi (ZHS_theta psi) (ZHS_theta_c n) (fftfreq (2 * N) dt (Z.of_nat k))))
       (Z.to_nat (2 * N)) / IZR (2 * N) / Rabs dt.
Definition avz_scale (times : list R) (emE hadE emf hadf dist psi n : R) : R :=
  let N := ZL times in
  let dt := second_time times - first_time times in
  (2 / IZR N) *
  rsum (fun k' => Rabs (AVZ_tmp emE hadE emf hadf dist (Rabs psi) (acos (1 / n)) (rfftfreq N dt (Z.of_nat (S k')))))
       (Z.to_nat (N / 2)) / Rabs dt.     (* includes the Nyquist bin, whose real part is cos(pi/2) ~ 6e-17 in binary64 *)
Definition shower_scale (profile rac : R -> R -> R) (times : list R) (energy theta dist n t0 : R) : R :=
  let L := ZL times in
  let t_0 := first_time times in
  let t_1 := second_time times in
  if ARZ_ss_zero_energy energy then 0
  else if ARZ_ss_oncone t_0 t_1 L energy theta n t0 then
    2 * Rabs (rac 0 energy) / Rabs dist / Rabs (ARZ_ss_dt t_0 t_1 L energy theta n t0)
  else
    let z_to_t := ARZ_ss_z_to_t t_0 t_1 L energy theta n t0 in
    let dz := ARZ_ss_dz t_0 t_1 L energy theta n t0 in
    let Q := arz_Q profile (ARZ_ss_n_Q t_0 t_1 L energy theta n t0) (ARZ_ss_n_Q_negative t_0 t_1 L energy theta n t0) dz z_to_t energy in
    if all_zero Q then 0
    else 2 * Rabs (ARZ_ss_A t_0 t_1 L energy theta n t0
                     (fold_right Rplus 0 (map Rabs Q) * Rabs (rac 0 energy)) (trapz_dx Q dz)) / Rabs dist.
Definition arz_scale (times : list R) (emE hadE dist psi n t0 : R) : R :=
  shower_scale ARZ_em_shower_profile_default ARZAskaryanSignal_em_shower_RAC times emE (Rabs psi) dist n t0
  + shower_scale ARZ_had_shower_profile_default ARZAskaryanSignal_had_shower_RAC times hadE (Rabs psi) dist n t0.

(* ---------------------------------------------------------------- FunctionSignal layer (second step after construction)
   A FunctionSignal is a grid plus the function the constructor handed over; `.values` applies the function to the
   CURRENT grid, `with_times` (grid not contained in the old one: no buffers) replaces the grid and keeps the function,
   `+` of two function signals keeps both functions.  The constructors hand over the closure  ts |-> X_values ts params. *)
Record fsignal := mk_fsignal { fs_times : list R; fs_fun : list R -> list R }.
Definition fs_values (s : fsignal) : list R := fs_fun s (fs_times s).
Definition fs_with_times (s : fsignal) (times' : list R) : fsignal := mk_fsignal times' (fs_fun s).
Definition fs_add (a b : fsignal) : fsignal := mk_fsignal (fs_times a) (fun ts => map2 Rplus (fs_fun a ts) (fs_fun b ts)).
Definition zhs_signal times E d psi n t0 : fsignal := mk_fsignal times (fun ts => zhs_values ts E d psi n t0).
Definition avz_signal times emE hadE emf hadf d psi n t0 : fsignal := mk_fsignal times (fun ts => avz_values ts emE hadE emf hadf d psi n t0).
Definition arz_signal times emE hadE d psi n t0 : fsignal := mk_fsignal times (fun ts => arz_values ts emE hadE d psi n t0).
