#!/usr/bin/env python3
"""Markdown table of seeded changes and which check catches them (from seeded/*/meta.json, detect.json)."""
import json, os, glob
ROOT = os.path.dirname(os.path.dirname(os.path.abspath(__file__)))
print("| seeded change | breaks (clause) | needs | result of the registered quick check |")
print("|---|---|---|---|")
for d in sorted(glob.glob(os.path.join(ROOT, "seeded", "C*_*m*"))):
    name = os.path.basename(d)
    m = json.load(open(os.path.join(d, "meta.json")))
    det = json.load(open(os.path.join(d, "detect.json"))) if os.path.exists(os.path.join(d, "detect.json")) else {}
    res = []
    for k, v in det.items():
        res.append("%s: %s" % (k, ("caught, replay with failing input" if v["witness"] else "caught (no-failing-input-found)") if v["detected"] else "MISSED"))
    if m.get("neutralised"):
        res = ["neutralised by later fix: commits (no longer breaks the property; demo passes)"]
    def cell(x):
        return str(x).replace("|", "/").replace("\n", " ")[:260]
    print("| %s (%s) | %s | %s | %s |" % (name, ", ".join(m.get("files", []))[:80], cell(m.get("clause", "")), cell(m.get("needs", "")), "; ".join(res) or "not run yet"))
