(* [zero_energy] [inv_distance] C07: Askaryan pulses obey their scaling laws and fail gracefully.  Statements only.
   ZHS_* / AVZ_* / ARZ_* / ARZAskaryanSignal_* are GENERATED from pyrex/askaryan.py on every run
   (Gen/Gen_askaryan.v); zhs_values / avz_values / arz_values / shower_signal (Model/AskaryanModel.v,
   Model/AskaryanIndex.v) are the hand model of what surrounds the formulas (transforms as real
   trigonometric sums, roll / zero extension, convolution and its placement, diff), pinned and validated
   by correspondence.  `times` is the list of sample times, d the viewing distance, psi the (signed)
   viewing angle, n the index of refraction at the vertex, t0 the shower time. *)
From Coq Require Import Reals List Bool ZArith.
From Coquelicot Require Import Coquelicot.
From PyrexLib Require Import RealPrims.
From PyrexGen Require Import Gen_askaryan.
From PyrexModel Require Import AskaryanIndex AskaryanModel.
From PyrexProofs Require Import C07_index C07_lists C07_formulas C07_finite C07_zhs_avz C07_arz C07_zhs_peak C07_arz_shift C07_main.
Import ListNotations.
Open Scope R_scope.

(* C07: Askaryan pulses obey their scaling laws and fail gracefully.  Statements only.
   ZHS_* / AVZ_* / ARZ_* / ARZAskaryanSignal_* are GENERATED from pyrex/askaryan.py on every run
   (Gen/Gen_askaryan.v); zhs_values / avz_values / arz_values / shower_signal (Model/AskaryanModel.v,
   Model/AskaryanIndex.v) are the hand model of what surrounds the formulas (transforms as real
   trigonometric sums, roll / zero extension, convolution and its placement, diff), pinned and validated
   by correspondence.  `times` is the list of sample times, d the viewing distance, psi the (signed)
   viewing angle, n the index of refraction at the vertex, t0 the shower time. *)
From Coq Require Import Reals List Bool ZArith.
From Coquelicot Require Import Coquelicot.
From PyrexLib Require Import RealPrims.
From PyrexGen Require Import Gen_askaryan.
From PyrexModel Require Import AskaryanIndex AskaryanModel.
From PyrexProofs Require Import C07_index C07_lists C07_formulas C07_finite C07_zhs_avz C07_arz C07_zhs_peak C07_arz_shift C07_main.
Import ListNotations.
Open Scope R_scope.

(* 1/R: the field of every model at distance d, times d, is the field at distance 1 (also per spectral component of the generated formulas);
   [even_in_angle] the field depends on the viewing angle only through |psi|; the generated ZHS amplitude does not read the signed angle;
   [joint_shift] shifting the time grid and the shower time together changes nothing *)
Theorem scaling_invariances :
  ((forall times E d psi n t0, d <> 0 ->
  map (fun v => v * d) (zhs_values times E d psi n t0) = zhs_values times E 1 psi n t0) /\
  (forall times emE hadE emf hadf d psi n t0, d <> 0 ->
  map (fun v => v * d) (avz_values times emE hadE emf hadf d psi n t0) = avz_values times emE hadE emf hadf 1 psi n t0) /\
  (forall times emE hadE d psi n t0, d <> 0 ->
  map (fun v => v * d) (arz_values times emE hadE d psi n t0) = arz_values times emE hadE 1 psi n t0) /\
  (forall E d psi th thc f, d <> 0 ->
  ZHS_e_omega E d psi th thc f * d = ZHS_e_omega E 1 psi th thc f) /\
  (forall E1 E2 emf hadf d th thc f, d <> 0 ->
  AVZ_tmp E1 E2 emf hadf d th thc f * d = AVZ_tmp E1 E2 emf hadf 1 th thc f)) /\
  ((forall times E d psi n t0, zhs_values times E d (- psi) n t0 = zhs_values times E d psi n t0) /\
  (forall times emE hadE emf hadf d psi n t0,
  avz_values times emE hadE emf hadf d (- psi) n t0 = avz_values times emE hadE emf hadf d psi n t0) /\
  (forall times emE hadE d psi n t0,
  arz_values times emE hadE d (- psi) n t0 = arz_values times emE hadE d psi n t0) /\
  (forall E d psi1 psi2 th thc f,
  ZHS_e_omega E d psi1 th thc f = ZHS_e_omega E d psi2 th thc f)) /\
  ((forall times E d psi n t0 s, (2 <= length times)%nat ->
  zhs_values (map (fun t => t + s) times) E d psi n (t0 + s) = zhs_values times E d psi n t0) /\
  (forall times emE hadE emf hadf d psi n t0 s, (2 <= length times)%nat ->
  avz_values (map (fun t => t + s) times) emE hadE emf hadf d psi n (t0 + s) = avz_values times emE hadE emf hadf d psi n t0) /\
  (forall times emE hadE d psi n t0 s, (2 <= length times)%nat ->
  arz_values (map (fun t => t + s) times) emE hadE d psi n (t0 + s) = arz_values times emE hadE d psi n t0)).
Proof. exact C07_scaling_invariances_top. Qed.
Print Assumptions scaling_invariances.

(* ZHS: the phase factor exp(-i w m dt) is an index shift by m (DFT shift theorem, proved termwise on the cosine-sum form of the inverse transform); for the samples that stay inside the window, when neither call takes the zero exit (pulse more than N/2 samples outside the window);
   AVZ: unconditional (the zero exit agrees with the placement formula);
   ZHS: the zero exit is taken exactly when the shower time is >= L + L/2 + 1 samples after or >= L - L/2 + 1 samples before times[0]; the sample function is 2N-periodic; outside the zero exit EVERY sample of the shifted call (also those entering / leaving the window) is the sample function of the unshifted call at index j - m *)
Theorem zhs_avz_whole_sample_shift :
  ((forall E d psi n N dt tau (m j : Z), (0 < N)%Z -> dt <> 0 ->
  zhs_sample E d psi n N dt (tau + IZR m * dt) j = zhs_sample E d psi n N dt tau (j - m)) /\
  (forall times E d psi n t0 (m : Z) (j : nat),
  second_time times - first_time times <> 0 ->
  ZHS_zeroed (first_time times) (second_time times) (ZL times) t0 = false ->
  ZHS_zeroed (first_time times) (second_time times) (ZL times) (t0 + IZR m * (second_time times - first_time times)) = false ->
  (j < length times)%nat -> (0 <= Z.of_nat j - m < ZL times)%Z ->
  nth j (zhs_values times E d psi n (t0 + IZR m * (second_time times - first_time times))) 0
  = nth (Z.to_nat (Z.of_nat j - m)) (zhs_values times E d psi n t0) 0)) /\
  ((forall times emE hadE emf hadf d psi n t0 (m : Z) (j : nat),
  second_time times - first_time times <> 0 -> (j < length times)%nat -> (0 <= Z.of_nat j - m < ZL times)%Z ->
  nth j (avz_values times emE hadE emf hadf d psi n (t0 + IZR m * (second_time times - first_time times))) 0
  = nth (Z.to_nat (Z.of_nat j - m)) (avz_values times emE hadE emf hadf d psi n t0) 0)) /\
  (forall a b L t0, (1 <= L)%Z ->
  (ZHS_zeroed a b L t0 = true <-> (IZR (L + L / 2 + 1) <= (t0 - a) / (b - a) \/ (t0 - a) / (b - a) <= IZR (L / 2 - L - 1)))) /\
  (forall E d psi n N dt tau (j : Z), (0 < N)%Z ->
  zhs_sample E d psi n N dt tau (j + 2 * N) = zhs_sample E d psi n N dt tau j) /\
  (forall times E d psi n t0 (m : Z) (j : nat),
  second_time times - first_time times <> 0 -> E <> 0 ->
  ZHS_zeroed (first_time times) (second_time times) (ZL times) (t0 + IZR m * (second_time times - first_time times)) = false ->
  (j < length times)%nat ->
  nth j (zhs_values times E d psi n (t0 + IZR m * (second_time times - first_time times))) 0
  = zhs_sample E d psi n (ZL times) (second_time times - first_time times) (t0 - first_time times) (Z.of_nat j - m)).
Proof. exact C07_zhs_avz_shift_full. Qed.
Print Assumptions zhs_avz_whole_sample_shift.

(* ARZ: convolution branch, exact when int() truncates n_shift consistently in the two calls (last hypothesis before the index ranges; otherwise the +-10 ns RAC window moves by one lattice point, a relative effect of about 1e-5); on-cone branch on a uniform grid;
   int() truncation commutes with an integer translation exactly when both arguments lie on the same side of zero (or the argument is an integer); hence n_shift is consistent when t0 and t0 + m dt lie on the same side of times[0] + 10 ns, and then the convolution-branch shift holds with concrete hypotheses only (increasing grid, theta in [0,pi], n >= 1, E <> 0, E <> E_crit, off the cone, pulse not outside, profile not empty). Not covered: t0 and t0 + m dt straddling times[0] + 10 ns with a non-integer argument (the RAC window then moves by one lattice point) *)
Theorem arz_whole_sample_shift_partial :
  (forall (profile rac : R -> R -> R) times E th d n t0 (m : Z) (j : nat),
  let a := first_time times in let b := second_time times in let L := ZL times in
  let t0' := t0 + IZR m * (b - a) in
  (1 <= length times)%nat ->
  ARZ_ss_zero_energy E = false -> ARZ_ss_oncone a b L E th n t0 = false ->
  ARZ_ss_outside a b L E th n t0 = false -> ARZ_ss_outside a b L E th n t0' = false ->
  (all_zero (arz_Q profile (ARZ_ss_n_Q a b L E th n t0) (ARZ_ss_n_Q_negative a b L E th n t0) (ARZ_ss_dz a b L E th n t0) (ARZ_ss_z_to_t a b L E th n t0) E)
     && (0 <? zlen (arz_Q profile (ARZ_ss_n_Q a b L E th n t0) (ARZ_ss_n_Q_negative a b L E th n t0) (ARZ_ss_dz a b L E th n t0) (ARZ_ss_z_to_t a b L E th n t0) E))%Z) = false ->
  (1 <= ARZ_ss_n_Q a b L E th n t0)%Z -> (1 <= ARZ_ss_n_RAC a b L E th n t0)%Z ->
  ARZ_ss_z_to_t a b L E th n t0 <> 0 ->
  ARZ_ss_n_shift a b L E th n t0' = (ARZ_ss_n_shift a b L E th n t0 - m * ARZ_ss_dt_divider a b L E th n t0)%Z ->
  (j < length times)%nat -> (0 <= Z.of_nat j - m < ZL times)%Z ->
  nth j (shower_signal profile rac times E th d n t0') 0 = nth (Z.to_nat (Z.of_nat j - m)) (shower_signal profile rac times E th d n t0) 0) /\
  (forall (profile rac : R -> R -> R) times E th d n t0 (m : Z) (j : nat),
  let a := first_time times in let b := second_time times in let L := ZL times in
  let t0' := t0 + IZR m * (b - a) in
  (2 <= length times)%nat ->
  (forall i, (i < length times)%nat -> nth i times 0 = first_time times + INR i * (second_time times - first_time times)) ->
  ARZ_ss_oncone a b L E th n t0 = true ->
  (j < length times)%nat -> (0 <= Z.of_nat j - m < ZL times)%Z ->
  nth j (shower_signal profile rac times E th d n t0') 0 = nth (Z.to_nat (Z.of_nat j - m)) (shower_signal profile rac times E th d n t0) 0) /\
  (forall x (k : Z), Rtrunc (x - IZR k) = (Rtrunc x - k)%Z <->
  ((0 <= x /\ 0 <= x - IZR k) \/ (x <= 0 /\ x - IZR k <= 0) \/ x = IZR (Rfloor_Z x))) /\
  (forall a b L E th n t0 (m : Z), a < b -> ARZ_ss_z_to_t a b L E th n t0 <> 0 ->
  (t0 <= a + 10e-9 /\ t0 + IZR m * (b - a) <= a + 10e-9) \/ (a + 10e-9 <= t0 /\ a + 10e-9 <= t0 + IZR m * (b - a)) ->
  ARZ_ss_n_shift a b L E th n (t0 + IZR m * (b - a)) = (ARZ_ss_n_shift a b L E th n t0 - m * ARZ_ss_dt_divider a b L E th n t0)%Z) /\
  (forall (profile rac : R -> R -> R) times E th d n t0 (m : Z) (j : nat),
  let a := first_time times in let b := second_time times in let L := ZL times in
  let t0' := t0 + IZR m * (b - a) in
  (1 <= length times)%nat -> a < b -> 0 <= th <= PI -> 1 <= n ->
  E <> 0 -> ARZ_max_length_default E <> 0 ->
  ARZ_ss_oncone a b L E th n t0 = false ->
  ARZ_ss_outside a b L E th n t0 = false -> ARZ_ss_outside a b L E th n t0' = false ->
  (all_zero (arz_Q profile (ARZ_ss_n_Q a b L E th n t0) (ARZ_ss_n_Q_negative a b L E th n t0) (ARZ_ss_dz a b L E th n t0) (ARZ_ss_z_to_t a b L E th n t0) E)
     && (0 <? zlen (arz_Q profile (ARZ_ss_n_Q a b L E th n t0) (ARZ_ss_n_Q_negative a b L E th n t0) (ARZ_ss_dz a b L E th n t0) (ARZ_ss_z_to_t a b L E th n t0) E))%Z) = false ->
  ((t0 <= a + 10e-9 /\ t0' <= a + 10e-9) \/ (a + 10e-9 <= t0 /\ a + 10e-9 <= t0')) ->
  (j < length times)%nat -> (0 <= Z.of_nat j - m < ZL times)%Z ->
  nth j (shower_signal profile rac times E th d n t0') 0 = nth (Z.to_nat (Z.of_nat j - m)) (shower_signal profile rac times E th d n t0) 0).
Proof. exact C07_arz_shift_full. Qed.
Print Assumptions arz_whole_sample_shift_partial.

(* ARZ: in every branch (zero energy, on-cone, pulse outside, empty profile, the four slicing / zero-padding cases, decimation, diff) the result has len(times) entries; the size premises hold on every increasing grid for angles in [0,pi], n >= 1, E <> E_crit *)
Theorem arz_length :
  (forall (profile rac : R -> R -> R) times E th d n t0,
  (1 <= length times)%nat ->
  (1 <= ARZ_ss_n_Q (first_time times) (second_time times) (ZL times) E th n t0)%Z ->
  (1 <= ARZ_ss_n_RAC (first_time times) (second_time times) (ZL times) E th n t0)%Z ->
  (1 <= ARZ_ss_dt_divider (first_time times) (second_time times) (ZL times) E th n t0)%Z ->
  length (shower_signal profile rac times E th d n t0) = length times) /\
  (forall (profile rac : R -> R -> R) times E th d n t0,
  (1 <= length times)%nat -> first_time times < second_time times -> 0 <= th <= PI -> 1 <= n ->
  ARZ_max_length_default E <> 0 ->
  length (shower_signal profile rac times E th d n t0) = length times).
Proof. exact C07_arz_length_all. Qed.
Print Assumptions arz_length.

(* ARZ: the four cases are 'element j of the assembled array is conv[j + n_shift], zero outside', length N*dt_divider; RAC is sampled on the lattice t_start + k dz z_to_t whatever the truncated n_shift is, which only selects the window -n_shift <= k < n_RAC - n_shift;
   ARZ: output sample j = (A((j+1) dt_divider) - A(j dt_divider)) / d with A(i) the scaled discrete convolution sum_q Q[q] RAC[i + n_shift_total - q] at fine index i, i.e. at physical time times[0] - t0 + i dt / dt_divider *)
Theorem arz_placement :
  ((forall (conv : list R) ns ne nd j,
  zlen conv = (nd + ne)%Z -> (0 <= nd)%Z -> arz_outside ns ne nd = false -> (0 <= j < nd)%Z ->
  zlen (arz_assemble 0 conv ns ne) = nd /\ getz 0 (arz_assemble 0 conv ns ne) j = getz 0 conv (j + ns)%Z) /\
  (forall (rac : R -> R -> R) nRAC nshift dz z2t ts E (k : Z), (0 <= nRAC)%Z ->
  getz 0 (arz_RAC rac nRAC nshift dz z2t ts E) (k + nshift) =
  if ((- nshift <=? k) && (k <? nRAC - nshift))%Z then rac (IZR k * dz * z2t + ts) E else 0)) /\
  ((forall (profile rac : R -> R -> R) times E th d n t0 (j : nat),
  let a := first_time times in let b := second_time times in let L := ZL times in
  (1 <= length times)%nat ->
  ARZ_ss_zero_energy E = false -> ARZ_ss_oncone a b L E th n t0 = false -> ARZ_ss_outside a b L E th n t0 = false ->
  (all_zero (arz_Q profile (ARZ_ss_n_Q a b L E th n t0) (ARZ_ss_n_Q_negative a b L E th n t0) (ARZ_ss_dz a b L E th n t0) (ARZ_ss_z_to_t a b L E th n t0) E)
     && (0 <? zlen (arz_Q profile (ARZ_ss_n_Q a b L E th n t0) (ARZ_ss_n_Q_negative a b L E th n t0) (ARZ_ss_dz a b L E th n t0) (ARZ_ss_z_to_t a b L E th n t0) E))%Z) = false ->
  (1 <= ARZ_ss_n_Q a b L E th n t0)%Z -> (1 <= ARZ_ss_n_RAC a b L E th n t0)%Z -> (1 <= ARZ_ss_dt_divider a b L E th n t0)%Z ->
  (j < length times)%nat ->
  nth j (shower_signal profile rac times E th d n t0) 0 =
  (fine_potential profile rac times E th n t0 ((Z.of_nat j + 1) * ARZ_ss_dt_divider a b L E th n t0)
   - fine_potential profile rac times E th n t0 (Z.of_nat j * ARZ_ss_dt_divider a b L E th n t0)) / d)).
Proof. exact C07_arz_placement_merged. Qed.
Print Assumptions arz_placement.

(* zero shower energy: an all-zero field of the right length;
   [finiteness] ZHS: every spectral component falls (strictly for E > 0, f <> 0) with |theta - theta_c|;
   AVZ: the em contribution is K sin(theta) exp(-ln2 ((theta-theta_c)/dThetaEM)^2); the Gaussian factor falls with |theta-theta_c|; the amplitude grows towards the cone on the inner side and falls on the outer side beyond theta_c + sigma^2 cot(theta_c)/(2 ln 2) -- the sin(theta) factor displaces the maximum by at most that amount;
   ZHS time domain: with the shower time on a sample (t0 - times[0] = k0 dt) that sample equals the sum of the spectral amplitudes / (2N dt), no sample at any shower time exceeds it, and it falls (strictly for E > 0) with | |psi| - theta_c |: the largest sample of the pulse seen further from the cone never exceeds the peak seen nearer to it *)
Theorem cone_factor_monotone :
  ((forall E d psi th1 th2 thc f, 0 <= E -> 0 < d ->
  Rabs (th1 - thc) <= Rabs (th2 - thc) -> ZHS_e_omega E d psi th2 thc f <= ZHS_e_omega E d psi th1 thc f) /\
  (forall E d psi th1 th2 thc f, 0 < E -> 0 < d -> f <> 0 ->
  Rabs (th1 - thc) < Rabs (th2 - thc) -> ZHS_e_omega E d psi th2 thc f < ZHS_e_omega E d psi th1 thc f)) /\
  ((forall E hadE emf hadf d th thc f,
  AVZ_em_tmp E hadE emf hadf d th thc f =
  if Rgtb E 0 then avz_em_K E d thc f * sin th * avz_gauss th thc (AVZ_dThetaEM E hadE emf hadf d th thc f) else 0) /\
  (forall th1 th2 thc sigma,
  Rabs (th1 - thc) <= Rabs (th2 - thc) -> avz_gauss th2 thc sigma <= avz_gauss th1 thc sigma) /\
  (forall K th1 th2 thc sigma, 0 <= K -> sigma <> 0 ->
  0 <= th1 -> th1 < th2 -> th2 <= thc -> thc <= PI / 2 ->
  K * sin th1 * avz_gauss th1 thc sigma <= K * sin th2 * avz_gauss th2 thc sigma) /\
  (forall thc sigma th1 th2, sigma <> 0 ->
  0 < thc -> thc < PI -> thc + sigma ^ 2 * (cos thc / sin thc) / (2 * ln 2) < th1 -> thc <= th1 -> th1 < th2 -> th2 < PI ->
  sin th2 * avz_gauss th2 thc sigma < sin th1 * avz_gauss th1 thc sigma)) /\
  (forall E d psi n N dt (k0 : Z), (0 < N)%Z -> dt <> 0 ->
  zhs_sample E d psi n N dt (IZR k0 * dt) k0 = zhs_sample E d psi n N dt 0 0) /\
  (forall E d psi1 psi2 n N dt, 0 < E -> 0 < d -> 0 < dt -> (0 < N)%Z ->
  Rabs (Rabs psi1 - ZHS_theta_c n) < Rabs (Rabs psi2 - ZHS_theta_c n) ->
  zhs_sample E d psi2 n N dt 0 0 < zhs_sample E d psi1 n N dt 0 0) /\
  (forall E d psi1 psi2 n N dt tau (j k0 : Z), 0 <= E -> 0 < d -> 0 < dt -> (0 < N)%Z ->
  Rabs (Rabs psi1 - ZHS_theta_c n) <= Rabs (Rabs psi2 - ZHS_theta_c n) ->
  Rabs (zhs_sample E d psi2 n N dt tau j) <= zhs_sample E d psi1 n N dt (IZR k0 * dt) k0).
Proof. exact C07_cone_full. Qed.
Print Assumptions cone_factor_monotone.

(* ZHS is linear in the shower energy (any angle); the AVZ em part and the ARZ on-cone field are proportional to the em energy on the cone *)
Theorem em_on_cone_linear_in_energy :
  (forall times c E d psi n t0, c <> 0 ->
  zhs_values times (c * E) d psi n t0 = map (fun v => c * v) (zhs_values times E d psi n t0)) /\
  (forall c E hadE emf hadf d thc f, 0 <= c ->
  AVZ_em_tmp (c * E) hadE emf hadf d thc thc f = c * AVZ_em_tmp E hadE emf hadf d thc thc f) /\
  (forall profile times c E th d n t0, c <> 0 -> E <> 0 ->
  ARZ_ss_oncone (first_time times) (second_time times) (ZL times) E th n t0 = true ->
  shower_signal profile ARZAskaryanSignal_em_shower_RAC times (c * E) th d n t0
  = map (fun v => c * v) (shower_signal profile ARZAskaryanSignal_em_shower_RAC times E th d n t0)).
Proof. exact C07_em_on_cone_linear_in_energy_all. Qed.
Print Assumptions em_on_cone_linear_in_energy.

(* denominators and array sizes: ZHS denominators non-zero; AVZ cone width positive; ARZ z_to_t <> 0 off the cone, dt_divider >= 1, n_RAC >= 2, n_Q >= 1000;
   non-vacuity of the hypotheses *)
Theorem zero_energy_and_finiteness :
  ((forall times d psi n t0, zhs_values times 0 d psi n t0 = repeat 0 (length times)) /\
  (forall times emf hadf d psi n t0, avz_values times 0 0 emf hadf d psi n t0 = repeat 0 (length times)) /\
  (forall times d psi n t0, arz_values times 0 0 d psi n t0 = repeat 0 (length times))) /\
  (((forall d f, 0 < d -> 1 + 0.4 * (Rabs f / 500e6) ^ 2 <> 0 /\ d <> 0 /\ radians 2.4 <> 0) /\
  (forall E hadE emf hadf d th thc f, 0 <= E -> 0 < f -> 0 < AVZ_dThetaEM E hadE emf hadf d th thc f) /\
  (forall a b L E th n t0, 0 <= th <= PI -> 1 <= n ->
  ARZ_ss_oncone a b L E th n t0 = false -> ARZ_ss_z_to_t a b L E th n t0 <> 0) /\
  (forall a b L E th n t0, a < b -> ARZ_ss_z_to_t a b L E th n t0 <> 0 -> ARZ_max_length_default E <> 0 ->
  (1 <= ARZ_ss_dt_divider a b L E th n t0)%Z /\ (2 <= ARZ_ss_n_RAC a b L E th n t0)%Z /\ (1000 <= ARZ_ss_n_Q a b L E th n t0)%Z)) /\
  ((exists a b L E th n t0, a < b /\ ARZ_ss_z_to_t a b L E th n t0 <> 0) /\
  (exists E d f th1 th2 thc, 0 < E /\ 0 < d /\ f <> 0 /\ Rabs (th1 - thc) < Rabs (th2 - thc)))) /\
  (* second step (with_times / addition then with_times): the pulse of the requested grid, zeros of its length for no shower *)
  ((forall times times' E d psi n t0, fs_values (fs_with_times (zhs_signal times E d psi n t0) times') = zhs_values times' E d psi n t0) /\
  (forall times times' emE hadE emf hadf d psi n t0,
     fs_values (fs_with_times (avz_signal times emE hadE emf hadf d psi n t0) times') = avz_values times' emE hadE emf hadf d psi n t0) /\
  (forall times times' emE hadE d psi n t0, fs_values (fs_with_times (arz_signal times emE hadE d psi n t0) times') = arz_values times' emE hadE d psi n t0) /\
  (forall times times' d psi n t0, fs_values (fs_with_times (zhs_signal times 0 d psi n t0) times') = repeat 0 (length times')) /\
  (forall times times' emf hadf d psi n t0, fs_values (fs_with_times (avz_signal times 0 0 emf hadf d psi n t0) times') = repeat 0 (length times')) /\
  (forall times times' d psi n t0, fs_values (fs_with_times (arz_signal times 0 0 d psi n t0) times') = repeat 0 (length times')) /\
  (forall times times' E d psi n t0, length (fs_values (fs_with_times (zhs_signal times E d psi n t0) times')) = length times') /\
  (forall times times' emE hadE emf hadf d psi n t0, length (fs_values (fs_with_times (avz_signal times emE hadE emf hadf d psi n t0) times')) = length times') /\
  (forall a b times', length (fs_fun a times') = length times' -> length (fs_fun b times') = length times' ->
     length (fs_values (fs_with_times (fs_add a b) times')) = length times')).
Proof. exact C07_zero_energy_and_finiteness_top2. Qed.
Print Assumptions zero_energy_and_finiteness.

