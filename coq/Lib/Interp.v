(* Gallina model of  np.interp(x, xp, fp, left=0, right=0)  over exact rationals.

   NumPy (compiled arr_interp, scalar x, monotonically increasing xp):
     x > xp[-1]  -> right ;  x < xp[0] -> left ;
     otherwise j = the largest index with xp[j] <= x;
       j = n-1 or xp[j] == x  ->  fp[j]
       else  (fp[j+1]-fp[j])/(xp[j+1]-xp[j]) * (x-xp[j]) + fp[j].
   The binary search is modelled by a left-to-right scan, which finds the same j
   when xp is increasing.  No proofs about the pyrex code live here; only facts
   about this function. *)
From Coq Require Import List QArith Bool Lia.
Import ListNotations.
Open Scope Q_scope.

Definition Qltb (x y : Q) : bool := negb (Qle_bool y x).

Lemma Qltb_lt : forall x y, Qltb x y = true <-> x < y.
Proof.
  intros x y. unfold Qltb. rewrite negb_true_iff.
  split; intro H.
  - apply Qnot_le_lt. intro Hle. apply Qle_bool_iff in Hle. congruence.
  - destruct (Qle_bool y x) eqn:E; auto. apply Qle_bool_iff in E.
    exfalso. apply (Qlt_not_le _ _ H). exact E.
Qed.

Lemma Qltb_false_le : forall x y, Qltb x y = false <-> y <= x.
Proof.
  intros x y. unfold Qltb. rewrite negb_false_iff. apply Qle_bool_iff.
Qed.

(* scan: (x0,f0) is the current node with x0 <= x; xs/fs the remaining nodes *)
Fixpoint interp_from (x x0 f0 : Q) (xs fs : list Q) : Q :=
  match xs, fs with
  | x1 :: xs', f1 :: fs' =>
      if Qltb x x1
      then (if Qeq_bool x0 x then f0
            else (f1 - f0) / (x1 - x0) * (x - x0) + f0)
      else interp_from x x1 f1 xs' fs'
  | _, _ => f0
  end.

Definition interp (x : Q) (xs fs : list Q) : Q :=
  match xs, fs with
  | x0 :: xs', f0 :: fs' =>
      if Qltb x x0 then 0
      else if Qltb (last xs x0) x then 0
      else interp_from x x0 f0 xs' fs'
  | _, _ => 0
  end.

(* strictly increasing grid *)
Fixpoint increasing_from (x0 : Q) (xs : list Q) : Prop :=
  match xs with
  | [] => True
  | x1 :: xs' => x0 < x1 /\ increasing_from x1 xs'
  end.

Definition increasing (xs : list Q) : Prop :=
  match xs with [] => True | x0 :: xs' => increasing_from x0 xs' end.

Lemma increasing_from_lt_all : forall xs x0, increasing_from x0 xs -> Forall (fun y => x0 < y) xs.
Proof.
  induction xs as [|x1 xs IH]; intros x0 H; constructor.
  - apply H.
  - destruct H as [H1 H2]. specialize (IH _ H2).
    eapply Forall_impl; [|exact IH]. intros a Ha. simpl in Ha. eapply Qlt_trans; eauto.
Qed.

Lemma last_cons_default : forall (A : Type) (l : list A) (a d d' : A), last (a :: l) d = last (a :: l) d'.
Proof. intros A l. induction l as [|b l IH]; intros; simpl; auto. simpl in IH. apply IH. Qed.

Lemma increasing_from_last_ge : forall xs x0 d, increasing_from x0 xs -> x0 <= last (x0 :: xs) d.
Proof.
  induction xs as [|x1 xs IH]; intros x0 d H.
  - simpl. apply Qle_refl.
  - destruct H as [H1 H2].
    change (last (x0 :: x1 :: xs) d) with (last (x1 :: xs) d).
    apply Qle_trans with x1; [apply Qlt_le_weak; exact H1|]. apply IH. exact H2.
Qed.

Lemma increasing_from_nth_le_last : forall xs x0 d i, increasing_from x0 xs -> (i < length (x0 :: xs))%nat ->
  nth i (x0 :: xs) 0 <= last (x0 :: xs) d.
Proof.
  induction xs as [|x1 xs IH]; intros x0 d i Hinc Hi.
  - simpl in Hi. assert (i = 0)%nat by lia. subst. simpl. apply Qle_refl.
  - destruct i as [|i].
    + simpl nth. apply increasing_from_last_ge. exact Hinc.
    + destruct Hinc as [H01 Hinc].
      change (nth (S i) (x0 :: x1 :: xs) 0) with (nth i (x1 :: xs) 0).
      change (last (x0 :: x1 :: xs) d) with (last (x1 :: xs) d).
      apply IH; auto. simpl in Hi |- *. lia.
Qed.

(* value at the i-th node of an increasing grid is exactly (Leibniz) the i-th value *)
Lemma interp_from_node :
  forall xs fs x0 f0 i,
    increasing_from x0 xs -> length xs = length fs ->
    (i < length xs)%nat ->
    interp_from (nth i xs 0) x0 f0 xs fs = nth i fs 0.
Proof.
  induction xs as [|x1 xs IH]; intros fs x0 f0 i Hinc Hlen Hi; simpl in Hi; [lia|].
  destruct fs as [|f1 fs]; [discriminate|].
  destruct Hinc as [H01 Hinc].
  destruct i as [|i].
  - (* the node x1 itself: not (x1 < x1), so move on; then next step sees x0:=x1 == x *)
    simpl nth. simpl interp_from.
    assert (E : Qltb x1 x1 = false) by (apply Qltb_false_le; apply Qle_refl).
    rewrite E.
    destruct xs as [|x2 xs']; destruct fs as [|f2 fs']; simpl; auto.
    destruct Hinc as [H12 _].
    assert (E2 : Qltb x1 x2 = true) by (apply Qltb_lt; exact H12).
    rewrite E2.
    assert (E3 : Qeq_bool x1 x1 = true) by (apply Qeq_bool_iff; reflexivity).
    rewrite E3. reflexivity.
  - simpl nth. simpl interp_from.
    assert (Hlt : x1 < nth i xs 0).
    { pose proof (increasing_from_lt_all _ _ Hinc) as HF.
      rewrite Forall_forall in HF. apply HF. apply nth_In. simpl in Hi. lia. }
    assert (E : Qltb (nth i xs 0) x1 = false).
    { apply Qltb_false_le. apply Qlt_le_weak. exact Hlt. }
    rewrite E. apply IH; auto. simpl in Hi; lia.
Qed.

Lemma interp_node :
  forall xs fs i,
    increasing xs -> length xs = length fs -> (i < length xs)%nat ->
    interp (nth i xs 0) xs fs = nth i fs 0.
Proof.
  intros xs fs i Hinc Hlen Hi.
  destruct xs as [|x0 xs]; [simpl in Hi; lia|].
  destruct fs as [|f0 fs]; [discriminate|].
  simpl in Hinc. unfold interp.
  assert (Hge : x0 <= nth i (x0 :: xs) 0).
  { destruct i; simpl; [apply Qle_refl|].
    pose proof (increasing_from_lt_all _ _ Hinc) as HF. rewrite Forall_forall in HF.
    apply Qlt_le_weak. apply HF. apply nth_In. simpl in Hi. lia. }
  assert (E1 : Qltb (nth i (x0 :: xs) 0) x0 = false) by (apply Qltb_false_le; exact Hge).
  rewrite E1.
  assert (Hle : nth i (x0 :: xs) 0 <= last (x0 :: xs) x0).
  { apply increasing_from_nth_le_last; auto. }
  assert (E2 : Qltb (last (x0 :: xs) x0) (nth i (x0 :: xs) 0) = false) by (apply Qltb_false_le; exact Hle).
  rewrite E2.
  destruct i as [|i].
  - simpl nth.
    destruct xs as [|x1 xs']; destruct fs as [|f1 fs']; simpl; auto.
    destruct Hinc as [H01 _].
    assert (E3 : Qltb x0 x1 = true) by (apply Qltb_lt; exact H01). rewrite E3.
    assert (E4 : Qeq_bool x0 x0 = true) by (apply Qeq_bool_iff; reflexivity). rewrite E4.
    reflexivity.
  - simpl nth. apply interp_from_node; auto. simpl in Hi; lia.
Qed.

(* outside the support the value is exactly 0 *)
Lemma interp_left : forall x xs fs, x < hd 0 xs -> interp x xs fs = 0.
Proof.
  intros x xs fs H. destruct xs as [|x0 xs]; destruct fs as [|f0 fs]; simpl; auto.
  simpl in H. apply Qltb_lt in H. rewrite H. reflexivity.
Qed.

Lemma interp_right : forall x xs fs, last xs 0 < x -> interp x xs fs = 0.
Proof.
  intros x xs fs H. destruct xs as [|x0 xs]; [reflexivity|]. destruct fs as [|f0 fs]; [reflexivity|].
  unfold interp. rewrite (last_cons_default _ xs x0 0 x0) in H.
  apply Qltb_lt in H. rewrite H. destruct (Qltb x x0); reflexivity.
Qed.

(* sanity: the textbook cases *)
Example interp_mid : interp (1#2) [0; 1; 2] [10; 20; 40] == 15.
Proof. vm_compute. reflexivity. Qed.
Example interp_at_node : interp 1 [0; 1; 2] [10; 20; 40] = 20.
Proof. vm_compute. reflexivity. Qed.
Example interp_at_last : interp 2 [0; 1; 2] [10; 20; 40] = 40.
Proof. vm_compute. reflexivity. Qed.
Example interp_outside : interp 3 [0; 1; 2] [10; 20; 40] = 0 /\ interp (-1) [0; 1; 2] [10; 20; 40] = 0.
Proof. vm_compute. split; reflexivity. Qed.

(* interp respects equality of rationals in the evaluation point *)
Lemma interp_from_proper : forall xs fs x x' x0 f0, x == x' ->
  interp_from x x0 f0 xs fs == interp_from x' x0 f0 xs fs.
Proof.
  induction xs as [|x1 xs IH]; intros fs x x' x0 f0 H; destruct fs as [|f1 fs]; simpl; try reflexivity.
  assert (E1 : Qltb x x1 = Qltb x' x1) by (unfold Qltb; rewrite H; reflexivity).
  assert (E2 : Qeq_bool x0 x = Qeq_bool x0 x') by (rewrite H; reflexivity).
  rewrite E1, E2. destruct (Qltb x' x1).
  - destruct (Qeq_bool x0 x'); [reflexivity|]. rewrite H. reflexivity.
  - apply IH. exact H.
Qed.

Lemma interp_proper : forall xs fs x x', x == x' -> interp x xs fs == interp x' xs fs.
Proof.
  intros xs fs x x' H. destruct xs as [|x0 xs]; destruct fs as [|f0 fs]; simpl; try reflexivity.
  assert (E1 : Qltb x x0 = Qltb x' x0) by (unfold Qltb; rewrite H; reflexivity).
  rewrite E1. destruct (Qltb x' x0); [reflexivity|].
  match goal with |- (if Qltb ?l x then _ else _) == _ =>
    assert (E2 : Qltb l x = Qltb l x') by (unfold Qltb; rewrite H; reflexivity); rewrite E2;
    destruct (Qltb l x'); [reflexivity|] end.
  apply interp_from_proper. exact H.
Qed.
