"""C02: ray solution sets respect reciprocity and the symmetries of stratified ice."""
import importlib
import json
import math
import os
import sys

import numpy as np

from harness import common, realextract as rx
from harness.common import REPO, ROOT
from harness.props import ray2_util as U
from harness.props import c18 as C18

sys.path.insert(0, os.path.join(ROOT, "tools"))

RT = "pyrex/ray_tracing.py"
PINNED = {
    "BasicRayTracer.expected_solutions": RT, "BasicRayTracer.exists": RT, "BasicRayTracer.solutions": RT,
    "BasicRayTracer.direct_angle": RT, "BasicRayTracer._get_launch_angle": RT,
    "SpecializedRayTracePath._z_int_uniform_correction": RT, "SpecializedRayTracePath.z_integral": RT,
    "SpecializedRayTracePath.path_length": RT, "SpecializedRayTracePath.tof": RT, "SpecializedRayTracePath.attenuation": RT,
    "BasicRayTracePath.__init__": RT, "UniformRayTracePath._points": RT, "UniformRayTracer.solutions": RT, "UniformRayTracer._reflected_path": RT,
}
PIN_FILE = os.path.join(ROOT, "harness", "pins", "C02.json")
FREQS = np.array([1e8, 3e8, 5e8, 1e9])


def gen_files(scratch):
    import gen_ice
    import gen_ray2
    importlib.reload(gen_ice)
    importlib.reload(gen_ray2)
    t0, _ = gen_ice.generate(REPO)
    t1, h1 = gen_ray2.generate_uniform(REPO)
    t2, h2 = gen_ray2.generate_gradient(REPO)
    return {"Gen_ice": t0, "Gen_uniform": t1, "Gen_ray2": t2}, {**h1, **h2}


def current_pins():
    from py2coq import ast_pin
    return {k: ast_pin(REPO, src, k) for k, src in PINNED.items()}


# ---------------------------------------------------------------------------- tracers from configurations
def make_tracer(cfg, f=None, t=None):
    f = cfg["from"] if f is None else f
    t = cfg["to"] if t is None else t
    kind = cfg["kind"]
    if kind == "uniform":
        return U.uniform_tracer({**cfg, "from": f, "to": t})
    if kind == "layered":
        return U.layered_tracer({**cfg, "from": f, "to": t})
    from pyrex.ray_tracing import SpecializedRayTracer, BasicRayTracer
    import pyrex.ice_model as im
    ice = getattr(im, cfg.get("ice_class", "AntarcticIce"))()
    if kind == "specialized":
        return SpecializedRayTracer(f, t, ice)
    return BasicRayTracer(f, t, ice, dz=cfg.get("dz", 1))


cancellation_bound = U.cancellation_bound


def leg_info(s):
    """(shortest of the first / last straight leg whose end points define the emitted / received direction, number of
    straight legs) for solutions whose directions are computed from stored points (uniform sections); None otherwise."""
    name = type(s).__name__
    if name == "UniformRayTracePath":
        with np.errstate(all="ignore"):
            pts = [U.fl(p) for p in s._points]
        if len(pts) < 2:
            return None
        return min(math.dist(pts[0], pts[1]), math.dist(pts[-2], pts[-1])), len(pts) - 1
    if name == "LayeredRayTracePath":
        ends = [leg_info(s.paths[0]), leg_info(s.paths[-1])]
        ends = [e for e in ends if e is not None]
        if not ends:
            return None
        return min(e[0] for e in ends), len(s.paths)
    return None


def coord_ulp(tr):
    """rounding unit of the largest horizontal coordinate the tracer was given."""
    return math.ulp(max(abs(float(x)) for p in (tr.from_point, tr.to_point) for x in p[:2]) or 1.0)


def observe(tr):
    """list of dicts, one per solution, plus exists."""
    with np.errstate(all="ignore"):
        sols = list(tr.solutions)
        ex = bool(tr.exists)
        out = []
        for s in sols:
            out.append({"L": float(s.path_length), "tof": float(s.tof), "att": [float(x) for x in np.asarray(s.attenuation(FREQS))],
                        "em": U.fl(s.emitted_direction), "rc": U.fl(s.received_direction), "obj": s, "B": cancellation_bound(s),
                        "legs": leg_info(s), "u": coord_ulp(tr)})
    return ex, out


def straight_segments(s):
    """straight pieces (p1, p2, ice) of a solution made of uniform sections; [] for others."""
    name = type(s).__name__
    if name == "UniformRayTracePath":
        pts = [U.fl(p) for p in s._points]
        return [(a, b, s.ice) for a, b in zip(pts[:-1], pts[1:])]
    if name == "LayeredRayTracePath":
        out = []
        for p in s.paths:
            out += straight_segments(p)
        return out
    return []


def atten_swap_allowance(s):
    """Upper bound of |ln att(A->B) - ln att(B->A)| caused by the left-endpoint Riemann sum of
    UniformRayTracePath.attenuation (step <= 1 m of depth): per straight piece, step length times the
    total variation of 1/attenuation_length along it."""
    tot = np.zeros(len(FREQS))
    for a, b, ice in straight_segments(s):
        dzabs = abs(b[2] - a[2])
        if dzabs == 0:
            continue
        nsteps = int(dzabs / 1) + 2
        seg = U.vnorm([y - x for x, y in zip(a, b)])
        tot += (seg / nsteps) * U.total_variation_inv_alen(ice, a[2], b[2], FREQS)
    return tot


def rotz(v, c, s):
    return [c * v[0] - s * v[1], s * v[0] + c * v[1], v[2]]


def near_regime_edge(tr, rel=1e-4):
    """gradient tracers: rho within rel of direct_r_max / indirect_r_max (solution count may legitimately flip,
    and the launch angle is ill-conditioned)."""
    try:
        with np.errstate(all="ignore"):
            rho = float(tr.rho)
            for m in (float(tr.direct_r_max), float(tr.indirect_r_max)):
                if abs(rho - m) <= rel * max(abs(m), 1.0):
                    return True
    except Exception:
        return False
    return False


def tolerances(cfg, o):
    """relative tolerance for length / time / attenuation and absolute one for direction components when the SAME
    geometry is presented in other coordinates (translated / rotated / swapped): coordinate rounding
    eps*|coordinates| changes rho, the solver reproduces its root to 2e-12 rad; both are amplified by the
    conditioning 1/cos^3 of the launch angle; plus the documented accuracy of each solver."""
    cz = max(min(abs(o["em"][2]), abs(o["rc"][2])), 0.05)
    amp = 1.0 / cz ** 3
    if cfg["kind"] == "uniform":
        return 0.0, 1e-11 * amp, 1e-11 * amp
    if cfg["kind"] == "layered":
        if any(l["kind"] != "uniform" for l in cfg["ice"]["layers"]):
            return 1e-3, 2e-6 * amp, 2e-6 * amp
        return 0.0, 1e-8 * amp, 1e-7 * amp
    # analytic / numeric gradient tracers: accuracy of their distance function (log_1 cancellation, C01: 1e-3 m + 1e-6 L)
    return 1e-3, 2e-6 * amp, 2e-6 * amp


def compare(ctx, cfg, what, oa, ob, map_em, map_rc, att_allow=None, key_extra=None):
    """match every solution of oa with a distinct solution of ob under the direction maps."""
    key = "%s:%s:%s" % (cfg["kind"], what, json.dumps({k: v for k, v in cfg.items()}, sort_keys=True) + (key_extra or ""))
    replay = {"kind": "sym", "what": what, "cfg": cfg, "extra": key_extra}
    if len(oa) != len(ob):
        def dups(o):
            return sum(1 for i in range(len(o)) for j in range(i) if o[i]["L"] == o[j]["L"] and o[i]["tof"] == o[j]["tof"]
                       and o[i]["em"] == o[j]["em"] and o[i]["rc"] == o[j]["rc"])
        ctx.fail(key, "%s tracer: %d solutions (%d exact duplicates), after %s %d solutions (%d exact duplicates); %s" % (
            cfg["kind"], len(oa), dups(oa), what, len(ob), dups(ob), json.dumps(cfg)), replay)
        return
    used = set()
    for i, a in enumerate(oa):
        absl, rel, dtol = tolerances(cfg, a)
        if cfg["kind"] == "layered" and absl > 0:
            if math.hypot(a["em"][0], a["em"][1]) < 0.08 or math.hypot(a["rc"][0], a["rc"][1]) < 0.08:
                continue      # near-vertical through exponential layers (beta < ~0.1): beta_tolerance / cancellation regime, C01's finding F10
        if cfg["kind"] in ("specialized", "basic"):
            he, hr = math.hypot(a["em"][0], a["em"][1]), math.hypot(a["rc"][0], a["rc"][1])
            if 0 < 1.8 * he < 0.0055 or 0 < 1.8 * hr < 0.0055:
                ctx.extra["skipped_beta_tolerance"] = ctx.extra.get("skipped_beta_tolerance", 0) + 1
                continue      # beta <= beta_tolerance: the analytic tracer switches to its beta = 0 forms (C01 known finding)
            if not np.all(np.isfinite(a["B"])) or a["B"][1] + 2 * a["B"][0] > 0.05 * a["L"]:
                ctx.extra["skipped_cancellation_bound"] = ctx.extra.get("skipped_cancellation_bound", 0) + 1
                continue      # C01's cancellation bound (open finding F10) swallows the comparison
        if a["L"] == 0.0:
            continue          # coincident endpoints: the direction is a convention ((0,0,1)), nothing to exchange
        hit, why, swallowed = None, "", False
        cands = sorted((j for j in range(len(ob)) if j not in used), key=lambda j: abs(ob[j]["L"] - a["L"]))
        if cfg["kind"] in ("specialized", "basic"):
            cands = cands[:1]     # the two solutions of a gradient tracer have different lengths: the partner is the nearest one
        for j in cands:
            b = ob[j]
            probs = []
            # cancellation bound of BOTH solutions: on the quantity itself, and through the launch angle (the root of a
            # distance function that is off by B_r moves the path by <= |dL/dr| B_r <= 2 B_r, the time by <= 2 n0 B_r / c)
            Bsum = a["B"] + b["B"]
            if not np.all(np.isfinite(Bsum)) or Bsum[1] + 2 * Bsum[0] > 0.05 * max(a["L"], 1e-9):
                swallowed = True      # this candidate cannot be judged: C01's cancellation bound exceeds 5 % of the path
                if cfg["kind"] in ("specialized", "basic"):
                    used.add(j)
                continue
            cL = 1.01 * (Bsum[1] + 2 * Bsum[0])
            cT = 1.01 * (Bsum[2] + 2 * 1.8 * Bsum[0] / U.C0)
            cD = 4.0 * Bsum[0] / max(a["L"], 1.0) / max(min(abs(a["em"][2]), abs(a["rc"][2])), 1e-3) ** 3
            # coordinate rounding (derived): the endpoints handed to the two tracers are the same geometry only up to one rounding
            # unit u = ulp(largest |x|, |y|) of each coordinate system (x + T and the rotation are rounded), and every stored
            # point fx + r cos(phi) is rounded to u/2 again.  A straight leg of length l whose end points move by <= 4u
            # turns by <= 8u / l (|v/|v| - w/|w|| <= 2 |v - w| / |v|), and each of the n legs changes its length by <= 8u.
            # Factor 4 of safety on both.
            u = a["u"] + b["u"]
            if a["legs"] is not None and b["legs"] is not None:
                lmin = min(a["legs"][0], b["legs"][0])
                cD += 32.0 * u / lmin if lmin > 0 else float("inf")
                cLr = 32.0 * (max(a["legs"][1], b["legs"][1]) + 1) * u
            else:
                cLr = 32.0 * u
            cL += cLr
            cT += 2.0 * cLr / U.C0
            if abs(a["L"] - b["L"]) > absl + rel * (1 + abs(a["L"])) + cL:
                probs.append("path_length %r vs %r (cancellation allowance %.3g)" % (a["L"], b["L"], cL))
            if abs(a["tof"] - b["tof"]) > rel * abs(a["tof"]) + 2 * absl / U.C0 + 1e-18 + cT:
                probs.append("tof %r vs %r" % (a["tof"], b["tof"]))
            allow = np.zeros(len(FREQS)) if att_allow is None else att_allow(a["obj"]) + att_allow(b["obj"])
            for fa, fb, al in zip(a["att"], b["att"], allow):
                if abs(math.log(max(fa, 1e-300)) - math.log(max(fb, 1e-300))) > rel * 10 + absl / 100.0 + 1.001 * al + cL / 100.0:
                    probs.append("attenuation %r vs %r (allowance %.3g)" % (a["att"], b["att"], al))
                    break
            em_exp, rc_exp = map_em(a), map_rc(a)
            if U.vdiff(b["em"], em_exp) > dtol + cD:
                probs.append("emitted %r, expected %r" % (b["em"], em_exp))
            if U.vdiff(b["rc"], rc_exp) > dtol + cD:
                probs.append("received %r, expected %r" % (b["rc"], rc_exp))
            if not probs:
                hit = j
                break
            if not why or len(probs) < why.count(";") + 1:
                why = "; ".join(probs)
        if hit is None and swallowed:
            ctx.extra["skipped_cancellation_bound"] = ctx.extra.get("skipped_cancellation_bound", 0) + 1
            continue
        if hit is None:
            ctx.fail(key, "%s tracer, %s: solution %d (length %r, emitted %r, received %r) has no counterpart: %s (tol rel %.3g dir %.3g); %s" % (
                cfg["kind"], what, i, a["L"], a["em"], a["rc"], why, rel, dtol, json.dumps(cfg)), replay)
            return
        used.add(hit)


def degenerate_uniform(cfg):
    if cfg["kind"] != "uniform":
        return False
    exp = U.uniform_expected(cfg)
    return bool(exp) and any(e["degenerate"] or e["zero_span"] for e in exp)


def probe_cfg(ctx, cfg, rng):
    """swap / translate / rotate one geometry on one tracer."""
    tr = make_tracer(cfg)
    if degenerate_uniform(cfg):
        # zero-length leg on a boundary: C18's open known finding (zero direction vectors / ValueError); only exists <-> non-empty here
        key_cfg = json.dumps(cfg, sort_keys=True)
        with np.errstate(all="ignore"):
            if bool(tr.exists) != (len(tr.solutions) > 0):
                ctx.fail("uniform:exists:%s" % key_cfg, "uniform tracer: exists=%r but %d solutions; %s" % (tr.exists, len(tr.solutions), json.dumps(cfg)),
                         {"kind": "sym", "what": "exists", "cfg": cfg})

            # The open finding concerns the DIRECTIONS of a zero-length leg (and a ValueError when both end points lie on the
            # mirror).  The number of solutions and their lengths are well defined by the method of images and must be the same
            # for the swapped pair: judged here.
            def lengths(t_):
                out = []
                for s_ in t_.solutions:
                    try:
                        out.append(float(s_.path_length))
                    except ValueError:
                        out.append(None)       # both end points on the mirror: the known ValueError
                return out
            swapped = dict(cfg, **{"from": cfg["to"], "to": cfg["from"]})
            for label, c_, t_ in (("as given", cfg, tr), ("swapped", swapped, make_tracer(cfg, cfg["to"], cfg["from"]))):
                exp = U.uniform_expected(c_) or []
                got = lengths(t_)
                if len(got) != len(exp):
                    ctx.fail("uniform:boundary-count:%s:%s" % (label, key_cfg),
                             "uniform tracer with an end point exactly on a boundary (%s): %d solutions, the method of images gives %d (lengths %r); %s" % (
                                 label, len(got), len(exp), [e["length"] for e in exp], json.dumps(c_)), {"kind": "sym", "what": "boundary count", "cfg": cfg})
                    continue
                for g, e in zip(got, exp):
                    if g is not None and abs(g - e["length"]) > 64 * U.EPS * (e["k"] + 2) * (e["length"] + 1 + max(abs(x) for x in c_["from"] + c_["to"])):
                        ctx.fail("uniform:boundary-length:%s:%s" % (label, key_cfg),
                                 "uniform tracer with an end point exactly on a boundary (%s): solution k=%d first=%+d has length %r, distance to the mirrored receiver is %r; %s" % (
                                     label, e["k"], e["d"], g, e["length"], json.dumps(c_)), {"kind": "sym", "what": "boundary length", "cfg": cfg})
                        break
        return
    try:
        ex, o = observe(tr)
    except Exception as e:
        if cfg["kind"] in ("specialized", "basic") and isinstance(e, (ValueError, RuntimeError)):
            # the root finder gave up (brentq: no sign change / NaN): outside the solver hypothesis of the theorems.  The
            # solver's inputs are identical for the swapped geometry (theorem solver_inputs_symmetric), so it must give up there too.
            ctx.extra["solver_gave_up"] = ctx.extra.get("solver_gave_up", 0) + 1
            try:
                observe(make_tracer(cfg, cfg["to"], cfg["from"]))
                ctx.fail("%s:swap-asymmetric-failure:%s" % (cfg["kind"], json.dumps(cfg, sort_keys=True)),
                         "%s tracer raises %r on %s but returns solutions for the swapped endpoints" % (cfg["kind"], e, json.dumps(cfg)),
                         {"kind": "sym", "what": "raises", "cfg": cfg})
            except (ValueError, RuntimeError):
                pass
            return
        ctx.fail("%s:raises:%s" % (cfg["kind"], json.dumps(cfg, sort_keys=True)), "%s tracer raises %r on %s" % (cfg["kind"], e, json.dumps(cfg)),
                 {"kind": "sym", "what": "raises", "cfg": cfg})
        return
    key_cfg = json.dumps(cfg, sort_keys=True)
    if ex != (len(o) > 0):
        ctx.fail("%s:exists:%s" % (cfg["kind"], key_cfg), "%s tracer: exists=%r but %d solutions; %s" % (cfg["kind"], ex, len(o), key_cfg),
                 {"kind": "sym", "what": "exists", "cfg": cfg})
    if cfg["kind"] in ("specialized", "basic") and len(o) not in (0, 2):
        ctx.fail("%s:count:%s" % (cfg["kind"], key_cfg), "gradient-index tracer reports %d solutions (must be none or two); %s" % (len(o), key_cfg),
                 {"kind": "sym", "what": "count", "cfg": cfg})
    if cfg["kind"] in ("uniform", "layered") and cfg["from"][2] == cfg["to"][2] and o:
        # horizontal direct path through ice of one index: attenuation = exp(-L / l_att(z, f)) with L the straight distance
        Ld = math.dist(cfg["from"], cfg["to"])
        dsol = min(o, key=lambda a: abs(a["L"] - Ld))
        lay = None
        if cfg["kind"] == "uniform":
            lay = U.mk_uniform_ice(cfg["ice"])
        else:
            cand = [l for l in cfg["ice"]["layers"] if l["kind"] == "uniform" and l["lo"] < cfg["from"][2] < l["hi"]]
            lay = U.mk_layer(cand[0]) if cand else None
        if lay is not None and Ld > 0 and abs(dsol["L"] - Ld) <= 1e-9 * (1 + Ld):
            with np.errstate(all="ignore"):
                want = np.exp(-Ld / np.asarray(lay.attenuation_length(cfg["from"][2], FREQS)))
            for fq, g, w in zip(FREQS, dsol["att"], want):
                if abs(math.log(max(g, 1e-300)) - math.log(max(float(w), 1e-300))) > 1e-9 * (1 + Ld / 100.0):
                    ctx.fail("%s:horizontal-attenuation:%s" % (cfg["kind"], key_cfg),
                             "%s tracer: direct horizontal path of length %r at depth %r: attenuation(%g Hz) = %r but exp(-L / attenuation_length) = %r; %s" % (
                                 cfg["kind"], Ld, cfg["from"][2], fq, g, float(w), key_cfg), {"kind": "sym", "what": "horizontal attenuation", "cfg": cfg})
                    break
    if cfg["kind"] in ("specialized", "basic") and near_regime_edge(tr):
        return
    f, t = cfg["from"], cfg["to"]
    vertical_layered = cfg["kind"] == "layered" and f[0] == t[0] and f[1] == t[1]

    def judged(lst):
        # exactly vertical rays in the layered tracer: a downward launch is the angle pi, whose tangent is -1.2e-16 instead of 0, so the
        # summed radial distance of a path with more than ~8 km of vertical travel exceeds the tracer's 1e-12 m zero tolerance
        # and the path is not found, while the upward launch (angle 0, tangent exactly 0) finds it: rounding artefact of a
        # degenerate input, recorded in design_notes/C02.md; such paths are not counted on either side
        return [a for a in lst if a["L"] < 7000.0] if vertical_layered else lst
    o = judged(o)
    os_ = None
    # swap
    try:
        exs, os_ = observe(make_tracer(cfg, t, f))
        os_ = judged(os_)
        compare(ctx, cfg, "swap of source and receiver", o, os_, lambda a: [-x for x in a["rc"]], lambda a: [-x for x in a["em"]],
                att_allow=atten_swap_allowance if cfg["kind"] in ("uniform", "layered") else None)
    except Exception as e:
        ctx.fail("%s:swap-raises:%s" % (cfg["kind"], key_cfg), "%s tracer raises %r after swapping the endpoints of %s" % (cfg["kind"], e, key_cfg),
                 {"kind": "sym", "what": "swap", "cfg": cfg})
    rho_geom = math.hypot(t[0] - f[0], t[1] - f[1])
    if 0 < rho_geom < 1e-6:
        # horizontal separation at the rounding level of the coordinates: a translation / rotation of the coordinates rounds it to
        # a different separation (possibly 0), i.e. to a different geometry; only the exact swap is a symmetry of such inputs
        return
    # the same comparisons on ONE re-used tracer object: end points assigned before anything was evaluated (first pass of a loop over
    # geometries), read, end points swapped by assignment, read again: must equal the fresh tracers exactly
    try:
        if os_ is None:
            raise ValueError("swap not observed")
        trr = make_tracer(cfg)
        trr.from_point = np.array(f, dtype=float)
        trr.to_point = np.array(t, dtype=float)
        _, o_r = observe(trr)
        trr.from_point = np.array(t, dtype=float)
        trr.to_point = np.array(f, dtype=float)
        _, os_r = observe(trr)

        def plain(lst):
            return [(a["L"], a["tof"], a["att"], a["em"], a["rc"]) for a in judged(lst)]
        if json.dumps(plain(o_r)) != json.dumps(plain(o)) or json.dumps(plain(os_r)) != json.dumps(plain(os_)):
            ctx.fail("%s:reused-tracer:%s" % (cfg["kind"], key_cfg),
                     "%s tracer re-used for the swapped pair (end points assigned before the first read, read, swapped by assignment, read): lengths %r then %r, "
                     "fresh tracers give %r and %r; %s" % (cfg["kind"], [x[0] for x in plain(o_r)], [x[0] for x in plain(os_r)], [x[0] for x in plain(o)],
                                                           [x[0] for x in plain(os_)], key_cfg), {"kind": "sym", "what": "reused tracer", "cfg": cfg})
    except (ValueError, RuntimeError):
        if cfg["kind"] not in ("specialized", "basic") and os_ is not None:
            raise
    # translate
    ox, oy = float(rng.choice([250.0, -1234.5, 1e4, 37.25])), float(rng.choice([-90.0, 4321.0, 0.0, 512.5]))
    f2, t2 = [f[0] + ox, f[1] + oy, f[2]], [t[0] + ox, t[1] + oy, t[2]]
    try:
        ext, ot = observe(make_tracer(cfg, f2, t2))
        ot = judged(ot)
    except (ValueError, RuntimeError):
        if cfg["kind"] not in ("specialized", "basic"):
            raise
        ctx.extra["solver_gave_up"] = ctx.extra.get("solver_gave_up", 0) + 1
        return
    compare(ctx, cfg, "horizontal translation by (%r, %r)" % (ox, oy), o, ot, lambda a: a["em"], lambda a: a["rc"], key_extra="T%r,%r" % (ox, oy))
    # rotate about the vertical axis through the origin
    psi = float(rng.choice([math.pi / 2, math.pi, 1.0, -2.5, rng.uniform(-math.pi, math.pi)]))
    c, s = math.cos(psi), math.sin(psi)
    try:
        exr, orr = observe(make_tracer(cfg, rotz(f, c, s), rotz(t, c, s)))
        orr = judged(orr)
    except (ValueError, RuntimeError):
        if cfg["kind"] not in ("specialized", "basic"):
            raise
        ctx.extra["solver_gave_up"] = ctx.extra.get("solver_gave_up", 0) + 1
        return
    compare(ctx, cfg, "rotation about the vertical by %r" % psi, o, orr, lambda a: rotz(a["em"], c, s), lambda a: rotz(a["rc"], c, s), key_extra="R%r" % psi)


# ---------------------------------------------------------------------------- generators
def rand_gradient_cfg(rng, kind):
    ice_class = rng.choice(["AntarcticIce", "AntarcticIce", "GreenlandIce"]) if kind == "specialized" else "AntarcticIce"
    zu = {"GreenlandIce": -410.0}.get(ice_class, -764.6)          # z_uniform of the model (approximately)

    def shallow():
        return -round(min(10 ** rng.uniform(0.3, 3.0), -zu - 5.0), 1)

    def deep():
        return round(zu - rng.choice([2.0, rng.uniform(5, 60), rng.uniform(60, 1500)]), 1)
    # position of the endpoints relative to z_uniform: shallow-shallow, source above / below (ray ACROSS z_uniform), deep-deep
    cls = rng.choice(["ss", "ss", "sd", "ds", "dd"]) if kind == "specialized" else rng.choice(["ss", "ss", "ss", "sd", "ds"])
    z0 = shallow() if cls[0] == "s" else deep()
    z1 = shallow() if cls[1] == "s" else deep()
    if kind == "basic" and cls == "ss":
        z0, z1 = -round(rng.uniform(5, 400), 1), -round(rng.uniform(5, 400), 1)
    rho = 10 ** rng.uniform(1.0, 3.3) if kind == "specialized" else 10 ** rng.uniform(1.0, 2.6)
    if rng.random() < 0.12:
        rho *= 6.0                      # beyond the shadow boundary: no solutions
    az = rng.choice([0.0, math.pi, rng.uniform(-math.pi, math.pi)])
    ox, oy = float(rng.choice([0.0, 0.0, 310.0, -45.5])), float(rng.choice([0.0, 77.0, -1200.25]))
    f = [ox, oy, float(z0)]
    t = [ox + rho * math.cos(az), oy + rho * math.sin(az), float(z1)]
    vert = rng.random()
    if vert < 0.10:
        t[0], t[1] = f[0], f[1]                                   # receiver exactly above / below the source (rho = 0)
    elif vert < 0.14:
        t[0], t[1] = f[0] + rng.choice([1e-13, -3e-14, 0.0]), f[1] + rng.choice([0.0, 2e-13])     # rho at rounding level
    if rng.random() < 0.05:
        t[2] = 5.0                      # above the ice
    cfg = {"kind": kind, "from": [float(x) for x in f], "to": [float(x) for x in t], "ice_class": ice_class, "zu_class": cls}
    if vert < 0.14:
        cfg["vertical"] = True
    if kind == "basic":
        cfg["dz"] = rng.choice([1, 2])
    return cfg


def rand_uniform(rng):
    c = C18.rand_uniform_cfg(rng)
    if rng.random() < 0.18 and c["ice"]["lo"] <= c["from"][2] <= c["ice"]["hi"]:
        c["to"][2] = c["from"][2]                    # exactly equal depths: the direct path is a horizontal segment
        if c["to"][:2] == c["from"][:2] or rng.random() < 0.5:
            c["to"][0] = c["from"][0] + rng.choice([0.0, 40.0, -333.0])      # separation along y only / mostly
            c["to"][1] = c["from"][1] + rng.choice([250.0, -75.5, 1200.0])
        return {"kind": "uniform", **c, "tags": ["equal_depth"]}
    return {"kind": "uniform", **c}


def rand_layered(rng):
    c = C18.rand_layered_cfg(rng, ice=C18.rand_stack(rng, kinds=("uniform",)) if rng.random() < 0.7 else None)
    interior = [l["lo"] for l in c["ice"]["layers"][:-1]]
    tags = []
    if interior and rng.random() < 0.35:
        which = rng.choice(["to", "from", "both"])               # an endpoint exactly on an interior layer boundary
        if which in ("to", "both"):
            c["to"][2] = float(rng.choice(interior))
        if which in ("from", "both"):
            c["from"][2] = float(rng.choice(interior))
        tags.append("on_interior_boundary:" + which)
    if not tags and rng.random() < 0.15:
        lay = [l for l in c["ice"]["layers"] if l["kind"] == "uniform" and l["lo"] < c["from"][2] < l["hi"]]
        if lay:
            c["to"][2] = c["from"][2]                            # equal depths strictly inside a uniform layer
            c["to"][0], c["to"][1] = c["from"][0] + rng.choice([0.0, 55.0]), c["from"][1] + rng.choice([180.0, -640.0])
            tags.append("equal_depth")
            return {"kind": "layered", **c, "tags": tags}
    v = rng.random()
    if v < 0.12:
        c["to"][0], c["to"][1] = c["from"][0], c["from"][1]      # exactly vertical
        tags.append("vertical")
    elif v < 0.15:
        c["to"][0], c["to"][1] = c["from"][0] + 1e-13, c["from"][1]
        tags.append("vertical_rounding")
    return {"kind": "layered", **c, "tags": tags}


def probes(ctx, scale):
    rng = ctx.rng
    plan = [("specialized", ctx.n(60, 1500)), ("uniform", ctx.n(80, 2000)), ("layered", ctx.n(26, 300)), ("basic", ctx.n(5, 80))]
    # the F2 witness (fixed by b971f54): reflections with a source away from x = y = 0
    probe_cfg(ctx, {"kind": "uniform", "ice": {"n": 1.5, "lo": -500.0, "hi": 0.0, "above": 1.0, "below": 1.8},
                    "from": [100.0, 50.0, -100.0], "to": [400.0, 50.0, -200.0], "max_reflections": 1}, rng)
    # source / receiver exactly on a reflecting surface, 1..3 reflections (count and lengths by the method of images, both orders)
    for zf, zt, lo, hi, below in ((0.0, -200.0, -500.0, 0.0, 1.8), (-500.0, -120.0, -500.0, 0.0, 1.8), (-20.0, -20.0, -300.0, -20.0, None), (-60.0, 0.0, -300.0, 0.0, 2.2)):
        for mr in (1, 2, 3):
            probe_cfg(ctx, {"kind": "uniform", "ice": {"n": 1.5, "lo": lo, "hi": hi, "above": 1.0, "below": below},
                            "from": [10.0, -5.0, zf], "to": [310.0, 95.0, zt], "max_reflections": mr}, rng)
    # exactly vertical rays (launch angle exactly 0.0): antenna directly above / below the vertex
    for kind in ("specialized", "basic"):
        for f, t in (([10.0, 20.0, -500.0], [10.0, 20.0, -100.0]), ([10.0, 20.0, -100.0], [10.0, 20.0, -500.0])):
            probe_cfg(ctx, {"kind": kind, "from": f, "to": t, "ice_class": "AntarcticIce", "zu_class": "ss", "vertical": True}, rng)
    counts = {}
    for kind, n in plan:
        for _ in range(n * scale):
            cfg = rand_uniform(rng) if kind == "uniform" else rand_layered(rng) if kind == "layered" else rand_gradient_cfg(rng, kind)
            ctx.case(key=(kind, json.dumps(cfg, sort_keys=True)), sample={"probe": kind, "cfg": cfg})
            counts[kind] = counts.get(kind, 0) + 1
            for tg in (["vertical"] if cfg.get("vertical") else []) + list(cfg.get("tags", [])) + (["vertical"] if kind == "uniform" and cfg["from"][:2] == cfg["to"][:2] else []):
                counts[kind + ":" + tg] = counts.get(kind + ":" + tg, 0) + 1
            if "zu_class" in cfg:
                counts[kind + ":" + cfg["zu_class"]] = counts.get(kind + ":" + cfg["zu_class"], 0) + 1
            probe_cfg(ctx, cfg, rng)
    ctx.extra["probe_counts"] = counts


# ---------------------------------------------------------------------------- correspondence: generated path geometry
def oc_ice(o):
    return "{M.ice_n0=%s; M.ice_k=%s; M.ice_a=%s; M.ice_valid_range=(%s,%s); M.ice_index_above=%s; M.ice_index_below=%s}" % (
        rx.ocf(o.n0), rx.ocf(o.k), rx.ocf(o.a), rx.ocf(o.valid_range[0]), rx.ocf(o.valid_range[1]),
        C18.oc_opt(o._index_above), C18.oc_opt(o._index_below))


def corr_paths(ctx, scale):
    from pyrex.ray_tracing import SpecializedRayTracer, BasicRayTracer, SpecializedRayTracePath, BasicRayTracePath
    from pyrex.ice_model import AntarcticIce
    rng = ctx.rng
    ice = AntarcticIce()
    cases, expect, meta = [], [], []
    for _ in range(ctx.n(150, 3000) * scale):
        cfg = rand_gradient_cfg(rng, "specialized")
        f, t = cfg["from"], cfg["to"]
        if t[2] > 0:
            continue
        theta0 = rng.uniform(0.02, math.pi - 0.02)
        direct = rng.random() < 0.6
        for cls, trc, pre in ((SpecializedRayTracePath, SpecializedRayTracer, "specializedRayTracePath"), (BasicRayTracePath, BasicRayTracer, "basicRayTracePath")):
            p = cls(trc(f, t, ice), theta0, direct)
            with np.errstate(all="ignore"):
                exp = [float(p.rho), float(p.phi), float(p.beta)] + U.fl(p.emitted_direction) + U.fl(p.received_direction)
            rec = "{M.gPath_from_point=%s; M.gPath_to_point=%s; M.gPath_theta0=%s; M.gPath_ice=%s; M.gPath_direct=%s}" % (
                C18.oc_vec(f), C18.oc_vec(t), rx.ocf(theta0), oc_ice(ice), "true" if direct else "false")
            cases.append("(let p = %s in Printf.printf \"%%h %%h %%h \" (M.%s_rho p) (M.%s_phi p) (M.%s_beta p); prv (M.%s_emitted_direction p); prv (M.%s_received_direction p); print_newline ())"
                         % (rec, pre, pre, pre, pre, pre))
            expect.append(exp)
            meta.append({"class": cls.__name__, "from": f, "to": t, "theta0": theta0, "direct": direct})
    # tracer side: z0 / z1 / rho / max_angle and the launch-angle conversion
    for _ in range(ctx.n(60, 800) * scale):
        cfg = rand_gradient_cfg(rng, "specialized")
        f, t = cfg["from"], cfg["to"]
        if t[2] > 0:
            continue
        tr = SpecializedRayTracer(f, t, ice)
        a = rng.uniform(0.01, 1.2)
        with np.errstate(all="ignore"):
            conv = float(np.arcsin(np.sin(a) * tr.n0 / ice.index(f[2])))
            exp = [float(tr.z0), float(tr.z1), float(tr.rho), float(tr.max_angle), conv]
        rec = "{M.gTracer_from_point=%s; M.gTracer_to_point=%s; M.gTracer_ice=%s}" % (C18.oc_vec(f), C18.oc_vec(t), oc_ice(ice))
        cases.append("(let t = %s in Printf.printf \"%%h %%h %%h %%h %%h\\n\" (M.specializedRayTracer_z0 t) (M.specializedRayTracer_z1 t) (M.specializedRayTracer_rho t) "
                     "(M.specializedRayTracer_max_angle t) (M.specializedRayTracer_get_launch_angle__true_angle t %s))" % (rec, rx.ocf(a)))
        expect.append(exp)
        meta.append({"class": "SpecializedRayTracer", "from": f, "to": t, "alpha": a})
    fns = []
    for pre in ("SpecializedRayTracePath", "BasicRayTracePath"):
        fns += ["%s_%s" % (pre, m) for m in ("rho", "phi", "beta", "emitted_direction", "received_direction")]
    fns += ["SpecializedRayTracer_z0", "SpecializedRayTracer_z1", "SpecializedRayTracer_rho", "SpecializedRayTracer_max_angle",
            "SpecializedRayTracer_get_launch_angle__true_angle"]
    old = rx.OCAML_PRELUDE
    rx.OCAML_PRELUDE = old + C18.OC_PRE.split("let prlist")[0]
    try:
        res = rx.run(ctx, "From PyrexGen Require Import Gen_ray2.", fns, cases, name="gradient")
    finally:
        rx.OCAML_PRELUDE = old
    bad = 0
    for r, e, m in zip(res, expect, meta):
        ctx.case(key=("corr", json.dumps(m, sort_keys=True)), sample={"case": m, "impl": e, "model": r})
        ok = isinstance(r, tuple) and len(r) == len(e) and all(C18.close(x, y, 1e-11, 1e-11) for x, y in zip(r, e))
        if not ok:
            bad += 1
            if bad <= 4:
                ctx.oblige("corr:gradient:%s" % m["class"], False, "generated definitions and implementation disagree: model=%r impl=%r at %s" % (r, e, json.dumps(m)))
    ctx.oblige("corr:gradient(%d model runs)" % len(cases), bad == 0, "%d disagreements" % bad)


def corr_expected(ctx):
    """hand model of expected_solutions / exists / solutions vs the implementation driven with scripted maxima and angles."""
    from pyrex.ray_tracing import BasicRayTracer, SpecializedRayTracer
    from pyrex.ice_model import AntarcticIce
    ice = AntarcticIce()
    cases, expect, meta = [], [], []
    for cls in (BasicRayTracer, SpecializedRayTracer):
        for cf in (True, False):
            for ct in (True, False):
                for drm, irm in ((150.0, 300.0), (50.0, 300.0), (50.0, 80.0), (100.0, 100.0), (150.0, 80.0), (100.0, 300.0)):
                    for angles in ((0.5, 0.7, 0.3), (0.5, None, 0.3), (None, 0.7, 0.3), (0.5, 0.7, None),
                                   (0.0, 0.0, 0.0), (-0.0, 0.7, -0.0), (5e-324, 1e-300, 0.0), (0.0, None, 1e-17), (math.pi, 0.7, 0.0)):
                        tr = cls((0, 0, -100.0 if cf else 10.0), (100.0, 0, -200.0 if ct else 10.0), ice)
                        for nm, v in (("direct_r_max", drm), ("indirect_r_max", irm), ("direct_angle", angles[0]),
                                      ("indirect_angle_1", angles[1]), ("indirect_angle_2", angles[2])):
                            tr.__dict__["_lazy_" + nm] = v       # cache slot of pyrex.internal_functions.lazy_property
                        with np.errstate(all="ignore"):
                            es = [bool(b) for b in tr.expected_solutions]
                            ex = bool(tr.exists)
                            sols = [(float(s.theta0), bool(s.direct)) for s in tr.solutions]
                        al = "[" + "; ".join("None" if a is None else "Some " + rx.ocf(a) for a in angles) + "]"
                        cases.append("(let e = M.expected_solutions " + " ".join([str(cf).lower(), str(ct).lower(), rx.ocf(100.0), rx.ocf(drm), rx.ocf(irm)]) + " in "
                                     "List.iter (fun b -> print_string (if b then \"0x1p+0 \" else \"0x0p+0 \")) e; "
                                     "print_string (if M.tracer_exists e then \"0x1p+0 \" else \"0x0p+0 \"); "
                                     "List.iter (fun (th, d) -> Printf.printf \"%h %s \" th (if d then \"0x1p+0\" else \"0x0p+0\")) (M.tracer_solutions_g " + al + " e); "
                                     "print_newline ())")
                        expect.append([float(b) for b in es] + [float(ex)] + [x for th, d in sols for x in (th, float(d))])
                        meta.append((cls.__name__, cf, ct, drm, irm, angles))
    res = rx.run(ctx, "From PyrexModel Require Import GradientTracer.", ["expected_solutions", "tracer_exists", "tracer_solutions_g"], cases, name="expected")
    bad = 0
    for r, e, m in zip(res, expect, meta):
        ctx.case(key=("expected",) + tuple(str(x) for x in m))
        if list(r) != e:
            bad += 1
            if bad <= 2:          # leave room among the reported failures for the real-geometry witnesses of the probes
                ctx.fail("expected:%r" % (m,), "%s expected_solutions/exists/solutions with contains=(%r,%r) rho=100 direct_r_max=%r indirect_r_max=%r angles=%r: implementation %r, model %r" % (
                    m + (e, list(r))), {"kind": "expected", "m": [str(x) for x in m], "impl": e, "model": list(r)})
    ctx.oblige("corr:expected_solutions(%d scripted tracers)" % len(cases), bad == 0, "%d disagreements" % bad)


# ---------------------------------------------------------------------------- entry points
def run(ctx):
    ctx.rule = ("random endpoint pairs (any x,y offset, azimuth, depths incl. on/outside boundaries, beyond the shadow boundary) on every shipped tracer: "
                "SpecializedRayTracer (AntarcticIce, GreenlandIce), BasicRayTracer (dz 1, 2), UniformRayTracer (0..3 reflections, open sides), "
                "LayeredRayTracer (stacks of uniform / exponential layers, 0..2 reflections); each geometry is swapped, translated and rotated")
    ctx.trusted += ["Coq 8.16.1 kernel (coqchk in the thorough tier)", "tools/py2coq.py + tools/gen_ray2.py (translator)",
                    "harness/realextract.py extraction directives (validation only)",
                    "Model/GradientTracer.v, Model/UniformPath.v, Model/UniformTracer.v: pinned hand models of list / control-flow code",
                    "scipy.optimize.brentq is a Section-style hypothesis: the theorems take the solver's angle alpha (0 < alpha < pi/2, ray reaches the receiver) as given"]
    ctx.assumptions += ["theorems over the reals; rounding covered by correspondence / probes",
                        "reciprocity of the two INDIRECT solutions' directions and of the uniform / layered tracers is established by probes (plus C18's image theorems), not by a C02 theorem (partial)",
                        "the solver and direct_r_max / indirect_r_max are parameters of the model",
                        "UniformRayTracePath.attenuation is a left-endpoint Riemann sum: swapped attenuations agree within step x total variation of 1/attenuation_length (derived allowance), not exactly"]
    ctx.partial += ["reciprocity_indirect_directions (probes only)", "reciprocity_uniform_layered (probes + C18 theorems)"]
    gen_ok = True
    try:
        files, hashes = gen_files(ctx.scratch)
        for k, v in files.items():
            ctx.write_gen(k, v)
        ctx.oblige("gen:Gen_ray2+Gen_uniform", True)
        ctx.extra["translated_functions"] = hashes
    except Exception as e:
        ctx.oblige("gen:Gen_ray2+Gen_uniform", False, "translation failed (fail-closed): %s" % e)
        gen_ok = False
    pins = current_pins()
    recorded = json.load(open(PIN_FILE)) if os.path.exists(PIN_FILE) else {}
    changed = sorted(k for k in pins if recorded.get(k) != pins[k])
    ctx.extra["pins"] = {"current": pins, "changed_since_validation": changed}
    scale = 3 if (changed or not gen_ok) else 1
    if gen_ok:
        ctx.coq_build("C02")
        for name, fn in (("gradient", lambda: corr_paths(ctx, scale)), ("expected", lambda: corr_expected(ctx))):
            try:
                fn()
            except Exception as e:
                ctx.oblige("corr:" + name, False, repr(e)[-1500:])
    probes(ctx, scale)


def replay(ctx, obj):
    print(json.dumps(obj, indent=1, default=str)[:3000])
    np.seterr(all="ignore")
    if obj.get("kind") == "sym":
        cfg = obj["cfg"]
        for label, (f, t) in (("as given", (cfg["from"], cfg["to"])), ("swapped", (cfg["to"], cfg["from"]))):
            ex, o = observe(make_tracer(cfg, f, t))
            print("implementation,", label, ": exists =", ex)
            for a in o:
                print("   length=%r tof=%r att=%r emitted=%r received=%r" % (a["L"], a["tof"], a["att"], a["em"], a["rc"]))
        print("model of the property: same number of solutions; swap: equal length/tof/attenuation, emitted = -received of the other; "
              "translation: everything equal; rotation: horizontal direction components rotated")
    else:
        print("implementation:", obj.get("impl"), "\nmodel:", obj.get("model"))
    return 1
