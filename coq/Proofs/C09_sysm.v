(* C09, AntennaSystem state machine (noiseless antenna, invalidating caches): cache invariant,
   waveforms = filter, clear, and history independence for arbitrary histories. *)
From Coq Require Import List QArith ZArith Bool Lia.
From PyrexLib Require Import Interp.
From PyrexModel Require Import AntennaModel AntennaSpec.
From PyrexProofs Require Import C09_struct.
Import ListNotations.

Definition s_final (sc : sconfig) (st : sstate) (h : list op) : sstate := fst (s_run sc st h).

(* noiseless system waveform as a function of the antenna's signal list *)
Definition s_fw_pure (sc : sconfig) (sigs : list signal) (ts : list Q) : signal :=
  with_times (front_end sc (fw_pure (ant_cfg sc) sigs (lead_in_times sc ts))) ts.
Definition s_all_pure (sc : sconfig) (sigs : list signal) : list signal :=
  map (fun s => s_fw_pure sc sigs (s_times s)) sigs.

(* a new system whose antenna has just received sigs *)
Definition s_fresh (sigs : list signal) : sstate := mkS (fresh sigs) [] [] [].
Definition s_fresh_answer (sc : sconfig) (sigs : list signal) (q : op) : out :=
  snd (s_step sc (s_fresh sigs) q).

Definition s_pure_answer (sc : sconfig) (sigs : list signal) (q : op) : out :=
  let c := ant_cfg sc in
  match q with
  | AllWaveforms => OSigs (s_all_pure sc sigs)
  | Waveforms => OSigs (filter (trig c) (s_all_pure sc sigs))
  | IsHit | IsHitMC => OBool (negb (Nat.eqb (length (filter (trig c) (s_all_pure sc sigs))) 0))
  | FullWaveform ts => OSig (s_fw_pure sc sigs ts)
  | IsHitDuring ts => OBool (trig c (s_fw_pure sc sigs ts))
  | Signals => OSigs (map (sys_signal_of sc) sigs)
  | _ => ONone
  end.

Definition SysInv (sc : sconfig) (st : sstate) : Prop :=
  let sigs := signals (ant st) in
  (length (sys_triggers st) <= length (sys_all_waves st))%nat /\
  (length (sys_all_waves st) <= length sigs)%nat /\
  sys_triggers st = map (trig (ant_cfg sc)) (firstn (length (sys_triggers st)) (sys_all_waves st)) /\
  sys_all_waves st = s_all_pure sc (firstn (length (sys_all_waves st)) sigs) /\
  (length (sys_signals st) <= length sigs)%nat /\
  sys_signals st = map (sys_signal_of sc) (firstn (length (sys_signals st)) sigs).

Lemma s_all_pure_length : forall sc sigs, length (s_all_pure sc sigs) = length sigs.
Proof. intros. unfold s_all_pure. apply map_length. Qed.

Lemma with_ant_same : forall st, with_ant st (ant st) = st.
Proof. destruct st; reflexivity. Qed.

Lemma s_fw_noiseless : forall sc st ts, noisy (ant_cfg sc) = false ->
  s_full_waveform sc st ts = (st, s_fw_pure sc (signals (ant st)) ts).
Proof.
  intros sc st ts Hn. unfold s_full_waveform. rewrite fw_noiseless by exact Hn.
  rewrite with_ant_same. reflexivity.
Qed.

Lemma s_catch_up_noiseless : forall sc, noisy (ant_cfg sc) = false -> forall todo st,
  fold_left (s_wave_step sc) todo st =
  mkS (ant st) (sys_signals st)
      (sys_all_waves st ++ map (fun s => s_fw_pure sc (signals (ant st)) (s_times s)) todo)
      (sys_triggers st).
Proof.
  intros sc Hn todo. induction todo as [|s todo IH]; intros st; simpl.
  - rewrite app_nil_r. destruct st; reflexivity.
  - rewrite IH. unfold s_wave_step. rewrite s_fw_noiseless by exact Hn. simpl.
    rewrite <- app_assoc. reflexivity.
Qed.

Lemma s_all_waveforms_spec : forall sc st, noisy (ant_cfg sc) = false -> invalidate (ant_cfg sc) = true ->
  SysInv sc st ->
  snd (s_all_waveforms sc st) = s_all_pure sc (signals (ant st)) /\
  sys_all_waves (fst (s_all_waveforms sc st)) = s_all_pure sc (signals (ant st)) /\
  ant (fst (s_all_waveforms sc st)) = ant st /\
  SysInv sc (fst (s_all_waveforms sc st)).
Proof.
  intros sc st Hn Hi (I1 & I2 & I3 & I4 & I5 & I6). unfold s_all_waveforms. cbn [fst snd].
  rewrite Hi. cbn [andb].
  destruct (Nat.eqb (length (sys_all_waves st)) (length (signals (ant st)))) eqn:E; cbn [negb].
  - apply Nat.eqb_eq in E. rewrite skipn_all_eq by exact E. cbn [fold_left].
    assert (A : sys_all_waves st = s_all_pure sc (signals (ant st))).
    { rewrite I4 at 1. rewrite E, firstn_all. reflexivity. }
    repeat split; auto.
  - rewrite s_catch_up_noiseless by exact Hn. simpl. fold (s_all_pure sc (signals (ant st))).
    repeat split; auto; simpl; try lia.
    + rewrite s_all_pure_length. lia.
    + rewrite s_all_pure_length, firstn_all. reflexivity.
Qed.

Lemma s_waveforms_spec : forall sc st, noisy (ant_cfg sc) = false -> invalidate (ant_cfg sc) = true ->
  SysInv sc st ->
  snd (s_waveforms sc st) = filter (trig (ant_cfg sc)) (s_all_pure sc (signals (ant st))) /\
  ant (fst (s_waveforms sc st)) = ant st /\
  SysInv sc (fst (s_waveforms sc st)).
Proof.
  intros sc st Hn Hi I. unfold s_waveforms.
  destruct (s_all_waveforms_spec sc st Hn Hi I) as (A1 & A2 & A3 & (J1 & J2 & J3 & J4 & J5 & J6)).
  destruct (s_all_waveforms sc st) as [st1 aw]. cbn [fst snd] in *.
  rewrite fold_snoc_map. subst aw.
  assert (T : sys_triggers st1 ++ map (trig (ant_cfg sc)) (skipn (length (sys_triggers st1)) (s_all_pure sc (signals (ant st))))
              = map (trig (ant_cfg sc)) (s_all_pure sc (signals (ant st)))).
  { rewrite J3 at 1. rewrite A2. rewrite <- map_app, firstn_skipn. reflexivity. }
  rewrite T. split; [apply filter_combine_map|]. split; [exact A3|].
  unfold SysInv. simpl. rewrite map_length. rewrite A2 in *. repeat split; auto.
  rewrite firstn_all. reflexivity.
Qed.

Lemma s_signals_spec : forall sc st, SysInv sc st ->
  snd (s_signals sc st) = map (sys_signal_of sc) (signals (ant st)) /\
  ant (fst (s_signals sc st)) = ant st /\ SysInv sc (fst (s_signals sc st)).
Proof.
  intros sc st (I1 & I2 & I3 & I4 & I5 & I6). unfold s_signals. cbn [fst snd].
  assert (E : sys_signals st ++ map (sys_signal_of sc) (skipn (length (sys_signals st)) (signals (ant st)))
              = map (sys_signal_of sc) (signals (ant st))).
  { rewrite I6 at 1. rewrite <- map_app, firstn_skipn. reflexivity. }
  rewrite E. split; [reflexivity|]. split; [reflexivity|].
  unfold SysInv. simpl. rewrite map_length. repeat split; auto.
  rewrite firstn_all. reflexivity.
Qed.

Lemma s_step_spec : forall sc st o, noisy (ant_cfg sc) = false -> invalidate (ant_cfg sc) = true ->
  SysInv sc st ->
  SysInv sc (fst (s_step sc st o)) /\
  signals (ant (fst (s_step sc st o))) =
    match o with Receive s => signals (ant st) ++ [s] | Clear _ => [] | _ => signals (ant st) end /\
  (is_query o = true -> snd (s_step sc st o) = s_pure_answer sc (signals (ant st)) o).
Proof.
  intros sc st o Hn Hi I. destruct o; unfold s_step, s_pure_answer.
  - (* Receive *)
    destruct I as (I1 & I2 & I3 & I4 & I5 & I6). cbn [fst snd]. split; [|split; [reflexivity|discriminate]].
    unfold SysInv, with_ant, receive. simpl. rewrite app_length.
    rewrite !firstn_app_le by lia. repeat split; auto; lia.
  - destruct (s_all_waveforms_spec sc st Hn Hi I) as (A1 & A2 & A3 & A4).
    destruct (s_all_waveforms sc st). cbn [fst snd] in *. rewrite A3. split; [exact A4|split; [reflexivity|intros _; rewrite A1; reflexivity]].
  - destruct (s_waveforms_spec sc st Hn Hi I) as (A1 & A3 & A4).
    destruct (s_waveforms sc st). cbn [fst snd] in *. rewrite A3. split; [exact A4|split; [reflexivity|intros _; rewrite A1; reflexivity]].
  - unfold s_is_hit. destruct (s_waveforms_spec sc st Hn Hi I) as (A1 & A3 & A4).
    destruct (s_waveforms sc st). cbn [fst snd] in *. rewrite A3. split; [exact A4|split; [reflexivity|intros _; rewrite A1; reflexivity]].
  - unfold s_is_hit. destruct (s_waveforms_spec sc st Hn Hi I) as (A1 & A3 & A4).
    destruct (s_waveforms sc st). cbn [fst snd] in *. rewrite A3. split; [exact A4|split; [reflexivity|intros _; rewrite A1; reflexivity]].
  - rewrite s_fw_noiseless by exact Hn. cbn [fst snd]. split; [exact I|split; reflexivity].
  - unfold s_is_hit_during. rewrite s_fw_noiseless by exact Hn. cbn [fst snd]. split; [exact I|split; reflexivity].
  - unfold s_make_noise.
    destruct (make_noise (ant_cfg sc) (ant st) (lead_in_times sc times)) as [a' pre] eqn:E.
    apply make_noise_frame in E. destruct E as (E1 & _). cbn [fst snd].
    split; [|split; [exact E1|discriminate]].
    unfold SysInv, with_ant in *. simpl. rewrite E1. exact I.
  - cbn [fst snd]. split; [|split; [reflexivity|discriminate]].
    unfold SysInv, s_clear. simpl. repeat split; auto.
  - destruct (s_signals_spec sc st I) as (A1 & A3 & A4).
    destruct (s_signals sc st). cbn [fst snd] in *. rewrite A3. split; [exact A4|split; [reflexivity|intros _; rewrite A1; reflexivity]].
Qed.

Lemma s_final_cons : forall sc st o h, s_final sc st (o :: h) = s_final sc (fst (s_step sc st o)) h.
Proof.
  intros. unfold s_final. simpl. destruct (s_step sc st o) as [st1 r]. cbn [fst].
  destruct (s_run sc st1 h). reflexivity.
Qed.

Lemma s_final_spec : forall sc h st, noisy (ant_cfg sc) = false -> invalidate (ant_cfg sc) = true ->
  SysInv sc st ->
  SysInv sc (s_final sc st h) /\ signals (ant (s_final sc st h)) = received_from (signals (ant st)) h.
Proof.
  intros sc h. induction h as [|o h IH]; intros st Hn Hi I.
  - split; [exact I|reflexivity].
  - rewrite s_final_cons. destruct (s_step_spec sc st o Hn Hi I) as (I' & S' & _).
    destruct (IH _ Hn Hi I') as (J1 & J2). split; [exact J1|]. rewrite J2, S'. destruct o; reflexivity.
Qed.

Lemma SysInv_fresh : forall sc sigs, SysInv sc (s_fresh sigs).
Proof. intros. unfold SysInv, s_fresh, fresh. simpl. repeat split; auto; lia. Qed.

Lemma SysInv_init : forall sc, SysInv sc s_init.
Proof. intros. unfold SysInv, s_init, a_init. simpl. repeat split; auto. Qed.

Lemma sys_history_independent_lemma : forall sc h q,
  noisy (ant_cfg sc) = false -> invalidate (ant_cfg sc) = true -> is_query q = true ->
  snd (s_step sc (s_final sc s_init h) q) = s_fresh_answer sc (received h) q.
Proof.
  intros sc h q Hn Hi Hq.
  destruct (s_final_spec sc h s_init Hn Hi (SysInv_init sc)) as (I & S).
  destruct (s_step_spec sc _ q Hn Hi I) as (_ & _ & A). rewrite (A Hq), S.
  unfold s_fresh_answer.
  destruct (s_step_spec sc (s_fresh (received h)) q Hn Hi (SysInv_fresh sc _)) as (_ & _ & B).
  rewrite (B Hq). reflexivity.
Qed.

Lemma s_is_hit_iff : forall sc st, snd (s_is_hit sc st) = true <-> snd (s_waveforms sc st) <> [].
Proof.
  intros sc st. unfold s_is_hit. destruct (s_waveforms sc st) as [st' l]. cbn [snd].
  destruct l; simpl; split; intro H; congruence.
Qed.

Lemma sys_bookkeeping_lemma : forall sc h,
  noisy (ant_cfg sc) = false -> invalidate (ant_cfg sc) = true ->
  let st := s_final sc s_init h in
  let aw := snd (s_all_waveforms sc st) in
  length aw = length (received h) /\ map s_times aw = map s_times (received h) /\
  snd (s_waveforms sc st) = filter (trig (ant_cfg sc)) aw /\
  (snd (s_is_hit sc st) = true <-> snd (s_waveforms sc st) <> []) /\
  snd (s_signals sc st) = map (sys_signal_of sc) (received h).
Proof.
  intros sc h Hn Hi. cbn zeta.
  destruct (s_final_spec sc h s_init Hn Hi (SysInv_init sc)) as (I & S).
  destruct (s_all_waveforms_spec sc _ Hn Hi I) as (A1 & _).
  destruct (s_waveforms_spec sc _ Hn Hi I) as (W1 & _).
  destruct (s_signals_spec sc _ I) as (G1 & _).
  pose proof (s_is_hit_iff sc (s_final sc s_init h)) as Hh.
  rewrite A1, W1, G1, S in *. fold (received h) in *.
  split; [apply s_all_pure_length|]. split.
  - unfold s_all_pure. rewrite map_map. apply map_ext. intros s. reflexivity.
  - split; [reflexivity|]. split; [exact Hh|reflexivity].
Qed.

Lemma sys_clear_resets_lemma : forall sc h r q,
  noisy (ant_cfg sc) = false -> invalidate (ant_cfg sc) = true -> is_query q = true ->
  let st := s_final sc s_init (h ++ [Clear r]) in
  signals (ant st) = [] /\ sys_signals st = [] /\ sys_all_waves st = [] /\ sys_triggers st = [] /\
  snd (s_step sc st q) = snd (s_step sc s_init q).
Proof.
  intros sc h r q Hn Hi Hq. cbn zeta.
  assert (E : s_final sc s_init (h ++ [Clear r]) = s_clear (s_final sc s_init h) r).
  { generalize s_init. induction h as [|o h IH]; intros st.
    - reflexivity.
    - change ((o :: h) ++ [Clear r]) with (o :: (h ++ [Clear r])). rewrite !s_final_cons. apply IH. }
  rewrite E. unfold s_clear. simpl. repeat split; auto.
  set (st := mkS (clear (ant (s_final sc s_init h)) r) [] [] []).
  assert (I : SysInv sc st) by (unfold SysInv, st, clear; simpl; repeat split; auto).
  destruct (s_step_spec sc st q Hn Hi I) as (_ & _ & A).
  destruct (s_step_spec sc s_init q Hn Hi (SysInv_init sc)) as (_ & _ & B).
  rewrite (A Hq), (B Hq). reflexivity.
Qed.
