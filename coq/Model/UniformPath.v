(* Hand model of the list/array code of the uniform-ice tracer, pyrex/ray_tracing.py:
     UniformRayTracePath._points            (array writes, cumulative sums)
     UniformRayTracer._reflected_path       (leg list, launch angle, raise conditions)
     UniformRayTracer.solutions             (direct + 2 per reflection count, skipping TypeError)
   written statement by statement as the code is; pinned by AST hash in harness/pins/C18.json and
   validated against the implementation by harness/props/c18.py.  The scalar members (rho, phi,
   directions, path_length, tof, exists ...) are NOT modelled here: they are translated from the
   source on every run (Gen/Gen_uniform.v) and call these definitions for self._points. *)
From Coq Require Import Reals List Bool ZArith.
From PyrexLib Require Import RealPrims ListR.
Import ListNotations.
Open Scope R_scope.

(* (-1)**k *)
Definition m1pow (k : nat) : Z := if Nat.even k then 1%Z else (-1)%Z.

(* if self.theta0>0: 1 / elif self.theta0<0: -1 / else: raise ValueError *)
Definition init_dir (theta0 : R) : option Z :=
  if Rgtb theta0 0 then Some 1%Z else if Rltb theta0 0 then Some (-1)%Z else None.

(* dzs = [first] ; dzs.extend([size]*(reflections-1)) ; dzs.append(last) *)
Definition leg_first (lo hi z0 : R) (d : Z) : R := if (d =? 1)%Z then hi - z0 else z0 - lo.
Definition leg_last (lo hi z1 : R) (fd : Z) : R := if (fd =? 1)%Z then z1 - lo else hi - z1.
Definition dzs (lo hi z0 z1 : R) (d : Z) (refl : nat) : list R :=
  leg_first lo hi z0 d :: repeat (hi - lo) (refl - 1) ++ [leg_last lo hi z1 (d * m1pow refl)%Z].

(* self.ice.valid_range[((initial_direction * (-1)**i)+1)//2] *)
Definition bound_z (lo hi : R) (d : Z) (i : nat) : R :=
  if (((d * m1pow i) + 1) / 2 =? 0)%Z then lo else hi.

(* UniformRayTracePath._points.  None = the ValueError("Invalid initial direction"). *)
Definition uniform_points (from to : vec3) (theta0 lo hi : R) (direct : bool) (refl : nat)
                          (rho phi : R) : option (list vec3) :=
  if direct then Some [from; to]
  else match init_dir theta0 with
       | None => None
       | Some d =>
           let dz := dzs lo hi (vz from) (vz to) d refl in
           let s := sum_list dz in
           let drs := map (fun x => rho * x / s) dz in
           let rs := cumsum drs in
           (* rows 1..refl+1: x, y from rs; z written by the loop for rows 1..refl *)
           let rows := map (fun ir => (vx from + snd ir * cos phi, vy from + snd ir * sin phi,
                                       bound_z lo hi d (fst ir)))
                           (combine (seq 0 (length rs)) rs) in
           (* points[-1] = self.to_point overwrites the last row *)
           Some (from :: removelast rows ++ [to])
       end.

(* what the translated members see for self._points (they are only meaningful when it is Some) *)
Definition points_or_nil (o : option (list vec3)) : list vec3 := match o with Some l => l | None => [] end.

(* rows of the (n,3) array by literal index *)
Definition vzero : vec3 := (0, 0, 0).
Definition row (l : list vec3) (i : nat) : vec3 := nth i l vzero.
Definition row_last (l : list vec3) (back : nat) : vec3 := nth (length l - back) l vzero.  (* l[-back] *)
Definition veqb (a b : vec3) : bool := Reqb (vx a) (vx b) && Reqb (vy a) (vy b) && Reqb (vz a) (vz b).

(* UniformRayTracer._reflected_path: the TypeError conditions and the launch angle *)
Definition reflection_allowed (above below : option R) (refl : nat) (d : Z) : bool :=
  negb (is_none above && ((1 <? refl)%nat || (d =? 1)%Z)) &&
  negb (is_none below && ((1 <? refl)%nat || (d =? -1)%Z)).
Definition reflected_theta (lo hi z0 z1 rho : R) (d : Z) (refl : nat) : R :=
  atan2 (IZR d * sum_list (dzs lo hi z0 z1 d refl)) rho.

(* UniformRayTracer.solutions as the list of (launch angle, reflections) handed to solution_class *)
Definition uniform_solutions (exists_ : bool) (lo hi z0 z1 rho : R) (above below : option R)
                             (max_reflections : nat) : list (R * nat) :=
  if negb exists_ then []
  else (atan2 (z1 - z0) rho, O) ::
       flat_map (fun ref =>
         flat_map (fun d => if reflection_allowed above below ref d
                            then [(reflected_theta lo hi z0 z1 rho d ref, ref)] else [])
                  [1%Z; (-1)%Z])
         (seq 1 max_reflections).
