(* C10: one kernel and one detector used for a whole sequence of events (the simulation loop), with
   antennas that are AntennaSystem objects (antenna + front end, pyrex/detector.py) or plain antennas,
   reads of signals / all_waveforms / is_hit in between, and clear() in between.

   AS WRITTEN (detector.py AntennaSystem):
     receive            -> self.antenna.receive(...)              antenna.signals grows
     signals (property) -> while len(self._signals) < len(self.antenna.signals): process the next one
                           (front end; the result keeps the times of the received signal); return _signals
     all_waveforms      -> while len(self._all_waves) < len(self.antenna.signals): append full_waveform(times of next)
     waveforms / is_hit -> all_waveforms, then triggers caught up; is_hit = some waveform triggered
     clear              -> _signals.clear(); _all_waves.clear(); _triggers.clear(); antenna.clear()
   A received signal is represented by the id of the ray solution it belongs to (KernelModel path id):
   the front end does not change the time base, so the id also stands for the grid signal_times + tof.
   The trigger is an oracle on path ids.  No proofs here (Proofs/C10_seq_proofs.v). *)
From Coq Require Import List ZArith Bool.
From PyrexModel Require Import KernelModel.
Import ListNotations.
Open Scope Z_scope.

Record sysst := mksys {
  raw : list Z;        (* antenna.signals *)
  cache : list Z;      (* _signals (processed) *)
  waves : list Z;      (* _all_waves *)
  trigs : list bool    (* _triggers *)
}.
Definition sys_empty : sysst := mksys [] [] [] [].

(* the catch-up loops *)
Definition catch_up (done_ : list Z) (src : list Z) : list Z := done_ ++ skipn (length done_) src.
Definition catch_up_trig (trig : Z -> bool) (done_ : list bool) (src : list Z) : list bool :=
  done_ ++ map trig (skipn (length done_) src).

Definition sys_receive (s : sysst) (x : list Z) : sysst := mksys (raw s ++ x) (cache s) (waves s) (trigs s).
Definition sys_read_signals (s : sysst) : sysst * list Z :=
  let c := catch_up (cache s) (raw s) in (mksys (raw s) c (waves s) (trigs s), c).
Definition sys_read_all_waveforms (s : sysst) : sysst * list Z :=
  let w := catch_up (waves s) (raw s) in (mksys (raw s) (cache s) w (trigs s), w).
(* waveforms: [wave for wave, triggered in zip(all_waves, _triggers) if triggered] *)
Fixpoint zip_filter (w : list Z) (t : list bool) : list Z :=
  match w, t with
  | x :: w', b :: t' => if b then x :: zip_filter w' t' else zip_filter w' t'
  | _, _ => []
  end.
Definition sys_read_waveforms (trig : Z -> bool) (s : sysst) : sysst * list Z :=
  let w := catch_up (waves s) (raw s) in
  let t := catch_up_trig trig (trigs s) w in
  (mksys (raw s) (cache s) w t, zip_filter w t).
Definition sys_clear (s : sysst) : sysst := sys_empty.

Inductive sop :=
| SEvent (ev : Z) (qs : list particle) (cnt : Z)   (* kernel.event() *)
| SSignals (a : Z)                                 (* ant.signals *)
| SAllWaves (a : Z)                                (* ant.all_waveforms *)
| SWaves (a : Z)                                   (* ant.waveforms *)
| SIsHit (a : Z)                                   (* ant.is_hit *)
| SClear (a : Z)                                   (* ant.clear() *)
| SClearAll.                                       (* for ant in detector: ant.clear() *)

Inductive sout :=
| ORet (r : ret)
| OList (l : list Z)
| OBool (b : bool)
| ODone.

Record kst := mkk { k_count : Z; k_sys : Z -> sysst }.
Definition k_init (count0 : Z) : kst := mkk count0 (fun _ => sys_empty).
Definition upd (f : Z -> sysst) (a : Z) (s : sysst) : Z -> sysst := fun b => if b =? a then s else f b.

(* the ray solutions handed to antenna a by one event() call, in order *)
Definition delivered (a : Z) (calls : list call) : list Z :=
  flat_map (fun x => match x with
                     | CRecv a' p _ _ => if a' =? a then [p] else []
                     | CRecvEmpty a' p _ => if a' =? a then [p] else []
                     | _ => []
                     end) calls.

Definition sstep (c : cfg) (trig : Z -> bool) (k : kst) (o : sop) : kst * sout :=
  match o with
  | SEvent ev qs cnt =>
    let '(gc, calls, r) := event c (k_count k) ev qs cnt in
    (mkk gc (fun a => sys_receive (k_sys k a) (delivered a calls)), ORet r)
  | SSignals a => let '(s, l) := sys_read_signals (k_sys k a) in (mkk (k_count k) (upd (k_sys k) a s), OList l)
  | SAllWaves a => let '(s, l) := sys_read_all_waveforms (k_sys k a) in (mkk (k_count k) (upd (k_sys k) a s), OList l)
  | SWaves a => let '(s, l) := sys_read_waveforms trig (k_sys k a) in (mkk (k_count k) (upd (k_sys k) a s), OList l)
  | SIsHit a => let '(s, l) := sys_read_waveforms trig (k_sys k a) in
                (mkk (k_count k) (upd (k_sys k) a s), OBool (negb (Nat.eqb (length l) 0)))
  | SClear a => (mkk (k_count k) (upd (k_sys k) a (sys_clear (k_sys k a))), ODone)
  | SClearAll => (mkk (k_count k) (fun a => sys_clear (k_sys k a)), ODone)
  end.

Fixpoint srun (c : cfg) (trig : Z -> bool) (k : kst) (ops : list sop) : list sout :=
  match ops with
  | [] => []
  | o :: r => let '(k', x) := sstep c trig k o in x :: srun c trig k' r
  end.
Fixpoint sfinal (c : cfg) (trig : Z -> bool) (k : kst) (ops : list sop) : kst :=
  match ops with
  | [] => k
  | o :: r => sfinal c trig (fst (sstep c trig k o)) r
  end.
