(* Proofs about the writer part of IOModel: primitives, stages of add, rollback. *)
From Coq Require Import List ZArith Bool Lia.
From PyrexLib Require Import IOLists.
From PyrexModel Require Import IOModel.
Import ListNotations.
Open Scope Z_scope.

(* ------------------------------------------------------------------ per / tid *)
Lemma tid_eqb_eq : forall a b, tid_eqb a b = true <-> a = b.
Proof. destruct a, b; simpl; split; intro H; try reflexivity; try discriminate. Qed.
Lemma tid_eqb_refl : forall a, tid_eqb a a = true.
Proof. destruct a; reflexivity. Qed.
Lemma tid_eqb_neq : forall a b, a <> b -> tid_eqb a b = false.
Proof. intros a b H. destruct (tid_eqb a b) eqn:E; auto. apply tid_eqb_eq in E. contradiction. Qed.
Lemma tid_dec : forall a b : tid, {a = b} + {a <> b}.
Proof. decide equality. Qed.

Lemma get_set : forall {A} (p : per A) t u v, get (set p t v) u = if tid_eqb t u then v else get p u.
Proof. intros. destruct t, u; reflexivity. Qed.
Lemma get_set_same : forall {A} (p : per A) t v, get (set p t v) t = v.
Proof. intros. rewrite get_set, tid_eqb_refl. reflexivity. Qed.
Lemma get_set_other : forall {A} (p : per A) t u v, t <> u -> get (set p t v) u = get p u.
Proof. intros. rewrite get_set, tid_eqb_neq; auto. Qed.
Lemma set_set : forall {A} (p : per A) t x y, set (set p t x) t y = set p t y.
Proof. intros. destruct t; reflexivity. Qed.
Lemma get_per_map : forall {A B} (f : tid -> A -> B) p t, get (per_map f p) t = f t (get p t).
Proof. intros. destruct t; reflexivity. Qed.
Lemma get_per_all : forall {A} (v : A) t, get (per_all v) t = v.
Proof. intros. destruct t; reflexivity. Qed.
Lemma per_ext : forall {A} (p q : per A), (forall t, get p t = get q t) -> p = q.
Proof.
  intros A p q H. destruct p, q.
  pose proof (H P); pose proof (H T); pose proof (H M); pose proof (H R); pose proof (H N); pose proof (H W).
  simpl in *. congruence.
Qed.

(* ------------------------------------------------------------------ zlen *)
Lemma zlen_nonneg : forall {A} (l : list A), 0 <= zlen l.
Proof. intros. unfold zlen. lia. Qed.
Lemma zlen_app : forall {A} (l x : list A), zlen (l ++ x) = zlen l + zlen x.
Proof. intros. unfold zlen. rewrite app_length. lia. Qed.
Lemma zlen_nil : forall {A}, zlen (@nil A) = 0.
Proof. reflexivity. Qed.
Lemma zlen_zero_nil : forall {A} (l : list A), zlen l = 0 -> l = [].
Proof. intros A l H. destruct l; auto. unfold zlen in H. simpl in H. lia. Qed.
Lemma zlen_map : forall {A B} (f : A -> B) l, zlen (map f l) = zlen l.
Proof. intros. unfold zlen. rewrite map_length. reflexivity. Qed.
Lemma to_nat_zlen : forall {A} (l : list A), Z.to_nat (zlen l) = length l.
Proof. intros. unfold zlen. lia. Qed.

Lemma list_max_nonneg : forall l, 0 <= list_max l.
Proof. induction l; simpl; unfold list_max in *; simpl; lia. Qed.
Lemma max_waves_nonneg : forall a, 0 <= max_waves a.
Proof. intros. apply list_max_nonneg. Qed.
Lemma zseq_length : forall n, zlen (zseq n) = Z.max 0 n.
Proof. intros. unfold zseq, zlen. rewrite map_length, seq_length. lia. Qed.
Lemma zlen_mc_rows : forall incl a, zlen (mc_rows incl a) = max_waves a.
Proof. intros. unfold mc_rows. rewrite zlen_map, zseq_length. pose proof (max_waves_nonneg a). lia. Qed.
Lemma zlen_wave_rows : forall a, zlen (wave_rows a) = max_waves a.
Proof. intros. unfold wave_rows. rewrite zlen_map, zseq_length. pose proof (max_waves_nonneg a). lia. Qed.

(* ------------------------------------------------------------------ python slices *)
Lemma py_slice_in : forall {A} (l : list A) a b, 0 <= a -> a <= b -> b <= zlen l ->
  py_slice l a b = firstn (Z.to_nat (b - a)) (skipn (Z.to_nat a) l).
Proof.
  intros. unfold py_slice, norm_idx.
  destruct (a <? 0) eqn:E1; try lia. destruct (b <? 0) eqn:E2; try lia.
  rewrite !Z.min_l by lia. reflexivity.
Qed.

Lemma py_slice_app_in : forall {A} (l x : list A) a b, 0 <= a -> a <= b -> b <= zlen l ->
  py_slice (l ++ x) a b = py_slice l a b.
Proof.
  intros. rewrite !py_slice_in; try lia; [| rewrite zlen_app; pose proof (zlen_nonneg x); lia].
  apply skipn_firstn_app. unfold zlen in *. lia.
Qed.

Lemma py_slice_app_end : forall {A} (l x : list A), py_slice (l ++ x) (zlen l) (zlen l + zlen x) = x.
Proof.
  intros. pose proof (zlen_nonneg l). pose proof (zlen_nonneg x).
  rewrite py_slice_in; try lia; [| rewrite zlen_app; lia].
  replace (Z.to_nat (zlen l)) with (length l) by (unfold zlen; lia).
  rewrite skipn_app_exact. replace (zlen l + zlen x - zlen l) with (zlen x) by lia.
  rewrite to_nat_zlen. apply firstn_all.
Qed.

Lemma py_slice_empty : forall {A} (l : list A) a, 0 <= a -> py_slice l a a = [].
Proof.
  intros. unfold py_slice, norm_idx. destruct (a <? 0) eqn:E; try lia.
  rewrite Z.sub_diag. reflexivity.
Qed.

(* ------------------------------------------------------------------ index table cells *)
Definition cur_row (ix : list (per (Z * Z))) (g : Z) : per (Z * Z) := nthZ ix g zero_cells.

Lemma update_nth_length : forall {A} n (f : A -> A) l, length (update_nth n f l) = length l.
Proof. intros A n f l. revert n. induction l; destruct n; simpl; auto. Qed.

Lemma update_nth_last : forall {A} (f : A -> A) l x, update_nth (length l) f (l ++ [x]) = l ++ [f x].
Proof. intros A f l x. induction l; simpl; auto. f_equal. exact IHl. Qed.

Lemma firstn_snoc_split : forall {A} (l : list A) d, l <> [] ->
  l = firstn (length l - 1) l ++ [nth (length l - 1) l d].
Proof.
  intros A l d H. destruct (exists_last H) as [l' [x E]]. subst l.
  rewrite app_length. simpl. replace (length l' + 1 - 1)%nat with (length l') by lia.
  rewrite firstn_app_exact. rewrite app_nth2 by lia. rewrite Nat.sub_diag. reflexivity.
Qed.

(* the uniform description of set_cell at the row being built *)
Lemma set_cell_eq : forall ix g t v, 0 <= g -> g <= zlen ix -> zlen ix <= g + 1 ->
  set_cell ix g t v = firstn (Z.to_nat g) ix ++ [set (cur_row ix g) t v].
Proof.
  intros ix g t v Hg H1 H2. unfold set_cell, cur_row, nthZ.
  destruct (g <? 0) eqn:E; try lia.
  destruct (zlen ix <=? g) eqn:E2.
  - assert (zlen ix = g) by lia. subst g.
    replace (zlen ix + 1 - zlen ix) with 1 by lia. simpl.
    rewrite to_nat_zlen. rewrite update_nth_last. rewrite firstn_all.
    rewrite nth_overflow by lia. reflexivity.
  - assert (zlen ix = g + 1) by lia.
    assert (Hne : ix <> []) by (intro; subst ix; unfold zlen in *; simpl in *; lia).
    rewrite (firstn_snoc_split ix zero_cells Hne) at 1.
    assert (Z.to_nat g = (length ix - 1)%nat) by (unfold zlen in *; lia).
    rewrite H0.
    assert (length (firstn (length ix - 1) ix) = (length ix - 1)%nat) by (rewrite firstn_length; lia).
    rewrite <- H3 at 1. rewrite update_nth_last. reflexivity.
Qed.

Lemma set_cell_len : forall ix g t v, 0 <= g -> g <= zlen ix -> zlen ix <= g + 1 -> zlen (set_cell ix g t v) = g + 1.
Proof.
  intros. rewrite set_cell_eq by assumption. rewrite zlen_app. unfold zlen at 1. rewrite firstn_length.
  unfold zlen in *. simpl. lia.
Qed.
Lemma set_cell_first : forall ix g t v, 0 <= g -> g <= zlen ix -> zlen ix <= g + 1 ->
  firstn (Z.to_nat g) (set_cell ix g t v) = firstn (Z.to_nat g) ix.
Proof.
  intros. rewrite set_cell_eq by assumption.
  assert (length (firstn (Z.to_nat g) ix) = Z.to_nat g) by (rewrite firstn_length; unfold zlen in *; lia).
  rewrite <- H2 at 1. apply firstn_app_exact.
Qed.
Lemma set_cell_cur : forall ix g t v, 0 <= g -> g <= zlen ix -> zlen ix <= g + 1 ->
  cur_row (set_cell ix g t v) g = set (cur_row ix g) t v.
Proof.
  intros. rewrite set_cell_eq by assumption. unfold cur_row at 1, nthZ.
  destruct (g <? 0) eqn:E; try lia.
  assert (length (firstn (Z.to_nat g) ix) = Z.to_nat g) by (rewrite firstn_length; unfold zlen in *; lia).
  rewrite app_nth2 by lia. rewrite H2, Nat.sub_diag. reflexivity.
Qed.

(* ------------------------------------------------------------------ abbreviations *)
Definition rows (st : wstate) t := get (rowsOf st) t.
Definition cnt (st : wstate) t := get (cntOf st) t.
Definition ex (st : wstate) t := get (exOf st) t.
Definition tv (st : wstate) : Z := match thrown st with Some x => x | None => 0 end.

(* ranges of one column: ordered, disjoint, inside [lo, n] *)
Fixpoint chain (lo : Z) (l : list (Z * Z)) (n : Z) : Prop :=
  match l with
  | [] => lo <= n
  | c :: r => lo <= fst c /\ 0 <= snd c /\ chain (fst c + snd c) r n
  end.
Definition colOf (ix : list (per (Z * Z))) (t : tid) : list (Z * Z) := map (fun r => get r t) ix.

Lemma chain_lo_le : forall l lo n, chain lo l n -> lo <= n.
Proof. induction l; simpl; intros lo n Hc; auto. destruct Hc as [H1 [H2 H3]]. apply IHl in H3. lia. Qed.
Lemma chain_snoc : forall l lo n len, chain lo l n -> 0 <= len -> chain lo (l ++ [(n, len)]) (n + len).
Proof.
  induction l; simpl; intros lo n len Hc Hl.
  - lia.
  - destruct Hc as [H1 [H2 H3]]. repeat split; auto.
Qed.
Lemma chain_weaken : forall l lo lo' n, chain lo l n -> lo' <= lo -> chain lo' l n.
Proof. destruct l; simpl; intros lo lo' n Hc Hl; [lia|]. destruct Hc as [H1 [H2 H3]]. repeat split; auto; lia. Qed.
Lemma chain_nth : forall l lo n i, chain lo l n -> (i < length l)%nat ->
  lo <= fst (nth i l (0,0)) /\ 0 <= snd (nth i l (0,0)) /\ fst (nth i l (0,0)) + snd (nth i l (0,0)) <= n.
Proof.
  induction l; simpl; intros lo n i Hc Hi; try lia.
  destruct Hc as [H1 [H2 H3]]. destruct i.
  - pose proof (chain_lo_le _ _ _ H3). simpl. lia.
  - assert (Hi' : (i < length l)%nat) by lia. destruct (IHl _ _ _ H3 Hi') as [A [B C]]. lia.
Qed.
Lemma chain_order : forall l lo n i j, chain lo l n -> (i < j)%nat -> (j < length l)%nat ->
  fst (nth i l (0,0)) + snd (nth i l (0,0)) <= fst (nth j l (0,0)).
Proof.
  induction l; simpl; intros lo n i j Hc Hij Hj; try lia.
  destruct Hc as [H1 [H2 H3]]. destruct j; try lia. destruct i.
  - assert (Hj' : (j < length l)%nat) by lia. destruct (chain_nth _ _ _ _ H3 Hj'). lia.
  - apply (IHl _ _ _ _ H3); lia.
Qed.

(* ------------------------------------------------------------------ state invariant *)
Record inv (st : wstate) : Prop := mkInv {
  inv_cnt : forall t, cnt st t = zlen (rows st t);
  inv_nidx : nidx st = zlen (idx st);
  inv_noex : forall t, ex st t = false -> rows st t = [];
  inv_col : forall t, rows st t <> [] -> hascol st t = true;
  inv_chain : forall t, chain 0 (colOf (idx st) t) (zlen (rows st t));
  inv_thr : thrown st <> None -> ex st P = true
}.

Lemma inv_init : inv init_state.
Proof.
  constructor; intros; try (destruct t; reflexivity); simpl.
  - reflexivity.
  - destruct t; simpl in H; congruence.
  - unfold rows. simpl. rewrite get_per_all. unfold zlen. simpl. lia.
  - exfalso. match goal with H : _ <> _ |- _ => apply H; reflexivity end.
Qed.

(* ------------------------------------------------------------------ commit: the successful write of one table *)
Definition commit (st : wstate) (t : tid) (new : list row) : wstate :=
  write_indices (put_rows (alloc st t (zlen new)) t (cnt st t) new) t (cnt st t) (zlen new).

Lemma resize_grow : forall r k, 0 <= k -> resize_rows r (zlen r + k) = r ++ repeat [] (Z.to_nat k).
Proof.
  intros. unfold resize_rows. destruct (zlen r + k <=? zlen r) eqn:E.
  - assert (k = 0) by lia. subst k. rewrite Z.add_0_r, to_nat_zlen, firstn_all. simpl. rewrite app_nil_r. reflexivity.
  - replace (zlen r + k - zlen r) with k by lia. reflexivity.
Qed.

Lemma commit_eq : forall st t new, cnt st t = zlen (rows st t) ->
  commit st t new =
  mkW (set (rowsOf st) t (rows st t ++ new)) (set (cntOf st) t (cnt st t + zlen new)) (set (exOf st) t true)
      (if existsb (tid_eqb t) (cols st) then cols st else cols st ++ [t])
      (set_cell (idx st) (nidx st) t (cnt st t, zlen new)) (nidx st) (thrown st) (ana st).
Proof.
  intros st t new H. unfold commit, write_indices, put_rows, alloc, create_resize, set_cnt, set_rows. simpl.
  rewrite !get_set_same. simpl.
  f_equal.
  rewrite set_set. f_equal.
  unfold cnt in *. rewrite H. fold (rows st t).
  rewrite resize_grow by apply zlen_nonneg.
  rewrite !to_nat_zlen.
  rewrite firstn_app_exact.
  replace (length (rows st t) + length new)%nat with (length (rows st t ++ repeat [] (length new))) by (rewrite app_length, repeat_length; reflexivity).
  rewrite skipn_all. rewrite app_nil_r. reflexivity.
Qed.

(* put_rows and write_indices commute (they touch different fields) *)
Lemma put_write_comm : forall st t a b c r,
  put_rows (write_indices st t a b) t c r = write_indices (put_rows st t c r) t a b.
Proof.
  intros. unfold put_rows, write_indices, set_rows. simpl. destruct (get (exOf st) t); reflexivity.
Qed.

(* ------------------------------------------------------------------ states inside add *)
Definition upd (E : tid -> list row) (t : tid) (new : list row) : tid -> list row :=
  fun u => if tid_eqb t u then new else E u.

Lemma hascol_app : forall st t u, existsb (tid_eqb u) (cols st) = true ->
  existsb (tid_eqb u) (if existsb (tid_eqb t) (cols st) then cols st else cols st ++ [t]) = true.
Proof.
  intros. destruct (existsb (tid_eqb t) (cols st)); auto. rewrite existsb_app, H. reflexivity.
Qed.
Lemma hascol_new : forall st t,
  existsb (tid_eqb t) (if existsb (tid_eqb t) (cols st) then cols st else cols st ++ [t]) = true.
Proof.
  intros. destruct (existsb (tid_eqb t) (cols st)) eqn:E; auto. rewrite existsb_app. simpl.
  rewrite tid_eqb_refl. rewrite orb_true_r. reflexivity.
Qed.

(* what survives of a state in which add raised: enough for the rollback *)
Record part (st0 st : wstate) : Prop := mkPart {
  p_rows : forall t, exists X, rows st t = rows st0 t ++ X;
  p_first : firstn (Z.to_nat (nidx st0)) (idx st) = idx st0;
  p_len : nidx st0 <= zlen (idx st) <= nidx st0 + 1;
  p_nidx : nidx st = nidx st0;
  p_noex : forall t, ex st t = false -> rows st t = [];
  p_thr : ex st P = false -> thrown st = thrown st0;
  p_cols : forall t, hascol st0 t = true -> hascol st t = true;
  p_ex : forall t, ex st0 t = true -> ex st t = true;
  p_ana : ana st = ana st0
}.

(* state between two stages of add when no stage has raised so far: E = rows recorded so far,
   th = total_thrown, full = the index row of the event exists, C = columns whose cell is set *)
Record mid (st0 st : wstate) (E : tid -> list row) (th : option Z) (full : bool) (C : tid -> bool) : Prop := mkMid {
  m_rows : forall t, rows st t = rows st0 t ++ E t;
  m_cnt : forall t, cnt st t = zlen (rows st t);
  m_nidx : nidx st = nidx st0;
  m_first : firstn (Z.to_nat (nidx st0)) (idx st) = idx st0;
  m_len : nidx st0 <= zlen (idx st) <= nidx st0 + 1;
  m_cell : forall t, C t = true -> get (cur_row (idx st) (nidx st0)) t = (zlen (rows st0 t), zlen (E t));
  m_noex : forall t, ex st t = false -> rows st t = [];
  m_cols : forall t, hascol st0 t = true -> hascol st t = true;
  m_col : forall t, E t <> [] -> hascol st t = true;
  m_thr : thrown st = th;
  m_thrP : ex st P = false -> th = thrown st0;
  m_full : full = true -> zlen (idx st) = nidx st0 + 1;
  m_exC : forall t, ex st t = false -> C t = true;
  m_ex : forall t, ex st0 t = true -> ex st t = true;
  m_thrE : th <> None -> ex st P = true;
  m_ana : ana st = ana st0
}.

Lemma mid_part : forall st0 st E th full C, mid st0 st E th full C -> part st0 st.
Proof.
  intros st0 st E th full C H. destruct H. constructor; auto.
  - intro t. exists (E t). auto.
  - intro Hx. rewrite m_thr0. auto.
Qed.

Lemma mid_ext : forall st0 st E E' th full C, mid st0 st E th full C -> (forall t, E t = E' t) -> mid st0 st E' th full C.
Proof.
  intros st0 st E E' th full C H HE. destruct H. constructor; auto; intro t; rewrite <- HE; auto.
Qed.

Lemma mid_init : forall st0, inv st0 ->
  mid st0 st0 (fun _ => []) (thrown st0) false (fun t => negb (ex st0 t)).
Proof.
  intros st0 I. destruct I. constructor; auto; try discriminate.
  - intro t. rewrite app_nil_r. reflexivity.
  - rewrite inv_nidx0, to_nat_zlen. apply firstn_all.
  - lia.
  - intros t Ht. apply negb_true_iff in Ht. rewrite (inv_noex0 t Ht).
    unfold cur_row, nthZ. pose proof (zlen_nonneg (idx st0)).
    destruct (nidx st0 <? 0) eqn:E; [unfold zero_cells; rewrite get_per_all; reflexivity|].
    rewrite nth_overflow by (rewrite inv_nidx0; unfold zlen; lia).
    unfold zero_cells. rewrite get_per_all. reflexivity.
  - intros t Ht. try (exfalso; apply Ht; reflexivity); try (rewrite Ht; reflexivity).
Qed.

Lemma wi_part : forall st0 s t a b, part st0 s -> 0 <= nidx st0 -> part st0 (write_indices s t a b).
Proof.
  intros st0 s t a b Hp Hg. unfold write_indices. destruct (get (exOf s) t); simpl; auto.
  destruct Hp. constructor; simpl; auto.
  - rewrite p_nidx0. rewrite set_cell_first by lia. auto.
  - rewrite p_nidx0. rewrite set_cell_len by lia. lia.
  - intros u Hu. unfold hascol in *. simpl. apply hascol_app. apply p_cols0. auto.
Qed.

Lemma alloc_part : forall st0 s E th full C t k, mid st0 s E th full C -> 0 <= k -> part st0 (alloc s t k).
Proof.
  intros st0 s E th full C t k Hm Hk. destruct Hm.
  constructor; unfold alloc, create_resize, set_cnt, rows, ex, hascol in *; simpl; auto.
  - intro u. rewrite get_set. destruct (tid_eqb t u) eqn:Et.
    + apply tid_eqb_eq in Et. subst u. rewrite get_set_same.
      unfold cnt in m_cnt0. rewrite m_cnt0. unfold rows. rewrite resize_grow by auto.
      rewrite m_rows0. rewrite <- app_assoc. eexists. reflexivity.
    + exists (E u). apply m_rows0.
  - intros u Hu. rewrite get_set in Hu. rewrite get_set. destruct (tid_eqb t u); try discriminate. auto.
  - intro Hx. change (get (set (exOf s) t true) P = false) in Hx.
    rewrite get_set in Hx. destruct (tid_eqb t P); try discriminate. rewrite m_thr0; auto.
  - intros u Hu. rewrite get_set. destruct (tid_eqb t u); auto.
Qed.

Lemma setcnt_part : forall st0 s E th full C t c, mid st0 s E th full C -> part st0 (set_cnt s t c).
Proof.
  intros. apply mid_part in H. destruct H. constructor; auto.
Qed.

(* a preset write_indices: cell := (counter, 0) *)
Lemma wi_preset_mid : forall st0 s E th full C t, mid st0 s E th full C -> E t = [] -> 0 <= nidx st0 ->
  mid st0 (write_indices s t (cnt s t) 0) E th full (fun u => C u || tid_eqb t u).
Proof.
  intros st0 s E th full C t Hm HE Hg. unfold write_indices.
  destruct (get (exOf s) t) eqn:Ex; simpl.
  - destruct Hm. constructor; simpl; auto.
    + rewrite m_nidx0, set_cell_first by lia. auto.
    + rewrite m_nidx0, set_cell_len by lia. lia.
    + intros u Hu. rewrite m_nidx0, set_cell_cur by lia. rewrite get_set.
      destruct (tid_eqb t u) eqn:Et.
      * apply tid_eqb_eq in Et. subst u. rewrite m_cnt0, m_rows0, HE, app_nil_r. reflexivity.
      * rewrite orb_false_r in Hu. auto.
    + intros u Hu. unfold hascol in *. simpl. apply hascol_app. apply m_cols0. auto.
    + intros u Hu. unfold hascol in *. simpl. apply hascol_app. apply m_col0. auto.
    + intros _. rewrite m_nidx0, set_cell_len by lia. reflexivity.
    + intros u Hu. rewrite (m_exC0 u Hu). reflexivity.
  - destruct Hm. constructor; auto.
    + intros u Hu. apply orb_true_iff in Hu. destruct Hu as [Hu|Hu]; auto.
      apply tid_eqb_eq in Hu. subst u. apply m_cell0. apply m_exC0. exact Ex.
    + intros u Hu. rewrite (m_exC0 u Hu). reflexivity.
Qed.

Lemma preset_mid : forall st0, inv st0 -> mid st0 (preset st0) (fun _ => []) (thrown st0) false (fun _ => true).
Proof.
  intros st0 I. pose proof (mid_init st0 I) as H0.
  assert (Hg : 0 <= nidx st0) by (rewrite (inv_nidx _ I); apply zlen_nonneg).
  unfold preset. simpl.
  pose proof (wi_preset_mid _ _ _ _ _ _ W H0 eq_refl Hg) as H1.
  pose proof (wi_preset_mid _ _ _ _ _ _ T H1 eq_refl Hg) as H2.
  pose proof (wi_preset_mid _ _ _ _ _ _ P H2 eq_refl Hg) as H3.
  pose proof (wi_preset_mid _ _ _ _ _ _ R H3 eq_refl Hg) as H4.
  pose proof (wi_preset_mid _ _ _ _ _ _ M H4 eq_refl Hg) as H5.
  pose proof (wi_preset_mid _ _ _ _ _ _ N H5 eq_refl Hg) as H6.
  destruct H6. constructor; auto.
  intros t _. apply m_cell0. destruct t; simpl; rewrite ?orb_true_r; reflexivity.
Qed.

Lemma commit_mid : forall st0 s E th full C t new, mid st0 s E th full C -> E t = [] -> 0 <= nidx st0 ->
  mid st0 (commit s t new) (upd E t new) th true C.
Proof.
  intros st0 s E th full C t new Hm HE Hg. destruct Hm.
  rewrite commit_eq by apply m_cnt0.
  constructor; unfold rows, cnt, ex, hascol, upd in *; simpl; auto.
  - intro u. rewrite get_set. destruct (tid_eqb t u) eqn:Et; auto.
    apply tid_eqb_eq in Et. subst u. rewrite m_rows0, HE, app_nil_r. reflexivity.
  - intro u. rewrite !get_set. destruct (tid_eqb t u) eqn:Et; auto.
    apply tid_eqb_eq in Et. subst u. rewrite zlen_app. rewrite m_cnt0. reflexivity.
  - rewrite m_nidx0, set_cell_first by lia. auto.
  - rewrite m_nidx0, set_cell_len by lia. lia.
  - intros u Hu. rewrite m_nidx0, set_cell_cur by lia. rewrite get_set.
    destruct (tid_eqb t u) eqn:Et; auto.
    apply tid_eqb_eq in Et. subst u. rewrite m_cnt0, m_rows0, HE, app_nil_r. reflexivity.
  - intros u Hu. rewrite !get_set in *. destruct (tid_eqb t u); try discriminate. auto.
  - intros u Hu. apply hascol_app. apply m_cols0. auto.
  - intros u Hu. destruct (tid_eqb t u) eqn:Et.
    + apply tid_eqb_eq in Et. subst u. apply hascol_new.
    + apply hascol_app. apply m_col0. auto.
  - intro Hx. change (get (set (exOf s) t true) P = false) in Hx.
    rewrite get_set in Hx. destruct (tid_eqb t P); try discriminate. auto.
  - intros _. rewrite m_nidx0, set_cell_len by lia. reflexivity.
  - intros u Hu. rewrite get_set in Hu. destruct (tid_eqb t u); try discriminate. auto.
  - intros u Hu. rewrite get_set. destruct (tid_eqb t u); auto.
  - intro Hth. change (get (set (exOf s) t true) P = true). rewrite get_set. destruct (tid_eqb t P); auto.
Qed.

Lemma mid_set_thrown : forall st0 s E th full C v, mid st0 s E th full C -> ex s P = true ->
  mid st0 (set_thrown s v) E v full C.
Proof.
  intros st0 s E th full C v Hm Hx. destruct Hm. constructor; auto.
  unfold ex in *. simpl in *. intro H. congruence.
Qed.

Lemma mid_full_weaken : forall st0 s E th full C, mid st0 s E th full C -> mid st0 s E th false C.
Proof. intros. destruct H. constructor; auto. discriminate. Qed.

Lemma commit_ex : forall s t new, ex (commit s t new) t = true.
Proof.
  intros. unfold commit, write_indices, put_rows, alloc, create_resize, set_cnt, set_rows, ex. simpl.
  rewrite get_set_same. simpl. apply get_set_same.
Qed.

(* ------------------------------------------------------------------ the stages of add *)
Definition stage_post (st0 : wstate) (r : res) (E : tid -> list row) (th : option Z) (full : bool) : Prop :=
  match r with
  | Ok s' => mid st0 s' E th full (fun _ => true)
  | Err s' _ => part st0 s'
  end.

Lemma cond_records : forall o a k b, cond o a k = inr b -> b = records o a k.
Proof.
  intros o a k b H. unfold cond, records, trig_val in *.
  destruct (write_data o k); simpl; [| congruence].
  destruct (trig_only o k); simpl; [| congruence].
  destruct (check_trigger (a_trig a)); congruence.
Qed.

Section Stages.
Variable o : opts.
Variable d : Z.
Variable hd : bool.
Variable a : add_in.
Variable st0 : wstate.
Hypothesis Hg : 0 <= nidx st0.

Let CT := fun _ : tid => true.

Lemma thrown_put : forall s t c r, thrown (put_rows s t c r) = thrown s.
Proof. reflexivity. Qed.
Lemma thrown_wi : forall s t x y, thrown (write_indices s t x y) = thrown s.
Proof. intros. unfold write_indices. destruct (negb (get (exOf s) t)); reflexivity. Qed.
Lemma thrown_alloc : forall s t k, thrown (alloc s t k) = thrown s.
Proof. reflexivity. Qed.

Lemma particles_ok : forall s E th full new, mid st0 s E th full CT -> E P = [] ->
  mid st0 (set_thrown (put_rows (write_indices (alloc s P (zlen new)) P (get (cntOf s) P) (zlen new)) P (get (cntOf s) P) new)
            (Some (match thrown (put_rows (write_indices (alloc s P (zlen new)) P (get (cntOf s) P) (zlen new)) P (get (cntOf s) P) new)
                   with Some x => x | None => 0 end + a_thrown a)))
      (upd E P new) (Some (match th with Some x => x | None => 0 end + a_thrown a)) true CT.
Proof.
  intros s E th full new Hm HE.
  rewrite thrown_put, thrown_wi, thrown_alloc. rewrite (m_thr _ _ _ _ _ _ Hm).
  rewrite put_write_comm. fold (cnt s P). fold (commit s P new).
  eapply mid_set_thrown; [apply (commit_mid _ _ _ _ _ _ P new Hm HE Hg) | apply commit_ex].
Qed.

Lemma st_particles_post : forall s E th full, mid st0 s E th full CT -> E P = [] ->
  stage_post st0 (st_particles s a) (upd E P (part_rows a))
    (Some (match th with Some x => x | None => 0 end + a_thrown a)) true.
Proof.
  intros s E th full Hm HE. unfold st_particles.
  remember (part_rows a) as new.
  pose proof (particles_ok s E th full new Hm HE) as HOk.
  destruct (a_fault a); try exact HOk.
  destruct new; try exact HOk.
  simpl. apply wi_part; auto. eapply alloc_part; eauto. apply zlen_nonneg.
Qed.

Lemma stage_skip : forall s E th full t, mid st0 s E th full CT -> E t = [] -> mid st0 s (upd E t []) th full CT.
Proof.
  intros. eapply mid_ext; eauto. intro u. unfold upd. destruct (tid_eqb t u) eqn:Et; auto.
  apply tid_eqb_eq in Et. subst u. auto.
Qed.

Lemma stage_post_weaken : forall r E th full, stage_post st0 r E th true -> stage_post st0 r E th full.
Proof. intros r E th full H. destruct full; auto. destruct r; simpl in *; auto. eapply mid_full_weaken; eauto. Qed.

Lemma stage_P : forall s E th full, mid st0 s E th full CT -> E P = [] ->
  stage_post st0 (guarded o a OP s (fun s => st_particles s a))
    (upd E P (expected o a P))
    (if records o a OP then Some (match th with Some x => x | None => 0 end + a_thrown a) else th)
    (full || records o a OP).
Proof.
  intros s E th full Hm HE. unfold guarded.
  destruct (cond o a OP) as [e|b] eqn:Hc; simpl.
  - eapply mid_part; eauto.
  - rewrite (cond_records _ _ _ _ Hc). unfold expected.
    destruct (records o a OP); simpl.
    + rewrite orb_true_r. eapply st_particles_post; eauto.
    + rewrite orb_false_r. apply stage_skip; auto.
Qed.

Lemma cnt_alloc : forall s t k, get (cntOf (alloc s t k)) t = get (cntOf s) t + k.
Proof. intros. unfold alloc, create_resize, set_cnt. simpl. apply get_set_same. Qed.
Lemma cnt_put : forall s t c r u, get (cntOf (put_rows s t c r)) u = get (cntOf s) u.
Proof. reflexivity. Qed.
Lemma cnt_wi : forall s t x y u, get (cntOf (write_indices s t x y)) u = get (cntOf s) u.
Proof. intros. unfold write_indices. destruct (negb (get (exOf s) t)); reflexivity. Qed.

Lemma st_waves_post : forall s E th full, mid st0 s E th full CT -> E W = [] ->
  stage_post st0 (st_waves hd s a) (upd E W (wave_rows a)) th true.
Proof.
  intros s E th full Hm HE. unfold st_waves.
  destruct hd; simpl; [| eapply mid_part; eauto].
  destruct (has_bad_wave a); simpl.
  - eapply alloc_part; eauto. apply max_waves_nonneg.
  - rewrite <- (zlen_wave_rows a). fold (cnt s W). fold (commit s W (wave_rows a)).
    eapply commit_mid; eauto.
Qed.

Lemma st_rays_post : forall s E th full, mid st0 s E th full CT -> E R = [] ->
  stage_post st0 (st_rays d hd s a) (upd E R (ray_rows a)) th true.
Proof.
  intros s E th full Hm HE. unfold st_rays.
  destruct hd; simpl; [| eapply mid_part; eauto].
  destruct (a_rays a) as [rp|] eqn:Hr; simpl; [| eapply mid_part; eauto].
  destruct (zlen rp =? d); simpl; [| eapply mid_part; eauto].
  assert (HOk : forall b : bool,
    stage_post st0 (if b then Err (alloc s R (zlen (ray_rows a))) EIndex
                    else Ok (write_indices (put_rows (alloc s R (zlen (ray_rows a))) R (get (cntOf s) R) (ray_rows a)) R (get (cntOf s) R) (zlen (ray_rows a))))
               (upd E R (ray_rows a)) th true).
  { intros [|]; simpl.
    - eapply alloc_part; eauto. apply zlen_nonneg.
    - fold (cnt s R). fold (commit s R (ray_rows a)). eapply commit_mid; eauto. }
  destruct (a_pols a) as [| | |i|i j] eqn:Hp; simpl; try (eapply mid_part; eauto; fail).
  - exact (HOk false).
  - destruct ((0 <=? i) && (i <? zlen rp)); simpl; [eapply mid_part; eauto | exact (HOk false)].
  - exact (HOk ((0 <=? i) && (i <? zlen rp) && (0 <=? j) && (j <? zlen (nthZ rp i [])))).
Qed.

Lemma st_noise_post : forall s E th full, mid st0 s E th full CT -> E N = [] ->
  stage_post st0 (st_noise hd s a) (upd E N [a_noise a]) th true.
Proof.
  intros s E th full Hm HE. unfold st_noise.
  destruct hd; cbn [negb]; [| eapply mid_part; eauto].
  rewrite !cnt_wi, !cnt_alloc.
  replace (get (cntOf s) N + 1 - 1) with (get (cntOf s) N) by lia.
  assert (HOk : mid st0 (put_rows (write_indices (alloc s N 1) N (get (cntOf s) N) 1) N (get (cntOf s) N) [a_noise a])
                    (upd E N [a_noise a]) th true CT).
  { rewrite put_write_comm. change 1 with (zlen [a_noise a]). fold (cnt s N). fold (commit s N [a_noise a]).
    eapply commit_mid; eauto. }
  destruct (a_fault a); try exact HOk.
  destruct (a_noise a) eqn:Hn; try exact HOk.
  simpl. apply wi_part; auto. eapply alloc_part; eauto. lia.
Qed.

Lemma st_trigger_post : forall s E th full incl g, mid st0 s E th full CT -> E T = [] -> E M = [] ->
  check_trigger (a_trig a) = inr g ->
  stage_post st0 (st_trigger hd s a incl)
    (upd (upd E T [[b2z g]]) M (if incl || has_extra a then mc_rows incl a else [])) th true.
Proof.
  intros s E th full incl g Hm HT HM Hc. unfold st_trigger. rewrite Hc.
  change (create_resize (set_cnt s T (get (cntOf s) T + 1)) T) with (alloc s T 1).
  rewrite !cnt_put, !cnt_alloc.
  replace (get (cntOf s) T + 1 - 1) with (get (cntOf s) T) by lia.
  change 1 with (zlen [[b2z g]]) at 1 3.
  fold (cnt s T). fold (commit s T [[b2z g]]).
  pose proof (commit_mid _ _ _ _ _ _ T [[b2z g]] Hm HT Hg) as H4.
  assert (HM' : upd E T [[b2z g]] M = []) by (unfold upd; simpl; exact HM).
  destruct (incl || has_extra a); simpl.
  - destruct hd; cbn [negb]; [| eapply mid_part; eauto].
    destruct (incl && has_bad_wave a); simpl.
    + eapply alloc_part; eauto. apply max_waves_nonneg.
    + destruct (extra_short a); simpl.
      * eapply alloc_part; eauto. apply max_waves_nonneg.
      * rewrite <- (zlen_mc_rows incl a).
        fold (cnt (commit s T [[b2z g]]) M). fold (commit (commit s T [[b2z g]]) M (mc_rows incl a)).
        eapply commit_mid; eauto.
  - apply stage_skip; auto.
Qed.

Lemma check_trig_val : forall g, check_trigger (a_trig a) = inr g -> trig_val a = g.
Proof. intros g H. unfold trig_val. rewrite H. reflexivity. Qed.

Lemma stage_T : forall s E th full, mid st0 s E th full CT -> E T = [] -> E M = [] ->
  stage_post st0 (guarded o a OT s (fun s =>
          match cond o a OA with
          | inl e => Err s e
          | inr incl => st_trigger hd s a incl
          end))
    (upd (upd E T (expected o a T)) M (expected o a M)) th full.
Proof.
  intros s E th full Hm HT HM. unfold guarded.
  destruct (cond o a OT) as [e|b] eqn:Hc; simpl.
  - eapply mid_part; eauto.
  - pose proof (cond_records _ _ _ _ Hc) as Hb. subst b. unfold expected.
    destruct (records o a OT) eqn:HrT; simpl.
    + destruct (cond o a OA) as [e|incl] eqn:HcA; simpl.
      * eapply mid_part; eauto.
      * pose proof (cond_records _ _ _ _ HcA) as Hi. subst incl.
        destruct (check_trigger (a_trig a)) as [e|g] eqn:Hck.
        -- unfold st_trigger. rewrite Hck. eapply setcnt_part; eauto.
        -- rewrite (check_trig_val g Hck). apply stage_post_weaken.
           eapply st_trigger_post; eauto.
    + apply stage_skip; [apply stage_skip; auto |]. unfold upd. simpl. exact HM.
Qed.

Lemma stage_simple : forall k t (f : wstate -> res) new s E th full,
  (forall s E th full, mid st0 s E th full CT -> E t = [] -> stage_post st0 (f s) (upd E t new) th true) ->
  mid st0 s E th full CT -> E t = [] ->
  stage_post st0 (guarded o a k s f) (upd E t (if records o a k then new else [])) th full.
Proof.
  intros k t f new s E th full Hf Hm HE. unfold guarded.
  destruct (cond o a k) as [e|b] eqn:Hc; simpl.
  - eapply mid_part; eauto.
  - pose proof (cond_records _ _ _ _ Hc) as Hb. subst b.
    destruct (records o a k); simpl.
    + apply stage_post_weaken. eapply Hf; eauto.
    + apply stage_skip; auto.
Qed.

Definition th_after (st : wstate) : option Z :=
  if records o a OP then Some (tv st + a_thrown a) else thrown st.

Lemma body_post : inv st0 ->
  stage_post st0 (body o d hd st0 a) (expected o a) (th_after st0) (records o a OP).
Proof.
  intro I. unfold body.
  pose proof (preset_mid st0 I) as H0.
  pose proof (stage_P _ _ _ _ H0 eq_refl) as H1. simpl in H1.
  destruct (guarded o a OP (preset st0) (fun s => st_particles s a)) as [s1|s1 e1]; simpl in *; auto.
  pose proof (stage_T _ _ _ _ H1 eq_refl eq_refl) as H2.
  destruct (guarded o a OT s1 _) as [s2|s2 e2]; simpl in *; auto.
  pose proof (stage_simple OR R (fun s => st_rays d hd s a) (ray_rows a) _ _ _ _ st_rays_post H2 eq_refl) as H3.
  destruct (guarded o a OR s2 _) as [s3|s3 e3]; simpl in *; auto.
  pose proof (stage_simple ON N (fun s => st_noise hd s a) [a_noise a] _ _ _ _ st_noise_post H3 eq_refl) as H4.
  destruct (guarded o a ON s3 _) as [s4|s4 e4]; simpl in *; auto.
  pose proof (stage_simple OW W (fun s => st_waves hd s a) (wave_rows a) _ _ _ _ st_waves_post H4 eq_refl) as H5.
  destruct (guarded o a OW s4 _) as [s5|s5 e5]; simpl in *; auto.
  eapply mid_ext; [exact H5|]. intro t. destruct t; reflexivity.
Qed.

End Stages.

(* ------------------------------------------------------------------ add as a whole *)
Lemma inv_nidx_nonneg : forall st, inv st -> 0 <= nidx st.
Proof. intros st I. rewrite (inv_nidx _ I). apply zlen_nonneg. Qed.

Lemma colOf_app : forall ix r t, colOf (ix ++ [r]) t = colOf ix t ++ [get r t].
Proof. intros. unfold colOf. rewrite map_app. reflexivity. Qed.

Lemma hascol_bump : forall s, forall t, hascol (mkW (rowsOf s) (cntOf s) (exOf s) (cols s) (idx s) (nidx s + 1) (thrown s) (ana s)) t = hascol s t.
Proof. reflexivity. Qed.

(* an accepted add appends exactly the recorded rows and one index row addressing them *)
Theorem add_acc_full : forall o d hd st a st',
  inv st -> records o a OP = true -> add o d hd st a = (st', Acc) ->
  (forall t, rows st' t = rows st t ++ expected o a t) /\
  (exists r, idx st' = idx st ++ [r] /\ forall t, get r t = (zlen (rows st t), zlen (expected o a t))) /\
  nidx st' = nidx st + 1 /\
  thrown st' = Some (tv st + a_thrown a) /\
  ex st' P = true /\
  inv st' /\ ana st' = ana st.
Proof.
  intros o d hd st a st' I HP Hadd. unfold add in Hadd.
  destruct (wR o && (is_none (a_rays a) || pols_none (a_pols a))); [discriminate|].
  destruct (any_trig_only o && trig_none (a_trig a)); [discriminate|].
  pose proof (body_post o d hd a st (inv_nidx_nonneg _ I) I) as Hb.
  destruct (body o d hd st a) as [s|s e]; [| discriminate].
  inversion Hadd; subst st'; clear Hadd. simpl in Hb. rewrite HP in Hb.
  destruct Hb.
  pose proof (inv_nidx_nonneg _ I) as Hg.
  assert (Hlen : zlen (idx s) = nidx st + 1) by (apply m_full0; reflexivity).
  assert (Hidx : idx s = idx st ++ [cur_row (idx s) (nidx st)]).
  { assert (Hne : idx s <> []) by (intro Hn; rewrite Hn in Hlen; unfold zlen in Hlen; simpl in Hlen; lia).
    rewrite (firstn_snoc_split (idx s) zero_cells Hne) at 1.
    assert (Hn : (length (idx s) - 1)%nat = Z.to_nat (nidx st)) by (unfold zlen in Hlen; lia).
    rewrite Hn. rewrite m_first0. unfold cur_row, nthZ.
    destruct (nidx st <? 0) eqn:E; [lia|]. reflexivity. }
  assert (HexP : ex s P = true).
  { apply m_thrE0. unfold th_after. rewrite HP. discriminate. }
  split; [| split; [| split; [| split; [| split; [| split; [| exact m_ana0]]]]]].
  - exact m_rows0.
  - exists (cur_row (idx s) (nidx st)). split; [exact Hidx|]. intro t. apply m_cell0. reflexivity.
  - simpl. lia.
  - simpl. rewrite m_thr0. unfold th_after. rewrite HP. reflexivity.
  - exact HexP.
  - constructor; unfold rows, cnt, ex in *; simpl.
    + exact m_cnt0.
    + lia.
    + exact m_noex0.
    + intros t Ht. rewrite hascol_bump. rewrite m_rows0 in Ht.
      destruct (get (rowsOf st) t) eqn:Hr.
      * apply m_col0. simpl in Ht. exact Ht.
      * apply m_cols0. apply (inv_col _ I). unfold rows. rewrite Hr. discriminate.
    + intro t. rewrite Hidx, colOf_app, m_cell0 by reflexivity.
      rewrite m_rows0, zlen_app. apply chain_snoc; [apply (inv_chain _ I) | apply zlen_nonneg].
    + intros _. exact HexP.
Qed.

(* a rejected add leaves rows, counters, index table and total_thrown exactly as they were *)
Theorem add_rej_full : forall o d hd st a st' e,
  inv st -> add o d hd st a = (st', Rej e) ->
  rowsOf st' = rowsOf st /\ cntOf st' = cntOf st /\ idx st' = idx st /\ nidx st' = nidx st /\ thrown st' = thrown st /\ inv st' /\ ana st' = ana st.
Proof.
  intros o d hd st a st' e I Hadd. unfold add in Hadd.
  destruct (wR o && (is_none (a_rays a) || pols_none (a_pols a))); [inversion Hadd; subst; auto 10|].
  destruct (any_trig_only o && trig_none (a_trig a)); [inversion Hadd; subst; auto 10|].
  pose proof (body_post o d hd a st (inv_nidx_nonneg _ I) I) as Hb.
  destruct (body o d hd st a) as [s|s e']; [discriminate|].
  inversion Hadd; subst st' e'; clear Hadd. simpl in Hb. destruct Hb.
  pose proof (inv_nidx_nonneg _ I) as Hg.
  assert (Hrows : rowsOf (rollback st s) = rowsOf st).
  { apply per_ext. intro t. unfold rollback. simpl. rewrite get_per_map.
    destruct (p_rows0 t) as [X HX]. unfold rows in HX. fold (ex s t).
    destruct (ex s t) eqn:Ex.
    - fold (cnt st t). rewrite (inv_cnt _ I). rewrite HX.
      destruct (zlen (rows st t) <? zlen (get (rowsOf st) t ++ X)) eqn:El.
      + rewrite to_nat_zlen. apply firstn_app_exact.
      + rewrite zlen_app in El. unfold rows in El. pose proof (zlen_nonneg X).
        assert (zlen X = 0) by lia. rewrite (zlen_zero_nil X H0). apply app_nil_r.
    - pose proof (p_noex0 t Ex) as Hn. unfold rows in Hn. rewrite HX in Hn.
      apply app_eq_nil in Hn. destruct Hn as [Hn1 Hn2]. rewrite HX, Hn2. apply app_nil_r. }
  assert (Hidx : idx (rollback st s) = idx st).
  { unfold rollback. simpl. destruct (nidx st <? zlen (idx s)) eqn:El.
    - exact p_first0.
    - assert (zlen (idx s) = nidx st) by lia. rewrite <- p_first0. rewrite <- H. rewrite to_nat_zlen.
      symmetry. apply firstn_all. }
  assert (Hthr : thrown (rollback st s) = thrown st).
  { unfold rollback. simpl. change (pP (exOf s)) with (ex s P). destruct (ex s P) eqn:Ex; auto. }
  split; [exact Hrows|]. split; [reflexivity|]. split; [exact Hidx|]. split; [reflexivity|]. split; [exact Hthr|].
  split; [| exact p_ana0].
  destruct I. constructor; unfold rows, cnt, ex, hascol in *; try rewrite Hrows; try rewrite Hidx; try rewrite Hthr; auto.
  - intros t Ht. simpl in Ht. apply inv_noex0. destruct (get (exOf st) t) eqn:E0; auto.
    rewrite (p_ex0 t E0) in Ht. discriminate.
Qed.

Theorem add_acc : forall o d hd st a st',
  inv st -> records o a OP = true -> add o d hd st a = (st', Acc) ->
  (forall t, rows st' t = rows st t ++ expected o a t) /\
  (exists r, idx st' = idx st ++ [r] /\ forall t, get r t = (zlen (rows st t), zlen (expected o a t))) /\
  nidx st' = nidx st + 1 /\
  thrown st' = Some (tv st + a_thrown a) /\
  ex st' P = true /\
  inv st'.
Proof.
  intros o d hd st a st' I HP Ha.
  destruct (add_acc_full _ _ _ _ _ _ I HP Ha) as [A [B [C [D [E [F _]]]]]]. auto 10.
Qed.

Theorem add_rej : forall o d hd st a st' e,
  inv st -> add o d hd st a = (st', Rej e) ->
  rowsOf st' = rowsOf st /\ cntOf st' = cntOf st /\ idx st' = idx st /\ nidx st' = nidx st /\
  thrown st' = thrown st /\ inv st'.
Proof.
  intros o d hd st a st' e I Ha.
  destruct (add_rej_full _ _ _ _ _ _ _ I Ha) as [A [B [C [D [E [F _]]]]]]. auto 10.
Qed.

(* add() never touches the analysis dataset or its index entries *)
Theorem add_ana : forall o d hd st a, inv st -> records o a OP = true -> ana (fst (add o d hd st a)) = ana st.
Proof.
  intros o d hd st a I HP. destruct (add o d hd st a) as [st' oc] eqn:Ha. simpl. destruct oc.
  - apply (add_acc_full _ _ _ _ _ _ I HP Ha).
  - apply (add_rej_full _ _ _ _ _ _ _ I Ha).
Qed.

(* reopening in append mode recovers exactly the counters the writer had *)
Theorem reopen_id : forall st, inv st -> reopen st = st.
Proof.
  intros st I. destruct st as [r c e co ix n th an]. unfold reopen. simpl.
  f_equal.
  - apply per_ext. intro t. rewrite get_per_map.
    pose proof (inv_cnt _ I t) as Hc. pose proof (inv_noex _ I t) as Hn. unfold cnt, rows, ex in *. simpl in *.
    destruct (get e t); auto. rewrite Hc. rewrite Hn; auto.
  - pose proof (inv_nidx _ I). simpl in *. auto.
Qed.
