(* Hand model of the list / control-flow code of the gradient-index tracers that C02 reasons about
   (pyrex/ray_tracing.py; pinned by AST hash, harness/pins/C02.json):
     BasicRayTracer.expected_solutions / exists / solutions     (inherited by SpecializedRayTracer)
     SpecializedRayTracePath._z_int_uniform_correction (analytic branch) and z_integral
     BasicRayTracer.direct_angle / _get_launch_angle             (composition of the translated snippets)
   The solver (brentq inside angle_search) and the two distance maxima are parameters. *)
From Coq Require Import Reals List Bool.
From PyrexLib Require Import RealPrims.
Import ListNotations.
Open Scope R_scope.

(* expected_solutions *)
Definition expected_solutions (contains_from contains_to : bool) (rho direct_r_max indirect_r_max : R) : list bool :=
  if negb (contains_from && contains_to) then [false; false; false]
  else if Rltb rho direct_r_max then [true; false; true]
  else if Rltb rho indirect_r_max then [false; true; true]
  else [false; false; false].

(* exists: True in self.expected_solutions *)
Definition tracer_exists (expected : list bool) : bool := existsb (fun b => b) expected.

(* solutions: [path(angle, direct=(i==0)) for i, angle, exists in zip(range(3), angles, expected) if exists and angle is not None] *)
Fixpoint solutions_from (i : nat) (angles : list (option R)) (expected : list bool) : list (R * bool) :=
  match angles, expected with
  | a :: angles', e :: expected' =>
      (match a with Some th => if e then [(th, Nat.eqb i 0)] else [] | None => [] end)
      ++ solutions_from (S i) angles' expected'
  | _, _ => []
  end.
Definition tracer_solutions_g (angles : list (option R)) (expected : list bool) : list (R * bool) :=
  solutions_from 0 angles expected.

(* _z_int_uniform_correction, analytic branch: F z deep is the indefinite integral *)
Definition zint_corr (F : R -> bool -> R) (z_uniform z0 z1 : R) : R :=
  let int_z0 := F z0 (Rltb z0 z_uniform) in
  let int_z1 := F z1 (Rltb z1 z_uniform) in
  if Bool.eqb (Rltb z0 z_uniform) (Rltb z1 z_uniform) then int_z1 - int_z0
  else let int_diff := F z_uniform true - F z_uniform false in
       if Rltb z0 z1 then int_z1 - int_z0 + int_diff else int_z1 - int_z0 - int_diff.

(* z_integral of a path (z0, z1 = depths of from_point, to_point) *)
Definition z_integral (F : R -> bool -> R) (z_uniform z0 z1 z_turn : R) (direct : bool) : R :=
  if direct then zint_corr F z_uniform z0 z1
  else zint_corr F z_uniform z0 z_turn + zint_corr F z_uniform z1 z_turn.
