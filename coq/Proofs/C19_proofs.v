(* C19 proofs about coq/Model/DetectorModel.v: all detector trees, all hit patterns,
   all keyword lists. *)
From Coq Require Import List ZArith Bool Lia Arith.
From PyrexModel Require Import DetectorModel.
Import ListNotations.
Open Scope Z_scope.

(* ------------------------------------------------------------ induction on trees *)
Section DetInd.
  Variable P : det -> Prop.
  Hypothesis HA : forall a, P (Ant a).
  Hypothesis HL : forall l, P (AList l).
  Hypothesis HN : forall o k m p subs, Forall P subs -> P (Node o k m p subs).
  Fixpoint det_ind' (t : det) : P t :=
    match t with
    | Ant a => HA a
    | AList l => HL l
    | Node o k m p subs =>
      HN o k m p subs ((fix go (l : list det) : Forall P l :=
                          match l with
                          | [] => Forall_nil P
                          | s :: r => Forall_cons s (det_ind' s) (go r)
                          end) subs)
    end.
End DetInd.

(* ------------------------------------------------------------ flatten and addition *)
Lemma flatten_node o k m p subs : flatten (Node o k m p subs) = flat_map flatten subs.
Proof. reflexivity. Qed.

Lemma flat_map_app' {A B} (f : A -> list B) l1 l2 :
  flat_map f (l1 ++ l2) = flat_map f l1 ++ flat_map f l2.
Proof. induction l1; simpl; [reflexivity | rewrite IHl1, app_assoc; reflexivity]. Qed.

Lemma flatten_subsets t : is_node t = true -> flatten t = flat_map flatten (subsets t).
Proof. destruct t; simpl; intros H; try discriminate; reflexivity. Qed.

Lemma is_comb_node t : is_comb t = true -> is_node t = true.
Proof. destruct t as [| |o [c|] m p s]; simpl; intros; try discriminate; reflexivity. Qed.

Lemma mkcomb_ok ct oid subs t :
  mkcomb ct oid subs = Ok t -> flatten t = flat_map flatten subs /\ is_comb t = true /\ test_positions ct t = true.
Proof.
  unfold mkcomb. destruct (test_positions ct _) eqn:E; intros H; inversion H; subst.
  repeat split; auto.
Qed.

Lemma det_add_flat ct oid a b t :
  det_add ct oid a b = Ok t -> flatten t = flatten a ++ flatten b.
Proof.
  unfold det_add. intros H. apply mkcomb_ok in H as [H _]. rewrite H. simpl. rewrite app_nil_r. reflexivity.
Qed.

Lemma det_radd_flat ct oid self other t :
  det_radd ct oid self other = Ok t -> flatten t = flatten other ++ flatten self.
Proof.
  unfold det_radd. intros H. apply mkcomb_ok in H as [H _]. rewrite H. simpl. rewrite app_nil_r. reflexivity.
Qed.

Lemma comb_add_flat ct oid self other t :
  is_node self = true -> comb_add ct oid self other = Ok t -> flatten t = flatten self ++ flatten other.
Proof.
  unfold comb_add. intros Hs H. destruct (is_comb other) eqn:Eo;
    apply mkcomb_ok in H as [H _]; rewrite H, flat_map_app', (flatten_subsets self Hs).
  - rewrite (flatten_subsets other (is_comb_node _ Eo)). reflexivity.
  - simpl. rewrite app_nil_r. reflexivity.
Qed.

Lemma comb_radd_flat ct oid self other t :
  is_node self = true -> comb_radd ct oid self other = Ok t -> flatten t = flatten other ++ flatten self.
Proof.
  unfold comb_radd. intros Hs H. destruct (is_comb other) eqn:Eo;
    apply mkcomb_ok in H as [H _]; rewrite H.
  - rewrite flat_map_app', (flatten_subsets self Hs), (flatten_subsets other (is_comb_node _ Eo)). reflexivity.
  - simpl. rewrite (flatten_subsets self Hs). reflexivity.
Qed.

Lemma comb_iadd_flat ct self other t :
  comb_iadd ct self other = Ok t -> flatten t = flatten self ++ flatten other.
Proof.
  unfold comb_iadd. destruct self as [| |o [c|] m p subs]; try discriminate.
  destruct (test_positions ct _) eqn:E; intros H; inversion H; subst; clear H. simpl.
  destruct (is_comb other) eqn:Eo; rewrite flat_map_app'.
  - rewrite (flatten_subsets other (is_comb_node _ Eo)). reflexivity.
  - simpl. rewrite app_nil_r. reflexivity.
Qed.

(* += keeps the identity of the object *)
Lemma comb_iadd_same_object ct o m p subs other t :
  comb_iadd ct (Node o KComb m p subs) other = Ok t -> exists m' subs', t = Node o KComb m' p subs'.
Proof.
  unfold comb_iadd. destruct (test_positions ct _); intros H; inversion H; eauto.
Qed.

(* every dispatch case of Python's a + b *)
Lemma flatten_add_lemma ct oid a b t :
  py_add ct oid a b = Ok t -> flatten t = flatten a ++ flatten b.
Proof.
  unfold py_add. destruct a as [x|l|o [c|] m p s].
  - destruct b as [y|l'|o' [c'|] m' p' s']; try discriminate.
    + apply det_radd_flat.
    + apply comb_radd_flat; reflexivity.
  - destruct b as [y|l'|o' [c'|] m' p' s']; try discriminate.
    + apply det_radd_flat.
    + apply comb_radd_flat; reflexivity.
  - apply det_add_flat.
  - apply comb_add_flat; reflexivity.
Qed.

Lemma py_add_is_comb ct oid a b t : py_add ct oid a b = Ok t -> is_comb t = true.
Proof.
  assert (Hm : forall subs, mkcomb ct oid subs = Ok t -> is_comb t = true).
  { intros subs H. apply mkcomb_ok in H. tauto. }
  unfold py_add, det_add, det_radd, comb_add, comb_radd.
  destruct a as [x|l|o [c|] m p s]; [destruct b as [y|l'|o' [c'|] m' p' s'] | destruct b as [y|l'|o' [c'|] m' p' s'] | | ];
    try discriminate; try apply Hm.
  all: match goal with |- context [if ?c then _ else _] => destruct c end; apply Hm.
Qed.

Lemma add_assoc_flat_lemma ct o1 o2 o3 o4 a b c ab abc bc abc' :
  py_add ct o1 a b = Ok ab -> py_add ct o2 ab c = Ok abc ->
  py_add ct o3 b c = Ok bc -> py_add ct o4 a bc = Ok abc' ->
  flatten abc = flatten abc'.
Proof.
  intros H1 H2 H3 H4.
  rewrite (flatten_add_lemma _ _ _ _ _ H2), (flatten_add_lemma _ _ _ _ _ H1),
          (flatten_add_lemma _ _ _ _ _ H4), (flatten_add_lemma _ _ _ _ _ H3), app_assoc.
  reflexivity.
Qed.

(* sum([d1; ...; dn]) *)
Lemma py_sum_from_flat ct l : forall oid acc t oid',
  py_sum_from ct oid acc l = (Ok t, oid') -> flatten t = flatten acc ++ flat_map flatten l.
Proof.
  induction l as [|d r IH]; simpl; intros oid acc t oid' H.
  - inversion H; subst. rewrite app_nil_r. reflexivity.
  - destruct (py_add ct oid acc d) eqn:E; [|discriminate].
    rewrite (IH _ _ _ _ H), (flatten_add_lemma _ _ _ _ _ E), app_assoc. reflexivity.
Qed.

Lemma sum_flat_lemma ct oid l t oid' :
  py_sum ct oid l = (Ok t, oid') -> flatten t = flat_map flatten l.
Proof.
  unfold py_sum. destruct l as [|d r]; [discriminate|]. destruct (is_node d); [|discriminate].
  intros H. rewrite (py_sum_from_flat _ _ _ _ _ _ H). reflexivity.
Qed.

(* sum of a single detector is that detector itself (0 + d returns d) *)
Lemma sum_single ct oid d : is_node d = true -> py_sum ct oid [d] = (Ok d, oid).
Proof. unfold py_sum. intros ->. reflexivity. Qed.

(* ------------------------------------------------------------ every antenna once *)
Lemma count_add ct oid a b t (x : ant) (eq_dec : forall u v : ant, {u = v} + {u <> v}) :
  py_add ct oid a b = Ok t ->
  count_occ eq_dec (flatten t) x = (count_occ eq_dec (flatten a) x + count_occ eq_dec (flatten b) x)%nat.
Proof. intros H. rewrite (flatten_add_lemma _ _ _ _ _ H), count_occ_app. reflexivity. Qed.

Lemma NoDup_app_intro {A} (l1 l2 : list A) :
  NoDup l1 -> NoDup l2 -> (forall x, In x l1 -> ~ In x l2) -> NoDup (l1 ++ l2).
Proof.
  induction l1 as [|a l1 IH]; simpl; intros H1 H2 Hd; auto.
  inversion H1; subst. constructor.
  - rewrite in_app_iff. intros [Hi|Hi]; [contradiction | exact (Hd a (or_introl eq_refl) Hi)].
  - apply IH; auto.
Qed.

Definition ids (t : det) : list Z := map a_id (flatten t).

Lemma each_antenna_once_lemma ct oid a b t :
  py_add ct oid a b = Ok t ->
  NoDup (ids a) -> NoDup (ids b) -> (forall i, In i (ids a) -> ~ In i (ids b)) ->
  NoDup (ids t) /\ ids t = ids a ++ ids b.
Proof.
  intros H Ha Hb Hd. unfold ids in *. rewrite (flatten_add_lemma _ _ _ _ _ H), map_app.
  split; [apply NoDup_app_intro; auto | reflexivity].
Qed.

Lemma members_add ct oid a b t x :
  py_add ct oid a b = Ok t -> (In x (flatten t) <-> In x (flatten a) \/ In x (flatten b)).
Proof. intros H. rewrite (flatten_add_lemma _ _ _ _ _ H). apply in_app_iff. Qed.

(* ------------------------------------------------------------ iteration, len, indexing *)
Lemma py_index_nonneg {A} (l : list A) (i : nat) :
  (i < length l)%nat -> py_index l (Z.of_nat i) = match nth_error l i with Some x => Ok x | None => Err EIndex end.
Proof.
  intros Hi. unfold py_index.
  assert (E1 : Z.of_nat i <? 0 = false) by (apply Z.ltb_ge; lia).
  assert (E2 : Z.of_nat (length l) <=? Z.of_nat i = false) by (apply Z.leb_gt; lia).
  cbv zeta. rewrite E1. cbv iota. rewrite E1, E2. simpl. rewrite Nat2Z.id. reflexivity.
Qed.

Lemma py_index_neg {A} (l : list A) (i : nat) :
  (i < length l)%nat -> py_index l (Z.of_nat i - Z.of_nat (length l)) = py_index l (Z.of_nat i).
Proof.
  intros Hi. unfold py_index.
  assert (E0 : Z.of_nat i - Z.of_nat (length l) <? 0 = true) by (apply Z.ltb_lt; lia).
  assert (E1 : Z.of_nat i <? 0 = false) by (apply Z.ltb_ge; lia).
  cbv zeta. rewrite E0, E1. cbv iota.
  replace (Z.of_nat i - Z.of_nat (length l) + Z.of_nat (length l)) with (Z.of_nat i) by lia.
  reflexivity.
Qed.

Lemma py_index_out {A} (l : list A) (k : Z) :
  (k >= Z.of_nat (length l) \/ k < - Z.of_nat (length l)) -> py_index l k = Err EIndex.
Proof.
  intros H. unfold py_index. cbv zeta. destruct (k <? 0) eqn:E.
  - apply Z.ltb_lt in E. destruct H as [H|H]; [lia|].
    assert (k + Z.of_nat (length l) <? 0 = true) as -> by (apply Z.ltb_lt; lia). reflexivity.
  - apply Z.ltb_ge in E. destruct H as [H|H]; [|lia].
    assert (E1 : k <? 0 = false) by (apply Z.ltb_ge; lia).
    assert (E2 : Z.of_nat (length l) <=? k = true) by (apply Z.leb_le; lia).
    rewrite E1, E2. reflexivity.
Qed.

Lemma iter_len_getitem_agree_lemma t :
  det_len t = Z.of_nat (length (flatten t)) /\
  (forall i a, nth_error (flatten t) i = Some a ->
     det_getitem t (Z.of_nat i) = Ok a /\ det_getitem t (Z.of_nat i - det_len t) = Ok a) /\
  (forall k, k >= det_len t \/ k < - det_len t -> det_getitem t k = Err EIndex).
Proof.
  split; [reflexivity|]. split.
  - intros i a H. assert (i < length (flatten t))%nat as Hi by (apply nth_error_Some; congruence).
    unfold det_getitem, det_len. rewrite py_index_neg, py_index_nonneg, H by assumption. auto.
  - intros k H. apply py_index_out. exact H.
Qed.

(* ------------------------------------------------------------ clear *)
Lemma hit_lookup_app_in l h x :
  In x (map fst l) -> (forall y v, In (y, v) l -> v = (false, false)) -> hit_lookup (l ++ h) x = (false, false).
Proof.
  induction l as [|[b v] l IH]; simpl; intros Hi Hv; [contradiction|].
  destruct (x =? b) eqn:E.
  - apply (Hv b v). left. reflexivity.
  - apply IH.
    + destruct Hi as [Hi|Hi]; [simpl in Hi; subst; rewrite Z.eqb_refl in E; discriminate | exact Hi].
    + intros y w Hy. apply (Hv y w). right. exact Hy.
Qed.

Lemma hit_lookup_app_notin l h x : ~ In x (map fst l) -> hit_lookup (l ++ h) x = hit_lookup h x.
Proof.
  induction l as [|[b v] l IH]; simpl; intros Hi; [reflexivity|].
  destruct (x =? b) eqn:E.
  - apply Z.eqb_eq in E. subst. exfalso. apply Hi. left. reflexivity.
  - apply IH. intros H. apply Hi. right. exact H.
Qed.

Lemma clear_clears_all_lemma h t :
  (forall a, In a (flatten t) -> hit_lookup (clear_hits h t) (a_id a) = (false, false)) /\
  (forall x, ~ In x (ids t) -> hit_lookup (clear_hits h t) x = hit_lookup h x) /\
  (forall r, clear_log t r = map (fun a => LClear (a_id a) r) (flatten t)).
Proof.
  unfold clear_hits, ids. repeat split.
  - intros a Ha. apply hit_lookup_app_in.
    + rewrite map_map. simpl. apply in_map_iff. exists a. auto.
    + intros y v Hy. apply in_map_iff in Hy as [z [Hz _]]. inversion Hz. reflexivity.
  - intros x Hx. apply hit_lookup_app_notin. rewrite map_map. simpl. exact Hx.
Qed.

Lemma any_hit_iff h mc t :
  any_hit h mc t = true <-> exists a, In a (flatten t) /\ ant_hit h mc a = true.
Proof. unfold any_hit. apply existsb_exists. Qed.

Lemma cleared_not_triggered h t mc : any_hit (clear_hits h t) mc t = false.
Proof.
  destruct (any_hit (clear_hits h t) mc t) eqn:E; [|reflexivity].
  apply any_hit_iff in E as [a [Ha Hh]].
  destruct (clear_clears_all_lemma h t) as [H _]. unfold ant_hit in Hh. rewrite (H a Ha) in Hh.
  destruct mc; discriminate.
Qed.

(* ------------------------------------------------------------ keyword routing: build *)
Lemma route_build_spec s kw :
  route_build s kw = filter (fun kv => accepts_kw s (fst kv)) kw.
Proof.
  unfold route_build. destruct (sig_varkw s) eqn:E; [|reflexivity].
  symmetry. induction kw as [|kv kw IH]; simpl; [reflexivity|].
  unfold accepts_kw at 1. rewrite E. simpl. f_equal. exact IH.
Qed.

Lemma route_build_in s kw kv :
  In kv (route_build s kw) <-> In kv kw /\ accepts_kw s (fst kv) = true.
Proof. rewrite route_build_spec. apply filter_In. Qed.

(* ------------------------------------------------------------ keyword routing: triggered *)
Lemma list_eqb_length {A} (e : A -> A -> bool) l1 : forall l2, list_eqb e l1 l2 = true -> length l1 = length l2.
Proof.
  induction l1 as [|x l1 IH]; destruct l2 as [|y l2]; simpl; intros H; try discriminate; auto.
  apply andb_prop in H as [_ H]. f_equal. apply IH. exact H.
Qed.

Lemma filter_length_le {A} (f : A -> bool) l : (length (filter f l) <= length l)%nat.
Proof. induction l as [|x l IH]; simpl; [lia|]. destruct (f x); simpl; lia. Qed.

Lemma remove_key_length_le k kw : (length (remove_key k kw) <= length kw)%nat.
Proof. unfold remove_key. apply filter_length_le. Qed.

Lemma remove_key_length_lt k kw : In k (map fst kw) -> (length (remove_key k kw) < length kw)%nat.
Proof.
  unfold remove_key. induction kw as [|[k' v] kw IH]; simpl; intros H; [contradiction|].
  destruct (k' =? k) eqn:E; simpl.
  - pose proof (filter_length_le (fun kv => negb (fst kv =? k)) kw). lia.
  - destruct H as [H|H]; [subst; rewrite Z.eqb_refl in E; discriminate|]. apply IH in H. lia.
Qed.

Lemma filter_remove_key acc k kw :
  acc k = false ->
  filter (fun kv => acc (fst kv)) (remove_key k kw) = filter (fun kv : Z * Z => acc (fst kv)) kw.
Proof.
  intros Hk. unfold remove_key. induction kw as [|[k' v] kw IH]; simpl; [reflexivity|].
  destruct (k' =? k) eqn:E; simpl.
  - apply Z.eqb_eq in E. subst. rewrite Hk. exact IH.
  - destruct (acc k'); [f_equal|]; exact IH.
Qed.

(* a callee that rejects the first keyword it does not accept (CPython's binding of a
   def with named parameters), and otherwise returns body(kw) *)
Definition rejecting_call {A} (acc : Z -> bool) (body : kwargs -> res A * list logent) (kw : kwargs)
  : res A * list logent :=
  match find (fun kv => negb (acc (fst kv))) kw with
  | Some kv => (Err (EKw (fst kv)), [])
  | None => body kw
  end.

Lemma find_none_filter acc (kw : kwargs) :
  find (fun kv => negb (acc (fst kv))) kw = None -> filter (fun kv => acc (fst kv)) kw = kw.
Proof.
  induction kw as [|kv kw IH]; simpl; [reflexivity|].
  destruct (acc (fst kv)); simpl; [intros H; f_equal; auto | discriminate].
Qed.

(* the removal loop ends by calling the subset with exactly the keywords it accepts,
   whatever the body does afterwards (provided the body itself does not fail with an
   unexpected-keyword error) *)
Lemma removal_loop_spec {A} acc (body : kwargs -> res A * list logent) :
  (forall kw b, fst (body kw) <> Err (EKw b)) ->
  forall fuel kw, (length kw < fuel)%nat ->
  removal_loop (rejecting_call acc body) fuel kw = body (filter (fun kv => acc (fst kv)) kw).
Proof.
  intros Hbody. induction fuel as [|f IH]; intros kw Hlen; [lia|]. simpl.
  unfold rejecting_call at 1. destruct (find _ kw) as [kv|] eqn:Ef.
  - apply find_some in Ef as [Hin Hacc]. apply negb_true_iff in Hacc.
    assert (Hk : In (fst kv) (map fst kw)) by (apply in_map; exact Hin).
    pose proof (remove_key_length_lt _ _ Hk) as Hlt.
    destruct (list_eqb pair_eqb (remove_key (fst kv) kw) kw) eqn:Eq.
    + apply list_eqb_length in Eq. lia.
    + rewrite IH by lia. rewrite filter_remove_key by exact Hacc.
      destruct (body _); reflexivity.
  - rewrite (find_none_filter _ _ Ef).
    destruct (body kw) as [[b|e] lg] eqn:Eb; [reflexivity|].
    destruct e; try reflexivity. exfalso. apply (Hbody kw k). rewrite Eb. reflexivity.
Qed.

(* the binding of a harness triggered override called with keywords only is such a callee *)
Lemma check_kw_find ps vk (kw : kwargs) :
  check_kw ps vk 0 kw =
  match find (fun kv => negb (vk || match index_of (fst kv) ps 0 with Some _ => true | None => false end)) kw with
  | Some kv => Some (EKw (fst kv))
  | None => None
  end.
Proof.
  induction kw as [|[k v] kw IH]; simpl; [reflexivity|].
  destruct (index_of k ps 0) eqn:E; simpl.
  - rewrite orb_true_r. simpl. exact IH.
  - destruct vk; simpl; [exact IH | reflexivity].
Qed.

Lemma removal_loop_first_ok {A} (call : kwargs -> res A * list logent) f kw b lg :
  call kw = (Ok b, lg) -> removal_loop call (S f) kw = (Ok b, lg).
Proof. intros H. simpl. rewrite H. reflexivity. Qed.

(* ------------------------------------------------------------ triggered = some antenna hit *)
Definition mc_of (kw : kwargs) : bool :=
  match kw_lookup K_MC kw with Some v => to_bool v | None => false end.

(* every detector object in the tree uses the inherited Detector/CombinedDetector.triggered *)
Fixpoint default_trigs (ct : cls_table) (t : det) : Prop :=
  match t with
  | Node _ (KDet c) _ _ subs => c_trig (ct c) = None /\ (fix all l := match l with [] => True | s :: r => default_trigs ct s /\ all r end) subs
  | Node _ KComb _ _ subs => (fix all l := match l with [] => True | s :: r => default_trigs ct s /\ all r end) subs
  | _ => True
  end.

Lemma kw_lookup_remove_other k k' kw : k <> k' -> kw_lookup k (remove_key k' kw) = kw_lookup k kw.
Proof.
  intros Hn. unfold remove_key. induction kw as [|[a v] kw IH]; simpl; [reflexivity|].
  destruct (a =? k') eqn:E; simpl.
  - apply Z.eqb_eq in E. subst. assert (k =? k' = false) as -> by (apply Z.eqb_neq; exact Hn). exact IH.
  - destruct (k =? a); [reflexivity | exact IH].
Qed.

Lemma kw_lookup_remove_same k kw : kw_lookup k (remove_key k kw) = None.
Proof.
  unfold remove_key. induction kw as [|[a v] kw IH]; simpl; [reflexivity|].
  destruct (a =? k) eqn:E; simpl; [exact IH|].
  rewrite Z.eqb_sym, E. exact IH.
Qed.

Lemma kw_lookup_app k kw1 kw2 :
  kw_lookup k (kw1 ++ kw2) = match kw_lookup k kw1 with Some v => Some v | None => kw_lookup k kw2 end.
Proof.
  induction kw1 as [|[a v] kw1 IH]; simpl; [reflexivity|]. destruct (k =? a); [reflexivity | exact IH].
Qed.

Lemma mc_of_kw1 kw :
  mc_of (remove_key K_MC kw ++ [(K_MC, match kw_lookup K_MC kw with Some v => v | None => 0 end)]) = mc_of kw.
Proof.
  unfold mc_of. rewrite kw_lookup_app, kw_lookup_remove_same. simpl.
  destruct (kw_lookup K_MC kw); reflexivity.
Qed.

Lemma existsb_flat_map {A B} (f : B -> bool) (g : A -> list B) l :
  existsb f (flat_map g l) = existsb (fun x => existsb f (g x)) l.
Proof. induction l; simpl; [reflexivity | rewrite existsb_app, IHl; reflexivity]. Qed.

Lemma all_same_default_trig ct subs :
  (fix all l := match l with [] => True | s :: r => default_trigs ct s /\ all r end) subs ->
  forall s, In s (trig_sigs ct subs) -> s = SIG_DEFAULT_TRIG.
Proof.
  induction subs as [|x subs IH]; simpl; intros H s Hs; [contradiction|].
  destruct H as [Hx Hr]. apply in_app_iff in Hs as [Hs|Hs]; [|apply IH; auto].
  destruct x as [| |o [c|] m p ss]; simpl in Hs; try contradiction.
  - destruct Hs as [Hs|[]]. destruct Hx as [Hc _]. unfold trig_sig in Hs. rewrite Hc in Hs. auto.
  - destruct Hs as [Hs|[]]. auto.
Qed.

(* for trees whose detector objects all use the inherited trigger: no error, empty call
   log, and the result is true exactly when some antenna of the flattened detector is hit
   (by Monte-Carlo truth when require_mc_truth is given) -- for any keyword list *)
Lemma triggered_default_lemma ct h : forall t,
  default_trigs ct t -> is_node t = true ->
  forall kw, triggered ct h t [] kw = (Ok (any_hit h (mc_of kw) t), []).
Proof.
  induction t as [a|l|o k m p subs IH] using det_ind'; intros Hd Hn kw; try discriminate.
  destruct k as [c|].
  - simpl in Hd. destruct Hd as [Hc _]. simpl. rewrite Hc. reflexivity.
  - simpl in Hd. cbn [triggered].
    set (mcv := match kw_lookup K_MC kw with Some v => v | None => 0 end).
    set (kw1 := remove_key K_MC kw ++ [(K_MC, mcv)]).
    assert (Hmc : mc_of kw1 = mc_of kw) by apply mc_of_kw1.
    assert (Hto : to_bool mcv = mc_of kw).
    { unfold mcv, mc_of. destruct (kw_lookup K_MC kw); reflexivity. }
    rewrite Hto. simpl length. simpl Nat.eqb. rewrite andb_false_r.
    pose proof (all_same_default_trig ct subs Hd) as Hsig.
    set (matching := all_same (trig_sigs ct subs)).
    unfold any_hit. simpl flatten. rewrite existsb_flat_map.
    clearbody matching.
    induction subs as [|s r IHr]; [reflexivity|].
    inversion IH as [|? ? IHs IHrest]; subst. destruct Hd as [Hds Hdr].
    assert (Hsig' : forall s0, In s0 (trig_sigs ct r) -> s0 = SIG_DEFAULT_TRIG).
    { intros s0 H0. apply Hsig. simpl. apply in_app_iff. right. exact H0. }
    specialize (IHr IHrest Hdr eq_refl Hsig').
    cbn [existsb].
    destruct s as [a|l|o' k' m' p' ss].
    + cbn [flatten existsb]. rewrite orb_false_r.
      destruct (ant_hit h (mc_of kw) a); [reflexivity|]. rewrite IHr. reflexivity.
    + cbn [flatten].
      destruct (existsb (ant_hit h (mc_of kw)) l); [reflexivity|]. rewrite IHr. reflexivity.
    + assert (Hk : trig_sig ct k' = SIG_DEFAULT_TRIG).
      { apply Hsig. simpl. left. reflexivity. }
      pose proof (IHs Hds eq_refl kw1) as Hs1. unfold any_hit in Hs1. rewrite Hmc in Hs1.
      destruct matching.
      * rewrite Hk. change (accepts_kw SIG_DEFAULT_TRIG K_MC) with true. cbv iota.
        rewrite Hs1.
        destruct (existsb (ant_hit h (mc_of kw)) (flatten (Node o' k' m' p' ss))); [reflexivity|].
        rewrite IHr. reflexivity.
      * rewrite (removal_loop_first_ok _ _ _ _ _ Hs1).
        destruct (existsb (ant_hit h (mc_of kw)) (flatten (Node o' k' m' p' ss))); [reflexivity|].
        rewrite IHr. reflexivity.
Qed.

Lemma triggered_iff_exists_hit_lemma ct h t kw :
  default_trigs ct t -> is_node t = true ->
  exists b, triggered ct h t [] kw = (Ok b, []) /\
            (b = true <-> exists a, In a (flatten t) /\ ant_hit h (mc_of kw) a = true).
Proof.
  intros Hd Hn. exists (any_hit h (mc_of kw) t). split.
  - apply triggered_default_lemma; assumption.
  - apply any_hit_iff.
Qed.

(* ------------------------------------------------------------ positions *)
(* specification: the antenna positions a detector stands for *)
Fixpoint all_positions (t : det) : list ant :=
  match t with
  | Ant a => [a]
  | AList l => l
  | Node _ (KDet _) _ pos subs => if is_base subs then pos else flat_map all_positions subs
  | Node _ KComb _ _ subs => flat_map all_positions subs
  end.

Fixpoint all_flags (ct : cls_table) (t : det) : Prop :=
  match t with
  | Node _ k _ _ subs => flag ct k = true /\ (fix all l := match l with [] => True | s :: r => all_flags ct s /\ all r end) subs
  | _ => True
  end.

(* built: the antennas of every base Detector subclass object are the ones created at its
   antenna_positions by build_antennas *)
Fixpoint built (t : det) : Prop :=
  match t with
  | Node _ (KDet _) _ pos subs =>
    (is_base subs = true -> subs = map Ant pos) /\
    (fix all l := match l with [] => True | s :: r => built s /\ all r end) subs
  | Node _ KComb _ _ subs => (fix all l := match l with [] => True | s :: r => built s /\ all r end) subs
  | _ => True
  end.

Lemma zs_ok_iff l : zs_ok l = true <-> forall a, In a l -> a_z a <= 0.
Proof.
  unfold zs_ok. rewrite forallb_forall. split; intros H a Ha; specialize (H a Ha).
  - apply Z.leb_le. exact H.
  - apply Z.leb_le. exact H.
Qed.

Lemma base_flatten_positions subs :
  is_base subs = true -> flat_map flatten subs = flat_map all_positions subs.
Proof.
  unfold is_base. induction subs as [|s r IH]; simpl; [reflexivity|].
  destruct s; simpl; try discriminate. intros H. f_equal. apply IH. exact H.
Qed.

Lemma positions_rejected_lemma ct : forall t,
  all_flags ct t -> (test_positions ct t = true <-> forall a, In a (all_positions t) -> a_z a <= 0).
Proof.
  induction t as [a|l|o k m p subs IH] using det_ind'; intros Hf.
  - simpl. rewrite Z.leb_le. split; [intros H x [<-|[]]; exact H | intros H; apply H; left; reflexivity].
  - simpl. apply zs_ok_iff.
  - simpl in Hf. destruct Hf as [Hk Hsubs]. cbn [test_positions]. rewrite Hk. cbn [negb].
    assert (Hrec : forallb (test_positions ct) subs = true <->
                   forall a, In a (flat_map all_positions subs) -> a_z a <= 0).
    { clear Hk. induction subs as [|s r IHr]; simpl.
      - split; [intros _ a [] | reflexivity].
      - inversion IH as [|? ? IHs IHrest]; subst. destruct Hsubs as [Hs Hr].
        rewrite andb_true_iff, (IHs Hs), (IHr IHrest Hr). split.
        + intros [H1 H2] a Ha. apply in_app_iff in Ha as [Ha|Ha]; auto.
        + intros H. split; intros a Ha; apply H; apply in_app_iff; auto. }
    destruct (is_base subs) eqn:Eb.
    + destruct k as [c|]; cbn [all_positions]; rewrite ?Eb.
      * apply zs_ok_iff.
      * rewrite (base_flatten_positions _ Eb). apply zs_ok_iff.
    + destruct k as [c|]; cbn [all_positions]; rewrite ?Eb; exact Hrec.
Qed.

Lemma built_positions : forall t, built t -> all_positions t = flatten t.
Proof.
  induction t as [a|l|o k m p subs IH] using det_ind'; intros Hb; try reflexivity.
  assert (Hrec : (fix all l := match l with [] => True | s :: r => built s /\ all r end) subs ->
                 flat_map all_positions subs = flat_map flatten subs).
  { clear Hb. induction subs as [|s r IHr]; simpl; [reflexivity|]. intros [Hs Hr].
    inversion IH as [|? ? IHs IHrest]; subst. rewrite (IHs Hs), (IHr IHrest Hr). reflexivity. }
  destruct k as [c|]; simpl in Hb.
  - destruct Hb as [Hbase Hsubs]. cbn [all_positions flatten]. destruct (is_base subs) eqn:Eb.
    + rewrite (Hbase eq_refl). clear. induction p; simpl; [reflexivity | f_equal; assumption].
    + apply Hrec. exact Hsubs.
  - apply Hrec. exact Hb.
Qed.

Lemma positions_rejected_built_lemma ct t :
  all_flags ct t -> built t ->
  (test_positions ct t = true <-> forall a, In a (flatten t) -> a_z a <= 0).
Proof. intros Hf Hb. rewrite <- (built_positions t Hb). apply positions_rejected_lemma. exact Hf. Qed.

(* construction and every form of addition run the test: a result exists only when it passes,
   and the only failure is the ValueError *)
Lemma mkcomb_rejects ct oid subs :
  (exists t, mkcomb ct oid subs = Ok t /\ test_positions ct t = true) \/
  (mkcomb ct oid subs = Err EValue /\
   test_positions ct (Node oid KComb (mirror_sig ct KComb subs) [] subs) = false).
Proof.
  unfold mkcomb. destruct (test_positions ct _) eqn:E; [left; eauto | right; auto].
Qed.

Lemma new_base_rejects ct oid c pos :
  c_flag (ct c) = true ->
  (new_base ct oid c pos = Err EValue <-> exists a, In a pos /\ a_z a > 0).
Proof.
  intros Hf. unfold new_base. cbn [test_positions flag]. rewrite Hf. cbn [negb is_base existsb].
  destruct (zs_ok pos) eqn:E.
  - split; [discriminate|]. intros [a [Ha Hz]]. rewrite zs_ok_iff in E. specialize (E a Ha). lia.
  - split; [intros _ | reflexivity].
    unfold zs_ok in E. apply not_true_iff_false in E. rewrite forallb_forall in E.
    destruct (existsb (fun a => negb (a_z a <=? 0)) pos) eqn:Ex.
    + apply existsb_exists in Ex as [a [Ha Hz]]. exists a. split; auto.
      apply negb_true_iff, Z.leb_gt in Hz. lia.
    + exfalso. apply E. intros a Ha.
      assert (H := Ex). rewrite <- not_true_iff_false in H.
      destruct (a_z a <=? 0) eqn:Ez; [reflexivity|]. exfalso. apply H. apply existsb_exists. exists a. rewrite Ez. auto.
Qed.


(* ------------------------------------------------------------ construction order *)
(* build_antennas on a base Detector subclass object: the iterated antennas are exactly the
   ones constructed, one per antenna position, in the order of antenna_positions *)
Lemma build_base_order ct o c m pos subs args kw t' lg :
  is_base subs = true ->
  build ct (Node o (KDet c) m pos subs) args kw = (t', None, lg) ->
  flatten t' = pos /\
  flat_map (fun x => match x with LAnt a _ _ _ => [a] | _ => [] end) lg = map a_id pos.
Proof.
  intros Hb. cbn [build]. destruct (pre_build ct o (KDet c) args kw) as [[[args1 kw1] log0]|e] eqn:Ep; [|discriminate].
  rewrite Hb.
  assert (Hlog0 : flat_map (fun x => match x with LAnt a _ _ _ => [a] | _ => [] end) log0 = []).
  { unfold pre_build in Ep. destruct (c_build (ct c)) as [ps|].
    - destruct (bind ps false args kw) as [[named extra]|]; inversion Ep; subst. reflexivity.
    - inversion Ep; subst. reflexivity. }
  destruct (match kw_lookup K_ANTENNA_CLASS kw1 with
            | Some ac => Some (ac, args1, remove_key K_ANTENNA_CLASS kw1)
            | None => match args1 with a :: r => Some (a, r, kw1) | [] => None end
            end) as [[[ac args2] kw2]|]; [|discriminate].
  intros H. inversion H; subst. split.
  - simpl. clear. induction pos; simpl; [reflexivity | f_equal; assumption].
  - rewrite flat_map_app', Hlog0. simpl. clear. induction pos; simpl; [reflexivity | f_equal; assumption].
Qed.


(* construction order for ARBITRARY trees: build_antennas recursing through the subsets as written.
   tree_positions: the antenna positions of the tree in subset order (loose antennas / lists kept in place);
   constructed_positions: those of them at which build_antennas constructs an antenna. *)
Fixpoint tree_positions (t : det) : list ant :=
  match t with
  | Ant a => [a]
  | AList l => l
  | Node _ k _ pos subs =>
    if is_base subs then match k with KDet _ => pos | KComb => [] end
    else flat_map tree_positions subs
  end.
Fixpoint constructed_positions (t : det) : list ant :=
  match t with
  | Node _ k _ pos subs =>
    if is_base subs then match k with KDet _ => pos | KComb => [] end
    else flat_map constructed_positions subs
  | _ => []
  end.
Definition built_ids (lg : list logent) : list Z :=
  flat_map (fun x => match x with LAnt a _ _ _ => [a] | _ => [] end) lg.

Lemma built_ids_app l1 l2 : built_ids (l1 ++ l2) = built_ids l1 ++ built_ids l2.
Proof. unfold built_ids. apply flat_map_app'. Qed.

Lemma pre_build_no_ants ct o k args kw args1 kw1 log0 :
  pre_build ct o k args kw = Ok (args1, kw1, log0) -> built_ids log0 = [].
Proof.
  unfold pre_build. destruct k as [c|]; [|intros H; inversion H; reflexivity].
  destruct (c_build (ct c)) as [ps|]; [|intros H; inversion H; reflexivity].
  destruct (bind ps false args kw) as [[named extra]|]; intros H; inversion H; reflexivity.
Qed.

Lemma map_Ant_flatten l : flat_map flatten (map Ant l) = l.
Proof. induction l; simpl; [reflexivity | f_equal; assumption]. Qed.

Lemma build_subs_order ct matching args1 kw1 : forall l,
  Forall (fun t => forall args kw t' lg, build ct t args kw = (t', None, lg) ->
            flatten t' = tree_positions t /\ built_ids lg = map a_id (constructed_positions t)) l ->
  forall l' lg0, build_subs (build ct) matching args1 kw1 l = (l', None, lg0) ->
  flat_map flatten l' = flat_map tree_positions l /\
  built_ids lg0 = map a_id (flat_map constructed_positions l).
Proof.
  induction l as [|s r IHr]; intros HF l' lg0 Hg.
  - simpl in Hg. inversion Hg. split; reflexivity.
  - inversion HF as [|? ? Hs Hr]; subst. cbn [build_subs] in Hg.
    destruct s as [a|al|o' k' m' p' ss].
    + destruct (build_subs (build ct) matching args1 kw1 r) as [[r' e2] lg2] eqn:Er. inversion Hg; subst.
      destruct (IHr Hr _ _ eq_refl) as [H1 H2]. cbn [flat_map flatten tree_positions constructed_positions].
      rewrite H1. split; [reflexivity | exact H2].
    + destruct (build_subs (build ct) matching args1 kw1 r) as [[r' e2] lg2] eqn:Er. inversion Hg; subst.
      destruct (IHr Hr _ _ eq_refl) as [H1 H2]. cbn [flat_map flatten tree_positions constructed_positions].
      rewrite H1. split; [reflexivity | exact H2].
    + destruct (if matching then build ct (Node o' k' m' p' ss) args1 kw1
                else build ct (Node o' k' m' p' ss) [] (route_build m' kw1)) as [[s' e] lg1] eqn:Es.
      destruct e as [e|]; [inversion Hg|].
      destruct (build_subs (build ct) matching args1 kw1 r) as [[r' e2] lg2] eqn:Er. inversion Hg; subst.
      assert (Hs' : flatten s' = tree_positions (Node o' k' m' p' ss) /\
                    built_ids lg1 = map a_id (constructed_positions (Node o' k' m' p' ss))).
      { destruct matching; eapply Hs; exact Es. }
      destruct Hs' as [Hs1 Hs2]. destruct (IHr Hr _ _ eq_refl) as [H1 H2].
      cbn [flat_map]. rewrite Hs1, H1, built_ids_app, Hs2, H2, map_app. split; reflexivity.
Qed.

Lemma build_order_lemma ct : forall t args kw t' lg,
  build ct t args kw = (t', None, lg) ->
  flatten t' = tree_positions t /\ built_ids lg = map a_id (constructed_positions t).
Proof.
  induction t as [a|l|o k m p subs IH] using det_ind'; intros args kw t' lg H; try discriminate.
  cbn [build] in H.
  destruct (pre_build ct o k args kw) as [[[args1 kw1] log0]|e] eqn:Ep; [|discriminate].
  pose proof (pre_build_no_ants _ _ _ _ _ _ _ _ Ep) as Hlog0.
  cbn [tree_positions constructed_positions].
  destruct (is_base subs) eqn:Eb.
  - destruct (match kw_lookup K_ANTENNA_CLASS kw1 with
              | Some ac => Some (ac, args1, remove_key K_ANTENNA_CLASS kw1)
              | None => match args1 with a :: r => Some (a, r, kw1) | [] => None end
              end) as [[[ac args2] kw2]|]; [|discriminate].
    inversion H; subst; clear H. cbn [flatten]. rewrite map_Ant_flatten, built_ids_app, Hlog0. split; [reflexivity|].
    simpl. unfold built_ids. generalize (match k with KDet _ => p | KComb => [] end). intros q.
    induction q; simpl; [reflexivity | f_equal; assumption].
  - set (matching := builds_match subs) in H.
    destruct (negb matching && negb (Nat.eqb (length args1) 0)); [discriminate|].
    destruct (build_subs (build ct) matching args1 kw1 subs) as [[subs' e] lg0] eqn:Eg.
    inversion H; subst; clear H.
    destruct (build_subs_order ct matching args1 kw1 subs IH _ _ Eg) as [H1 H2].
    cbn [flatten]. rewrite built_ids_app, Hlog0. simpl. split; assumption.
Qed.

(* when every antenna of the tree sits in a detector (no loose antennas / lists), iteration after a
   successful build visits exactly the antennas constructed, in construction order *)
Fixpoint no_loose (t : det) : Prop :=
  match t with
  | Node _ _ _ _ subs =>
    if is_base subs then True
    else (fix all l := match l with [] => True | s :: r => is_node s = true /\ no_loose s /\ all r end) subs
  | _ => False
  end.

Lemma no_loose_positions : forall t, no_loose t -> tree_positions t = constructed_positions t.
Proof.
  induction t as [a|l|o k m p subs IH] using det_ind'; intros Hn; try contradiction.
  cbn [tree_positions constructed_positions]. cbn [no_loose] in Hn. destruct (is_base subs); [reflexivity|].
  induction subs as [|s r IHr]; [reflexivity|]. inversion IH as [|? ? Hs Hr]; subst.
  destruct Hn as [_ [Hns Hnr]]. cbn [flat_map]. rewrite (Hs Hns), (IHr Hr Hnr). reflexivity.
Qed.

Lemma build_iterates_constructed ct t args kw t' lg :
  no_loose t -> build ct t args kw = (t', None, lg) -> map a_id (flatten t') = built_ids lg.
Proof.
  intros Hn H. destruct (build_order_lemma ct t args kw t' lg H) as [H1 H2].
  rewrite H1, H2, (no_loose_positions t Hn). reflexivity.
Qed.


(* ------------------------------------------------------------ non-vacuity examples *)
Definition ex_ct : cls_table := fun c =>
  match c with
  | 2 => mkcls (Some [(0, 0); (5, 7)]) (Some ([(4, 0); (1, 0)], false)) true
  | _ => mkcls None None true
  end.
Definition ex_a := Node 1 (KDet 0) SIG_DEFAULT_BUILD [(1, -1); (2, -2)] [Ant (1, -1); Ant (2, -2)].
Definition ex_b := Node 2 (KDet 0) SIG_DEFAULT_BUILD [(3, -1)] [Ant (3, -1)].
Definition ex_c := AList [(4, 0); (5, -3)].

Example ex_assoc :
  exists ab abc bc abc',
    py_add ex_ct 10 ex_a ex_b = Ok ab /\ py_add ex_ct 11 ab ex_c = Ok abc /\
    py_add ex_ct 12 ex_b ex_c = Ok bc /\ py_add ex_ct 13 ex_a bc = Ok abc' /\
    map a_id (flatten abc) = [1; 2; 3; 4; 5] /\ subsets abc <> subsets abc'.
Proof. do 4 eexists. repeat split; try reflexivity. simpl. discriminate. Qed.

Example ex_triggered :
  default_trigs ex_ct ex_a /\ built ex_a /\ all_flags ex_ct ex_a /\
  triggered ex_ct [(2, (true, false))] ex_a [] [] = (Ok true, []) /\
  triggered ex_ct [(2, (true, false))] ex_a [] [(K_MC, 1)] = (Ok false, []).
Proof. repeat split; reflexivity. Qed.

Example ex_removal :
  removal_loop (rejecting_call (fun k => k =? 4) (fun kw => (Ok kw, [])))
               4 [(8, 1); (4, 2); (1, 0)] = (Ok [(4, 2)], []).
Proof. reflexivity. Qed.

Example ex_rejected : new_base ex_ct 1 0 [(1, -1); (2, 1)] = Err EValue.
Proof. reflexivity. Qed.

Example ex_nested_build :
  let s1 := Node 1 (KDet 0) SIG_DEFAULT_BUILD [(1, -1); (2, -2)] [] in
  let s2 := Node 2 (KDet 0) SIG_DEFAULT_BUILD [(3, -1)] [] in
  let stn := Node 3 (KDet 0) SIG_DEFAULT_BUILD [] [s1; s2] in
  let comb := Node 4 KComb SIG_DEFAULT_BUILD [] [stn; Node 5 (KDet 0) SIG_DEFAULT_BUILD [(4, -3)] []] in
  no_loose comb /\
  exists t' lg, build ex_ct comb [] [(K_ANTENNA_CLASS, 0)] = (t', None, lg) /\
                map a_id (flatten t') = [1; 2; 3; 4] /\ built_ids lg = [1; 2; 3; 4].
Proof. simpl. split; [tauto|]. do 2 eexists. repeat split; reflexivity. Qed.

