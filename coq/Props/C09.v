From Coq Require Import List QArith.
From PyrexModel Require Import AntennaModel.
Theorem placeholder : a_init = a_init.
Proof. reflexivity. Qed.
Print Assumptions placeholder.
