(* C07: finiteness -- the denominators and array sizes of ARZAskaryanSignal.shower_signal are
   well defined off the cone (z_to_t <> 0, dt_divider >= 1, n_RAC >= 2, n_Q >= 1000). *)
From Coq Require Import Reals List Bool ZArith Lra Lia.
From PyrexLib Require Import RealPrims.
From PyrexGen Require Import Gen_askaryan.
From PyrexProofs Require Import C07_lists C07_formulas.
Open Scope R_scope.

(* definitional readings of the generated scalars (re-checked by `reflexivity` on every run) *)
Lemma ss_dz_def a b L E th n t0 :
  ARZ_ss_dz a b L E th n t0 = ARZ_ss_dt a b L E th n t0 / IZR (ARZ_ss_dt_divider a b L E th n t0) / ARZ_ss_z_to_t a b L E th n t0.
Proof. reflexivity. Qed.
Lemma ss_dt_def a b L E th n t0 : ARZ_ss_dt a b L E th n t0 = b - a.
Proof. reflexivity. Qed.
Lemma ss_z_to_t_def a b L E th n t0 : ARZ_ss_z_to_t a b L E th n t0 = (1 - n * cos th) / speed_of_light.
Proof. reflexivity. Qed.
Lemma ss_dt_divider_def a b L E th n t0 :
  ARZ_ss_dt_divider a b L E th n t0 = Z.max (ARZ_ss_dt_divider_Q a b L E th n t0) (ARZ_ss_dt_divider_RAC a b L E th n t0).
Proof. reflexivity. Qed.
Lemma ss_dt_divider_Q_def a b L E th n t0 :
  ARZ_ss_dt_divider_Q a b L E th n t0 =
  (Rtrunc (Rabs (100 * ARZ_ss_dt a b L E th n t0 / ARZ_max_length_default E / ARZ_ss_z_to_t a b L E th n t0)) + 1)%Z.
Proof. reflexivity. Qed.
Lemma ss_dt_divider_RAC_def a b L E th n t0 :
  ARZ_ss_dt_divider_RAC a b L E th n t0 = (Rtrunc (Rabs (ARZ_ss_dt a b L E th n t0 / 1e-11)) + 1)%Z.
Proof. reflexivity. Qed.
Lemma ss_n_extra_def a b L E th n t0 :
  ARZ_ss_n_extra a b L E th n t0 =
  (Rtrunc (2 * 10e-9 / ARZ_ss_dz a b L E th n t0 / ARZ_ss_z_to_t a b L E th n t0) + 1 + ARZ_ss_n_Q a b L E th n t0
   - ARZ_ss_N a b L E th n t0 * ARZ_ss_dt_divider a b L E th n t0)%Z.
Proof. reflexivity. Qed.
Lemma ss_n_Q_def a b L E th n t0 :
  ARZ_ss_n_Q a b L E th n t0 = (Rtrunc (Rabs (5 * ARZ_max_length_default E / ARZ_ss_dz a b L E th n t0)) * 2)%Z.
Proof. reflexivity. Qed.
Lemma ss_oncone_def a b L E th n t0 :
  ARZ_ss_oncone a b L E th n t0 = Rleb (Rabs (th - acos (1 / n))) ARZAskaryanSignal_oncone_range.
Proof. reflexivity. Qed.

Lemma ss_dt_divider_ge_1 a b L E th n t0 : (1 <= ARZ_ss_dt_divider a b L E th n t0)%Z.
Proof.
  rewrite ss_dt_divider_def, ss_dt_divider_Q_def.
  pose proof (Rtrunc_nonneg _ (Rabs_pos (100 * ARZ_ss_dt a b L E th n t0 / ARZ_max_length_default E / ARZ_ss_z_to_t a b L E th n t0))).
  lia.
Qed.

(* dz * z_to_t is the fine time step dt / dt_divider > 0 *)
Lemma ss_fine_step a b L E th n t0 : ARZ_ss_z_to_t a b L E th n t0 <> 0 ->
  ARZ_ss_dz a b L E th n t0 * ARZ_ss_z_to_t a b L E th n t0 = (b - a) / IZR (ARZ_ss_dt_divider a b L E th n t0).
Proof.
  intros Hz. rewrite ss_dz_def, ss_dt_def.
  pose proof (ss_dt_divider_ge_1 a b L E th n t0) as Hd. apply IZR_le in Hd.
  field. repeat split; try assumption; lra.
Qed.

Lemma ss_n_RAC_ge_2 a b L E th n t0 : a < b -> ARZ_ss_z_to_t a b L E th n t0 <> 0 ->
  (2 <= ARZ_ss_n_RAC a b L E th n t0)%Z.
Proof.
  intros Hab Hz. rewrite ss_n_RAC_def, ss_n_extra_def.
  set (X := 2 * 10e-9 / ARZ_ss_dz a b L E th n t0 / ARZ_ss_z_to_t a b L E th n t0).
  assert (0 <= X).
  { pose proof (ss_dt_divider_ge_1 a b L E th n t0) as Hd. apply IZR_le in Hd.
    assert (Hdz : ARZ_ss_dz a b L E th n t0 <> 0).
    { rewrite ss_dz_def, ss_dt_def. unfold Rdiv. repeat apply Rmult_integral_contrapositive_currified; try lra;
        apply Rinv_neq_0_compat; lra. }
    replace X with (2 * 10e-9 / (ARZ_ss_dz a b L E th n t0 * ARZ_ss_z_to_t a b L E th n t0)) by (unfold X; field; split; assumption).
    rewrite ss_fine_step by assumption.
    apply Rmult_le_pos; [lra | ]. left. apply Rinv_0_lt_compat. apply Rdiv_lt_0_compat; lra. }
  pose proof (Rtrunc_nonneg X H). lia.
Qed.

(* the on-cone range is not negative *)
Lemma oncone_range_nonneg : 0 <= ARZAskaryanSignal_oncone_range.
Proof.
  unfold ARZAskaryanSignal_oncone_range.
  set (x1 := (1 - 10 * speed_of_light * / 2 ^ 52) / 1.78). set (x2 := 1 / 1.78).
  assert (E52 : 2 ^ 52 = 4503599627370496) by ring.
  assert (B : 0 < 10 * speed_of_light * / 2 ^ 52 < 1) by (unfold speed_of_light; rewrite E52; split; lra).
  assert (H1 : -1 <= x1 <= 1) by (unfold x1; split; [apply Rmult_le_reg_r with 1.78; [lra|]; field_simplify; lra
                                                   | apply Rmult_le_reg_r with 1.78; [lra|]; field_simplify; lra]).
  assert (H2 : -1 <= x2 <= 1) by (unfold x2; split; lra).
  assert (H12 : x1 < x2) by (unfold x1, x2; apply Rmult_lt_reg_r with 1.78; [lra|]; field_simplify; lra).
  pose proof (acos_bound x1) as Ba. pose proof (acos_bound x2) as Bb.
  destruct (Rle_or_lt (acos x2) (acos x1)) as [Hle | Hlt]; [lra | exfalso].
  assert (cos (acos x2) < cos (acos x1)) by (apply cos_decreasing_1; lra).
  rewrite !cos_acos in H by lra. lra.
Qed.

(* off the cone (the test that selects the convolution branch) z_to_t is not zero *)
Lemma ss_z_to_t_nonzero_off_cone a b L E th n t0 : 0 <= th <= PI -> 1 <= n ->
  ARZ_ss_oncone a b L E th n t0 = false -> ARZ_ss_z_to_t a b L E th n t0 <> 0.
Proof.
  intros Hth Hn Hoff Hz. rewrite ss_oncone_def in Hoff. apply Rleb_false in Hoff.
  rewrite ss_z_to_t_def in Hz. unfold speed_of_light in Hz.
  assert (Hc : 1 - n * cos th = 0).
  { apply (Rmult_eq_reg_r (/ 299792458)); [ | apply Rinv_neq_0_compat; lra]. unfold Rdiv in Hz. lra. }
  assert (cos th = 1 / n) by (field_simplify_eq; lra).
  assert (acos (1 / n) = th) by (rewrite <- H; apply acos_cos; assumption).
  rewrite H0 in Hoff. replace (th - th) with 0 in Hoff by ring. rewrite Rabs_R0 in Hoff.
  pose proof oncone_range_nonneg. lra.
Qed.

(* the charge profile is sampled on at least 1000 points (comment in the source: "this guarantees that n_Q >= 1000") *)
Lemma ss_n_Q_ge_1000 a b L E th n t0 : a < b -> ARZ_ss_z_to_t a b L E th n t0 <> 0 -> ARZ_max_length_default E <> 0 ->
  (1000 <= ARZ_ss_n_Q a b L E th n t0)%Z.
Proof.
  intros Hab Hz HL. rewrite ss_n_Q_def.
  set (Lm := ARZ_max_length_default E) in *. set (z := ARZ_ss_z_to_t a b L E th n t0) in *.
  set (dv := ARZ_ss_dt_divider a b L E th n t0).
  pose proof (ss_dt_divider_ge_1 a b L E th n t0) as Hd1. fold dv in Hd1. apply IZR_le in Hd1.
  (* dt_divider > 100 dt / (|Lm| |z|) *)
  assert (Hdv : Rabs (100 * (b - a) / Lm / z) < IZR dv).
  { pose proof (Rtrunc_bound _ (Rabs_pos (100 * (b - a) / Lm / z))) as [_ Hb].
    assert (ARZ_ss_dt_divider_Q a b L E th n t0 <= dv)%Z by (unfold dv; rewrite ss_dt_divider_def; lia).
    rewrite ss_dt_divider_Q_def, ss_dt_def in H. fold Lm z in H. apply IZR_le in H. rewrite plus_IZR in H. lra. }
  assert (Hx : 500 < Rabs (5 * Lm / ARZ_ss_dz a b L E th n t0)).
  { rewrite ss_dz_def, ss_dt_def. fold z dv.
    replace (5 * Lm / ((b - a) / IZR dv / z)) with (5 * IZR dv / (100 * (b - a) / Lm / z) * 100)
      by (field; repeat split; lra).
    set (q := 100 * (b - a) / Lm / z) in *.
    assert (Hq : q <> 0).
    { unfold q, Rdiv. repeat apply Rmult_integral_contrapositive_currified; try lra; apply Rinv_neq_0_compat; assumption. }
    pose proof (Rabs_pos_lt q Hq).
    unfold Rdiv. rewrite !Rabs_mult, Rabs_inv. rewrite (Rabs_right 5), (Rabs_right 100), (Rabs_right (IZR dv)) by lra.
    assert (1 < IZR dv * / Rabs q).
    { apply (Rmult_lt_reg_r (Rabs q)); [assumption | ]. rewrite Rmult_assoc, Rinv_l by lra. lra. }
    nra. }
  pose proof (Rtrunc_bound _ (Rabs_pos (5 * Lm / ARZ_ss_dz a b L E th n t0))) as [_ Hb].
  assert (499 < IZR (Rtrunc (Rabs (5 * Lm / ARZ_ss_dz a b L E th n t0)))) by lra.
  apply lt_IZR in H. lia.
Qed.
