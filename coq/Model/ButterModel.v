(* Hand model of the two SciPy calls DipoleAntenna uses for its frequency response
   (pyrex/antenna.py DipoleAntenna.__init__ / frequency_response):

     b, a = scipy.signal.butter(1, [w_lo, w_hi], btype='bandpass', analog=True)
     w, h = scipy.signal.freqs(b, a, w)

   butter(1, ...): the order-1 low-pass prototype 1/(s+1) under the band-pass substitution
   s -> (s^2 + w0^2)/(B s) with B = w_hi - w_lo, w0^2 = w_lo w_hi, i.e.
        H(s) = B s / (s^2 + B s + w0^2),     b = [B, 0],  a = [1, B, w0^2].
   freqs(b, a, w): h = polyval(b, i w) / polyval(a, i w).
   No proofs here.  Validated on every run against scipy.signal.butter / freqs
   (harness/props/c08.py, correspondence "butter"). *)
From Coq Require Import Reals List.
From PyrexLib Require Import RealPrims CPair.
Import ListNotations.
Open Scope R_scope.

Definition butter1_bandpass_analog (w_lo w_hi : R) : list R * list R :=
  ([w_hi - w_lo; 0], [1; w_hi - w_lo; w_lo * w_hi]).

Definition freqs (b a : list R) (w : R) : R * Cx :=
  (w, cdiv (cpolyval b (0, w)) (cpolyval a (0, w))).
