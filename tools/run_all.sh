#!/bin/sh
# Run every registered check (quick by default) sequentially and summarise.
cd "$(dirname "$0")/.." || exit 1
TIER="${1:-quick}"
for id in $(python3 -c "import json;print(' '.join(c['property_id'] for c in json.load(open('MANIFEST.json'))['checks']))"); do
  s=$(date +%s)
  out=$(./check "$id" --tier "$TIER" 2>&1); rc=$?
  e=$(date +%s)
  echo "$id rc=$rc $((e-s))s  $(echo "$out" | tail -1)"
  echo "$out" | grep -E "^(VIOLATION|KNOWN-FINDING)" | cut -c1-200
done
