(* C13: generators.  Lemmas about the definitions generated from pyrex/generation.py
   (Gen/Gen_generation.v, variates as parameters) and the hand model Model/GeneratorModel.v. *)
From Coq Require Import Reals List Bool ZArith Lra Lia Psatz.
From PyrexLib Require Import RealPrims.
From PyrexModel Require Import GeneratorModel.
From PyrexGen Require Import Gen_generation.
Import ListNotations.
Open Scope R_scope.

(* ================================================================ directions *)
Lemma direction_unit_lemma u1 u2 : 0 <= u1 <= 1 ->
  vdot (Generator_get_direction u1 u2) (Generator_get_direction u1 u2) = 1.
Proof.
  intro H. unfold Generator_get_direction, vdot, vx, vy, vz; simpl.
  set (c := u1 * 2 - 1). set (phi := u2 * 2 * PI).
  assert (Hc : 0 <= 1 - c * (c * 1)) by (unfold c; nra).
  set (s := sqrt (1 - c * (c * 1))).
  assert (Hs : s * s = 1 - c * (c * 1)) by (apply sqrt_sqrt; assumption).
  pose proof (sin2_cos2 phi) as T. unfold Rsqr in T.
  replace (s * cos phi * (s * cos phi) + s * sin phi * (s * sin phi) + c * c)
    with (s * s * (sin phi * sin phi + cos phi * cos phi) + c * c) by ring.
  rewrite T, Hs. ring.
Qed.

(* z = 2 u1 - 1 is uniform on [-1,1], the azimuth is 2 pi u2: the pre-image of the cap-sector
   {z <= c, azimuth <= p} is the rectangle {u1 <= (c+1)/2, u2 <= p/2pi}, whose area is the fraction
   p (c+1) / 4 pi of the sphere that the cap-sector covers (Archimedes: the area of a zone of the unit
   sphere is 2 pi times its height) *)
Lemma direction_isotropic_lemma u1 u2 c p : 0 <= u1 <= 1 ->
  let v := Generator_get_direction u1 u2 in
  vz v = 2 * u1 - 1 /\
  vx v = sqrt (1 - (vz v) ^ 2) * cos (2 * PI * u2) /\
  vy v = sqrt (1 - (vz v) ^ 2) * sin (2 * PI * u2) /\
  0 <= sqrt (1 - (vz v) ^ 2) /\
  (vz v <= c <-> u1 <= (c + 1) / 2) /\
  (2 * PI * u2 <= p <-> u2 <= p / (2 * PI)) /\
  ((c + 1) / 2) * (p / (2 * PI)) = (p * (c + 1)) / (4 * PI).
Proof.
  intros H v. unfold v, Generator_get_direction, vx, vy, vz; simpl.
  pose proof PI_RGT_0 as HPI.
  replace (u2 * 2 * PI) with (2 * PI * u2) by ring.
  repeat split; try (intros; lra); try ring.
  - apply sqrt_pos.
  - intro A. apply (Rmult_le_reg_l (2 * PI)); [lra|].
    replace (2 * PI * (p / (2 * PI))) with p by (field; lra). assumption.
  - intro A. apply (Rmult_le_compat_l (2 * PI)) in A; [|lra].
    replace (2 * PI * (p / (2 * PI))) with p in A by (field; lra). assumption.
  - field. lra.
Qed.

(* ================================================================ vertices: cylinder *)
Lemma cyl_vertex_radius g u1 u2 u3 : 0 <= u1 ->
  let v := Cylindrical_get_vertex g u1 u2 u3 in
  vx v * vx v + vy v * vy v = Cyl_dr g * Cyl_dr g * u1 /\ vz v = - Cyl_dz g * u3.
Proof.
  intros H v. unfold v, Cylindrical_get_vertex, vx, vy, vz; simpl.
  set (th := 2 * PI * u2). pose proof (sin2_cos2 th) as T. unfold Rsqr in T.
  assert (Hs : sqrt u1 * sqrt u1 = u1) by (apply sqrt_sqrt; assumption).
  split; [|reflexivity].
  replace (Cyl_dr g * sqrt u1 * cos th * (Cyl_dr g * sqrt u1 * cos th) + Cyl_dr g * sqrt u1 * sin th * (Cyl_dr g * sqrt u1 * sin th))
    with (Cyl_dr g * Cyl_dr g * (sqrt u1 * sqrt u1) * (sin th * sin th + cos th * cos th)) by ring.
  rewrite T, Hs. ring.
Qed.

Lemma cyl_vertex_inside_lemma g u1 u2 u3 :
  0 <= Cyl_dr g -> 0 <= Cyl_dz g -> 0 <= u1 <= 1 -> 0 <= u3 <= 1 ->
  let v := Cylindrical_get_vertex g u1 u2 u3 in
  vx v * vx v + vy v * vy v <= Cyl_dr g * Cyl_dr g /\ - Cyl_dz g <= vz v <= 0.
Proof.
  intros Hr Hz H1 H3 v. destruct (cyl_vertex_radius g u1 u2 u3 (proj1 H1)) as [A B].
  fold v in A, B. rewrite A, B. split; nra.
Qed.

(* r = dr sqrt(u1), azimuth 2 pi u2, z = -dz u3: the pre-image of the cell {r <= rho, azimuth <= p,
   z >= -h} is a box of volume (rho/dr)^2 (p/2pi) (h/dz) = volume of the cell / volume of the cylinder *)
Lemma cyl_vertex_uniform_lemma g u1 u2 u3 rho p h :
  0 < Cyl_dr g -> 0 < Cyl_dz g -> 0 <= u1 -> 0 <= rho ->
  let v := Cylindrical_get_vertex g u1 u2 u3 in
  vx v = sqrt (vx v * vx v + vy v * vy v) * cos (2 * PI * u2) /\
  vy v = sqrt (vx v * vx v + vy v * vy v) * sin (2 * PI * u2) /\
  (vx v * vx v + vy v * vy v <= rho * rho <-> u1 <= (rho / Cyl_dr g) ^ 2) /\
  (2 * PI * u2 <= p <-> u2 <= p / (2 * PI)) /\
  (- h <= vz v <-> u3 <= h / Cyl_dz g) /\
  (rho / Cyl_dr g) ^ 2 * (p / (2 * PI)) * (h / Cyl_dz g)
    = (p / 2 * (rho * rho) * h) / (PI * (Cyl_dr g * Cyl_dr g) * Cyl_dz g).
Proof.
  intros Hr Hz H1 Hrho v. destruct (cyl_vertex_radius g u1 u2 u3 H1) as [A B]. fold v in A, B.
  pose proof PI_RGT_0 as HPI.
  assert (Hroot : sqrt (vx v * vx v + vy v * vy v) = Cyl_dr g * sqrt u1).
  { rewrite A. replace (Cyl_dr g * Cyl_dr g * u1) with ((Cyl_dr g * sqrt u1) * (Cyl_dr g * sqrt u1)).
    - apply sqrt_square. apply Rmult_le_pos; [lra|apply sqrt_pos].
    - replace (Cyl_dr g * sqrt u1 * (Cyl_dr g * sqrt u1)) with (Cyl_dr g * Cyl_dr g * (sqrt u1 * sqrt u1)) by ring.
      rewrite sqrt_sqrt by assumption. reflexivity. }
  rewrite Hroot, A, B.
  split; [unfold v, Cylindrical_get_vertex, vx, vy, vz; simpl; reflexivity|].
  split; [unfold v, Cylindrical_get_vertex, vx, vy, vz; simpl; reflexivity|].
  assert (Hd2 : 0 < Cyl_dr g * Cyl_dr g) by nra.
  split; [|split; [|split]].
  - replace ((rho / Cyl_dr g) ^ 2) with (rho * rho / (Cyl_dr g * Cyl_dr g)) by (field; lra).
    split; intro Q.
    + apply (Rmult_le_reg_l (Cyl_dr g * Cyl_dr g)); [assumption|].
      replace (Cyl_dr g * Cyl_dr g * (rho * rho / (Cyl_dr g * Cyl_dr g))) with (rho * rho) by (field; lra). lra.
    + apply (Rmult_le_compat_l (Cyl_dr g * Cyl_dr g)) in Q; [|lra].
      replace (Cyl_dr g * Cyl_dr g * (rho * rho / (Cyl_dr g * Cyl_dr g))) with (rho * rho) in Q by (field; lra). lra.
  - split; intro Q.
    + apply (Rmult_le_reg_l (2 * PI)); [lra|]. replace (2 * PI * (p / (2 * PI))) with p by (field; lra). assumption.
    + apply (Rmult_le_compat_l (2 * PI)) in Q; [|lra]. replace (2 * PI * (p / (2 * PI))) with p in Q by (field; lra). assumption.
  - split; intro Q.
    + apply (Rmult_le_reg_l (Cyl_dz g)); [assumption|]. replace (Cyl_dz g * (h / Cyl_dz g)) with h by (field; lra). lra.
    + apply (Rmult_le_compat_l (Cyl_dz g)) in Q; [|lra]. replace (Cyl_dz g * (h / Cyl_dz g)) with h in Q by (field; lra). lra.
  - field. repeat split; lra.
Qed.

(* ================================================================ vertices: box *)
Lemma box_vertex_affine g u1 u2 u3 :
  Rectangular_get_vertex g u1 u2 u3
  = (- Box_dx g / 2 + Box_dx g * u1, - Box_dy g / 2 + Box_dy g * u2, - Box_dz g + Box_dz g * u3).
Proof. unfold Rectangular_get_vertex. f_equal; [f_equal|]; field. Qed.

Lemma box_vertex_inside_lemma g u1 u2 u3 :
  0 <= Box_dx g -> 0 <= Box_dy g -> 0 <= Box_dz g -> 0 <= u1 <= 1 -> 0 <= u2 <= 1 -> 0 <= u3 <= 1 ->
  let v := Rectangular_get_vertex g u1 u2 u3 in
  - Box_dx g / 2 <= vx v <= Box_dx g / 2 /\ - Box_dy g / 2 <= vy v <= Box_dy g / 2 /\ - Box_dz g <= vz v <= 0.
Proof.
  intros. unfold v. rewrite box_vertex_affine. unfold vx, vy, vz; simpl. repeat split; nra.
Qed.

Lemma le_div_iff a b c : 0 < c -> (a <= b / c <-> c * a <= b).
Proof.
  intro H. split; intro Q.
  - apply (Rmult_le_compat_l c) in Q; [|lra]. replace (c * (b / c)) with b in Q by (field; lra). assumption.
  - apply (Rmult_le_reg_l c); [assumption|]. replace (c * (b / c)) with b by (field; lra). assumption.
Qed.

(* each coordinate is affine in its own variate: the pre-image of the corner box {x<=a, y<=b, z<=c}
   is a box whose volume is the volume fraction *)
Lemma box_vertex_uniform_lemma g u1 u2 u3 a b c :
  0 < Box_dx g -> 0 < Box_dy g -> 0 < Box_dz g ->
  let v := Rectangular_get_vertex g u1 u2 u3 in
  (vx v <= a <-> u1 <= (a + Box_dx g / 2) / Box_dx g) /\
  (vy v <= b <-> u2 <= (b + Box_dy g / 2) / Box_dy g) /\
  (vz v <= c <-> u3 <= (c + Box_dz g) / Box_dz g) /\
  ((a + Box_dx g / 2) / Box_dx g) * ((b + Box_dy g / 2) / Box_dy g) * ((c + Box_dz g) / Box_dz g)
    = ((a + Box_dx g / 2) * (b + Box_dy g / 2) * (c + Box_dz g)) / (Box_dx g * Box_dy g * Box_dz g).
Proof.
  intros Hx Hy Hz v. unfold v. rewrite box_vertex_affine. unfold vx, vy, vz; simpl.
  rewrite !le_div_iff by assumption.
  repeat split; try (intros; lra). field. repeat split; lra.
Qed.

(* ================================================================ flavours *)
Definition ratio_ok (g : Gen) : Prop :=
  0 <= vx (Gen_ratio g) /\ 0 <= vy (Gen_ratio g) /\ 0 <= vz (Gen_ratio g) /\
  vx (Gen_ratio g) + vy (Gen_ratio g) + vz (Gen_ratio g) = 1.

(* the flavour is chosen by which of [0,r0), [r0,r0+r1), [r0+r1,1) contains u1 (lengths r0, r1, r2);
   neutrino rather than antineutrino iff u2 < nu : nubar fraction of that flavour *)
Definition flavour_spec (t : Z) (g : Gen) (u1 u2 : R) (fe fm ft : R) : Prop :=
  (Z.abs t = 12%Z <-> u1 < vx (Gen_ratio g)) /\
  (Z.abs t = 14%Z <-> vx (Gen_ratio g) <= u1 < vx (Gen_ratio g) + vy (Gen_ratio g)) /\
  (Z.abs t = 16%Z <-> vx (Gen_ratio g) + vy (Gen_ratio g) <= u1) /\
  (Z.abs t = 12%Z \/ Z.abs t = 14%Z \/ Z.abs t = 16%Z) /\
  ((0 < t)%Z <-> u2 < (if (Z.abs t =? 12)%Z then fe else if (Z.abs t =? 14)%Z then fm else ft)).

Ltac flavour_tac :=
  intros (R0 & R1 & R2 & RS); unfold flavour_spec;
  try unfold Generator_cosmogenic_get_particle_type; try unfold Generator_astrophysical_get_particle_type;
  cbn [nth]; rcases; cbn [Z.abs Z.eqb Pos.eqb];
  repeat split; intros; try lra; try lia; try discriminate; try (left; reflexivity);
  try (right; left; reflexivity); try (right; right; reflexivity).

Lemma flavour_cosmogenic_lemma g u1 u2 : ratio_ok g ->
  flavour_spec (Generator_cosmogenic_get_particle_type g u1 u2) g u1 u2 (78 / 100) (61 / 100) (61 / 100).
Proof. flavour_tac. Qed.

Lemma flavour_astrophysical_lemma g u1 u2 : ratio_ok g ->
  flavour_spec (Generator_astrophysical_get_particle_type g u1 u2) g u1 u2 (1 / 2) (1 / 2) (1 / 2).
Proof. flavour_tac. Qed.

(* Generator.__init__: self.ratio = flavor_ratio / sum(flavor_ratio) *)
Lemma ratio_normalised a b c : 0 <= a -> 0 <= b -> 0 <= c -> 0 < a + b + c ->
  ratio_ok (mkGen (a / (a + b + c), b / (a + b + c), c / (a + b + c))).
Proof.
  intros. unfold ratio_ok, vx, vy, vz; simpl.
  repeat split; try (apply Rmult_le_pos; [assumption|left; apply Rinv_0_lt_compat; assumption]).
  field. lra.
Qed.

(* ================================================================ weights *)
Definition dist (a b : vec3) : R :=
  sqrt ((vx a - vx b) ^ 2 + (vy a - vy b) ^ 2 + (vz a - vz b) ^ 2).

(* survival = exp(-column depth / interaction length); interaction = (in-ice chord / L) exp(-distance
   travelled in ice / L) with L = interaction length converted from cm water equivalent to m of ice *)
Lemma weights_spec_lemma p en ex t l_int :
  let L_ice := l_int / (92 / 100) / 100 in
  Generator_get_weights p en ex t l_int
  = (exp (- (t / l_int)), dist ex en / L_ice * exp (- dist (Particle_vertex p) en / L_ice)).
Proof.
  intro L_ice. unfold Generator_get_weights, L_ice, dist, vsum, vmul, vsub, vx, vy, vz; simpl.
  replace 0.92 with (92 / 100) by lra.
  f_equal. f_equal; [f_equal; f_equal; ring|].
  f_equal. f_equal. f_equal. f_equal. ring.
Qed.

Lemma weights_range_lemma p en ex t l_int : 0 <= t -> 0 < l_int ->
  0 < fst (Generator_get_weights p en ex t l_int) <= 1 /\ 0 <= snd (Generator_get_weights p en ex t l_int).
Proof.
  intros Ht HL. rewrite weights_spec_lemma. cbn [fst snd]. split.
  - split; [apply exp_pos|]. rewrite <- exp_0. 
    assert (0 <= t / l_int) by (apply Rmult_le_pos; [assumption|left; apply Rinv_0_lt_compat; assumption]).
    destruct (Req_dec (t / l_int) 0) as [E|E]; [rewrite E, Ropp_0; lra|].
    left. apply exp_increasing. lra.
  - apply Rmult_le_pos; [|left; apply exp_pos].
    apply Rmult_le_pos; [apply sqrt_pos|]. left. apply Rinv_0_lt_compat.
    apply Rmult_lt_0_compat; [|lra]. apply Rmult_lt_0_compat; [assumption|lra].
Qed.

(* ================================================================ shadowing: accept / reject *)
(* the throw is kept iff the accept variate lies in [0, w): for w in [0,1] that interval has length w,
   the rejection region [w, 1) has length 1 - w *)
Lemma shadow_accept_lemma (T : Type) (p : T) w u c f : 0 <= w <= 1 -> 0 <= u < 1 ->
  (create_event true (S f) c [(p, w, u)] = Some (p, 1, (c + 1)%Z, []) <-> 0 <= u < w) /\
  (create_event true (S f) c [(p, w, u)] = None <-> w <= u < 1).
Proof.
  intros Hw Hu. cbn [create_event negb].
  destruct (Rltb u w) eqn:E.
  - apply Rltb_true in E. split; split; intros; try reflexivity; try lra; try discriminate.
  - apply Rltb_false in E. destruct f; cbn [create_event]; split; split; intros; try reflexivity; try lra; try discriminate.
Qed.

(* every throw, including the rejected ones, increments count by one *)
Lemma count_counts_throws_lemma (T : Type) shadow : forall fuel c (throws : list (@throw T)) p w c' rest,
  create_event shadow fuel c throws = Some (p, w, c', rest) ->
  exists rejected pl wl ul,
    throws = rejected ++ (pl, wl, ul) :: rest /\
    c' = (c + Z.of_nat (length rejected) + 1)%Z /\
    p = pl /\
    (shadow = false -> rejected = [] /\ w = wl) /\
    (shadow = true -> w = 1 /\ ul < wl /\ List.Forall (fun t => snd (fst t) <= snd t) rejected).
Proof.
  induction fuel as [|f IH]; intros c throws p w c' rest H; [discriminate|].
  destruct throws as [|[[p0 w0] u0] r]; [discriminate|].
  cbn [create_event] in H. destruct shadow; cbn [negb] in H.
  - destruct (Rltb u0 w0) eqn:E.
    + injection H as <- <- <- <-. apply Rltb_true in E.
      exists [], p0, w0, u0. cbn [app length Z.of_nat]. repeat split; try lia; try discriminate; auto.
    + apply Rltb_false in E. destruct (IH _ _ _ _ _ _ H) as (rej & pl & wl & ul & A & B & C & D & F).
      exists ((p0, w0, u0) :: rej), pl, wl, ul. subst throws0 || idtac.
      split; [rewrite A; reflexivity|]. split; [cbn [length]; lia|]. split; [assumption|].
      split; [discriminate|]. intros _. destruct (F eq_refl) as (F1 & F2 & F3).
      repeat split; try assumption. constructor; [cbn [fst snd]; assumption|assumption].
  - injection H as <- <- <- <-. exists [], p0, w0, u0. cbn [app length Z.of_nat].
    repeat split; try lia; try discriminate; auto.
Qed.

(* ================================================================ ListGenerator *)
Definition creates (outs : list lout) : Z :=
  Z.of_nat (length (filter (fun o => match o with Ev _ => true | _ => false end) outs)).

Lemma l_run_index n loop : forall ops s,
  l_index (fst (l_run n loop s ops)) = (l_index s + creates (snd (l_run n loop s ops)))%Z.
Proof.
  induction ops as [|o ops IH]; intro s.
  - cbn. unfold creates; cbn. lia.
  - cbn [l_run]. destruct (l_step n loop s o) as [s' out] eqn:E.
    specialize (IH s'). destruct (l_run n loop s' ops) as [s'' outs] eqn:E2. cbn [fst snd] in *.
    rewrite IH. unfold creates. cbn [filter].
    destruct o; cbn [l_step] in E.
    + destruct (negb loop && (l_index s >=? n)%Z); injection E as <- <-; cbn [l_index length]; lia.
    + injection E as <- <-; cbn [l_index length]; lia.
    + injection E as <- <-; cbn [l_index length]; lia.
Qed.

(* count = (value last assigned to count, 0 initially) + number of events handed out since *)
Lemma l_count_no_set n loop : forall ops s,
  List.Forall (fun o => match o with SetCount _ => False | _ => True end) ops ->
  l_count (fst (l_run n loop s ops)) = (l_count s + creates (snd (l_run n loop s ops)))%Z.
Proof.
  induction ops as [|o ops IH]; intros s H.
  - cbn. unfold creates; cbn. lia.
  - inversion H as [|? ? Ho Hr]; subst. cbn [l_run].
    destruct (l_step n loop s o) as [s' out] eqn:E.
    specialize (IH s' Hr). destruct (l_run n loop s' ops) as [s'' outs] eqn:E2. cbn [fst snd] in *.
    rewrite IH. unfold creates, l_count. cbn [filter].
    destruct o; cbn [l_step] in E; try contradiction.
    + destruct (negb loop && (l_index s >=? n)%Z); injection E as <- <-; cbn [l_index l_add length]; lia.
    + injection E as <- <-; cbn [l_index l_add length]; lia.
Qed.

Lemma l_count_set n loop s c : l_count (fst (l_step n loop s (SetCount c))) = c.
Proof. unfold l_count; cbn. lia. Qed.

Lemma l_getcount n loop s : l_step n loop s GetCount = (s, Cnt (l_index s + l_add s)).
Proof. reflexivity. Qed.

(* with loop=True the k-th call (from index i) returns event (i+k) mod n: the list is cycled *)
Lemma l_cycles n : forall k i a,
  l_run n true (mkL i a) (repeat Create k)
  = (mkL (i + Z.of_nat k) a, map (fun j : nat => Ev ((i + Z.of_nat j) mod n)%Z) (seq 0 k)).
Proof.
  induction k as [|k IH]; intros i a.
  - cbn. f_equal. f_equal. lia.
  - cbn [repeat l_run l_step negb andb l_index l_add]. rewrite IH. f_equal.
    + f_equal. lia.
    + cbn [seq map]. f_equal.
      * f_equal. f_equal. lia.
      * rewrite <- seq_shift, map_map. apply map_ext. intro j. f_equal. f_equal. lia.
Qed.

(* with loop=False the first n calls return events 0..n-1 in order, every later call stops and
   leaves the state (hence count) unchanged *)
Lemma l_stops_prefix n : forall k i a, (0 <= i)%Z -> (i + Z.of_nat k <= n)%Z ->
  l_run n false (mkL i a) (repeat Create k)
  = (mkL (i + Z.of_nat k) a, map (fun j : nat => Ev (i + Z.of_nat j)%Z) (seq 0 k)).
Proof.
  induction k as [|k IH]; intros i a Hi Hk.
  - cbn. f_equal. f_equal. lia.
  - cbn [repeat l_run l_step negb andb l_index l_add].
    replace (i >=? n)%Z with false by (symmetry; rewrite Z.geb_leb; apply Z.leb_gt; lia).
    rewrite IH by lia. f_equal.
    + f_equal. lia.
    + cbn [seq map]. f_equal.
      * f_equal. replace (i + 1 - 1)%Z with i by lia. rewrite Z.mod_small by lia. lia.
      * rewrite <- seq_shift, map_map. apply map_ext. intro j. f_equal. lia.
Qed.

Lemma l_stops_after n : forall k i a, (n <= i)%Z ->
  l_run n false (mkL i a) (repeat Create k) = (mkL i a, repeat Stop k).
Proof.
  induction k as [|k IH]; intros i a Hi; [reflexivity|].
  cbn [repeat l_run l_step negb andb l_index].
  replace (i >=? n)%Z with true by (symmetry; rewrite Z.geb_leb; apply Z.leb_le; lia).
  rewrite IH by assumption. reflexivity.
Qed.

(* ================================================================ exit points: box *)
Definition lo_side dx dy dz i := fst (box_sides dx dy dz i).
Definition hi_side dx dy dz i := snd (box_sides dx dy dz i).
Definition box_strictly_inside dx dy dz (v : vec3) : Prop :=
  forall i, (i < 3)%nat -> lo_side dx dy dz i < vnth v i < hi_side dx dy dz i.
Definition box_closed dx dy dz (p : vec3) : Prop :=
  forall i, (i < 3)%nat -> lo_side dx dy dz i <= vnth p i <= hi_side dx dy dz i.
Definition box_on_boundary dx dy dz (p : vec3) : Prop :=
  box_closed dx dy dz p /\
  exists i, (i < 3)%nat /\ (vnth p i = lo_side dx dy dz i \/ vnth p i = hi_side dx dy dz i).
Definition line_point (v d : vec3) (s : R) : vec3 := (vx v + vx d * s, vy v + vy d * s, vz v + vz d * s).
(* a point on the boundary, on the line of flight, behind (s<0) or ahead of (s>0) the vertex *)
Definition good_point dx dy dz v d (behind : bool) (p : vec3) : Prop :=
  exists s, (if behind then s < 0 else 0 < s) /\ p = line_point v d s /\ box_on_boundary dx dy dz p.
Definition box_inv dx dy dz v d (st : box_state) : Prop :=
  (forall p, fst st = Some p -> good_point dx dy dz v d true p) /\
  (forall p, snd st = Some p -> good_point dx dy dz v d false p).

Lemma vnth_line v d s i : vnth (line_point v d s) i = vnth v i + vnth d i * s.
Proof. destruct i as [|[|i]]; reflexivity. Qed.

Lemma box_valid_spec dx dy dz c p : box_valid dx dy dz c p = true ->
  forall i, (i < 3)%nat -> i <> c -> lo_side dx dy dz i <= vnth p i <= hi_side dx dy dz i.
Proof.
  unfold box_valid. intros H i Hi Hne. rewrite forallb_forall in H.
  assert (Hin : In i [0%nat; 1%nat; 2%nat]) by (destruct i as [|[|[|i]]]; simpl; auto; lia).
  specialize (H i Hin). apply orb_true_iff in H. destruct H as [H|H].
  - apply Nat.eqb_eq in H. contradiction.
  - apply negb_true_iff, orb_false_iff in H. destruct H as [A B].
    apply Rltb_false in A. apply Rgtb_false in B. unfold lo_side, hi_side. lra.
Qed.

Lemma box_face_inv dx dy dz v d c m st : (c < 3)%nat ->
  box_strictly_inside dx dy dz v -> box_inv dx dy dz v d st ->
  box_inv dx dy dz v d (fst (box_face dx dy dz v d c m st)).
Proof.
  intros Hc Hin Hinv. unfold box_face.
  destruct (Reqb (vnth d c) 0) eqn:E0; [assumption|].
  assert (Hd : vnth d c <> 0) by (intro Z; apply Reqb_true in Z; rewrite Z in E0; discriminate).
  set (side := if m then snd (box_sides dx dy dz c) else fst (box_sides dx dy dz c)).
  set (s := (side - vnth v c) / vnth d c).
  change (vx v + vx d * s, vy v + vy d * s, vz v + vz d * s) with (line_point v d s).
  cbv zeta. cbn [fst].
  destruct (box_valid dx dy dz c (line_point v d s)) eqn:V; [|assumption].
  pose proof (box_valid_spec _ _ _ _ _ V) as Hothers.
  pose proof (Hin c Hc) as [Hlo Hhi]. unfold lo_side, hi_side in Hlo, Hhi.
  assert (Hpc : vnth (line_point v d s) c = side) by (rewrite vnth_line; unfold s; field; assumption).
  assert (Hsd : s * vnth d c = side - vnth v c) by (unfold s; field; assumption).
  assert (Hbd : box_on_boundary dx dy dz (line_point v d s)).
  { split.
    - intros i Hi. destruct (Nat.eq_dec i c) as [->|Hne]; [|apply Hothers; assumption].
      rewrite Hpc. unfold lo_side, hi_side, side. destruct m; lra.
    - exists c. split; [assumption|]. rewrite Hpc. unfold lo_side, hi_side, side. destruct m; [right|left]; reflexivity. }
  destruct Hinv as [I1 I2].
  destruct (Rltb ((if m then 1 else -1) * vnth d c) 0) eqn:Es.
  - apply Rltb_true in Es. split; cbn [fst snd]; [|assumption].
    intros p Hp. injection Hp as <-. exists s. split; [|split; [reflexivity|assumption]].
    unfold side in Hsd. destruct m; nra.
  - apply Rltb_false in Es. split; cbn [fst snd]; [assumption|].
    intros p Hp. injection Hp as <-. exists s. split; [|split; [reflexivity|assumption]].
    unfold side in Hsd. destruct m.
    + assert (0 < vnth d c) by lra. nra.
    + assert (vnth d c < 0) by lra. nra.
Qed.

Lemma box_loop_sound dx dy dz v d : box_strictly_inside dx dy dz v ->
  forall faces st en ex, List.Forall (fun f => (fst f < 3)%nat) faces -> box_inv dx dy dz v d st ->
  box_loop dx dy dz v d faces st = Some (en, ex) ->
  good_point dx dy dz v d true en /\ good_point dx dy dz v d false ex.
Proof.
  intros Hin. induction faces as [|[c m] rest IH]; intros st en ex Hf Hinv H; [discriminate|].
  inversion Hf as [|? ? Hc Hr]; subst. cbn [box_loop] in H.
  pose proof (box_face_inv dx dy dz v d c m st Hc Hin Hinv) as Hinv'.
  destruct (box_face dx dy dz v d c m st) as [st' ret] eqn:E. cbn [fst] in Hinv'.
  destruct ret.
  - destruct st' as [[a|] [b|]]; cbn [both_some] in H; try discriminate.
    injection H as <- <-. destruct Hinv' as [A B]. split; [apply A|apply B]; reflexivity.
  - apply (IH st'); assumption.
Qed.

(* soundness: whenever get_exit_points returns, both points lie on the boundary of the box, on the
   particle's line of flight, the entry behind and the exit ahead of the vertex *)
Lemma exit_points_box_sound_lemma dx dy dz v d en ex :
  box_strictly_inside dx dy dz v ->
  box_exit_points dx dy dz v d = Some (en, ex) ->
  good_point dx dy dz v d true en /\ good_point dx dy dz v d false ex.
Proof.
  intros Hin H. apply (box_loop_sound dx dy dz v d Hin box_faces (None, None)); try assumption.
  - unfold box_faces. repeat constructor; cbn; lia.
  - split; intros p Hp; discriminate.
Qed.
(* ================================================================ non-vacuity *)
Example ratio_example : ratio_ok (mkGen (1 / 3, 1 / 3, 1 / 3)).
Proof. unfold ratio_ok, vx, vy, vz; simpl. lra. Qed.

Example box_exit_example :
  box_strictly_inside 2 2 2 (0, 0, -1) /\
  exists en ex, box_exit_points 2 2 2 (0, 0, -1) (1, 0, 0) = Some (en, ex).
Proof.
  split.
  - intros i Hi. destruct i as [|[|[|i]]]; try lia; unfold lo_side, hi_side, box_sides, vnth, vx, vy, vz; simpl; lra.
  - exists (0 + 1 * ((- 2 / 2 - 0) / 1), 0 + 0 * ((- 2 / 2 - 0) / 1), -1 + 0 * ((- 2 / 2 - 0) / 1)).
    exists (0 + 1 * ((2 / 2 - 0) / 1), 0 + 0 * ((2 / 2 - 0) / 1), -1 + 0 * ((2 / 2 - 0) / 1)).
    unfold box_exit_points, box_faces. cbn [box_loop].
    unfold box_face at 1. cbn [vnth vx vy vz fst snd box_sides].
    replace (Reqb 1 0) with false by (symmetry; destruct (Reqb 1 0) eqn:E; [apply Reqb_true in E; lra|reflexivity]).
    unfold box_valid. cbn [forallb Nat.eqb orb vnth vx vy vz fst snd box_sides andb].
    repeat match goal with
    | |- context [Rltb ?a ?b] => first [ replace (Rltb a b) with true by (symmetry; apply Rltb_true; lra)
                                       | replace (Rltb a b) with false by (symmetry; apply Rltb_false; lra) ]
    | |- context [Rgtb ?a ?b] => first [ replace (Rgtb a b) with true by (symmetry; apply Rgtb_true; lra)
                                       | replace (Rgtb a b) with false by (symmetry; apply Rgtb_false; lra) ]
    end.
    cbn [negb orb andb both_some fst snd].
    unfold box_face at 1. cbn [vnth vx vy vz fst snd box_sides].
    replace (Reqb 1 0) with false by (symmetry; destruct (Reqb 1 0) eqn:E; [apply Reqb_true in E; lra|reflexivity]).
    unfold box_valid. cbn [forallb Nat.eqb orb vnth vx vy vz fst snd box_sides andb].
    repeat match goal with
    | |- context [Rltb ?a ?b] => first [ replace (Rltb a b) with true by (symmetry; apply Rltb_true; lra)
                                       | replace (Rltb a b) with false by (symmetry; apply Rltb_false; lra) ]
    | |- context [Rgtb ?a ?b] => first [ replace (Rgtb a b) with true by (symmetry; apply Rgtb_true; lra)
                                       | replace (Rgtb a b) with false by (symmetry; apply Rgtb_false; lra) ]
    end.
    cbn [negb orb andb both_some fst snd]. reflexivity.
Qed.
(* ================================================================ exit points: box, totality *)
Definition face_side dx dy dz (c : nat) (m : bool) : R :=
  if m then snd (box_sides dx dy dz c) else fst (box_sides dx dy dz c).
Definition face_scale dx dy dz (v d : vec3) (c : nat) (m : bool) : R :=
  (face_side dx dy dz c m - vnth v c) / vnth d c.
(* a face whose iteration assigns enter_point (behind = true) / exit_point (behind = false) *)
Definition assigning_face dx dy dz v d (behind : bool) (f : nat * bool) : Prop :=
  vnth d (fst f) <> 0 /\
  box_valid dx dy dz (fst f) (line_point v d (face_scale dx dy dz v d (fst f) (snd f))) = true /\
  Rltb ((if snd f then 1 else -1) * vnth d (fst f)) 0 = behind.

Lemma box_face_assign dx dy dz v d c m st behind :
  assigning_face dx dy dz v d behind (c, m) ->
  (if behind then fst (fst (box_face dx dy dz v d c m st)) else snd (fst (box_face dx dy dz v d c m st))) <> None.
Proof.
  intros (Hd & Hv & Hs). cbn [fst snd] in *. unfold box_face.
  destruct (Reqb (vnth d c) 0) eqn:E; [apply Reqb_true in E; contradiction|].
  cbv zeta. fold (face_side dx dy dz c m). fold (face_scale dx dy dz v d c m).
  change (vx v + vx d * face_scale dx dy dz v d c m, vy v + vy d * face_scale dx dy dz v d c m, vz v + vz d * face_scale dx dy dz v d c m)
    with (line_point v d (face_scale dx dy dz v d c m)).
  rewrite Hv, Hs. destruct behind; cbn [fst snd]; discriminate.
Qed.

Lemma box_face_keeps dx dy dz v d c m st :
  (fst st <> None -> fst (fst (box_face dx dy dz v d c m st)) <> None) /\
  (snd st <> None -> snd (fst (box_face dx dy dz v d c m st)) <> None).
Proof.
  unfold box_face. destruct (Reqb (vnth d c) 0); [cbn [fst]; tauto|]. cbv zeta.
  match goal with |- context [box_valid ?a ?b ?c0 ?e ?p] => destruct (box_valid a b c0 e p) end; [|cbn [fst]; tauto].
  match goal with |- context [Rltb ?a ?b] => destruct (Rltb a b) end; cbn [fst snd]; split; intro H; try assumption; discriminate.
Qed.

Lemma box_face_ret dx dy dz v d c m st :
  snd (box_face dx dy dz v d c m st) = match both_some (fst (box_face dx dy dz v d c m st)) with Some _ => true | None => false end
  \/ (snd (box_face dx dy dz v d c m st) = false /\ fst (box_face dx dy dz v d c m st) = st).
Proof.
  unfold box_face. destruct (Reqb (vnth d c) 0); [right; split; reflexivity|]. left. reflexivity.
Qed.

Lemma box_loop_total dx dy dz v d : forall faces st,
  both_some st = None ->
  (fst st <> None \/ exists f, In f faces /\ assigning_face dx dy dz v d true f) ->
  (snd st <> None \/ exists f, In f faces /\ assigning_face dx dy dz v d false f) ->
  box_loop dx dy dz v d faces st <> None.
Proof.
  induction faces as [|[c m] rest IH]; intros st Hb He Hx.
  - exfalso. destruct st as [[a|] [b|]]; cbn in *; try discriminate.
    + destruct Hx as [Hx|(f & [] & _)]. apply Hx; reflexivity.
    + destruct He as [He|(f & [] & _)]. apply He; reflexivity.
    + destruct He as [He|(f & [] & _)]. apply He; reflexivity.
  - cbn [box_loop].
    pose proof (box_face_keeps dx dy dz v d c m st) as [K1 K2].
    pose proof (box_face_ret dx dy dz v d c m st) as R.
    assert (E1 : fst (fst (box_face dx dy dz v d c m st)) <> None \/ exists f, In f rest /\ assigning_face dx dy dz v d true f).
    { destruct He as [He|(f & [Hf|Hf] & Ha)]; [left; auto| |right; exists f; auto].
      left. subst f. apply (box_face_assign dx dy dz v d c m st true Ha). }
    assert (E2 : snd (fst (box_face dx dy dz v d c m st)) <> None \/ exists f, In f rest /\ assigning_face dx dy dz v d false f).
    { destruct Hx as [Hx|(f & [Hf|Hf] & Ha)]; [left; auto| |right; exists f; auto].
      left. subst f. apply (box_face_assign dx dy dz v d c m st false Ha). }
    destruct (box_face dx dy dz v d c m st) as [st' ret] eqn:E. cbn [fst snd] in *.
    destruct ret.
    + destruct R as [R|[R _]]; [|discriminate].
      destruct (both_some st'); [discriminate|discriminate].
    + apply IH; try assumption.
      destruct R as [R|[_ R]]; [destruct (both_some st'); [discriminate|reflexivity]|subst st'; assumption].
Qed.

(* a maximiser of f among the elements of a finite list that satisfy a decidable predicate *)
Lemma finite_max (f : nat -> R) (P : nat -> Prop) (Pdec : forall i, P i \/ ~ P i) : forall l,
  (forall j, In j l -> ~ P j) \/ (exists i, In i l /\ P i /\ forall j, In j l -> P j -> f j <= f i).
Proof.
  induction l as [|a r IH]; [left; intros j []|].
  destruct IH as [IH|(i & Hi & Pi & Hmax)]; destruct (Pdec a) as [Pa|Pa].
  - right. exists a. split; [left; reflexivity|]. split; [assumption|].
    intros j [<-|Hj] Pj; [lra|]. exfalso. apply (IH j Hj Pj).
  - left. intros j [<-|Hj]; auto.
  - right. destruct (Rle_dec (f a) (f i)).
    + exists i. split; [right; assumption|]. split; [assumption|]. intros j [<-|Hj] Pj; auto.
    + exists a. split; [left; reflexivity|]. split; [assumption|]. intros j [<-|Hj] Pj; [lra|].
      specialize (Hmax j Hj Pj). lra.
  - right. exists i. split; [right; assumption|]. split; [assumption|]. intros j [<-|Hj] Pj; [contradiction|auto].
Qed.

Definition enter_m (d : vec3) (i : nat) : bool := Rltb (vnth d i) 0.      (* entering through the max side iff d_i < 0 *)
Definition exit_m (d : vec3) (i : nat) : bool := negb (Rltb (vnth d i) 0).

Lemma in_012 i : In i [0%nat; 1%nat; 2%nat] <-> (i < 3)%nat.
Proof. split; [intros [<-|[<-|[<-|[]]]]; lia|intro H; destruct i as [|[|[|i]]]; simpl; auto; lia]. Qed.

Lemma sides_of_inside dx dy dz v i : box_strictly_inside dx dy dz v -> (i < 3)%nat ->
  fst (box_sides dx dy dz i) < vnth v i < snd (box_sides dx dy dz i).
Proof. intros H Hi. apply (H i Hi). Qed.

(* the face through which the line enters last (largest negative parameter) is a valid entry *)
Lemma entering_face_valid dx dy dz v d i :
  box_strictly_inside dx dy dz v -> (i < 3)%nat -> vnth d i <> 0 ->
  (forall j, In j [0%nat; 1%nat; 2%nat] -> vnth d j <> 0 ->
     face_scale dx dy dz v d j (enter_m d j) <= face_scale dx dy dz v d i (enter_m d i)) ->
  assigning_face dx dy dz v d true (i, enter_m d i).
Proof.
  intros Hin Hi Hd Hmax. unfold assigning_face. cbn [fst snd]. split; [assumption|].
  set (s := face_scale dx dy dz v d i (enter_m d i)).
  assert (Hsd : forall j, (j < 3)%nat -> vnth d j <> 0 ->
            face_scale dx dy dz v d j (enter_m d j) * vnth d j = face_side dx dy dz j (enter_m d j) - vnth v j)
    by (intros j _ Hj; unfold face_scale; field; assumption).
  assert (Hs : s < 0).
  { pose proof (Hsd i Hi Hd) as Q. fold s in Q. pose proof (sides_of_inside dx dy dz v i Hin Hi) as [A B].
    unfold face_side, enter_m in Q. destruct (Rltb (vnth d i) 0) eqn:E.
    - apply Rltb_true in E. nra.
    - apply Rltb_false in E. assert (0 < vnth d i) by lra. nra. }
  split.
  - unfold box_valid. apply forallb_forall. intros j Hj. apply orb_true_iff.
    destruct (Nat.eq_dec j i) as [->|Hne]; [left; apply Nat.eqb_refl|right].
    apply negb_true_iff, orb_false_iff. rewrite Rltb_false, Rgtb_false, vnth_line.
    pose proof (proj1 (in_012 j) Hj) as Hj3.
    pose proof (sides_of_inside dx dy dz v j Hin Hj3) as [A B].
    destruct (Req_dec (vnth d j) 0) as [Z|NZ]; [rewrite Z; lra|].
    pose proof (Hmax j Hj NZ) as M. fold s in M. pose proof (Hsd j Hj3 NZ) as Q.
    unfold face_side, enter_m in Q, M. destruct (Rltb (vnth d j) 0) eqn:E.
    + apply Rltb_true in E. split; nra.
    + apply Rltb_false in E. assert (0 < vnth d j) by lra. split; nra.
  - unfold enter_m. destruct (Rltb (vnth d i) 0) eqn:E.
    + apply Rltb_true in E. apply Rltb_true. lra.
    + apply Rltb_false in E. apply Rltb_true. lra.
Qed.

Lemma exiting_face_valid dx dy dz v d i :
  box_strictly_inside dx dy dz v -> (i < 3)%nat -> vnth d i <> 0 ->
  (forall j, In j [0%nat; 1%nat; 2%nat] -> vnth d j <> 0 ->
     - face_scale dx dy dz v d j (exit_m d j) <= - face_scale dx dy dz v d i (exit_m d i)) ->
  assigning_face dx dy dz v d false (i, exit_m d i).
Proof.
  intros Hin Hi Hd Hmax. unfold assigning_face. cbn [fst snd]. split; [assumption|].
  set (s := face_scale dx dy dz v d i (exit_m d i)).
  assert (Hsd : forall j, (j < 3)%nat -> vnth d j <> 0 ->
            face_scale dx dy dz v d j (exit_m d j) * vnth d j = face_side dx dy dz j (exit_m d j) - vnth v j)
    by (intros j _ Hj; unfold face_scale; field; assumption).
  assert (Hs : 0 < s).
  { pose proof (Hsd i Hi Hd) as Q. fold s in Q. pose proof (sides_of_inside dx dy dz v i Hin Hi) as [A B].
    unfold face_side, exit_m in Q. destruct (Rltb (vnth d i) 0) eqn:E; cbn [negb] in Q.
    - apply Rltb_true in E. nra.
    - apply Rltb_false in E. assert (0 < vnth d i) by lra. nra. }
  split.
  - unfold box_valid. apply forallb_forall. intros j Hj. apply orb_true_iff.
    destruct (Nat.eq_dec j i) as [->|Hne]; [left; apply Nat.eqb_refl|right].
    apply negb_true_iff, orb_false_iff. rewrite Rltb_false, Rgtb_false, vnth_line.
    pose proof (proj1 (in_012 j) Hj) as Hj3.
    pose proof (sides_of_inside dx dy dz v j Hin Hj3) as [A B].
    destruct (Req_dec (vnth d j) 0) as [Z|NZ]; [rewrite Z; lra|].
    pose proof (Hmax j Hj NZ) as M. fold s in M. pose proof (Hsd j Hj3 NZ) as Q.
    unfold face_side, exit_m in Q, M. destruct (Rltb (vnth d j) 0) eqn:E; cbn [negb] in Q, M.
    + apply Rltb_true in E. split; nra.
    + apply Rltb_false in E. assert (0 < vnth d j) by lra. split; nra.
  - unfold exit_m. destruct (Rltb (vnth d i) 0) eqn:E; cbn [negb].
    + apply Rltb_true in E. apply Rltb_false. lra.
    + apply Rltb_false in E. apply Rltb_false. lra.
Qed.

Lemma face_in_faces i m : (i < 3)%nat -> In (i, m) box_faces.
Proof. intro H. destruct i as [|[|[|i]]]; try lia; destruct m; simpl; auto 10. Qed.

(* totality: a vertex strictly inside and a non-zero direction always yield both points *)
Lemma exit_points_box_total_lemma dx dy dz v d :
  box_strictly_inside dx dy dz v -> (exists k, (k < 3)%nat /\ vnth d k <> 0) ->
  box_exit_points dx dy dz v d <> None.
Proof.
  intros Hin (k & Hk & Hdk). unfold box_exit_points.
  assert (Pdec : forall i, vnth d i <> 0 \/ ~ vnth d i <> 0) by (intro i; destruct (Req_dec (vnth d i) 0); [right|left]; tauto).
  apply box_loop_total; [reflexivity| |]; right.
  - destruct (finite_max (fun j => face_scale dx dy dz v d j (enter_m d j)) (fun j => vnth d j <> 0) Pdec [0%nat; 1%nat; 2%nat])
      as [Hn|(i & Hi & Pi & Hmax)]; [exfalso; apply (Hn k); [apply in_012; assumption|assumption]|].
    exists (i, enter_m d i). split; [apply face_in_faces, in_012; assumption|].
    apply entering_face_valid; try assumption. apply in_012; assumption.
  - destruct (finite_max (fun j => - face_scale dx dy dz v d j (exit_m d j)) (fun j => vnth d j <> 0) Pdec [0%nat; 1%nat; 2%nat])
      as [Hn|(i & Hi & Pi & Hmax)]; [exfalso; apply (Hn k); [apply in_012; assumption|assumption]|].
    exists (i, exit_m d i). split; [apply face_in_faces, in_012; assumption|].
    apply exiting_face_valid; try assumption. apply in_012; assumption.
Qed.

Lemma exit_points_box_lemma dx dy dz v d :
  box_strictly_inside dx dy dz v -> (exists k, (k < 3)%nat /\ vnth d k <> 0) ->
  exists en ex, box_exit_points dx dy dz v d = Some (en, ex) /\
                good_point dx dy dz v d true en /\ good_point dx dy dz v d false ex.
Proof.
  intros Hin Hd. pose proof (exit_points_box_total_lemma dx dy dz v d Hin Hd) as T.
  destruct (box_exit_points dx dy dz v d) as [[en ex]|] eqn:E; [|contradiction].
  exists en, ex. split; [reflexivity|]. apply exit_points_box_sound_lemma; assumption.
Qed.

(* ================================================================ the energy source *)
Definition source_calls (o : gop) : Z :=
  match o with Throws r => (Z.of_nat r + 1)%Z | DirectEnergy => 1%Z | SetCountG _ => 0%Z end.
Definition op_throws (o : gop) : Z :=
  match o with Throws r => (Z.of_nat r + 1)%Z | _ => 0%Z end.
Fixpoint sumZ (f : gop -> Z) (ops : list gop) : Z :=
  match ops with [] => 0%Z | o :: r => (f o + sumZ f r)%Z end.

(* the source is called exactly once per throw (rejected ones included) and once per direct call,
   never otherwise (in particular not at construction: g_init starts at position 0) *)
Lemma g_run_pos : forall ops s, g_pos (fst (g_run s ops)) = (g_pos s + sumZ source_calls ops)%Z.
Proof.
  induction ops as [|o ops IH]; intro s; [cbn; lia|].
  cbn [g_run sumZ]. destruct (g_step s o) as [s' out] eqn:E.
  specialize (IH s'). destruct (g_run s' ops) as [s'' outs]. cbn [fst] in *. rewrite IH.
  destruct o; cbn in E; injection E as <- <-; cbn [g_pos source_calls]; lia.
Qed.

Lemma g_run_count : forall ops s,
  List.Forall (fun o => match o with SetCountG _ => False | _ => True end) ops ->
  g_count (fst (g_run s ops)) = (g_count s + sumZ op_throws ops)%Z.
Proof.
  induction ops as [|o ops IH]; intros s H; [cbn; lia|].
  inversion H as [|? ? Ho Hr]; subst. cbn [g_run sumZ]. destruct (g_step s o) as [s' out] eqn:E.
  specialize (IH s' Hr). destruct (g_run s' ops) as [s'' outs]. cbn [fst] in *. rewrite IH.
  destruct o; cbn in E; try contradiction; injection E as <- <-; cbn [g_count op_throws]; lia.
Qed.

(* an event carries the value produced by the call made in its own (accepted) throw: with no direct
   calls and count started at c0 together with the source, the accepted throw number k overall
   (rejected throws included) has the k-th value: energy index = count - c0 - 1 *)
Definition only_throws (ops : list gop) : Prop :=
  List.Forall (fun o => match o with Throws _ => True | _ => False end) ops.
Definition event_matches (c0 : Z) (o : gout) : Prop :=
  match o with GEvent i c => i = (c - c0 - 1)%Z | _ => True end.

Lemma g_run_kth c0 : forall ops s, only_throws ops -> g_pos s = (g_count s - c0)%Z ->
  List.Forall (event_matches c0) (snd (g_run s ops)) /\
  g_pos (fst (g_run s ops)) = (g_count (fst (g_run s ops)) - c0)%Z.
Proof.
  induction ops as [|o ops IH]; intros s H Hs; [cbn; split; [constructor|assumption]|].
  inversion H as [|? ? Ho Hr]; subst. destruct o as [r| |c]; try contradiction.
  cbn [g_run g_step].
  set (s' := mkG (g_pos s + (Z.of_nat r + 1)) (g_count s + (Z.of_nat r + 1))).
  assert (Hs' : g_pos s' = (g_count s' - c0)%Z) by (unfold s'; cbn; lia).
  destruct (IH s' Hr Hs') as [A B]. destruct (g_run s' ops) as [s'' outs]. cbn [fst snd] in *.
  split; [|assumption]. constructor; [cbn; lia|assumption].
Qed.
