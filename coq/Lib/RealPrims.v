(* Real-number primitives the generated files (Gen_*.v) are written in:
   boolean comparisons, 3-vectors, NumPy scalar functions, tabulated interpolation. *)
From Coq Require Import Reals List Bool ZArith Lra.
Import ListNotations.
Open Scope R_scope.

Definition Rltb (a b : R) : bool := if Rlt_dec a b then true else false.
Definition Rleb (a b : R) : bool := if Rle_dec a b then true else false.
Definition Rgtb (a b : R) : bool := Rltb b a.
Definition Rgeb (a b : R) : bool := Rleb b a.
Definition Reqb (a b : R) : bool := if Req_EM_T a b then true else false.

Lemma Rltb_true a b : Rltb a b = true <-> a < b.
Proof. unfold Rltb; destruct (Rlt_dec a b); split; intros; try assumption; try reflexivity; try discriminate; contradiction. Qed.
Lemma Rltb_false a b : Rltb a b = false <-> b <= a.
Proof. unfold Rltb; destruct (Rlt_dec a b); split; intros; try discriminate; try reflexivity; lra. Qed.
Lemma Rleb_true a b : Rleb a b = true <-> a <= b.
Proof. unfold Rleb; destruct (Rle_dec a b); split; intros; try assumption; try reflexivity; try discriminate; contradiction. Qed.
Lemma Rleb_false a b : Rleb a b = false <-> b < a.
Proof. unfold Rleb; destruct (Rle_dec a b); split; intros; try discriminate; try reflexivity; lra. Qed.
Lemma Rgtb_true a b : Rgtb a b = true <-> a > b.
Proof. unfold Rgtb; rewrite Rltb_true; lra. Qed.
Lemma Rgtb_false a b : Rgtb a b = false <-> a <= b.
Proof. unfold Rgtb; rewrite Rltb_false; lra. Qed.
Lemma Rgeb_true a b : Rgeb a b = true <-> a >= b.
Proof. unfold Rgeb; rewrite Rleb_true; lra. Qed.
Lemma Rgeb_false a b : Rgeb a b = false <-> a < b.
Proof. unfold Rgeb; rewrite Rleb_false; lra. Qed.
Lemma Reqb_true a b : Reqb a b = true <-> a = b.
Proof. unfold Reqb; destruct (Req_EM_T a b); split; intros; try assumption; try reflexivity; try discriminate; contradiction. Qed.

(* Case analysis helper: destruct a boolean comparison and get the real inequality. *)
Ltac rcases :=
  repeat match goal with
  | |- context [Rltb ?a ?b] => let H := fresh "Hc" in destruct (Rltb a b) eqn:H;
        [apply Rltb_true in H | apply Rltb_false in H]
  | |- context [Rleb ?a ?b] => let H := fresh "Hc" in destruct (Rleb a b) eqn:H;
        [apply Rleb_true in H | apply Rleb_false in H]
  | |- context [Rgtb ?a ?b] => let H := fresh "Hc" in destruct (Rgtb a b) eqn:H;
        [apply Rgtb_true in H | apply Rgtb_false in H]
  | |- context [Rgeb ?a ?b] => let H := fresh "Hc" in destruct (Rgeb a b) eqn:H;
        [apply Rgeb_true in H | apply Rgeb_false in H]
  end.

Definition is_none {A} (o : option A) : bool := match o with None => true | Some _ => false end.
Definition opt_get (o : option R) (d : R) : R := match o with Some x => x | None => d end.

(* physical constants as scipy.constants defines them (CODATA 2018, exact SI values) *)
Definition speed_of_light : R := 299792458.
Definition boltzmann : R := 1.380649e-23.
Definition avogadro : R := 6.02214076e23.
Definition zero_Celsius : R := 273.15.

Definition log10 (x : R) : R := ln x / ln 10.
Definition radians (x : R) : R := x * PI / 180.
Definition degrees (x : R) : R := x * 180 / PI.
Definition sign (x : R) : R := if Rltb x 0 then -1 else if Rltb 0 x then 1 else 0.
Definition isclose (a b rtol atol : R) : bool := Rleb (Rabs (a - b)) (atol + rtol * Rabs b).

(* integer part toward zero (Python int()) and floor *)
Definition Rfloor_Z (x : R) : Z := (up x - 1)%Z.
Definition Rtrunc (x : R) : Z := if Rltb x 0 then (- Rfloor_Z (- x))%Z else Rfloor_Z x.
Definition Rfloor (x : R) : R := IZR (Rfloor_Z x).
Definition Rceil (x : R) : R := - IZR (Rfloor_Z (- x)).
Definition Rmod (x y : R) : R := x - y * Rfloor (x / y).

(* numpy.arctan2 *)
Definition atan2 (y x : R) : R :=
  if Rltb 0 x then atan (y / x)
  else if Rltb x 0 then (if Rleb 0 y then atan (y / x) + PI else atan (y / x) - PI)
  else if Rltb 0 y then PI / 2 else if Rltb y 0 then - PI / 2 else 0.

(* 3-vectors *)
Definition vec3 : Type := (R * R * R)%type.
Definition vx (v : vec3) : R := fst (fst v).
Definition vy (v : vec3) : R := snd (fst v).
Definition vz (v : vec3) : R := snd v.
Definition vadd (a b : vec3) : vec3 := (vx a + vx b, vy a + vy b, vz a + vz b).
Definition vsub (a b : vec3) : vec3 := (vx a - vx b, vy a - vy b, vz a - vz b).
Definition vmul (a b : vec3) : vec3 := (vx a * vx b, vy a * vy b, vz a * vz b).
Definition vscale (s : R) (a : vec3) : vec3 := (s * vx a, s * vy a, s * vz a).
Definition vopp (a : vec3) : vec3 := (- vx a, - vy a, - vz a).
Definition vabs (a : vec3) : vec3 := (Rabs (vx a), Rabs (vy a), Rabs (vz a)).
Definition vdot (a b : vec3) : R := vx a * vx b + vy a * vy b + vz a * vz b.
Definition vsum (a : vec3) : R := vx a + vy a + vz a.
Definition vcross (a b : vec3) : vec3 :=
  (vy a * vz b - vz a * vy b, vz a * vx b - vx a * vz b, vx a * vy b - vy a * vx b).
Definition vnorm (a : vec3) : R := sqrt (vdot a a).
(* pyrex.internal_functions.normalize: v / |v|, the zero vector is returned unchanged *)
Definition vnormalize (a : vec3) : vec3 :=
  if Reqb (vnorm a) 0 then a else vscale (/ vnorm a) a.

(* scipy.interpolate.interp1d(xs, ys, fill_value="extrapolate", assume_sorted=True):
   piecewise linear through the table, the first / last segment extended outside. *)
Fixpoint interp_seg (xs ys : list R) (x : R) : R :=
  match xs, ys with
  | x0 :: ((x1 :: _) as xs'), y0 :: ((y1 :: _) as ys') =>
      match xs' with
      | [_] => y0 + (y1 - y0) * (x - x0) / (x1 - x0)          (* last segment: extrapolate right *)
      | _ => if Rleb x x1 then y0 + (y1 - y0) * (x - x0) / (x1 - x0)
             else interp_seg xs' ys' x
      end
  | _, y0 :: _ => y0
  | _, _ => 0
  end.
Definition interp1d_extrap (xs ys : list R) (x : R) : R := interp_seg xs ys x.

(* numpy.interp(x, xp, fp) with constant extension (left=fp[0], right=fp[-1]) *)
Fixpoint np_interp_go (xs ys : list R) (x : R) : R :=
  match xs, ys with
  | x0 :: ((x1 :: _) as xs'), y0 :: ((y1 :: _) as ys') =>
      if Rleb x x1 then y0 + (y1 - y0) * (x - x0) / (x1 - x0) else np_interp_go xs' ys' x
  | _, y0 :: _ => y0
  | _, _ => 0
  end.
Definition np_interp (x : R) (xs ys : list R) : R :=
  match xs, ys with
  | x0 :: _, y0 :: _ => if Rleb x x0 then y0 else np_interp_go xs ys x
  | _, _ => 0
  end.

(* trapezoid rule on a list of abscissae / ordinates *)
Fixpoint trapz (xs ys : list R) : R :=
  match xs, ys with
  | x0 :: ((x1 :: _) as xs'), y0 :: ((y1 :: _) as ys') => (x1 - x0) * (y0 + y1) / 2 + trapz xs' ys'
  | _, _ => 0
  end.
