(* C09, arithmetic part: the noiseless full waveform is the sum of all received
   signals interpolated onto the requested window.  Covers the long-window
   optimisation (signals that do not reach long_times are skipped) and the double
   interpolation (signal -> long_times -> times), which is exact because every
   requested time is a node of long_times. *)
From Coq Require Import List QArith ZArith Bool Lia Lqa.
From PyrexLib Require Import Interp.
From PyrexModel Require Import AntennaModel AntennaSpec.
Import ListNotations.
Open Scope Q_scope.

(* ------------------------------------------------------------------ increasing lists *)
Lemma inc_from_app : forall a x0 b,
  increasing_from x0 a -> increasing b ->
  (forall y, In y b -> x0 < y) -> (forall x y, In x a -> In y b -> x < y) ->
  increasing_from x0 (a ++ b).
Proof.
  induction a as [|x1 a IH]; intros x0 b Ha Hb H0 Hab; simpl.
  - destruct b as [|y b]; simpl; auto. split; [apply H0; left; reflexivity|exact Hb].
  - destruct Ha as [H01 Ha]. split; [exact H01|].
    apply IH; auto.
    + intros y Hy. apply Hab; [left; reflexivity|exact Hy].
    + intros x y Hx Hy. apply Hab; [right; exact Hx|exact Hy].
Qed.

Lemma increasing_app : forall a b,
  increasing a -> increasing b -> (forall x y, In x a -> In y b -> x < y) -> increasing (a ++ b).
Proof.
  intros a b Ha Hb Hab. destruct a as [|x0 a]; simpl; auto.
  apply inc_from_app; auto.
  - intros y Hy. apply Hab; [left; reflexivity|exact Hy].
  - intros x y Hx Hy. apply Hab; [right; exact Hx|exact Hy].
Qed.

Lemma nat_Q_S : forall i, nat_Q (S i) == nat_Q i + 1.
Proof.
  intro i. unfold nat_Q. rewrite Nat2Z.inj_succ. unfold Z.succ. rewrite inject_Z_plus. reflexivity.
Qed.

Lemma nat_Q_lt : forall i j, (i < j)%nat -> nat_Q i < nat_Q j.
Proof. intros i j H. unfold nat_Q. rewrite <- Zlt_Qlt. lia. Qed.

Lemma nat_Q_pos : forall n, (0 < n)%nat -> 0 < nat_Q n.
Proof. intros n H. change 0 with (nat_Q 0). apply nat_Q_lt. exact H. Qed.

(* a strictly increasing function of the index, mapped over consecutive indices *)
Lemma inc_from_map_seq : forall (g : nat -> Q), (forall i j, (i < j)%nat -> g i < g j) ->
  forall m k, increasing_from (g k) (map g (seq (S k) m)).
Proof.
  intros g Hg m. induction m as [|m IH]; intros k; simpl; [exact I|].
  split; [apply Hg; lia|apply IH].
Qed.

Lemma inc_map_seq : forall (g : nat -> Q), (forall i j, (i < j)%nat -> g i < g j) ->
  forall m k, increasing (map g (seq k m)).
Proof.
  intros g Hg m k. destruct m as [|m]; simpl; auto. apply inc_from_map_seq. exact Hg.
Qed.

Lemma increasing_bounds : forall ts y, increasing ts -> In y ts -> t_first ts <= y /\ y <= t_last ts.
Proof.
  intros ts y Hinc Hy. destruct ts as [|x0 xs]; [destruct Hy|].
  simpl in Hinc. unfold t_first, t_last. simpl hd.
  apply (In_nth _ _ 0) in Hy. destruct Hy as (i & Hi & Hnth). subst y. split.
  - destruct i; simpl; [apply Qle_refl|].
    pose proof (increasing_from_lt_all _ _ Hinc) as HF. rewrite Forall_forall in HF.
    apply Qlt_le_weak. apply HF. apply nth_In. simpl in Hi. lia.
  - apply increasing_from_nth_le_last; auto.
Qed.

(* ------------------------------------------------------------------ long_times *)
Lemma window_dt_pos : forall ts, wf_window ts -> 0 < t_second ts - t_first ts.
Proof.
  intros ts (Hinc & Hlen). destruct ts as [|t0 [|t1 ts]]; simpl in Hlen; try lia.
  unfold t_second, t_first. simpl. destruct Hinc as [H01 _]. lra.
Qed.

Lemma pre_value : forall (t0 dt : Q) n i, (0 < n)%nat ->
  t0 + (nat_Q i * ((0 - - nat_Q n * dt) / nat_Q n) + - nat_Q n * dt) == t0 + (nat_Q i - nat_Q n) * dt.
Proof.
  intros t0 dt n i Hn. pose proof (nat_Q_pos n Hn) as Hp. field. intro E. rewrite E in Hp. discriminate Hp.
Qed.

Lemma post_value : forall (tl dt : Q) n i, (0 < n)%nat ->
  tl + nat_Q i * (nat_Q n * dt / nat_Q n) == tl + nat_Q i * dt.
Proof.
  intros tl dt n i Hn. pose proof (nat_Q_pos n Hn) as Hp. field. intro E. rewrite E in Hp. discriminate Hp.
Qed.

Definition pre_times (t0 dt : Q) (n : nat) : list Q :=
  map (Qplus t0) (linspace_open (- nat_Q n * dt) 0 n).
Definition post_times (tl dt : Q) (n : nat) : list Q :=
  map (Qplus tl) (linspace_tail (nat_Q n * dt) n).

Lemma pre_times_ok : forall t0 dt n, 0 < dt ->
  increasing (pre_times t0 dt n) /\ forall x, In x (pre_times t0 dt n) -> x < t0.
Proof.
  intros t0 dt n Hdt. unfold pre_times, linspace_open. rewrite map_map.
  destruct n as [|n']; [simpl; split; [auto|intros x []]|].
  set (n := S n') in *. assert (Hn : (0 < n)%nat) by (unfold n; lia).
  split.
  - apply inc_map_seq. intros i j Hij. rewrite !pre_value by exact Hn.
    pose proof (nat_Q_lt i j Hij). nra.
  - intros x Hx. apply in_map_iff in Hx. destruct Hx as (i & Hx & Hi). subst x.
    apply in_seq in Hi. rewrite pre_value by exact Hn.
    assert (nat_Q i < nat_Q n) by (apply nat_Q_lt; lia). nra.
Qed.

Lemma post_times_ok : forall tl dt n, 0 < dt ->
  increasing (post_times tl dt n) /\ forall x, In x (post_times tl dt n) -> tl < x.
Proof.
  intros tl dt n Hdt. unfold post_times, linspace_tail. rewrite map_map.
  destruct n as [|n']; [simpl; split; [auto|intros x []]|].
  set (n := S n') in *. assert (Hn : (0 < n)%nat) by (unfold n; lia).
  split.
  - apply inc_map_seq. intros i j Hij. rewrite !post_value by exact Hn.
    pose proof (nat_Q_lt i j Hij). nra.
  - intros x Hx. apply in_map_iff in Hx. destruct Hx as (i & Hx & Hi). subst x.
    apply in_seq in Hi. rewrite post_value by exact Hn.
    assert (nat_Q 0 < nat_Q i) by (apply nat_Q_lt; lia). change (nat_Q 0) with 0 in H. nra.
Qed.

Lemma long_times_shape : forall sigs ts,
  long_times sigs ts =
  pre_times (t_first ts) (t_second ts - t_first ts) (n_extra sigs ts) ++ ts ++
  post_times (t_last ts) (t_second ts - t_first ts) (n_extra sigs ts).
Proof. reflexivity. Qed.

Lemma long_times_increasing : forall sigs ts, wf_window ts -> increasing (long_times sigs ts).
Proof.
  intros sigs ts Hw. pose proof (window_dt_pos ts Hw) as Hdt. destruct Hw as (Hinc & Hlen).
  rewrite long_times_shape.
  destruct (pre_times_ok (t_first ts) _ (n_extra sigs ts) Hdt) as (P1 & P2).
  destruct (post_times_ok (t_last ts) _ (n_extra sigs ts) Hdt) as (Q1 & Q2).
  apply increasing_app; auto.
  - apply increasing_app; auto. intros x y Hx Hy.
    destruct (increasing_bounds ts x Hinc Hx) as (_ & Hle). specialize (Q2 y Hy). lra.
  - intros x y Hx Hy. specialize (P2 x Hx). apply in_app_or in Hy. destruct Hy as [Hy|Hy].
    + destruct (increasing_bounds ts y Hinc Hy) as (Hge & _). lra.
    + specialize (Q2 y Hy).
      assert (t_first ts <= t_last ts).
      { destruct ts as [|a ts']; [simpl in Hlen; lia|].
        destruct (increasing_bounds (a :: ts') a Hinc (or_introl eq_refl)) as (_ & H). exact H. }
      lra.
Qed.

(* every requested time is a node of long_times *)
Lemma long_times_nodes : forall sigs ts j, (j < length ts)%nat ->
  exists i, (i < length (long_times sigs ts))%nat /\ nth i (long_times sigs ts) 0 = nth j ts 0.
Proof.
  intros sigs ts j Hj. rewrite long_times_shape.
  set (pre := pre_times _ _ _). set (post := post_times _ _ _).
  exists (length pre + j)%nat. split.
  - rewrite !app_length. lia.
  - rewrite app_nth2 by lia. replace (length pre + j - length pre)%nat with j by lia.
    rewrite app_nth1 by exact Hj. reflexivity.
Qed.

(* ------------------------------------------------------------------ superposition *)
Definition wval (c : config) (lt : list Q) (w : wave) (i : nat) : Q :=
  match w with
  | WVals a => nth i a 0
  | WNoise m => nz c (fst m) (snd m) (nth i lt 0)
  | WEmpty => 0
  end.

Definition wave_ok (n : nat) (w : wave) : Prop :=
  w = WEmpty \/ (exists m, w = WNoise m) \/ exists a, w = WVals a /\ length a = n.

Lemma nth_zip_with : forall a b i, (i < length a)%nat -> (i < length b)%nat ->
  nth i (zip_with Qplus a b) 0 = nth i a 0 + nth i b 0.
Proof.
  induction a as [|x a IH]; intros b i Ha Hb; simpl in Ha; [lia|].
  destruct b as [|y b]; simpl in Hb; [lia|]. destruct i; simpl; auto. apply IH; lia.
Qed.

Lemma zip_with_length : forall a b, length a = length b -> length (zip_with Qplus a b) = length a.
Proof.
  induction a as [|x a IH]; intros b H; destruct b; simpl in *; try discriminate; [reflexivity|].
  f_equal. apply IH. lia.
Qed.

Lemma nth_map_Q : forall (f : Q -> Q) l j, (j < length l)%nat -> nth j (map f l) 0 = f (nth j l 0).
Proof.
  intros f l j Hj. rewrite (nth_indep _ 0 (f 0)) by (rewrite map_length; exact Hj). apply map_nth.
Qed.

Lemma nth_map_interp : forall (s : signal) lt i, (i < length lt)%nat ->
  nth i (map (fun t => interp t (s_times s) (s_values s)) lt) 0 = interp (nth i lt 0) (s_times s) (s_values s).
Proof. intros s lt i Hi. apply (nth_map_Q (fun t => interp t (s_times s) (s_values s))). exact Hi. Qed.

Lemma node_bounds : forall lt i, increasing lt -> (i < length lt)%nat ->
  t_first lt <= nth i lt 0 /\ nth i lt 0 <= t_last lt.
Proof. intros lt i Hinc Hi. apply increasing_bounds; auto. apply nth_In. exact Hi. Qed.

Lemma skipped_is_zero : forall (s : signal) lt i, increasing lt -> (i < length lt)%nat ->
  overlaps s lt = false -> interp (nth i lt 0) (s_times s) (s_values s) = 0.
Proof.
  intros s lt i Hinc Hi Ho. destruct (node_bounds lt i Hinc Hi) as (H1 & H2).
  unfold overlaps in Ho. apply negb_false_iff in Ho. apply orb_true_iff in Ho.
  destruct Ho as [Ho|Ho]; apply Qltb_lt in Ho.
  - apply interp_right. unfold t_last, t_first in *. lra.
  - apply interp_left. unfold t_last, t_first in *. lra.
Qed.

Lemma superpose_inv : forall c lt, increasing lt ->
  forall sigs w0 (f0 : Q -> Q),
    wave_ok (length lt) w0 ->
    (forall i, (i < length lt)%nat -> wval c lt w0 i == f0 (nth i lt 0)) ->
    wave_ok (length lt) (superpose c sigs lt w0) /\
    forall i, (i < length lt)%nat ->
      wval c lt (superpose c sigs lt w0) i == f0 (nth i lt 0) + sum_at sigs (nth i lt 0).
Proof.
  intros c lt Hinc sigs. unfold superpose.
  induction sigs as [|s sigs IH]; intros w0 f0 Hok Hval.
  - simpl. split; [exact Hok|]. intros i Hi. rewrite (Hval i Hi). ring.
  - cbn [fold_left].
    set (w1 := if overlaps s lt then wadd c lt w0 (s_values (with_times s lt)) else w0).
    assert (H1 : wave_ok (length lt) w1 /\
                 forall i, (i < length lt)%nat ->
                   wval c lt w1 i == f0 (nth i lt 0) + interp (nth i lt 0) (s_times s) (s_values s)).
    { unfold w1. destruct (overlaps s lt) eqn:Eo.
      - unfold with_times. cbn [s_values].
        destruct Hok as [->|[(m & ->)|(a & -> & Hlen)]]; cbn [wadd].
        + split; [right; right; eexists; split; [reflexivity|apply map_length]|].
          intros i Hi. cbn [wval]. rewrite nth_map_interp by exact Hi.
          specialize (Hval i Hi). cbn [wval] in Hval. rewrite <- Hval. ring.
        + split.
          * right; right. eexists. split; [reflexivity|]. unfold noise_at.
            rewrite zip_with_length; rewrite !map_length; reflexivity.
          * intros i Hi. cbn [wval]. unfold noise_at.
            rewrite nth_zip_with; [|rewrite map_length; exact Hi|rewrite map_length; exact Hi].
            rewrite nth_map_interp by exact Hi.
            rewrite (nth_map_Q (nz c (fst m) (snd m))) by exact Hi.
            specialize (Hval i Hi). cbn [wval] in Hval. rewrite Hval. reflexivity.
        + split.
          * right; right. eexists. split; [reflexivity|]. rewrite zip_with_length; [exact Hlen|].
            rewrite map_length. exact Hlen.
          * intros i Hi. cbn [wval]. rewrite nth_zip_with; [|lia|rewrite map_length; exact Hi].
            rewrite nth_map_interp by exact Hi. specialize (Hval i Hi). cbn [wval] in Hval.
            rewrite Hval. reflexivity.
      - split; [exact Hok|]. intros i Hi. rewrite (skipped_is_zero s lt i Hinc Hi Eo).
        rewrite (Hval i Hi). ring. }
    destruct H1 as (Hok1 & Hval1).
    destruct (IH w1 (fun t => f0 t + interp t (s_times s) (s_values s)) Hok1 Hval1) as (I1 & I2).
    split; [exact I1|]. intros i Hi. rewrite (I2 i Hi). simpl. ring.
Qed.

(* value of the final  waveform.with_times(times)  at the j-th requested time *)
Lemma wave_at_node : forall c lt w ts (f : Q -> Q),
  increasing lt -> wave_ok (length lt) w ->
  (forall i, (i < length lt)%nat -> wval c lt w i == f (nth i lt 0)) ->
  (forall j, (j < length ts)%nat -> exists i, (i < length lt)%nat /\ nth i lt 0 = nth j ts 0) ->
  length (wave_at c lt w ts) = length ts /\
  forall j, (j < length ts)%nat -> nth j (wave_at c lt w ts) 0 == f (nth j ts 0).
Proof.
  intros c lt w ts f Hinc Hok Hval Hnodes.
  split.
  - destruct w; cbn [wave_at]; unfold noise_at; rewrite !map_length; reflexivity.
  - intros j Hj. destruct (Hnodes j Hj) as (i & Hi & Hnode). specialize (Hval i Hi).
    rewrite <- Hnode.
    destruct Hok as [E|[(m & E)|(a & E & Hlen)]]; rewrite E in *; cbn [wave_at wval] in *.
    + rewrite (nth_map_Q (fun _ => 0)) by exact Hj. exact Hval.
    + unfold noise_at. rewrite (nth_map_Q (nz c (fst m) (snd m))) by exact Hj.
      rewrite <- Hnode. exact Hval.
    + rewrite (nth_map_Q (fun t => interp t lt a)) by exact Hj.
      rewrite <- Hnode. rewrite interp_node; auto.
Qed.

(* ------------------------------------------------------------------ the clause *)
Lemma Forall2_nth_Q : forall (a b : list Q), length a = length b ->
  (forall j, (j < length a)%nat -> nth j a 0 == nth j b 0) -> Forall2 Qeq a b.
Proof.
  induction a as [|x a IH]; intros b Hlen H; destruct b as [|y b]; simpl in Hlen; try discriminate.
  - constructor.
  - constructor.
    + apply (H 0%nat). simpl. lia.
    + apply IH; [lia|]. intros j Hj. apply (H (S j)). simpl. lia.
Qed.

Lemma full_waveform_is_sum_lemma : forall c sigs ts,
  wf_window ts ->
  sig_eq (fw_pure c sigs ts) (spec_wave sigs ts).
Proof.
  intros c sigs ts Hw. unfold sig_eq, fw_pure, spec_wave. cbn [s_times s_values].
  split; [reflexivity|].
  set (lt := long_times sigs ts).
  assert (Hinc : increasing lt) by (apply long_times_increasing; exact Hw).
  destruct (superpose_inv c lt Hinc sigs WEmpty (fun _ => 0)) as (Hok & Hval).
  { left; reflexivity. }
  { intros i Hi. reflexivity. }
  destruct (wave_at_node c lt (superpose c sigs lt WEmpty) ts (fun t => 0 + sum_at sigs t) Hinc Hok Hval) as (L & V).
  { intros j Hj. apply long_times_nodes. exact Hj. }
  apply Forall2_nth_Q.
  - rewrite L, map_length. reflexivity.
  - intros j Hj. rewrite L in Hj. rewrite (nth_map_Q (sum_at sigs)) by exact Hj.
    rewrite (V j Hj). ring.
Qed.

(* with noise: the waveform is the noise master at the requested absolute times plus
   the same sum; the master is the one already held by the state *)
Lemma noisy_full_waveform_lemma : forall c st ts m,
  noisy c = true -> noise_master st = Some m -> wf_window ts ->
  fst (full_waveform c st ts) = st /\
  sig_eq (snd (full_waveform c st ts))
         (mkSig ts (map (fun t => nz c (fst m) (snd m) t + sum_at (signals st) t) ts)).
Proof.
  intros c st ts m Hn Hm Hw. unfold full_waveform. rewrite Hn.
  unfold ensure_master. rewrite Hm. cbn [fst snd]. split; [reflexivity|].
  unfold sig_eq. cbn [s_times s_values]. split; [reflexivity|].
  set (sigs := signals st). set (lt := long_times sigs ts).
  assert (Hinc : increasing lt) by (apply long_times_increasing; exact Hw).
  destruct (superpose_inv c lt Hinc sigs (WNoise m) (nz c (fst m) (snd m))) as (Hok & Hval).
  { right; left. eexists; reflexivity. }
  { intros i Hi. reflexivity. }
  destruct (wave_at_node c lt (superpose c sigs lt (WNoise m)) ts
             (fun t => nz c (fst m) (snd m) t + sum_at sigs t) Hinc Hok Hval) as (L & V).
  { intros j Hj. apply long_times_nodes. exact Hj. }
  apply Forall2_nth_Q.
  - rewrite L, map_length. reflexivity.
  - intros j Hj. rewrite L in Hj.
    rewrite (nth_map_Q (fun t => nz c (fst m) (snd m) t + sum_at sigs t)) by exact Hj.
    apply (V j Hj).
Qed.

(* non-vacuity: a concrete well-formed window and signal set; the waveform is the
   overlap sum 3+0, 3+5, 2+5, 1+5 at t = 4..7 *)
Example full_waveform_is_sum_example :
  let s1 := mkSig [0;1;2;3;4;5;6;7] [0;1;2;3;3;2;1;0] in
  let s2 := mkSig [4;5;6;7;8;9;10;11] [0;5;5;5;5;5;5;0] in
  wf_window [4;5;6;7] /\
  map Qred (s_values (fw_pure (cfg_plain true) [s1; s2] [4;5;6;7])) = [3;7;6;5].
Proof.
  cbn zeta. split.
  - unfold wf_window. split; [|simpl; lia]. simpl. repeat split; reflexivity.
  - vm_compute. reflexivity.
Qed.
