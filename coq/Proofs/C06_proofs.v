(* C06: safe methods preserve "every cached value equals a fresh evaluation", for all histories. *)
From Coq Require Import String Ascii List Bool Arith Lia.
From PyrexModel Require Import LazyModel.
Import ListNotations.
Open Scope string_scope.

Lemma mem_In : forall x l, mem x l = true <-> In x l.
Proof.
  intros x l. unfold mem. rewrite existsb_exists. split.
  - intros (y & Hy & E). apply String.eqb_eq in E. subst. exact Hy.
  - intro H. exists x. split; [exact H|apply String.eqb_refl].
Qed.

Section Safety.
  Variable V : Type.
  Variable t : class_table.
  Variable compute : string -> (string -> V) -> V.
  (* the translator's claim about what the lazy properties read: a property's value is a function
     of the attributes listed as dependencies (of some property of the class) *)
  Hypothesis compute_dep : forall p f g,
    (forall a, mem a (all_deps t) = true -> f a = g a) -> compute p f = compute p g.

  Notation ostate := (ostate V).
  Notation lookup := (lookup V).

  Definition Inv (s : ostate) : Prop :=
    forall p v, lookup p (cache V s) = Some v -> v = compute p (attrs V s).

  Definition Empty (e : bool) (s : ostate) : Prop := e = true -> cache V s = [].

  Lemma compute_set_nondep : forall p f a v, mem a (all_deps t) = false ->
    compute p (set_attr V f a v) = compute p f.
  Proof.
    intros. apply compute_dep. intros b Hb. unfold set_attr.
    destruct (String.eqb b a) eqn:E; [|reflexivity].
    apply String.eqb_eq in E. subst. congruence.
  Qed.

  Lemma read_one_inv : forall s p, Inv s ->
    Inv (fst (read_one V compute s p)) /\ snd (read_one V compute s p) = compute p (attrs V s) /\
    attrs V (fst (read_one V compute s p)) = attrs V s.
  Proof.
    intros s p H. unfold read_one. destruct (lookup p (cache V s)) eqn:E; simpl.
    - split; [exact H|]. split; [apply H; exact E|reflexivity].
    - split; [|split; reflexivity]. intros q v. simpl.
      destruct (String.eqb q p) eqn:Q.
      + apply String.eqb_eq in Q. subst. intro X. inversion X. reflexivity.
      + apply H.
  Qed.

  Definition J (st : bool * bool) (s : ostate) : Prop :=
    (snd st = false -> Inv s) /\ (fst st = true -> cache V s = []).

  Lemma Inv_empty : forall s, cache V s = [] -> Inv s.
  Proof. intros s H p v X. rewrite H in X. discriminate. Qed.

  Lemma dep_write : forall s e d a v, J (e, d) s ->
    J (e, d || negb e) {| attrs := set_attr V (attrs V s) a v; cache := cache V s |}.
  Proof.
    intros s e d a v [HI HE]. simpl in *. split; simpl.
    - intro X. apply orb_false_iff in X. destruct X as [_ X]. apply negb_false_iff in X.
      apply Inv_empty. simpl. apply HE. exact X.
    - exact HE.
  Qed.

  Lemma nondep_write : forall s st a v, mem a (all_deps t) = false -> J st s ->
    J st {| attrs := set_attr V (attrs V s) a v; cache := cache V s |}.
  Proof.
    intros s st a v D [HI HE]. split; simpl.
    - intros X p w Y. simpl in *. rewrite compute_set_nondep by exact D. apply (HI X). exact Y.
    - exact HE.
  Qed.

  Lemma eff_step : forall s st x v a st',
    J st s -> eff_ok t st x = Some st' -> J st' (exec_eff V t compute s x v a).
  Proof.
    intros s [e d] x v a0 st' HJ Hok.
    assert (ASSIGN : forall a,
       (if mem a (statics t) then Some (true, false)
        else if mem a (all_deps t) then Some (e, d || negb e) else Some (e, d)) = Some st' ->
       J st' {| attrs := set_attr V (attrs V s) a v; cache := if mem a (statics t) then [] else cache V s |}).
    { intros a H. destruct (mem a (statics t)).
      - inversion H; subst. split; simpl; intros _; [apply Inv_empty|]; reflexivity.
      - destruct (mem a (all_deps t)) eqn:D; inversion H; subst.
        + apply dep_write. exact HJ.
        + apply nondep_write; assumption. }
    destruct x; simpl in Hok |- *.
    - apply ASSIGN. exact Hok.
    - apply ASSIGN. exact Hok.
    - destruct (mem a (all_deps t)) eqn:D; inversion Hok; subst.
      + apply dep_write. exact HJ.
      + apply nondep_write; assumption.
    - inversion Hok; subst. split; simpl; intros _; [apply Inv_empty|]; reflexivity.
    - destruct d; [discriminate|]. inversion Hok; subst. destruct HJ as [HI _].
      split; simpl; [intros _; apply read_one_inv; apply HI; reflexivity|intro X; discriminate].
    - discriminate.
  Qed.

  Lemma path_step_from : forall p s st vs d,
    J st s -> path_ok_from t st p = true -> Inv (exec_path V t compute s p vs d).
  Proof.
    induction p; intros s st vs d HJ Hp; simpl in *.
    - destruct HJ as [HI _]. apply HI. apply negb_true_iff. exact Hp.
    - destruct (eff_ok t st a) as [st'|] eqn:E; [|discriminate].
      eapply IHp; [|exact Hp]. eapply eff_step; eauto.
  Qed.

  Lemma path_step : forall p s e vs d,
    Inv s -> Empty e s -> path_ok t e p = true -> Inv (exec_path V t compute s p vs d).
  Proof.
    intros p s e vs d HI HE Hp. unfold path_ok in Hp. eapply path_step_from; [|exact Hp].
    split; simpl; [intros _; exact HI|exact HE].
  Qed.

  Lemma find_method_In : forall m ps, find_method t m = Some ps -> In (m, ps) (methods t).
  Proof.
    intros m ps H. unfold find_method in H.
    destruct (find (fun x => fst x =? m) (methods t)) eqn:F; [|discriminate].
    inversion H; subst. apply find_some in F. destruct F as [Hin Heq].
    apply String.eqb_eq in Heq. destruct p. simpl in *. subst. exact Hin.
  Qed.

  Lemma reads_inv : forall extra s, Inv s ->
    Inv (fold_left (fun st q => fst (read_one V compute st q)) extra s) /\
    attrs V (fold_left (fun st q => fst (read_one V compute st q)) extra s) = attrs V s.
  Proof.
    induction extra; simpl; intros s H; [split; [exact H|reflexivity]|].
    destruct (read_one_inv s a H) as (I1 & _ & A1).
    destruct (IHextra _ I1) as [I2 A2]. split; [exact I2|]. rewrite A2. exact A1.
  Qed.

  Lemma lstep_inv : forall d s o, table_ok t = true -> lop_public V t o = true -> Inv s ->
    Inv (fst (lstep V t compute d s o)).
  Proof.
    intros d s o HT HP HI. unfold table_ok in HT. apply andb_true_iff in HT. destruct HT as [HM HD].
    destruct o; simpl in *.
    - (* attribute assignment from outside *)
      assert (OK : exists st', eff_ok t (false, false) (EAssign a) = Some st' /\ snd st' = false).
      { simpl. destruct (mem a (statics t)) eqn:S; [eexists; split; reflexivity|].
        destruct (mem a (all_deps t)) eqn:D; [|eexists; split; reflexivity].
        exfalso. unfold deps_covered in HD. rewrite forallb_forall in HD.
        apply mem_In in D. specialize (HD _ D). rewrite S in HD. simpl in HD, HP. rewrite HD in HP. discriminate. }
      destruct OK as (st' & OK & SND).
      assert (J0 : J (false, false) s) by (split; simpl; [intros _; exact HI|intro X; discriminate]).
      destruct (eff_step s (false, false) (EAssign a) v "" st' J0 OK) as [I2 _]. apply I2. exact SND.
    - destruct (find_method t m) eqn:F; [|exact HI].
      destruct (nth_error l k) eqn:N; [|exact HI]. simpl.
      apply find_method_In in F. rewrite forallb_forall in HM. specialize (HM _ F).
      unfold method_safe in HM. simpl in HM. rewrite forallb_forall in HM.
      apply nth_error_In in N. specialize (HM _ N).
      eapply path_step; eauto. intro X; discriminate.
    - unfold read. destruct (reads_inv extra s HI) as [I1 A1].
      destruct (read_one V compute (fold_left (fun st q => fst (read_one V compute st q)) extra s) p) eqn:R.
      simpl. pose proof (read_one_inv _ p I1) as (I2 & _ & _). rewrite R in I2. exact I2.
  Qed.

  Lemma lrun_inv : forall d ops s, table_ok t = true -> forallb (lop_public V t) ops = true -> Inv s ->
    Inv (lrun V t compute d s ops).
  Proof.
    induction ops; simpl; intros s HT HP HI; [exact HI|].
    apply andb_true_iff in HP. destruct HP as [P1 P2]. apply IHops; auto. apply lstep_inv; auto.
  Qed.

  (* MAIN THEOREM: if the class's table is safe, then after ANY history of public operations a
     read of ANY lazy property returns what a freshly constructed object with the same attributes
     reports (and that is compute of the current attributes) *)
  Theorem safe_methods_preserve_inv_lemma : forall d f ops p extra,
    table_ok t = true -> forallb (lop_public V t) ops = true ->
    let s := lrun V t compute d (fresh V f) ops in
    snd (read V compute s p extra) = compute p (attrs V s) /\
    snd (read V compute s p extra) = snd (read V compute (fresh V (attrs V s)) p []).
  Proof.
    intros d f ops p extra HT HP s.
    assert (HI : Inv s) by (apply lrun_inv; auto; intros q v X; simpl in X; discriminate).
    assert (R : snd (read V compute s p extra) = compute p (attrs V s)).
    { unfold read. destruct (reads_inv extra s HI) as [I1 A1].
      destruct (read_one_inv _ p I1) as (_ & R & _). rewrite R, A1. reflexivity. }
    split; [exact R|]. rewrite R. reflexivity.
  Qed.
End Safety.

(* the criterion is not vacuous and not trivially true: a table with an in-place mutation that is
   not preceded by a cache clear is rejected, and the stamp model exhibits the stale read *)
Definition demo_bad : class_table :=
  {| cname := "Demo"; statics := ["times"; "_buffers"]; props := [("values", ["times"; "_buffers"])];
     methods := [("set_buffers", [[EInPlace "_buffers"]]); ("filter", [[EClear; EInPlace "_buffers"]])] |}.
Definition demo_good : class_table :=
  {| cname := "Demo"; statics := ["times"; "_buffers"]; props := [("values", ["times"; "_buffers"])];
     methods := [("set_buffers", [[EClear; EInPlace "_buffers"]]); ("filter", [[EClear; EInPlace "_buffers"]])] |}.

(* an in-place update that is followed by a cache-clearing assignment in the same method, with no
   lazy read in between, is accepted (e.g. updating _t0s in place and then `self.times += dt`) *)
Definition demo_late_clear : class_table :=
  {| cname := "Demo"; statics := ["times"; "_t0s"]; props := [("values", ["times"; "_t0s"])];
     methods := [("shift", [[EInPlace "_t0s"; EAug "times"]]); ("bad", [[EInPlace "_t0s"; ERead "values"; EAug "times"]])] |}.

Lemma demo_late_clear_ok :
  method_safe demo_late_clear ("shift", [[EInPlace "_t0s"; EAug "times"]]) = true /\
  method_safe demo_late_clear ("bad", [[EInPlace "_t0s"; ERead "values"; EAug "times"]]) = false.
Proof. vm_compute. split; reflexivity. Qed.

Lemma demo_tables : table_ok demo_bad = false /\ table_ok demo_good = true /\
  hrun0 demo_bad [HRead "values"; HCall "set_buffers" 0; HRead "values"] = [Some false; None; Some true] /\
  hrun0 demo_good [HRead "values"; HCall "set_buffers" 0; HRead "values"] = [Some false; None; Some false].
Proof. vm_compute. repeat split; reflexivity. Qed.
