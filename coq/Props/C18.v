(* C18: uniform and layered tracers reduce to image geometry and the one-medium tracer.
   Statements only.  UniformRayTracePath_* / UniformRayTracer_* / LayeredRayTrace*_* are regenerated
   from pyrex/ray_tracing.py and pyrex/custom/layered_ice/ray_tracing.py on every run
   (Gen/Gen_uniform.v, Gen/Gen_layered.v); uniform_points, uniform_solutions, mk_path, build_path,
   next_angle, chain are the pinned hand models of the array / loop / recursion code (Model/). *)
From Coq Require Import Reals List Bool ZArith.
From PyrexLib Require Import RealPrims ListR Atan2.
From PyrexGen Require Import Gen_ice Gen_uniform Gen_layered.
From PyrexModel Require Import UniformPath UniformTracer LayeredPath.
From PyrexProofs Require Import C18_uniform C18_layered.
Import ListNotations.
Open Scope R_scope.

(* ================= uniform ice ================= *)

(* which (launch angle, reflections) pairs UniformRayTracer.solutions hands to its solution class:
   the direct one and, per reflection count 1..max_reflections, one starting upward and one
   starting downward unless a needed boundary has no index *)
Theorem solutions_direct_or_reflected : forall t m q,
  In q (tracer_solution_params t m) ->
  UniformRayTracer_exists t = true /\
  (q = (UniformRayTracer_solutions__direct_theta t, O) \/
   exists up k, (S k <= m)%nat /\
     reflection_allowed (UIce_index_above (UTracer_ice t)) (UIce_index_below (UTracer_ice t)) (S k) (dirZ up) = true /\
     q = (reflected_theta (t_lo t) (t_hi t) (UniformRayTracer_z0 t) (UniformRayTracer_z1 t) (UniformRayTracer_rho t) (dirZ up) (S k), S k)).
Proof. exact solutions_are_direct_or_reflected. Qed.
Print Assumptions solutions_direct_or_reflected.

(* the direct path is the straight segment between the points *)
Theorem direct_is_straight_segment : forall t theta,
  let p := mk_path t theta 0 in
  path_points p = Some [UTracer_from_point t; UTracer_to_point t] /\
  UniformRayTracePath_path_length p = dist3 (UTracer_from_point t) (UTracer_to_point t) /\
  UniformRayTracePath_tof p =
    UniformIce_index (UTracer_ice t) (vz (UTracer_from_point t)) * dist3 (UTracer_from_point t) (UTracer_to_point t) / speed_of_light /\
  (veqb (UTracer_from_point t) (UTracer_to_point t) = false ->
   UniformRayTracePath_emitted_direction p = vnormalize (vsub (UTracer_to_point t) (UTracer_from_point t)) /\
   UniformRayTracePath_received_direction p = vnormalize (vsub (UTracer_to_point t) (UTracer_from_point t))).
Proof.
  intros t theta p. split; [apply direct_points|]. split; [apply direct_path_length|].
  split; [apply direct_tof|apply direct_directions].
Qed.
Print Assumptions direct_is_straight_segment.

(* total vertical extent of a reflected path is positive (so the launch angle has the sign of the
   first direction) unless the only mirror passes through both endpoints *)
Theorem reflected_extent_positive : forall lo hi z0 z1 up k,
  lo < hi -> lo <= z0 <= hi -> lo <= z1 <= hi ->
  (k = O -> ~ (z0 = B lo hi up /\ z1 = B lo hi up)) ->
  0 < sum_list (dzs lo hi z0 z1 (dirZ up) (S k)).
Proof. exact reflected_extent_pos. Qed.
Print Assumptions reflected_extent_positive.

(* Below: t is a tracer whose endpoints lie in the ice (exists = true), the path p is the one the
   tracer builds for k+1 reflections starting upward (up = true) or downward, Sv its total
   vertical extent, image the receiver mirrored back through the planes the ray meets
   (image_z: z1, then 2*plane - z for each plane, last plane first). *)

(* image_length: the summed segment lengths equal the distance to the mirrored receiver *)
Theorem image_length : forall t up k,
  t_lo t < t_hi t -> UniformRayTracer_exists t = true ->
  0 < sum_list (dzs (t_lo t) (t_hi t) (UniformRayTracer_z0 t) (UniformRayTracer_z1 t) (dirZ up) (S k)) ->
  UniformRayTracePath_path_length
    (mk_path t (reflected_theta (t_lo t) (t_hi t) (UniformRayTracer_z0 t) (UniformRayTracer_z1 t) (UniformRayTracer_rho t) (dirZ up) (S k)) (S k))
  = dist3 (UTracer_from_point t) (image t up k).
Proof. intros t up k H1 H2 H3. apply reflected_path_length; assumption. Qed.
Print Assumptions image_length.

(* tof = n L / c *)
Theorem tof_nL_over_c : forall t up k,
  t_lo t < t_hi t -> UniformRayTracer_exists t = true ->
  0 < sum_list (dzs (t_lo t) (t_hi t) (UniformRayTracer_z0 t) (UniformRayTracer_z1 t) (dirZ up) (S k)) ->
  UniformRayTracePath_tof
    (mk_path t (reflected_theta (t_lo t) (t_hi t) (UniformRayTracer_z0 t) (UniformRayTracer_z1 t) (UniformRayTracer_rho t) (dirZ up) (S k)) (S k))
  = UIce_n (UTracer_ice t) * dist3 (UTracer_from_point t) (image t up k) / speed_of_light.
Proof. intros t up k H1 H2 H3. apply reflected_tof; assumption. Qed.
Print Assumptions tof_nL_over_c.

(* reflection points: the reported points are source, k+1 intermediate points, receiver; the
   intermediate points lie on the ice boundaries, alternately, starting with the boundary the ray
   meets first *)
Theorem reflection_points_on_boundary : forall t up k,
  t_lo t < t_hi t -> UniformRayTracer_exists t = true ->
  0 < sum_list (dzs (t_lo t) (t_hi t) (UniformRayTracer_z0 t) (UniformRayTracer_z1 t) (dirZ up) (S k)) ->
  path_points
    (mk_path t (reflected_theta (t_lo t) (t_hi t) (UniformRayTracer_z0 t) (UniformRayTracer_z1 t) (UniformRayTracer_rho t) (dirZ up) (S k)) (S k))
  = Some (UTracer_from_point t :: mids t up k ++ [UTracer_to_point t]) /\
  map vz (mids t up k) = map (fun j => B (t_lo t) (t_hi t) (flipn up j)) (seq 0 (S k)).
Proof. intros t up k H1 H2 H3. split; [apply reflected_points; assumption|apply reflection_points_z]. Qed.
Print Assumptions reflection_points_on_boundary.

(* mirror law: every leg of the reported path is the vector (dx, dy, +-Sv) to the mirrored
   receiver scaled by the leg's share x/Sv of the vertical extent, with alternating vertical sense:
   equal angles at every reflection, horizontal shares proportional to the vertical extents, all
   points in the vertical plane through source and receiver *)
Theorem mirror_law : forall t up k,
  t_lo t < t_hi t -> UniformRayTracer_exists t = true ->
  0 < sum_list (dzs (t_lo t) (t_hi t) (UniformRayTracer_z0 t) (UniformRayTracer_z1 t) (dirZ up) (S k)) ->
  consecutive vdiff (UTracer_from_point t :: mids t up k ++ [UTracer_to_point t]) =
  legvecs (t_lo t) (t_hi t) (UniformRayTracer_z1 t)
          (vx (UTracer_to_point t) - vx (UTracer_from_point t)) (vy (UTracer_to_point t) - vy (UTracer_from_point t))
          (sum_list (dzs (t_lo t) (t_hi t) (UniformRayTracer_z0 t) (UniformRayTracer_z1 t) (dirZ up) (S k)))
          (UniformRayTracer_z0 t) up (S k).
Proof. intros t up k H1 H2 H3. apply reflected_leg_vectors; assumption. Qed.
Print Assumptions mirror_law.

(* directions of the straight segment to the mirrored receiver (endpoints strictly inside the ice;
   on a boundary the code reports a zero vector: known finding) *)
Theorem emitted_direction_to_image : forall t up k,
  t_lo t < t_hi t -> UniformRayTracer_exists t = true ->
  0 < sum_list (dzs (t_lo t) (t_hi t) (UniformRayTracer_z0 t) (UniformRayTracer_z1 t) (dirZ up) (S k)) ->
  t_lo t < UniformRayTracer_z0 t < t_hi t ->
  UniformRayTracePath_emitted_direction
    (mk_path t (reflected_theta (t_lo t) (t_hi t) (UniformRayTracer_z0 t) (UniformRayTracer_z1 t) (UniformRayTracer_rho t) (dirZ up) (S k)) (S k))
  = vscale (/ dist3 (UTracer_from_point t) (image t up k))
           (vx (UTracer_to_point t) - vx (UTracer_from_point t), vy (UTracer_to_point t) - vy (UTracer_from_point t),
            image_z (t_lo t) (t_hi t) (UniformRayTracer_z1 t) up (S k) - UniformRayTracer_z0 t).
Proof. intros t up k H1 H2 H3 H4. apply reflected_emitted_direction; assumption. Qed.
Print Assumptions emitted_direction_to_image.

Theorem received_direction_from_image : forall t up k,
  t_lo t < t_hi t -> UniformRayTracer_exists t = true ->
  0 < sum_list (dzs (t_lo t) (t_hi t) (UniformRayTracer_z0 t) (UniformRayTracer_z1 t) (dirZ up) (S k)) ->
  t_lo t < UniformRayTracer_z1 t < t_hi t ->
  UniformRayTracePath_received_direction
    (mk_path t (reflected_theta (t_lo t) (t_hi t) (UniformRayTracer_z0 t) (UniformRayTracer_z1 t) (UniformRayTracer_rho t) (dirZ up) (S k)) (S k))
  = vscale (/ dist3 (UTracer_from_point t) (image t up k))
           (vx (UTracer_to_point t) - vx (UTracer_from_point t), vy (UTracer_to_point t) - vy (UTracer_from_point t),
            sg (flipn up (S k)) *
            sum_list (dzs (t_lo t) (t_hi t) (UniformRayTracer_z0 t) (UniformRayTracer_z1 t) (dirZ up) (S k))).
Proof. intros t up k H1 H2 H3 H4. apply reflected_received_direction; assumption. Qed.
Print Assumptions received_direction_from_image.

(* ================= layered ice ================= *)

(* build_path_enumerates: _build_path returns exactly the level sequences that start at `start`,
   move one level in the current direction or turn (repeat the level, reverse, spend a reflection),
   must turn at the outermost level while reflections remain and stop there when none is left *)
Theorem build_path_enumerates : forall M start d refl q, (0 <= M)%Z -> valid M start d ->
  (In q (build_path_top start d refl M) <-> exists s, q = start :: s /\ cwalk M start d refl s).
Proof. intros M start d refl q _ Hv. apply build_path_enumerates; assumption. Qed.
Print Assumptions build_path_enumerates.

Theorem enumerated_paths_stay_in_stack_and_use_all_reflections : forall M level d refl s,
  valid M level d -> cwalk M level d refl s ->
  Forall (fun x => (0 <= x <= M)%Z) s /\ turns level s = refl.
Proof. exact cwalk_shape. Qed.
Print Assumptions enumerated_paths_stay_in_stack_and_use_all_reflections.

Theorem build_path_fuel_is_irrelevant : forall M fuel1 fuel2 path level d refl, valid M level d ->
  (dist M level d + 1 + need_refl (Z.to_nat M) refl <= fuel1)%nat ->
  (dist M level d + 1 + need_refl (Z.to_nat M) refl <= fuel2)%nat ->
  forall q, In q (build_path fuel1 path level d refl M) <-> In q (build_path fuel2 path level d refl M).
Proof. exact build_path_fuel_irrelevant. Qed.
Print Assumptions build_path_fuel_is_irrelevant.

(* chain_continuous: the sub-paths built from zip(points[:-1], points[1:]) start at the first
   point, end at the last, and each starts where the previous one ended *)
Theorem chain_continuous : forall (A : Type) (l : list A) (a : A), l <> [] ->
  chained a (last l a) (chain (a :: l)).
Proof. intros A l a. apply chain_continuous_lemma. Qed.
Print Assumptions chain_continuous.

(* snell_at_boundaries: transmission keeps n sin(angle) and the vertical sense *)
Theorem snell_at_boundaries : forall self angle nh nn a',
  0 <= angle <= PI -> 0 < nh -> 0 < nn ->
  next_angle self false angle (Transmit nh nn) = Some a' ->
  nn * sin a' = nh * sin angle /\
  (angle < PI / 2 -> 0 <= a' <= PI / 2) /\ (PI / 2 <= angle -> PI / 2 <= a' <= PI).
Proof. exact snell_at_transmission. Qed.
Print Assumptions snell_at_boundaries.

(* mirror reflection at a boundary: n sin(angle) kept (the angle the ray has AT the boundary is
   mirrored), vertical sense reversed; in a constant-index layer this is pi - angle *)
Theorem mirror_reflection_at_boundaries : forall self angle nh nb a',
  0 <= angle <= PI -> 0 < nh -> 0 < nb -> sin angle * nh / nb <= 1 ->
  next_angle self false angle (Reflect nh nb) = Some a' ->
  nb * sin a' = nh * sin angle /\
  (angle < PI / 2 -> PI / 2 <= a' <= PI) /\ (PI / 2 <= angle -> 0 <= a' <= PI / 2).
Proof. exact mirror_at_reflection. Qed.
Print Assumptions mirror_reflection_at_boundaries.

Theorem mirror_reflection_uniform_layer : forall self angle n, 0 <= angle <= PI -> 0 < n ->
  next_angle self false angle (Reflect n n) = Some (PI - angle).
Proof. exact reflection_uniform_layer. Qed.
Print Assumptions mirror_reflection_uniform_layer.

Theorem turn_inside_gradient_layer_mirrors : forall self angle,
  sin (LayeredRayTracer_trace_path__turn_in_layer self angle) = sin angle /\
  cos (LayeredRayTracer_trace_path__turn_in_layer self angle) = - cos angle.
Proof. exact turn_in_layer_mirror. Qed.
Print Assumptions turn_inside_gradient_layer_mirrors.

(* split_uniform_is_same: a boundary between layers of equal index leaves the angle unchanged
   (no total reflection), and the radial distances of the parts add up to that of the whole, so the
   radial-distance function whose root is searched is the one of the unsplit medium *)
Theorem split_uniform_is_same : forall self angle n dz1 dz2, 0 <= angle <= PI -> 0 < n ->
  next_angle self false angle (Transmit n n) = Some angle /\
  LayeredRayTracer_get_radial_distance__uniform self angle dz1 +
  LayeredRayTracer_get_radial_distance__uniform self angle dz2 =
  LayeredRayTracer_get_radial_distance__uniform self angle (dz1 + dz2).
Proof.
  intros self angle n dz1 dz2 Ha Hn. split.
  - apply split_uniform_is_same_angle; assumption.
  - apply split_uniform_radial_additive.
Qed.
Print Assumptions split_uniform_is_same.

(* unit_transmission_at_equal_index: the Fresnel transmission factors are 1 *)
Theorem unit_transmission_at_equal_index : forall n theta_1, 0 < n -> 0 <= theta_1 < PI / 2 ->
  let sin_2 := LayeredRayTracePath_fresnel__transmit_sin_2 n n theta_1 in
  let cos_1 := LayeredRayTracePath_fresnel__cos_1 theta_1 in
  let cos_2 := LayeredRayTracePath_fresnel__transmit_cos_2 sin_2 in
  LayeredRayTracePath_fresnel__real_branch sin_2 = true /\
  LayeredRayTracePath_fresnel__t_s n n cos_1 cos_2 = 1 /\
  LayeredRayTracePath_fresnel__t_p n n cos_1 cos_2 = 1.
Proof. exact unit_transmission_at_equal_index_lemma. Qed.
Print Assumptions unit_transmission_at_equal_index.
