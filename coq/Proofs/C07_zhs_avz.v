(* C07: the ZHS and AVZ pulse models obey their scaling laws (model level). *)
From Coq Require Import Reals List Bool ZArith Lra Lia.
From PyrexLib Require Import RealPrims.
From PyrexGen Require Import Gen_askaryan.
From PyrexModel Require Import AskaryanIndex AskaryanModel.
From PyrexProofs Require Import C07_index C07_lists C07_formulas.
Import ListNotations.
Open Scope R_scope.

Definition shift_times (s : R) (times : list R) : list R := map (fun t => t + s) times.

(* ------------------------------------------------------------------ helpers: shifted grids *)
Lemma shift_times_length s times : length (shift_times s times) = length times.
Proof. unfold shift_times. apply map_length. Qed.

Lemma ZL_shift s times : ZL (shift_times s times) = ZL times.
Proof. unfold ZL. rewrite shift_times_length. reflexivity. Qed.

Lemma first_time_shift s times : (1 <= length times)%nat ->
  first_time (shift_times s times) = first_time times + s.
Proof.
  destruct times as [|a l]; simpl; intros H; [lia|]. reflexivity.
Qed.

Lemma second_time_shift s times : (2 <= length times)%nat ->
  second_time (shift_times s times) = second_time times + s.
Proof.
  destruct times as [|a [|b l]]; simpl; intros H; try lia. reflexivity.
Qed.

(* ------------------------------------------------------------------ helpers: lists of zeros, maps *)
Lemma nth_zerosR n j : nth j (zerosR n) 0 = 0.
Proof. unfold zerosR. apply nth_repeat_nat. Qed.

Lemma getz_zerosR n i : getz 0 (zerosR n) i = 0.
Proof. unfold getz. destruct (i <? 0)%Z; [reflexivity | apply nth_zerosR]. Qed.

Lemma zerosR_length n : length (zerosR n) = n.
Proof. unfold zerosR. apply repeat_length. Qed.

Lemma map_zerosR (f : R -> R) n : f 0 = 0 -> map f (zerosR n) = zerosR n.
Proof.
  intros H. unfold zerosR. induction n as [|n IH]; simpl; [reflexivity|].
  rewrite H, IH. reflexivity.
Qed.

Lemma nth_map0 (f : R -> R) l j : f 0 = 0 -> nth j (map f l) 0 = f (nth j l 0).
Proof. intros H. rewrite <- H at 1. apply map_nth. Qed.

Lemma getz_map0 (f : R -> R) l i : f 0 = 0 -> getz 0 (map f l) i = f (getz 0 l i).
Proof.
  intros H. unfold getz. destruct (i <? 0)%Z; [symmetry; exact H | apply nth_map0; exact H].
Qed.

Lemma zlen_map (f : R -> R) l : zlen (map f l) = zlen l.
Proof. unfold zlen. rewrite map_length. reflexivity. Qed.

Lemma map_roll (f : R -> R) l s : f 0 = 0 -> map f (roll 0 l s) = roll 0 (map f l) s.
Proof.
  intros H. unfold roll. rewrite map_map, map_length, zlen_map.
  apply map_ext. intros j. symmetry. apply nth_map0. exact H.
Qed.

Lemma map_avz_place (f : R -> R) l s : f 0 = 0 -> map f (avz_place 0 l s) = avz_place 0 (map f l) s.
Proof.
  intros H. unfold avz_place. rewrite map_length, zlen_map.
  rewrite <- firstn_map. f_equal. rewrite map_roll by exact H. f_equal.
  rewrite map_app. f_equal. unfold zeros.
  apply (map_zerosR f (Z.to_nat (zlen l)) H).
Qed.

(* ================================================================== ZHS *)
Lemma zhs_values_length times E d psi n t0 : length (zhs_values times E d psi n t0) = length times.
Proof.
  unfold zhs_values. cbv zeta.
  destruct (Reqb E 0); [apply zerosR_length|].
  destruct (ZHS_zeroed _ _ _ _); [apply zerosR_length|].
  rewrite map_length, seq_length. reflexivity.
Qed.

Lemma zhs_sample_inv_distance E d psi n N dt tau j : d <> 0 ->
  zhs_sample E d psi n N dt tau j * d = zhs_sample E 1 psi n N dt tau j.
Proof.
  intros Hd. unfold zhs_sample.
  match goal with |- rsum ?f ?k / ?a / ?b * d = _ =>
    replace (rsum f k / a / b * d) with (d * rsum f k / a / b) by (unfold Rdiv; ring);
    rewrite <- (rsum_scal k f d) end.
  f_equal. f_equal. apply rsum_ext. intros k Hk. cbv zeta.
  rewrite <- (zhs_e_omega_inv_distance E d) by exact Hd. ring.
Qed.

Lemma zhs_inv_distance times E d psi n t0 : d <> 0 ->
  map (fun v => v * d) (zhs_values times E d psi n t0) = zhs_values times E 1 psi n t0.
Proof.
  intros Hd. unfold zhs_values. cbv zeta.
  destruct (Reqb E 0); [apply map_zerosR; ring|].
  destruct (ZHS_zeroed _ _ _ _); [apply map_zerosR; ring|].
  rewrite map_map. apply map_ext. intros j. apply zhs_sample_inv_distance. exact Hd.
Qed.

Lemma zhs_even_in_angle times E d psi n t0 : zhs_values times E d (- psi) n t0 = zhs_values times E d psi n t0.
Proof.
  unfold zhs_values. cbv zeta.
  destruct (Reqb E 0); [reflexivity|].
  destruct (ZHS_zeroed _ _ _ _); [reflexivity|].
  apply map_ext. intros j. unfold zhs_sample. f_equal. f_equal.
  apply rsum_ext. intros k Hk. cbv zeta. f_equal.
  rewrite zhs_theta_even. apply zhs_e_omega_signed_angle_irrelevant.
Qed.

Lemma zhs_joint_shift times E d psi n t0 s : (2 <= length times)%nat ->
  zhs_values (shift_times s times) E d psi n (t0 + s) = zhs_values times E d psi n t0.
Proof.
  intros H. unfold zhs_values. cbv zeta.
  rewrite first_time_shift by lia. rewrite second_time_shift by lia.
  rewrite ZL_shift, shift_times_length, zhs_zeroed_joint, !shift_sub.
  reflexivity.
Qed.

(* the phase factor of a delay by m whole samples is an index shift by m (DFT shift theorem, termwise) *)
Lemma zhs_sample_shift E d psi n N dt tau (m j : Z) : (0 < N)%Z -> dt <> 0 ->
  zhs_sample E d psi n N dt (tau + IZR m * dt) j = zhs_sample E d psi n N dt tau (j - m).
Proof.
  intros HN Hdt. unfold zhs_sample. f_equal. f_equal.
  apply rsum_ext. intros k Hk. cbv zeta. f_equal.
  unfold fftfreq.
  assert (HM : IZR (2 * N) <> 0) by (apply not_0_IZR; lia).
  set (M := (2 * N)%Z) in *.
  destruct (Z.of_nat k <? (M - 1) / 2 + 1)%Z.
  - f_equal. rewrite !mult_IZR, minus_IZR. field. split; assumption.
  - match goal with |- _ = cos ?x => rewrite <- (cos_period_Z x m) end.
    f_equal. rewrite !mult_IZR, !minus_IZR. field. split; assumption.
Qed.

Lemma zhs_whole_sample_shift times E d psi n t0 (m : Z) (j : nat) :
  second_time times - first_time times <> 0 ->
  ZHS_zeroed (first_time times) (second_time times) (ZL times) t0 = false ->
  ZHS_zeroed (first_time times) (second_time times) (ZL times) (t0 + IZR m * (second_time times - first_time times)) = false ->
  (j < length times)%nat -> (0 <= Z.of_nat j - m < ZL times)%Z ->
  nth j (zhs_values times E d psi n (t0 + IZR m * (second_time times - first_time times))) 0
  = nth (Z.to_nat (Z.of_nat j - m)) (zhs_values times E d psi n t0) 0.
Proof.
  intros Hdt Hz0 Hz1 Hj Hjm. unfold zhs_values. cbv zeta.
  rewrite Hz0, Hz1.
  destruct (Reqb E 0); [rewrite !nth_zerosR; reflexivity|].
  assert (Hlt : (Z.to_nat (Z.of_nat j - m) < length times)%nat) by (unfold ZL in Hjm; lia).
  rewrite !(nth_map_seq R) by assumption.
  rewrite Z2Nat.id by lia.
  rewrite <- zhs_sample_shift; [| unfold ZL; lia | exact Hdt].
  f_equal. ring.
Qed.

Lemma zhs_zero_energy times d psi n t0 : zhs_values times 0 d psi n t0 = zerosR (length times).
Proof. unfold zhs_values. cbv zeta. rewrite Reqb_refl. reflexivity. Qed.

Lemma Reqb_scal c E : c <> 0 -> Reqb (c * E) 0 = Reqb E 0.
Proof.
  intros Hc. unfold Reqb.
  destruct (Req_EM_T (c * E) 0) as [H1|H1]; destruct (Req_EM_T E 0) as [H2|H2]; try reflexivity.
  - exfalso. apply Rmult_integral in H1. tauto.
  - exfalso. apply H1. rewrite H2. ring.
Qed.

Lemma zhs_sample_linear_in_energy c E d psi n N dt tau j :
  zhs_sample (c * E) d psi n N dt tau j = c * zhs_sample E d psi n N dt tau j.
Proof.
  unfold zhs_sample.
  match goal with |- _ = c * (rsum ?f ?k / ?a / ?b) =>
    replace (c * (rsum f k / a / b)) with (c * rsum f k / a / b) by (unfold Rdiv; ring);
    rewrite <- (rsum_scal k f c) end.
  f_equal. f_equal. apply rsum_ext. intros k Hk. cbv zeta.
  rewrite zhs_e_omega_linear_in_energy. ring.
Qed.

Lemma zhs_linear_in_energy times c E d psi n t0 : c <> 0 ->
  zhs_values times (c * E) d psi n t0 = map (fun v => c * v) (zhs_values times E d psi n t0).
Proof.
  intros Hc. unfold zhs_values. cbv zeta. rewrite (Reqb_scal c E Hc).
  destruct (Reqb E 0); [symmetry; apply map_zerosR; ring|].
  destruct (ZHS_zeroed _ _ _ _); [symmetry; apply map_zerosR; ring|].
  rewrite map_map. apply map_ext. intros j. apply zhs_sample_linear_in_energy.
Qed.

(* ================================================================== AVZ *)
Definition avz_centered_trace (times : list R) (emE hadE emf hadf d psi n : R) : list R :=
  roll 0 (map (fun j => avz_trace_sample emE hadE emf hadf d (Rabs psi) (acos (1 / n)) (ZL times)
                          (second_time times - first_time times) (Z.of_nat j)) (seq 0 (length times)))
       (AVZ_center_shift (ZL times)).

Lemma avz_centered_trace_length times emE hadE emf hadf d psi n :
  length (avz_centered_trace times emE hadE emf hadf d psi n) = length times.
Proof. unfold avz_centered_trace. rewrite roll_length, map_length, seq_length. reflexivity. Qed.

Lemma avz_values_eq times emE hadE emf hadf d psi n t0 :
  avz_values times emE hadE emf hadf d psi n t0 =
  if AVZ_zeroed (first_time times) (second_time times) (ZL times) t0 then zerosR (length times)
  else avz_place 0 (avz_centered_trace times emE hadE emf hadf d psi n)
                 (AVZ_shift (first_time times) (second_time times) (ZL times) t0).
Proof. reflexivity. Qed.

Lemma avz_zeroed_def a b L t0 : AVZ_zeroed a b L t0 = (Z.abs (AVZ_shift a b L t0) >? L)%Z.
Proof. reflexivity. Qed.

Lemma avz_values_length times emE hadE emf hadf d psi n t0 : length (avz_values times emE hadE emf hadf d psi n t0) = length times.
Proof.
  rewrite avz_values_eq. destruct (AVZ_zeroed _ _ _ _); [apply zerosR_length|].
  rewrite avz_place_length. apply avz_centered_trace_length.
Qed.

(* closed form: sample j is the centred trace at index j - shift, zero outside (also in the zeroed case) *)
Lemma avz_values_nth times emE hadE emf hadf d psi n t0 j : (j < length times)%nat ->
  nth j (avz_values times emE hadE emf hadf d psi n t0) 0 =
  getz 0 (avz_centered_trace times emE hadE emf hadf d psi n)
         (Z.of_nat j - AVZ_shift (first_time times) (second_time times) (ZL times) t0).
Proof.
  intros Hj. rewrite avz_values_eq, avz_zeroed_def.
  assert (HL : zlen (avz_centered_trace times emE hadE emf hadf d psi n) = ZL times).
  { unfold zlen, ZL. rewrite avz_centered_trace_length. reflexivity. }
  assert (Hjz : (0 <= Z.of_nat j < ZL times)%Z) by (unfold ZL; lia).
  destruct (Z.gtb_spec (Z.abs (AVZ_shift (first_time times) (second_time times) (ZL times) t0)) (ZL times)) as [Hs|Hs].
  - rewrite nth_zerosR. symmetry. apply avz_far_is_zero; rewrite HL; assumption.
  - rewrite <- avz_place_nth by (rewrite HL; assumption).
    rewrite getz_nth by lia. rewrite Nat2Z.id. reflexivity.
Qed.

Lemma avz_trace_sample_inv_distance emE hadE emf hadf d th thc N dt j : d <> 0 ->
  avz_trace_sample emE hadE emf hadf d th thc N dt j * d = avz_trace_sample emE hadE emf hadf 1 th thc N dt j.
Proof.
  intros Hd. unfold avz_trace_sample.
  match goal with |- - ?c * rsum ?f ?k / ?b * d = _ =>
    replace (- c * rsum f k / b * d) with (- c * (d * rsum f k) / b) by (unfold Rdiv; ring);
    rewrite <- (rsum_scal k f d) end.
  f_equal. f_equal. apply rsum_ext. intros k Hk. cbv zeta.
  rewrite <- (avz_tmp_inv_distance emE hadE emf hadf d) by exact Hd. ring.
Qed.

Lemma avz_centered_trace_inv_distance times emE hadE emf hadf d psi n : d <> 0 ->
  map (fun v => v * d) (avz_centered_trace times emE hadE emf hadf d psi n)
  = avz_centered_trace times emE hadE emf hadf 1 psi n.
Proof.
  intros Hd. unfold avz_centered_trace.
  rewrite map_roll by ring. f_equal. rewrite map_map. apply map_ext. intros j.
  apply avz_trace_sample_inv_distance. exact Hd.
Qed.

Lemma avz_inv_distance times emE hadE emf hadf d psi n t0 : d <> 0 ->
  map (fun v => v * d) (avz_values times emE hadE emf hadf d psi n t0) = avz_values times emE hadE emf hadf 1 psi n t0.
Proof.
  intros Hd. rewrite !avz_values_eq.
  destruct (AVZ_zeroed _ _ _ _); [apply map_zerosR; ring|].
  rewrite map_avz_place by ring. rewrite avz_centered_trace_inv_distance by exact Hd. reflexivity.
Qed.

Lemma avz_even_in_angle times emE hadE emf hadf d psi n t0 :
  avz_values times emE hadE emf hadf d (- psi) n t0 = avz_values times emE hadE emf hadf d psi n t0.
Proof.
  rewrite !avz_values_eq. unfold avz_centered_trace. rewrite Rabs_Ropp. reflexivity.
Qed.

Lemma avz_shift_joint a b L t0 s : AVZ_shift (a + s) (b + s) L (t0 + s) = AVZ_shift a b L t0.
Proof. unfold AVZ_shift. cbv zeta. rewrite !shift_sub. reflexivity. Qed.

Lemma avz_joint_shift times emE hadE emf hadf d psi n t0 s : (2 <= length times)%nat ->
  avz_values (shift_times s times) emE hadE emf hadf d psi n (t0 + s) = avz_values times emE hadE emf hadf d psi n t0.
Proof.
  intros H. rewrite !avz_values_eq, !avz_zeroed_def. unfold avz_centered_trace.
  rewrite first_time_shift by lia. rewrite second_time_shift by lia.
  rewrite ZL_shift, shift_times_length, avz_shift_joint, !shift_sub.
  reflexivity.
Qed.

Lemma avz_shift_whole a b L t0 (m : Z) : b - a <> 0 ->
  AVZ_shift a b L (t0 + IZR m * (b - a)) = (AVZ_shift a b L t0 + m)%Z.
Proof.
  intros Hd. unfold AVZ_shift. cbv zeta. rewrite !Rtrunc_Rfloor.
  replace ((t0 + IZR m * (b - a) - a) / (b - a)) with ((t0 - a) / (b - a) + IZR m) by (field; exact Hd).
  rewrite Rfloor_Z_plus. lia.
Qed.

Lemma avz_whole_sample_shift times emE hadE emf hadf d psi n t0 (m : Z) (j : nat) :
  second_time times - first_time times <> 0 -> (j < length times)%nat -> (0 <= Z.of_nat j - m < ZL times)%Z ->
  nth j (avz_values times emE hadE emf hadf d psi n (t0 + IZR m * (second_time times - first_time times))) 0
  = nth (Z.to_nat (Z.of_nat j - m)) (avz_values times emE hadE emf hadf d psi n t0) 0.
Proof.
  intros Hdt Hj Hjm.
  assert (Hlt : (Z.to_nat (Z.of_nat j - m) < length times)%nat) by (unfold ZL in Hjm; lia).
  rewrite !avz_values_nth by assumption.
  rewrite avz_shift_whole by exact Hdt. rewrite Z2Nat.id by lia.
  f_equal. lia.
Qed.

Lemma avz_trace_sample_zero_energy emf hadf d th thc N dt j :
  avz_trace_sample 0 0 emf hadf d th thc N dt j = 0.
Proof.
  unfold avz_trace_sample. rewrite rsum_zero; [unfold Rdiv; ring|].
  intros k Hk. cbv zeta. rewrite avz_tmp_zero_energy. ring.
Qed.

Lemma avz_zero_energy times emf hadf d psi n t0 : avz_values times 0 0 emf hadf d psi n t0 = zerosR (length times).
Proof.
  apply list_ext_nth.
  - rewrite avz_values_length, zerosR_length. reflexivity.
  - intros j Hj. rewrite avz_values_length in Hj.
    rewrite avz_values_nth by exact Hj. rewrite nth_zerosR.
    set (i := (Z.of_nat j - _)%Z). clearbody i.
    unfold getz. destruct (i <? 0)%Z; [reflexivity|].
    unfold avz_centered_trace.
    set (tr := map _ (seq 0 (length times))).
    destruct (Nat.lt_ge_cases (Z.to_nat i) (length (roll 0 tr (AVZ_center_shift (ZL times))))) as [Hi|Hi];
      [| apply nth_overflow; exact Hi].
    unfold roll in *. rewrite map_length, seq_length in Hi.
    rewrite (nth_map_seq R) by exact Hi.
    set (q := Z.to_nat _). clearbody q.
    destruct (Nat.lt_ge_cases q (length tr)) as [Hq|Hq]; [| apply nth_overflow; exact Hq].
    unfold tr in *. rewrite map_length, seq_length in Hq.
    rewrite (nth_map_seq R) by exact Hq.
    apply avz_trace_sample_zero_energy.
Qed.

