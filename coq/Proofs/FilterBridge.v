(* Bridge between the signal algebra of C03 / C08 (Lib/SignalAlg.v, Lib/CPair.v: lincomb, fold-based
   energy, cabs on pairs) and C05's concrete model of Signal.filter_frequencies (Lib/DFT.v,
   Model/FilterModel.v, Proofs/C05_proofs.v: lincomb over its own map2, energy as an indexed Rsum,
   Coquelicot's Cmod), so that the Section hypotheses filter_length / filter_linear / filter_passive of
   Proofs/C08_proofs.v and Proofs/C03_propagate.v are discharged by C05's theorems for the concrete
   zero-padded DFT filter, for every signal length. *)
From Coq Require Import Reals List Bool ZArith Lra Lia.
From Coquelicot Require Import Coquelicot.
From PyrexLib Require Import RealPrims CPair SignalAlg.
From PyrexLib Require DFT.
From PyrexModel Require FilterModel.
From PyrexProofs Require C05_proofs.
Import ListNotations.
Open Scope R_scope.

(* C05's model of Signal.filter_frequencies, at the type the C03 / C08 sections use
   (Coquelicot's C is R * R) *)
Definition concrete_filter (times values : list R) (g : R -> R * R) (force_real : bool) : list R :=
  FilterModel.filter_frequencies times values g force_real.

Lemma lincomb_bridge a b xs ys : SignalAlg.lincomb a b xs ys = C05_proofs.lincomb a b xs ys.
Proof. reflexivity. Qed.   (* the two map2 are the same fixpoint *)

Lemma Rsum_shift f n : DFT.Rsum f (S n) = f 0%nat + DFT.Rsum (fun k => f (S k)) n.
Proof.
  induction n as [|n IH]; [simpl; ring|].
  change (DFT.Rsum f (S (S n))) with (DFT.Rsum f (S n) + f (S n)). rewrite IH. simpl. ring.
Qed.

Lemma energy_bridge xs : SignalAlg.energy xs = C05_proofs.energy xs.
Proof.
  unfold C05_proofs.energy. induction xs as [|x xs IH]; [reflexivity|].
  change (length (x :: xs)) with (S (length xs)). rewrite Rsum_shift. simpl SignalAlg.energy. simpl nth at 1 2.
  rewrite IH. reflexivity.
Qed.

Lemma cabs_bridge z : cabs z = Cmod z.
Proof. unfold cabs, cabs2, cre, cim, Cmod. f_equal. ring. Qed.

(* the three hypotheses, for the concrete filter *)
Lemma concrete_filter_length times xs g fr :
  (length times <= 2 * length xs)%nat -> length (concrete_filter times xs g fr) = length times.
Proof. apply C05_proofs.filter_frequencies_length. Qed.

Lemma concrete_filter_linear times xs ys a b g fr n :
  length xs = length ys -> length times = length xs -> (n < length times)%nat ->
  nth n (concrete_filter times (SignalAlg.lincomb a b xs ys) g fr) 0
  = a * nth n (concrete_filter times xs g fr) 0 + b * nth n (concrete_filter times ys g fr) 0.
Proof. intros. rewrite lincomb_bridge. apply C05_proofs.filter_linear_lemma; assumption. Qed.

Lemma concrete_filter_passive times xs g fr :
  length times = length xs -> (forall u, cabs (g u) <= 1) ->
  SignalAlg.energy (concrete_filter times xs g fr) <= SignalAlg.energy xs.
Proof.
  intros L H. rewrite !energy_bridge. apply C05_proofs.filter_passive_lemma; [assumption|].
  intros u. rewrite <- cabs_bridge. apply H.
Qed.
