(* C07: ARZ whole-sample shift under a concrete arithmetic condition for the consistency of the int() truncation of n_shift. *)
From Coq Require Import Reals List Bool ZArith Lra Lia.
From PyrexLib Require Import RealPrims.
From PyrexGen Require Import Gen_askaryan.
From PyrexModel Require Import AskaryanIndex AskaryanModel.
From PyrexProofs Require Import C07_index C07_lists C07_formulas C07_finite C07_arz.
Import ListNotations.
Open Scope R_scope.

(* ------------------------------------------------------------------ *)
(* --- 1. truncation toward zero and integer translations --- *)
(* ------------------------------------------------------------------ *)

Lemma Rfloor_Z_minus : forall x (k : Z), Rfloor_Z (x - IZR k) = (Rfloor_Z x - k)%Z.
Proof.
  intros x k. replace (x - IZR k) with (x + IZR (- k)) by (rewrite opp_IZR; ring).
  rewrite Rfloor_Z_plus. lia.
Qed.

Lemma Rtrunc_neg_eq : forall x, x < 0 -> Rtrunc x = (- Rfloor_Z (- x))%Z.
Proof.
  intros x Hx. unfold Rtrunc. destruct (Rltb x 0) eqn:E; [reflexivity|].
  apply Rltb_false in E. lra.
Qed.

(* int() is odd *)
Lemma Rtrunc_opp : forall x, Rtrunc (- x) = (- Rtrunc x)%Z.
Proof.
  intros x. destruct (Rtotal_order x 0) as [H | [H | H]].
  - rewrite (Rtrunc_neg_eq x H), (Rtrunc_nonneg_eq (- x)) by lra. lia.
  - subst x. rewrite Ropp_0. change 0 with (IZR 0). rewrite Rtrunc_IZR. reflexivity.
  - rewrite (Rtrunc_neg_eq (- x)) by lra. rewrite Ropp_involutive, (Rtrunc_nonneg_eq x) by lra. reflexivity.
Qed.

(* an integer is its own truncation *)
Lemma Rtrunc_of_integer : forall x, x = IZR (Rfloor_Z x) -> Rtrunc x = Rfloor_Z x.
Proof. intros x H. rewrite H at 1. apply Rtrunc_IZR. Qed.

(* below zero and off the integers int() is the ceiling = floor + 1 *)
Lemma Rtrunc_neg_nonint : forall x, x < 0 -> x <> IZR (Rfloor_Z x) -> Rtrunc x = (Rfloor_Z x + 1)%Z.
Proof.
  intros x Hx Hn. rewrite Rtrunc_neg_eq by assumption.
  pose proof (Rfloor_Z_spec x) as S.
  rewrite (Rfloor_Z_unique (- x) (- Rfloor_Z x - 1)); [lia|].
  rewrite minus_IZR, opp_IZR. lra.
Qed.

Lemma Rtrunc_minus_same_side : forall x (k : Z),
  (0 <= x /\ 0 <= x - IZR k) \/ (x <= 0 /\ x - IZR k <= 0) -> Rtrunc (x - IZR k) = (Rtrunc x - k)%Z.
Proof.
  assert (P : forall x (k : Z), 0 <= x -> 0 <= x - IZR k -> Rtrunc (x - IZR k) = (Rtrunc x - k)%Z).
  { intros x k H1 H2. rewrite !Rtrunc_nonneg_eq by assumption. apply Rfloor_Z_minus. }
  intros x k [[H1 H2] | [H1 H2]]; [apply P; assumption|].
  replace (x - IZR k) with (- (- x - IZR (- k))) by (rewrite opp_IZR; ring).
  rewrite Rtrunc_opp, P by (rewrite ?opp_IZR; lra).
  rewrite Rtrunc_opp. lia.
Qed.

Lemma Rtrunc_minus_iff : forall x (k : Z),
  Rtrunc (x - IZR k) = (Rtrunc x - k)%Z <->
  ((0 <= x /\ 0 <= x - IZR k) \/ (x <= 0 /\ x - IZR k <= 0) \/ x = IZR (Rfloor_Z x)).
Proof.
  intros x k. split.
  - intros H.
    destruct (Req_dec x (IZR (Rfloor_Z x))) as [Hi | Hn]; [right; right; exact Hi|].
    assert (Hn' : x - IZR k <> IZR (Rfloor_Z (x - IZR k))).
    { rewrite Rfloor_Z_minus, minus_IZR. lra. }
    destruct (Rle_lt_dec 0 x) as [Hx | Hx]; destruct (Rle_lt_dec 0 (x - IZR k)) as [Hy | Hy].
    + left. split; assumption.
    + exfalso. rewrite (Rtrunc_neg_nonint _ Hy Hn'), Rfloor_Z_minus, (Rtrunc_nonneg_eq x Hx) in H. lia.
    + exfalso. rewrite (Rtrunc_nonneg_eq _ Hy), Rfloor_Z_minus, (Rtrunc_neg_nonint x Hx Hn) in H. lia.
    + right. left. split; lra.
  - intros [H | [H | H]].
    + apply Rtrunc_minus_same_side. left. exact H.
    + apply Rtrunc_minus_same_side. right. exact H.
    + rewrite (Rtrunc_of_integer x H). rewrite H at 1.
      rewrite <- minus_IZR. apply Rtrunc_IZR.
Qed.

(* ------------------------------------------------------------------ *)
(* --- 2. definitional readings (re-checked on every run) --- *)
(* ------------------------------------------------------------------ *)

Lemma ss_n_shift_def a b L E th n t0 :
  ARZ_ss_n_shift a b L E th n t0 =
  Rtrunc ((ARZ_ss_t_start a b L E th n t0 + 10e-9) / ARZ_ss_dz a b L E th n t0 / ARZ_ss_z_to_t a b L E th n t0).
Proof. reflexivity. Qed.
Lemma ss_t_start_def a b L E th n t0 : ARZ_ss_t_start a b L E th n t0 = a - t0.
Proof. reflexivity. Qed.

(* ------------------------------------------------------------------ *)
(* --- 3. the argument of the truncation --- *)
(* ------------------------------------------------------------------ *)

(* x / dz / z_to_t = x * dt_divider / dt, with dt > 0, dt_divider >= 1 *)
Lemma ss_fine_quotient a b L E th n t0 x : a < b -> ARZ_ss_z_to_t a b L E th n t0 <> 0 ->
  x / ARZ_ss_dz a b L E th n t0 / ARZ_ss_z_to_t a b L E th n t0
  = x * IZR (ARZ_ss_dt_divider a b L E th n t0) / (b - a).
Proof.
  intros Hab Hz.
  pose proof (ss_fine_step a b L E th n t0 Hz) as HP.
  pose proof (ss_dt_divider_ge_1 a b L E th n t0) as Hd. apply IZR_le in Hd.
  set (dz := ARZ_ss_dz a b L E th n t0) in *. set (z := ARZ_ss_z_to_t a b L E th n t0) in *.
  set (D := IZR (ARZ_ss_dt_divider a b L E th n t0)) in *.
  assert (HP0 : dz * z <> 0).
  { rewrite HP. unfold Rdiv. apply Rmult_integral_contrapositive_currified; [lra | apply Rinv_neq_0_compat; lra]. }
  assert (Hdz : dz <> 0) by (intros Q; apply HP0; rewrite Q; ring).
  replace (x / dz / z) with (x / (dz * z)) by (field; split; assumption).
  rewrite HP. field. split; lra.
Qed.

Lemma ss_n_shift_arg_shift a b L E th n t0 (m : Z) : a < b -> ARZ_ss_z_to_t a b L E th n t0 <> 0 ->
  (ARZ_ss_t_start a b L E th n (t0 + IZR m * (b - a)) + 10e-9) / ARZ_ss_dz a b L E th n t0 / ARZ_ss_z_to_t a b L E th n t0
  = (ARZ_ss_t_start a b L E th n t0 + 10e-9) / ARZ_ss_dz a b L E th n t0 / ARZ_ss_z_to_t a b L E th n t0
    - IZR (m * ARZ_ss_dt_divider a b L E th n t0).
Proof.
  intros Hab Hz.
  rewrite !(ss_fine_quotient a b L E th n t0 _ Hab Hz), ss_t_start_shift, mult_IZR.
  field. lra.
Qed.

Lemma ss_n_shift_arg_sign a b L E th n t0 : a < b -> ARZ_ss_z_to_t a b L E th n t0 <> 0 ->
  (0 <= (ARZ_ss_t_start a b L E th n t0 + 10e-9) / ARZ_ss_dz a b L E th n t0 / ARZ_ss_z_to_t a b L E th n t0 <-> t0 <= a + 10e-9) /\
  ((ARZ_ss_t_start a b L E th n t0 + 10e-9) / ARZ_ss_dz a b L E th n t0 / ARZ_ss_z_to_t a b L E th n t0 <= 0 <-> a + 10e-9 <= t0).
Proof.
  intros Hab Hz.
  rewrite (ss_fine_quotient a b L E th n t0 _ Hab Hz), ss_t_start_def.
  pose proof (ss_dt_divider_ge_1 a b L E th n t0) as Hd. apply IZR_le in Hd.
  set (D := IZR (ARZ_ss_dt_divider a b L E th n t0)) in *.
  set (c := 10e-9).
  assert (Hs : 0 < D / (b - a)) by (apply Rdiv_lt_0_compat; lra).
  replace ((a - t0 + c) * D / (b - a)) with ((a - t0 + c) * (D / (b - a))) by (field; lra).
  set (s := D / (b - a)) in *.
  split; split; intros H.
  - destruct (Rle_lt_dec t0 (a + c)) as [G | G]; [exact G | exfalso].
    assert ((a - t0 + c) * s < 0 * s) by (apply Rmult_lt_compat_r; lra). lra.
  - apply Rmult_le_pos; lra.
  - destruct (Rle_lt_dec (a + c) t0) as [G | G]; [exact G | exfalso].
    assert (0 * s < (a - t0 + c) * s) by (apply Rmult_lt_compat_r; lra). lra.
  - assert ((a - t0 + c) * s <= 0 * s) by (apply Rmult_le_compat_r; lra). lra.
Qed.

(* ------------------------------------------------------------------ *)
(* --- 4. consistency of the truncation --- *)
(* ------------------------------------------------------------------ *)

Lemma ss_n_shift_consistent a b L E th n t0 (m : Z) : a < b -> ARZ_ss_z_to_t a b L E th n t0 <> 0 ->
  (t0 <= a + 10e-9 /\ t0 + IZR m * (b - a) <= a + 10e-9) \/ (a + 10e-9 <= t0 /\ a + 10e-9 <= t0 + IZR m * (b - a)) ->
  ARZ_ss_n_shift a b L E th n (t0 + IZR m * (b - a)) = (ARZ_ss_n_shift a b L E th n t0 - m * ARZ_ss_dt_divider a b L E th n t0)%Z.
Proof.
  intros Hab Hz Hside.
  set (t0' := t0 + IZR m * (b - a)) in *.
  assert (Hz' : ARZ_ss_z_to_t a b L E th n t0' <> 0) by (rewrite (ss_z_to_t_t0_free a b L E th n t0' t0); exact Hz).
  pose proof (ss_n_shift_arg_sign a b L E th n t0 Hab Hz) as [S1 S2].
  pose proof (ss_n_shift_arg_sign a b L E th n t0' Hab Hz') as [S1' S2'].
  rewrite (ss_dz_t0_free a b L E th n t0' t0), (ss_z_to_t_t0_free a b L E th n t0' t0) in S1', S2'.
  rewrite (ss_n_shift_def a b L E th n t0'), (ss_n_shift_def a b L E th n t0).
  rewrite (ss_dz_t0_free a b L E th n t0' t0), (ss_z_to_t_t0_free a b L E th n t0' t0).
  unfold t0' in *. rewrite (ss_n_shift_arg_shift a b L E th n t0 m Hab Hz) in *.
  apply Rtrunc_minus_same_side.
  destruct Hside as [[H1 H2] | [H1 H2]].
  - left. split; [apply S1; exact H1 | apply S1'; exact H2].
  - right. split; [apply S2; exact H1 | apply S2'; exact H2].
Qed.

(* ------------------------------------------------------------------ *)
(* --- 5. the whole-sample shift with concrete hypotheses only --- *)
(* ------------------------------------------------------------------ *)

Section Shift.
  Variable profile : R -> R -> R.
  Variable rac : R -> R -> R.

  Theorem shower_signal_whole_sample_shift_concrete times E th d n t0 (m : Z) (j : nat) :
    let a := first_time times in let b := second_time times in let L := ZL times in
    let t0' := t0 + IZR m * (b - a) in
    (1 <= length times)%nat -> a < b -> 0 <= th <= PI -> 1 <= n ->
    E <> 0 -> ARZ_max_length_default E <> 0 ->
    ARZ_ss_oncone a b L E th n t0 = false ->
    ARZ_ss_outside a b L E th n t0 = false -> ARZ_ss_outside a b L E th n t0' = false ->
    (all_zero (arz_Q profile (ARZ_ss_n_Q a b L E th n t0) (ARZ_ss_n_Q_negative a b L E th n t0) (ARZ_ss_dz a b L E th n t0) (ARZ_ss_z_to_t a b L E th n t0) E)
       && (0 <? zlen (arz_Q profile (ARZ_ss_n_Q a b L E th n t0) (ARZ_ss_n_Q_negative a b L E th n t0) (ARZ_ss_dz a b L E th n t0) (ARZ_ss_z_to_t a b L E th n t0) E))%Z) = false ->
    ((t0 <= a + 10e-9 /\ t0' <= a + 10e-9) \/ (a + 10e-9 <= t0 /\ a + 10e-9 <= t0')) ->
    (j < length times)%nat -> (0 <= Z.of_nat j - m < ZL times)%Z ->
    nth j (shower_signal profile rac times E th d n t0') 0 = nth (Z.to_nat (Z.of_nat j - m)) (shower_signal profile rac times E th d n t0) 0.
  Proof.
    cbv zeta. intros Hlen Hab Hth Hn HE HLm Hon Hout Hout' Haz Hside Hj Hjm.
    pose proof (ss_z_to_t_nonzero_off_cone _ _ _ _ _ _ _ Hth Hn Hon) as Hz.
    pose proof (ss_n_Q_ge_1000 _ _ _ _ _ _ _ Hab Hz HLm) as HnQ.
    pose proof (ss_n_RAC_ge_2 _ _ _ _ _ _ _ Hab Hz) as HnR.
    apply (shower_signal_whole_sample_shift profile rac times E th d n t0 m j); try assumption.
    - apply ss_zero_energy_false. exact HE.
    - lia.
    - lia.
    - apply ss_n_shift_consistent; assumption.
  Qed.
End Shift.
