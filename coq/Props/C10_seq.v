(* C10 for sequences of events on ONE kernel / detector whose antennas are AntennaSystem objects
   (antenna + front end) or plain antennas, with reads of signals / all_waveforms / waveforms / is_hit
   and clear() in between (the simulation loop).  Statements only; proofs in Proofs/C10_seq_proofs.v
   about Model/KernelSeqModel.v (detector.py AntennaSystem caches as written on top of KernelModel.event). *)
From Coq Require Import List ZArith Bool.
From PyrexModel Require Import KernelModel KernelSeqModel.
From PyrexProofs Require Import C10_proofs C10_seq_proofs.
Import ListNotations.
Open Scope Z_scope.

(* For ALL histories: what the as-written system (lazy caches _signals, _all_waves, _triggers caught up
   on every read, emptied by clear) answers is what a cache-free antenna answers that simply holds the
   signals received since it was last cleared. *)
Theorem seq_refinement : forall c trig g ops,
  srun c trig (k_init g) ops = prun c trig (g, fun _ => []) ops.
Proof. exact seq_refinement_lemma. Qed.
Print Assumptions seq_refinement.

(* each step preserves the cache invariant (every cache is a prefix image of antenna.signals) *)
Theorem seq_step_refines : forall c trig k p o,
  related trig k p ->
  snd (sstep c trig k o) = snd (pstep c trig p o) /\ related trig (fst (sstep c trig k o)) (fst (pstep c trig p o)).
Proof. exact step_refines. Qed.
Print Assumptions seq_step_refines.

(* what one event() call hands antenna a: the ids of its (particle passing the cut, ray solution)
   pairs, one each, in order *)
Theorem event_delivers_pairs : forall c g ev qs cnt a,
  NoDup (c_ants c) -> In a (c_ants c) ->
  delivered a (snd (fst (event c g ev qs cnt))) = map (fun qp => p_id (snd qp)) (pairs c qs a).
Proof. exact delivered_event. Qed.
Print Assumptions event_delivers_pairs.

(* the simulation loop: after ANY history, once the detector has been cleared, event() followed by a
   read of ant.signals (and of ant.all_waveforms) gives exactly THIS event's ray solutions for that
   antenna -- one per solution, in order, hence on this event's grids signal_times + tof *)
Theorem loop_holds_this_events_signals : forall c trig g pre ev qs cnt a,
  NoDup (c_ants c) -> In a (c_ants c) ->
  exists r rest,
    srun c trig (k_init g) (pre ++ [SClearAll; SEvent ev qs cnt; SSignals a; SAllWaves a]) =
    rest ++ [ODone; ORet r; OList (map (fun qp => p_id (snd qp)) (pairs c qs a));
                            OList (map (fun qp => p_id (snd qp)) (pairs c qs a))].
Proof. exact sim_loop_lemma. Qed.
Print Assumptions loop_holds_this_events_signals.
