(* C04: statements only; proofs in Proofs/C04_*.v *)
From Coq Require Import List QArith Bool Arith.
From PyrexLib Require Import InterpQ.
From PyrexModel Require Import SignalModel.
From PyrexProofs Require Import C04_proofs.
Import ListNotations.

Theorem constructor_pads_and_truncates : forall n vs, length (pad_trunc n vs) = n.
Proof. exact pad_trunc_length. Qed.
Print Assumptions constructor_pads_and_truncates.
