(* C06: the table generated from the current source satisfies the safety criterion. *)
From Coq Require Import String List Bool.
From PyrexModel Require Import LazyModel.
From PyrexGen Require Import Gen_lazy.
From PyrexProofs Require Import C06_proofs.
Import ListNotations.
Open Scope string_scope.

(* finite table, regenerated from the source on each run *)
Lemma all_tables_ok_lemma : forallb table_ok tables = true.
Proof. vm_compute. reflexivity. Qed.

Lemma all_methods_safe_lemma : forallb (fun t => forallb (method_safe t) (methods t)) tables = true.
Proof. vm_compute. reflexivity. Qed.

Lemma deps_covered_lemma : forallb deps_covered tables = true.
Proof. vm_compute. reflexivity. Qed.

Lemma tables_nonempty_lemma :
  existsb (fun t => String.eqb (cname t) "FunctionSignal") tables = true /\
  existsb (fun t => String.eqb (cname t) "SpecializedRayTracer") tables = true /\
  existsb (fun t => String.eqb (cname t) "LayeredRayTracePath") tables = true /\
  forallb (fun t => negb (Nat.eqb (length (props t)) 0)) tables = true.
Proof. vm_compute. repeat split; reflexivity. Qed.

Lemma generated_classes_never_stale_lemma :
  forall t, In t tables ->
  forall (V : Type) (compute : string -> (string -> V) -> V),
  (forall p f g, (forall a, mem a (all_deps t) = true -> f a = g a) -> compute p f = compute p g) ->
  forall d f ops p extra, forallb (lop_public V t) ops = true ->
    let s := lrun V t compute d (fresh V f) ops in
    snd (read V compute s p extra) = snd (read V compute (fresh V (attrs V s)) p []).
Proof.
  intros t Hin V compute Hdep d f ops p extra Hpub.
  pose proof all_tables_ok_lemma as H. rewrite forallb_forall in H. specialize (H _ Hin).
  apply (safe_methods_preserve_inv_lemma V t compute Hdep d f ops p extra H Hpub).
Qed.
