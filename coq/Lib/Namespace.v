(* Namespaces as finite trees of names, and resolution of dotted references (C20). *)
From Coq Require Import String List Bool.
Import ListNotations.

Inductive ns : Type :=
| Leaf : ns                                   (* an object whose attributes are never referenced *)
| Open : ns                                   (* an object whose attributes are not tracked (always resolves) *)
| Node : list (string * ns) -> ns.

Fixpoint lookup (l : list (string * ns)) (s : string) : option ns :=
  match l with
  | [] => None
  | (k, v) :: r => if String.eqb k s then Some v else lookup r s
  end.

Fixpoint resolve (e : ns) (chain : list string) {struct chain} : bool :=
  match chain with
  | [] => true
  | s :: rest =>
      match e with
      | Leaf => false
      | Open => true
      | Node kids => match lookup kids s with
                     | Some e' => resolve e' rest
                     | None => false
                     end
      end
  end.

(* Relational reading: a chain resolves iff every prefix names an existing attribute. *)
Inductive Resolves : ns -> list string -> Prop :=
| R_nil : forall e, Resolves e []
| R_open : forall c, Resolves Open c
| R_step : forall kids s e' rest,
    lookup kids s = Some e' -> Resolves e' rest -> Resolves (Node kids) (s :: rest).

Lemma resolve_sound : forall chain e, resolve e chain = true <-> Resolves e chain.
Proof.
  induction chain as [|s rest IH]; intros e; split; intros H.
  - constructor.
  - reflexivity.
  - destruct e as [| |kids]; simpl in H.
    + discriminate.
    + constructor.
    + destruct (lookup kids s) as [e'|] eqn:Hl; [|discriminate].
      eapply R_step; [exact Hl|]. apply IH. exact H.
  - inversion H; subst; simpl.
    + reflexivity.
    + match goal with Hl : lookup _ _ = Some _ |- _ => rewrite Hl end.
      apply IH. assumption.
Qed.

(* A reference that fails names a prefix whose next attribute does not exist. *)
Fixpoint first_missing (e : ns) (chain : list string) : option string :=
  match chain with
  | [] => None
  | s :: rest =>
      match e with
      | Leaf => Some s
      | Open => None
      | Node kids => match lookup kids s with
                     | Some e' => first_missing e' rest
                     | None => Some s
                     end
      end
  end.

Lemma first_missing_none : forall chain e, first_missing e chain = None <-> resolve e chain = true.
Proof.
  induction chain as [|s rest IH]; intros e; simpl.
  - split; reflexivity.
  - destruct e as [| |kids].
    + split; discriminate.
    + split; reflexivity.
    + destruct (lookup kids s) as [e'|]; [apply IH | split; discriminate].
Qed.
