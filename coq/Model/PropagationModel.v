(* Hand model of the loops / look-ups around the translated propagation formulas
   (Gen/Gen_prop.v), following the code as written.  Pinned by AST hash
   (harness/pins/C03.json) and validated by correspondence on every run.  No proofs here.

   UniformRayTracePath.fresnel      r_s = r_p = 1; n_1 = self.n0
                                    for p1, p2 in zip(points[:-2], points[1:-1]): <fresnel_step>
   UniformRayTracePath.attenuation  attens = 1
                                    for p1, p2 in zip(points[:-1], points[1:]): <attenuation_step>
   SpecializedRayTracePath.attenuation
                                    exp(-|sum over the z_integral segments of trapezoid(nodes)|)
   LayeredRayTracePath.fresnel      f = paths[0].fresnel; per boundary: reflect or transmit arm,
                                    then times the next sub-path's own fresnel
   LayeredRayTracePath.attenuation  product of the sub-paths' attenuations                      *)
From Coq Require Import Reals List Bool ZArith.
From PyrexLib Require Import RealPrims CPair SignalAlg ListOps.
From PyrexGen Require Import Gen_ice Gen_prop.
Import ListNotations.
Open Scope R_scope.

(* consecutive pairs (p_i, p_{i+1}) of a list *)
Fixpoint cons_pairs {A} (l : list A) : list (A * A) :=
  match l with
  | a :: ((b :: _) as t) => (a, b) :: cons_pairs t
  | _ => []
  end.

Definition c_one : Cx := (1, 0).

(* zip(points[:-2], points[1:-1]) = consecutive pairs without the last one *)
Definition uniform_fresnel (self : UPath) (points : list vec3) : option (Cx * Cx) :=
  fold_left (fun acc pp => match acc with
                           | None => None
                           | Some (r_s, r_p) => UniformRayTracePath_fresnel_step self (UPath_n0 self) r_s r_p (fst pp) (snd pp)
                           end)
            (removelast (cons_pairs points)) (Some (c_one, c_one)).

Definition uniform_attenuation (self : UPath) (f dz : R) (points : list vec3) : R :=
  fold_left (fun attens pp => UniformRayTracePath_attenuation_step self f dz attens (fst pp) (snd pp))
            (cons_pairs points) 1.

(* one z_integral segment of the specialized path: depths and the `deep` flag *)
Definition spec_segment_nodes (f beta : R) (ice : Ice) (seg : list R * bool) : list (R * R) :=
  map (fun z => SpecializedRayTracePath_attenuation_node z f beta ice (snd seg)) (fst seg).

Definition specialized_integral (f beta : R) (ice : Ice) (segs : list (list R * bool)) : R :=
  fold_right (fun seg acc => trapz_nodes (spec_segment_nodes f beta ice seg) + acc) 0 segs.

Definition specialized_attenuation (f beta : R) (ice : Ice) (segs : list (list R * bool)) : R :=
  SpecializedRayTracePath_attenuation_of_integral (specialized_integral f beta ice segs).

(* layered: one boundary crossing followed by the next sub-path's own Fresnel factors *)
Inductive boundary := Reflects | Transmits.
Record crossing := mkCrossing { cr_kind : boundary; cr_n1 : R; cr_n2 : R; cr_rz1 : R; cr_next : Cx * Cx }.

Definition layered_fresnel (first : Cx * Cx) (cs : list crossing) : Cx * Cx :=
  fold_left (fun acc c =>
               let '(f_s, f_p) := match cr_kind c with
                                  | Reflects => LayeredRayTracePath_fresnel_reflect (cr_n1 c) (cr_n2 c) (cr_rz1 c) (fst acc) (snd acc)
                                  | Transmits => LayeredRayTracePath_fresnel_transmit (cr_n1 c) (cr_n2 c) (cr_rz1 c) (fst acc) (snd acc)
                                  end in
               (cmul f_s (fst (cr_next c)), cmul f_p (snd (cr_next c))))
            cs first.

Definition layered_attenuation (parts : list R) : R := list_prod parts.
