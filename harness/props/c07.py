"""C07: Askaryan pulses obey their scaling laws and fail gracefully (ZHS, AVZ, ARZ models)."""
import hashlib
import importlib
import json
import math
import os
import sys
from types import SimpleNamespace as NS

import numpy as np

from harness import common, realextract as rx
from harness.common import REPO, ROOT

sys.path.insert(0, os.path.join(ROOT, "tools"))
PIN_FILE = os.path.join(ROOT, "harness", "pins", "C07.json")
EPS = 2.0 ** -52
MODELS = ("ZHS", "AVZ", "ARZ")


def gen_files(scratch):
    import gen_askaryan
    importlib.reload(gen_askaryan)
    text, side = gen_askaryan.generate(REPO)
    return {"Gen_askaryan": text}, side


# ---------------------------------------------------------------------------- implementation access
def cls_of(model):
    import pyrex.askaryan as ask
    prim = {"ZHS": ask.ZHSAskaryanSignal, "AVZ": ask.AVZAskaryanSignal, "ARZ": ask.ARZAskaryanSignal}
    if model in prim:
        return prim[model]
    obj = getattr(ask, model, None)             # any other public name of the module (alias, deprecated subclass ...)
    if obj is None:
        import pyrex
        obj = getattr(pyrex, model)
    return obj


def public_signal_classes():
    """Every public signal class / alias of pyrex/askaryan.py, read from the SOURCE (top-level class definitions and
    top-level `Name = Class` assignments) plus the names pyrex/__init__.py re-exports from it.  Returns {name: kind},
    kind in ZHS / AVZ / ARZ by the primary class in its MRO (None when it derives from none of them)."""
    import ast
    import pyrex
    import pyrex.askaryan as ask
    tree = ast.parse(open(os.path.join(REPO, "pyrex", "askaryan.py")).read())
    names = []
    for node in tree.body:
        if isinstance(node, ast.ClassDef) and not node.name.startswith("_"):
            names.append(node.name)
        if isinstance(node, ast.Assign) and len(node.targets) == 1 and isinstance(node.targets[0], ast.Name) \
                and isinstance(node.value, ast.Name) and not node.targets[0].id.startswith("_"):
            names.append(node.targets[0].id)
    try:
        init = ast.parse(open(os.path.join(REPO, "pyrex", "__init__.py")).read())
        for node in ast.walk(init):
            if isinstance(node, ast.ImportFrom) and node.module and node.module.endswith("askaryan"):
                names += [a.asname or a.name for a in node.names if a.name != "*"]
    except OSError:
        pass
    prim = {"ZHS": ask.ZHSAskaryanSignal, "AVZ": ask.AVZAskaryanSignal, "ARZ": ask.ARZAskaryanSignal}
    out = {}
    for nm in dict.fromkeys(names):
        obj = getattr(ask, nm, None) or getattr(pyrex, nm, None)
        if not isinstance(obj, type):
            continue
        kind = next((k for k, b in prim.items() if issubclass(obj, b)), None)
        out[nm] = kind
    return out


class FixedIce:
    """Stub ice model: the classes use only ice_model.index(depth)."""
    def __init__(self, n):
        self.n = n

    def index(self, z):
        return self.n


def particle(E, em, had, depth=-1000.0):
    return NS(energy=E, vertex=np.array([0.0, 0.0, depth]), id=None, interaction=NS(em_frac=em, had_frac=had))


def build_styles(case):
    """The same construction through every calling convention of the public constructor (all positional, all keywords,
    keywords in another order): the three optional arguments viewing_distance, ice_model, t0 all non-default."""
    import warnings
    c = case
    cls = cls_of(c["model"])
    times = np.asarray(c["times"], dtype=float)
    p = particle(c["E"], c["em"], c["had"])
    ice = FixedIce(c["n"])
    with warnings.catch_warnings():
        warnings.simplefilter("ignore")
        return {"positional": cls(times, p, c["psi"], c["R"], ice, c["t0"]),
                "keywords": cls(times=times, particle=p, viewing_angle=c["psi"], viewing_distance=c["R"], ice_model=ice, t0=c["t0"]),
                "keywords reordered": cls(t0=c["t0"], ice_model=ice, viewing_distance=c["R"], viewing_angle=c["psi"], particle=p, times=times)}


def impl_signal(case, **over):
    """The real signal object for a case dict (not yet evaluated)."""
    c = dict(case, **over)
    times = np.asarray(c["times"], dtype=float)
    return cls_of(c["model"])(times, particle(c["E"], c["em"], c["had"]), c["psi"], c["R"], ice_model=FixedIce(c["n"]), t0=c["t0"])


def impl_values(case, **over):
    """Run the real class on a case dict (optionally with overridden fields); returns ndarray or raises."""
    c = dict(case, **over)
    times = np.asarray(c["times"], dtype=float)
    with np.errstate(all="ignore"):
        sig = cls_of(c["model"])(times, particle(c["E"], c["em"], c["had"]), c["psi"], c["R"],
                                 ice_model=FixedIce(c["n"]), t0=c["t0"])
        return np.array(sig.values, dtype=float)


def theta_c(n):
    return float(np.arccos(1 / n))


# ---------------------------------------------------------------------------- case generation
DT_CHOICES = [2.0 ** -30, 2.0 ** -31, 3 * 2.0 ** -32, 2.0 ** -29, 5 * 2.0 ** -33]   # 0.93, 0.47, 0.70, 1.86, 0.58 ns (dyadic)


def dyadic_grid(rng, N=None, dt=None):
    """Time grid whose entries, and every difference used by the code, are exact in binary64."""
    dt = dt or rng.choice(DT_CHOICES)
    N = N or rng.choice([rng.randint(8, 64), rng.randint(65, 256), 64, 128, 255, 256, 33])
    # the first sample is in general NOT a multiple of dt (dyadic fractions keep every difference exact)
    i0 = rng.randint(-300, 300) + rng.choice([0.0, 0.0, 0.25, 0.5, 0.625, 0.875])
    return [(i0 + i) * dt for i in range(N)], dt, i0


def rand_energy(rng, lo=3.0, hi=12.0):
    while True:
        e = rng.uniform(lo, hi)
        # stay off the branch points of the AVZ hadronic width (log10(E_had/1e3) in {0,2,5,7}) -- see fragile()
        return float(10 ** e)


def rand_fracs(rng):
    k = rng.random()
    if k < 0.15:
        return 1.0, 0.0
    if k < 0.3:
        return 0.0, 1.0
    if k < 0.4:
        y = 2.0 ** -rng.randint(1, 6)
        return 1.0 - y, y
    y = rng.uniform(0.02, 0.98)
    return (1.0 - y, y) if rng.random() < 0.6 else (0.0, y)


def rand_angle(rng, n, model, wide=False):
    tc = theta_c(n)
    k = rng.random()
    if k < 0.15:
        th = tc                                   # exactly on the cone (ARZ: RAC branch)
    elif k < 0.75 or not wide:
        d = rng.choice([-1, 1]) * 10 ** rng.uniform(-2.0, -0.7)     # 0.01 .. 0.2 rad off the cone
        th = tc + d
    else:
        th = rng.uniform(0.05, math.pi - 0.05)
        if abs(th - tc) < 0.01:
            th = tc + 0.01
    return float(th if rng.random() < 0.6 else -th)


SWEEP = False    # set when an obligation is broken: every scalar parameter is drawn from its full quantifier range


def rand_distance(rng):
    """Viewing distances over 1e-3 .. 1e5 m (log-uniform), plus exact powers of two and the range ends."""
    return float(rng.choice([1.0, 100.0, 737.5, 0.25, 2.0 ** -9, 1e-3, 1e5, 4096.0] + [10 ** rng.uniform(-3, 5) for _ in range(8)]))


def rand_case(rng, model, Nmax=256, wide=False, inside=True):
    times, dt, i0 = dyadic_grid(rng)
    if len(times) > Nmax:
        times = times[:Nmax]
    N = len(times)
    n = rng.choice([1.78, 1.35, 1.5, float(rng.uniform(1.3, 1.8))])
    em, had = rand_fracs(rng)
    E = rand_energy(rng)
    if SWEEP and rng.random() < 0.7:
        # full quantifier range: index at any depth / any medium, any fractions, energies far outside the nominal decade range
        n = float(rng.uniform(1.05, 2.0))
        em, had = rng.choice([(rng.random(), rng.random()), (1.0, 1.0), (2.0 ** -rng.randint(1, 40), rng.random()), rand_fracs(rng)])
        if model != "ARZ":
            E = float(10 ** rng.uniform(-3, 14))
        else:
            E = float(10 ** rng.uniform(1.5, 13))      # ARZ: shower energies stay off the critical energy (see the exclusion below)
    if inside:
        k = rng.randint(N // 8, N - 1 - N // 8)
    else:
        # shower time anywhere from 2N samples before the window to 2N samples after it (and the two window edges)
        k = rng.choice([rng.randint(-2 * N, 3 * N)] * 4 + [rng.randint(-3, 3), N + rng.randint(-3, 3),
                                                            N + N // 2 + rng.randint(-1, 2), N // 2 - N + rng.randint(-2, 1)])
    frac = rng.choice([0.0, 0.0, 0.5, 0.25, 0.875, 0.125])
    t0 = times[0] + (k + frac) * dt
    return {"model": model, "times": times, "dt": dt, "E": E, "em": em, "had": had, "psi": rand_angle(rng, n, model, wide),
            "R": rand_distance(rng), "n": n, "t0": float(t0)}


# ---------------------------------------------------------------------------- model execution (floats)
def ol(xs):
    return "[" + "; ".join(rx.ocf(x) for x in xs) + "]"


def zlit(k):
    """OCaml expression of a Coq Z."""
    return "(M.Z.of_nat (nat_of_int %d))" % k if k >= 0 else "(M.Z.opp (M.Z.of_nat (nat_of_int %d)))" % (-k)


OC_PRE = r'''
let rec nat_of_int n = if n <= 0 then M.O else M.S (nat_of_int (n - 1))
let prl scale l = Printf.printf "%h" scale; List.iter (fun x -> Printf.printf " %h" x) l; print_newline ()
'''

MODEL_FUNS = ["zhs_values", "zhs_scale", "avz_values", "avz_scale", "arz_values", "arz_scale", "shower_signal", "shower_scale",
              "ARZAskaryanSignal_em_shower_RAC", "ARZAskaryanSignal_had_shower_RAC", "ARZ_em_shower_profile_default",
              "ARZ_had_shower_profile_default", "ARZ_max_length_default", "ARZAskaryanSignal_em_shower_profile",
              "ARZAskaryanSignal_had_shower_profile", "ARZAskaryanSignal_max_length", "ARZAskaryanSignal_oncone_range",
              "AVZ_tmp", "ZHS_e_omega", "Z.of_nat", "Z.opp"]


def model_call(c):
    t = ol(c["times"])
    f = rx.ocf
    emE, hadE = c["E"] * c["em"], c["E"] * c["had"]
    if c["model"] == "ZHS":
        en = c["E"] * (c["em"] + c["had"])
        return "prl (M.zhs_scale %s %s %s %s %s) (M.zhs_values %s %s %s %s %s %s)" % (
            t, f(en), f(c["R"]), f(c["psi"]), f(c["n"]), t, f(en), f(c["R"]), f(c["psi"]), f(c["n"]), f(c["t0"]))
    if c["model"] == "AVZ":
        a = "%s %s %s %s %s %s %s %s" % (t, f(emE), f(hadE), f(c["em"]), f(c["had"]), f(c["R"]), f(c["psi"]), f(c["n"]))
        return "prl (M.avz_scale %s) (M.avz_values %s %s)" % (a, a, f(c["t0"]))
    a = "%s %s %s %s %s %s %s" % (t, f(emE), f(hadE), f(c["R"]), f(c["psi"]), f(c["n"]), f(c["t0"]))
    return "prl (M.arz_scale %s) (M.arz_values %s)" % (a, a)


def run_model(ctx, cases, name):
    old = rx.OCAML_PRELUDE
    rx.OCAML_PRELUDE = old + OC_PRE
    try:
        return rx.run(ctx, "From PyrexGen Require Import Gen_askaryan.\nFrom PyrexModel Require Import AskaryanIndex AskaryanModel.",
                      MODEL_FUNS, cases, name=name)
    finally:
        rx.OCAML_PRELUDE = old


# ---------------------------------------------------------------------------- tolerances
# Model vs implementation evaluate the same real expression with different summation algorithms
# (direct sums vs FFT / FFT convolution).  Each sample is a sum of at most ~1e5 terms t_i; both
# evaluations are within (n_terms + c) * eps * sum|t_i| of the exact value, and `scale` (printed by the
# model: zhs_scale / avz_scale / arz_scale) is sum|t_i| or an upper bound of it.  1e5 * 2.2e-16 ~ 2e-11;
# the phase / time arguments add at most 2 pi N eps ~ 4e-13 relative.  CORR_TOL leaves a factor 50.
CORR_TOL = 1e-9


def fragile_arz(c):
    """True when one of the int() truncations of shower_signal has an argument so close to an integer
    that a one-ulp difference between libm implementations could flip it (the case is then skipped)."""
    import pyrex.askaryan as ask
    A = ask.ARZAskaryanSignal
    th = abs(c["psi"])
    n = c["n"]
    dt = c["times"][1] - c["times"][0]
    for E in (c["E"] * c["em"], c["E"] * c["had"]):
        if E == 0:
            continue
        with np.errstate(all="ignore"):
            z2t = (1 - n * np.cos(th)) / 299792458.0
            if abs(th - np.arccos(1 / n)) <= A.oncone_range:
                continue
            L = A.max_length(E)
            if not np.isfinite(L) or L == 0 or z2t == 0:
                return True
            dq = int(abs(100 * dt / L / z2t)) + 1
            dv = max(dq, int(abs(dt / 1e-11)) + 1)
            dz = dt / dv / z2t
            xs = [100 * dt / L / z2t, 5 * L / dz, (c["times"][0] - c["t0"] + 10e-9) / dz / z2t, 2 * 10e-9 / dz / z2t]
        for x in xs:
            if not np.isfinite(x) or abs(x - round(x)) < 1e-7 * max(1.0, abs(x)):
                return True
    return False


def near_avz_branch(c):
    Eh = c["E"] * c["had"]
    if Eh <= 0:
        return False
    e = math.log10(Eh / 1e3)
    return any(abs(e - b) < 1e-9 for b in (0, 2, 5, 7))


# ---------------------------------------------------------------------------- correspondence: statics
def close(a, b, rel=1e-11, abs_=1e-300):
    a, b = float(a), float(b)
    if math.isnan(a) or math.isnan(b):
        return math.isnan(a) and math.isnan(b)
    if math.isinf(a) or math.isinf(b):
        return a == b
    return abs(a - b) <= abs_ + rel * max(abs(a), abs(b))


def corr_statics(ctx, mult=1):
    import pyrex.askaryan as ask
    A = ask.ARZAskaryanSignal
    rng = ctx.rng
    f = rx.ocf
    cases, expect, meta = [], [], []

    def add(fn, code, val, m):
        cases.append(code)
        expect.append(float(val))
        meta.append(dict(m, fn=fn))
    nE = ctx.n(12, 120) * mult
    energies = [1e3, 1e12, 0.05, 0.0787, 0.1, 0.17006, 0.18, 1.0, 2.9, 2.97, 3.5] + [10 ** rng.uniform(-1, 12) for _ in range(nE)]
    ts = [0.0, -0.0, 1e-12, -1e-12, 1e-9, -1e-9, 9.99e-9, -1.0001e-8, 5e-8] + \
         [rng.choice([-1, 1]) * 10 ** rng.uniform(-13, -7) for _ in range(ctx.n(8, 60))]
    zs = [0.0, -1.0, 1e-6, 0.5, 3.0, 12.5, 60.0, 150.0] + [10 ** rng.uniform(-3, 2) for _ in range(ctx.n(6, 40))]
    with np.errstate(all="ignore"):
        add("oncone_range", "pr M.aRZAskaryanSignal_oncone_range", A.oncone_range, {})
        for E in energies:
            E = float(E)
            if abs(E - 7.86e-2) > 1e-6:
                add("max_length", "pr (M.aRZ_max_length_default %s)" % f(E), A.max_length(E), {"E": E})
            for t in ts:
                arr = np.array([t, 0.0])
                add("em_shower_RAC", "pr (M.aRZAskaryanSignal_em_shower_RAC %s %s)" % (f(t), f(E)), A.em_shower_RAC(arr, E)[0], {"E": E, "t": t})
                add("had_shower_RAC", "pr (M.aRZAskaryanSignal_had_shower_RAC %s %s)" % (f(t), f(E)), A.had_shower_RAC(arr, E)[0], {"E": E, "t": t})
            for z in zs:
                arr = np.array([z, 1.0])
                add("em_shower_profile", "pr (M.aRZ_em_shower_profile_default %s %s)" % (f(z), f(E)), A.em_shower_profile(arr, E)[0], {"E": E, "z": z})
                add("had_shower_profile", "pr (M.aRZ_had_shower_profile_default %s %s)" % (f(z), f(E)), A.had_shower_profile(arr, E)[0], {"E": E, "z": z})
            # non-default material parameters
            dens, ce, rl = rng.uniform(0.5, 1.0), rng.uniform(0.05, 0.2), rng.uniform(30, 45)
            z = float(rng.choice(zs))
            add("em_shower_profile(params)", "pr (M.aRZAskaryanSignal_em_shower_profile %s %s %s %s %s)" % (f(z), f(E), f(dens), f(ce), f(rl)),
                A.em_shower_profile(np.array([z]), E, dens, ce, rl)[0], {"E": E, "z": z, "params": [dens, ce, rl]})
            il, sf = rng.uniform(90, 130), rng.uniform(0.05, 0.2)
            add("had_shower_profile(params)", "pr (M.aRZAskaryanSignal_had_shower_profile %s %s %s %s %s %s %s)" % (
                f(z), f(E), f(dens), f(ce), f(rl), f(il), f(sf)),
                A.had_shower_profile(np.array([z]), E, dens, ce, rl, il, sf)[0], {"E": E, "z": z, "params": [dens, ce, rl, il, sf]})
    return cases, (expect, meta)


def judge_statics(ctx, res, aux):
    expect, meta = aux
    bad = 0
    for r, e, m in zip(res, expect, meta):
        ctx.case(key=("static", m["fn"], m.get("E"), m.get("t"), m.get("z")), sample={"case": m, "model": r, "impl": e})
        ok = r != "EXC" and close(r[0], e)
        if not ok:
            bad += 1
            if bad <= 4:
                ctx.oblige("corr:static:%s" % m["fn"], False, "generated model %r != implementation %r at %s" % (r, e, json.dumps(m)))
    ctx.oblige("corr:statics(%d cases)" % len(res), bad == 0, "%d disagreements" % bad)
    ctx.extra["corr_static_tolerance"] = "rel 1e-11 (same operation order; libm / pow differences only)"


# ---------------------------------------------------------------------------- correspondence: AVZ spectrum
def corr_avz_spectrum(ctx, mult=1):
    """Per-frequency: the imaginary part of rfft(trace)*dt of the implementation's AVZ output, with the
    pulse placed exactly at the centre (shift 0), against the generated AVZ_tmp."""
    rng = ctx.rng
    cases, expect, meta = [], [], []
    for _ in range(ctx.n(6, 60) * mult):
        c = rand_case(rng, "AVZ")
        N, dt = len(c["times"]), c["dt"]
        c["t0"] = c["times"][0] + (N // 2) * dt
        if near_avz_branch(c):
            continue
        v = impl_values(c)
        trace = np.roll(v, -(N // 2))
        X = np.fft.rfft(trace) * dt
        ks = sorted(set([1, 2, (N - 1) // 2] + [rng.randint(1, (N - 1) // 2) for _ in range(6)]))
        th, tc = abs(c["psi"]), theta_c(c["n"])
        for k in ks:
            fk = k * (1.0 / (N * dt))
            cases.append("pr (M.aVZ_tmp %s %s %s %s %s %s %s %s)" % tuple(rx.ocf(x) for x in (
                c["E"] * c["em"], c["E"] * c["had"], c["em"], c["had"], c["R"], th, tc, fk)))
            expect.append((float(X[k].imag), float(np.abs(X[1:]).max())))
            meta.append({"case": {k_: c[k_] for k_ in ("E", "em", "had", "psi", "R", "n")}, "N": N, "dt": dt, "k": k})
    return cases, (expect, meta)


def judge_avz_spectrum(ctx, res, aux):
    expect, meta = aux
    bad = 0
    for r, (e, scale), m in zip(res, expect, meta):
        ctx.case(key=("avz_spectrum", json.dumps(m, sort_keys=True)), sample={"case": m, "model": r, "impl": e})
        if r == "EXC" or not abs(r[0] - e) <= 1e-9 * scale:
            bad += 1
            if bad <= 4:
                ctx.oblige("corr:avz_spectrum", False, "AVZ_tmp model %r != implementation spectrum %r (scale %r) at %s" % (r, e, scale, json.dumps(m)))
    ctx.oblige("corr:avz_spectrum(%d cases)" % len(res), bad == 0, "%d disagreements" % bad)


# ---------------------------------------------------------------------------- correspondence: .values
def special_cases(rng, thorough):
    out = []
    for model in MODELS:
        c = rand_case(rng, model, Nmax=33 if model == "ARZ" else 64)
        if model == "ARZ":
            c["psi"] = theta_c(c["n"]) + rng.choice([-1, 1]) * 0.03      # keeps n_Q (cost of the list convolution) small
        t, dt = c["times"], c["dt"]
        sp = [dict(c, E=0.0),                                            # zero energy
              dict(c, em=1.0, had=0.0, psi=theta_c(c["n"])),            # em only, on the cone
              dict(c, t0=t[0] - 0.5 * dt),                               # shower just before the window
              dict(c, t0=t[0] + (3 * len(t)) * dt),                      # far outside: zero exit
              dict(c, times=t[:2], t0=t[0]),                             # shortest grid
              dict(c, em=2.0 ** -12, had=2.0 ** -9),                     # tiny shower energies (hadronic below ~3 GeV at E = 1e3)
              dict(c, E=2000.0, em=0.75, had=0.25, psi=-theta_c(c["n"]))]  # hadronic shower below 1 TeV, on the cone, negative angle
        if thorough or model != "ARZ":
            sp += [dict(c, em=0.0, had=0.0),                             # no shower fractions
                   dict(c, em=0.0, had=1.0, psi=-theta_c(c["n"])),       # had only, on the cone, negative angle
                   dict(c, t0=t[0] - (2 * len(t)) * dt),
                   dict(c, times=t[:33], t0=t[0] + 16.25 * dt)]          # odd length
        out += sp
    return out


def corr_values(ctx, mult=1):
    rng = ctx.rng
    cs = list(special_cases(rng, ctx.thorough))
    for model, nq, nt in (("ZHS", 14, 300), ("AVZ", 14, 300), ("ARZ", 4, 80)):
        for i in range(ctx.n(nq, nt) * (mult.get(model, 1) if isinstance(mult, dict) else mult)):
            c = rand_case(rng, model, Nmax=(64 if model == "ARZ" else 128) if not ctx.thorough else (96 if model == "ARZ" else 256),
                          inside=(i % 2 == 0))
            if model == "ARZ" and not ctx.thorough and abs(abs(c["psi"]) - theta_c(c["n"])) > 0.06:
                c["psi"] = math.copysign(theta_c(c["n"]) + rng.choice([-1, 1]) * rng.uniform(0.01, 0.06), c["psi"])
            cs.append(c)
    keep, skipped = [], 0
    for c in cs:
        if (c["model"] == "ARZ" and fragile_arz(c)) or (c["model"] == "AVZ" and near_avz_branch(c)):
            skipped += 1
            continue
        keep.append(c)
    return [model_call(c) for c in keep], (keep, skipped)


def judge_values(ctx, res, aux):
    keep, skipped = aux
    bad = 0
    dist = {m: 0 for m in MODELS}
    for c, r in zip(keep, res):
        dist[c["model"]] += 1
        key = ("values", c["model"], c["E"], c["em"], c["had"], c["psi"], c["R"], c["n"], c["t0"], len(c["times"]), c["times"][0])
        small = {k: c[k] for k in c if k != "times"}
        small.update(N=len(c["times"]), times_0=c["times"][0])
        try:
            iv = impl_values(c)
            impl = [float(x) for x in iv]
        except Exception as e:
            impl = "raises %s" % type(e).__name__
        if r == "EXC":
            ok, what = False, "model raised"
        elif isinstance(impl, str):
            ok, what = False, impl
        else:
            scale, mv = r[0], list(r[1:])
            if len(mv) != len(impl):
                ok, what = False, "length model %d impl %d" % (len(mv), len(impl))
            else:
                d = max([abs(a - b) for a, b in zip(mv, impl)] + [0.0])
                ok = d <= CORR_TOL * scale and all(math.isfinite(x) for x in impl)
                what = "max |model-impl| = %.3g, scale %.3g" % (d, scale)
        ctx.case(key=key, nontrivial=not isinstance(impl, str) and any(x != 0 for x in impl),
                 sample={"case": small, "outcome": what})
        if not ok:
            bad += 1
            if bad <= 4:
                ctx.oblige("corr:values:%s" % c["model"], False, "%s at %s" % (what, json.dumps(small)))
    ctx.oblige("corr:values(%d cases)" % len(keep), bad == 0, "%d disagreements" % bad)
    ctx.extra["corr_values_distribution"] = dict(dist, skipped_fragile=skipped)
    ctx.extra["corr_values_tolerance"] = "|model - impl| <= %g * scale, scale = sum of |terms| printed by the model (see CORR_TOL comment)" % CORR_TOL


# ---------------------------------------------------------------------------- probes on the implementation
# The property as stated, judged on the real classes with oracles that do not use the code's formulas.
# Tolerances (all relative to the peak of the pulse, which the generated cases keep inside the window):
#   PEAK_TOL  1e-9 : two evaluations that are equal over R and differ only by rounding; a sample is a sum of
#                    <= 1e5 terms whose absolute sum is <= 1e3 x the visible peak (measured ratio <= 15 for
#                    in-window pulses), each evaluation within ~50 eps of that sum (FFT, phases up to 2 pi N)
#   ARZ whole-sample shifts additionally allow PEAK_TOL x the peak of the same pulse on a 1024-sample grid (the
#                    FFT-convolution noise is relative to the whole pulse, also when a short window shows only its tail)
#   ARZ_TRUNC 1e-3 : ARZ whole-sample shifts when the RAC window (+-10 ns, selected by the truncated n_shift)
#                    moves by one lattice point between the two calls: |RAC(+-10 ns)| / |RAC(0)| <= 5.6e-5,
#                    one lattice term out of >= 10 per sample enters A; E is a difference of two A's
PEAK_TOL = 1e-9
ARZ_TRUNC = 1e-3


def small(c):
    d = {k: c[k] for k in c if k != "times"}
    d.update(N=len(c["times"]), times_0=c["times"][0])
    return d


def near_critical(c):
    """ARZ shower energies within e^0.2 of the critical energy 0.0786 GeV: max_length -> 0, dt_divider explodes."""
    return c["model"] == "ARZ" and any(0 < e and abs(math.log(e / 7.86e-2)) < 0.2 for e in (c["E"] * c["em"], c["E"] * c["had"]))


def probe_case(rng, model, resolved=False):
    c = rand_case(rng, model, Nmax=128 if model == "ARZ" else 256, wide=True, inside=True)
    while near_critical(c):
        c = rand_case(rng, model, Nmax=128, wide=True, inside=True)
    if resolved:
        dt = 2.0 ** -35 * rng.choice([1, 2, 3])
        N = rng.choice([128, 256, 255])
        i0 = rng.randint(-50, 50)
        c["times"], c["dt"] = [(i0 + i) * dt for i in range(N)], dt
        c["t0"] = c["times"][0] + (N // 4) * dt
    return c


def arz_global_peak(c):
    """Peak of the same ARZ pulse on a long grid (1024 samples from 100 samples before t0): the rounding noise of the
    FFT convolution is relative to the whole pulse, not to the part of it that happens to fall inside a short window."""
    dt = c["dt"]
    k0 = round((c["t0"] - c["times"][0]) / dt) - 100
    ts = [c["times"][0] + (k0 + i) * dt for i in range(1024)]
    try:
        return float(np.abs(impl_values(c, times=ts)).max())
    except Exception:
        return 0.0


def probes(ctx, mult=1, models=MODELS):
    global SWEEP
    rng = ctx.rng
    counts = {}
    MODELS = models          # (shadows the module constant inside this function)

    def count(k):
        counts[k] = counts.get(k, 0) + 1

    def fail(kind, c, what, **extra):
        ctx.fail("%s:%s:%s" % (kind, c["model"], json.dumps(small(c), sort_keys=True)[:300]),
                 "%s %s: %s  [case %s]" % (c["model"], kind, what, json.dumps(small(c))),
                 {"kind": kind, "case": c, **extra})

    def run(c, **over):
        try:
            return impl_values(c, **over)
        except Exception as e:      # an exception is a failure of "fails gracefully"
            fail("exception", dict(c, **over), "raises %s: %s" % (type(e).__name__, str(e)[:200]))
            return None

    nper = ctx.n(10, 120) * mult
    for model in MODELS:
        for it in range(nper):
            c = probe_case(rng, model)
            N, dt = len(c["times"]), c["dt"]
            if model == "ARZ" and any(0 < e and abs(math.log(e / 7.86e-2)) < 0.2 for e in (c["E"] * c["em"], c["E"] * c["had"])):
                continue
            v = run(c)
            if v is None:
                continue
            ctx.case(key=("probe", model, json.dumps(small(c), sort_keys=True)), nontrivial=bool(np.any(v != 0)))
            peak = float(np.abs(v).max())
            # ---- finite, right length
            count("finite")
            if len(v) != N or not np.all(np.isfinite(v)):
                fail("finite", c, "length %d (expected %d), finite=%s" % (len(v), N, bool(np.all(np.isfinite(v)))))
                continue
            # ---- 1/R
            count("inv_distance")
            v1 = run(c, R=1.0)
            if v1 is not None:
                p1 = float(np.abs(v1).max())
                err = float(np.abs(v * c["R"] - v1).max())
                if err > PEAK_TOL * p1:
                    fail("inv_distance", c, "max |value(R)*R - value(1)| = %.3g, peak %.3g" % (err, p1))
                R2 = rand_distance(rng)
                v2 = run(c, R=R2)
                if v2 is not None:
                    err = float(np.abs(v2 * R2 - v1).max())
                    if err > PEAK_TOL * p1:
                        fail("inv_distance", dict(c, R=R2), "max |value(R)*R - value(1)| = %.3g, peak %.3g" % (err, p1))
            # ---- +-psi
            count("even_in_angle")
            vm = run(c, psi=-c["psi"])
            if vm is not None and not np.array_equal(vm, v):
                fail("even_in_angle", c, "pulse for -psi differs from +psi by %.3g (peak %.3g)" % (float(np.abs(vm - v).max()), peak))
            # ---- joint shift (exact: the grid is dyadic, so times+s, t0+s and all differences are exact)
            # common shift of grid and shower time, in general NOT a whole number of samples
            s = rng.choice([1, -1]) * (rng.randint(1, 4000) * rng.choice([1, 2, 8]) + rng.choice([0.0, 0.125, 0.375, 0.5, 0.875])) * dt
            ts = [t + s for t in c["times"]]
            t0s = c["t0"] + s
            exact = all((a - s) == b for a, b in zip(ts, c["times"])) and (t0s - s) == c["t0"] and \
                (t0s - ts[0]) == (c["t0"] - c["times"][0]) and (ts[1] - ts[0]) == dt and (ts[-1] + dt) - t0s == (c["times"][-1] + dt) - c["t0"]
            if exact:
                count("joint_shift")
                vs = run(c, times=ts, t0=t0s)
                if vs is not None and not np.array_equal(vs, v):
                    fail("joint_shift", c, "shifting grid and shower time together by %r changes the values by %.3g (peak %.3g)" % (
                        s, float(np.abs(vs - v).max()), peak), s=s)
            # ---- whole-sample shift of the shower time only
            m = rng.choice([1, -1, 2, -3, 5, rng.randint(-N // 8, N // 8) or 1])
            vw = run(c, t0=c["t0"] + m * dt)
            if vw is not None and peak > 0:
                count("whole_sample_shift")
                a, b = (vw[m:], v[:N - m]) if m > 0 else (vw[:N + m], v[-m:])
                err = float(np.abs(a - b).max()) if len(a) else 0.0
                if model == "AVZ":
                    tol = 0.0
                elif model == "ZHS":
                    tol = PEAK_TOL * peak
                else:
                    same_side = ((c["times"][0] - c["t0"] + 10e-9) > 0) == ((c["times"][0] - c["t0"] - m * dt + 10e-9) > 0)
                    tol = (1e-7 if same_side else ARZ_TRUNC) * peak + PEAK_TOL * arz_global_peak(c)
                if err > tol:
                    fail("whole_sample_shift", c, "moving t0 by %d samples: max |v'[j] - v[j-m]| = %.3g on the overlap (tolerance %.3g, peak %.3g)" % (
                        m, err, tol, peak), m=m)
            # ---- zero energy
            count("zero_energy")
            for over in ({"E": 0.0}, {"em": 0.0, "had": 0.0}):
                vz = run(c, **over)
                if vz is not None and (len(vz) != N or np.any(vz != 0)):
                    fail("zero_energy", dict(c, **over), "not an all-zero field of length %d (len %d, max %r)" % (N, len(vz), float(np.abs(vz).max()) if len(vz) else None))
            # ---- em showers on the cone: proportional to the energy
            tc = theta_c(c["n"])
            k = rng.choice([2.0, 0.5, 3.0, 10.0, 1.0 / 3.0])
            ce = dict(c, em=1.0, had=0.0, psi=tc if model != "ZHS" else c["psi"])
            va, vb = run(ce), run(ce, E=ce["E"] * k)
            if va is not None and vb is not None:
                count("em_linear")
                pa = float(np.abs(va).max())
                err = float(np.abs(vb - k * va).max())
                if err > PEAK_TOL * k * pa:
                    fail("em_linear", ce, "value(%g E) - %g value(E): max %.3g (peak %.3g)" % (k, k, err, pa), factor=k)

    # ---- whole-sample shifts with the shower at the edges of the window (fractional offsets on both sides of times[0])
    for model in MODELS:
        for it in range(ctx.n(4, 40) * mult):
            c = probe_case(rng, model)
            N, dt = len(c["times"]), c["dt"]
            frac = rng.choice([-0.5, -1.25, -0.125, 0.25, 0.75, N - 0.75, N - 1.5])
            m = rng.choice([1, -1, 2, -2])
            c["t0"] = c["times"][0] + frac * dt
            v, vw = run(c), run(c, t0=c["t0"] + m * dt)
            if v is None or vw is None:
                continue
            peak = max(float(np.abs(v).max()), float(np.abs(vw).max()))
            if peak == 0:
                continue
            count("whole_sample_shift_edge")
            a, b = (vw[m:], v[:N - m]) if m > 0 else (vw[:N + m], v[-m:])
            err = float(np.abs(a - b).max())
            if model == "AVZ":
                tol = 0.0
            elif model == "ZHS":
                tol = PEAK_TOL * 1e2 * peak        # only part of the pulse is visible: the visible peak may be 100x below the full one
            else:
                same_side = ((c["times"][0] - c["t0"] + 10e-9) > 0) == ((c["times"][0] - c["t0"] - m * dt + 10e-9) > 0)
                tol = (1e-7 if same_side else ARZ_TRUNC) * peak + PEAK_TOL * arz_global_peak(c)
            if err > tol:
                fail("whole_sample_shift", c, "shower at the window edge (offset %g samples), moving t0 by %d samples: max |v'[j] - v[j-m]| = %.3g on the overlap (tolerance %.3g, peak %.3g)" % (
                    frac, m, err, tol, peak), m=m)

    # ---- ZHS: the exact zero-exit condition and the 2N-periodic continuation (theorems zhs_zeroed_iff, zhs_whole_sample_shift_all)
    if "ZHS" in MODELS:
        for it in range(ctx.n(4, 40) * mult):
            c = probe_case(rng, "ZHS")
            N, dt = len(c["times"]), c["dt"]
            hi, lo = N + N // 2 + 1, N // 2 - N - 1          # zero exit  <=>  x >= hi  or  x <= lo,  x = (t0 - times[0]) / dt
            for x in (hi, hi - 0.25, hi - 1, hi + 0.5, hi + N, lo, lo + 0.25, lo + 1, lo - 0.5, lo - N, rng.uniform(lo - 3, hi + 3)):
                v = run(c, t0=c["times"][0] + x * dt)
                if v is None:
                    continue
                count("zhs_zero_exit")
                expect_zero = (x >= hi) or (x <= lo)
                if bool(np.all(v == 0)) != expect_zero:
                    fail("zero_exit", dict(c, t0=c["times"][0] + x * dt), "shower %g samples after times[0], N=%d: all-zero=%s but the zero exit is %s (taken iff x >= %d or x <= %d)" % (
                        x, N, bool(np.all(v == 0)), "expected" if expect_zero else "not expected", hi, lo))
            # samples entering the window under a whole-sample shift are the 2N-periodic continuation, visible in the call at t0 - N dt
            k = rng.randint(N // 2 + 1, N - 1)
            m = rng.choice([1, 2, -1, -3, N // 4 + 1, -(N // 4) - 1])
            t0 = c["times"][0] + (k + rng.choice([0.0, 0.5, 0.125])) * dt
            v, vw, vf = run(c, t0=t0), run(c, t0=t0 + m * dt), run(c, t0=t0 - N * dt)
            if v is None or vw is None or vf is None or not np.any(vf != 0) or not np.any(vw != 0):
                continue
            count("zhs_wraparound")
            ref = np.array([v[j - m] if 0 <= j - m < N else vf[(j - m) % (2 * N) - N] for j in range(N)])
            peak = float(np.abs(v).max())
            err = float(np.abs(vw - ref).max())
            if err > 1e2 * PEAK_TOL * peak:
                fail("whole_sample_shift", dict(c, t0=t0), "moving t0 by %d samples: samples entering the window are not the 2N-periodic continuation: max error %.3g (peak %.3g)" % (m, err, peak), m=m)

    # ---- shower times from times[0] - 2N dt to times[-1] + 2N dt, both parities of N, against an explicit placement oracle:
    #      AVZ  one period (N samples) of the centred trace, centred on t0, zero outside            (bitwise)
    #      ZHS  the 2N-periodic sample function (read from two reference calls), zeros in the zero exit
    #      ARZ  the slice of the same pulse computed on one long grid (field at a physical time does not depend on the window)
    for model in MODELS:
        for it in range(ctx.n(5, 40) * mult):
            c = probe_case(rng, model)
            dt = c["dt"]
            N = rng.choice([rng.randint(8, 48) * 2, rng.randint(8, 48) * 2 + 1, 33, 64])
            if model == "ARZ":
                N = min(N, 64)
            t00 = c["times"][0]
            c["times"] = [t00 + i * dt for i in range(N)]
            frac = rng.choice([0.0, 0.0, 0.5, 0.25, 0.875])
            offs = sorted(set([-2 * N, -N - 1, -N, -N + 1, -N // 2 - 1, -N // 2, -N // 2 + 1, -1, 0, N // 2, N - 1, N, N + 1, N + N // 2 - 1, N + N // 2,
                               N + N // 2 + 1, 2 * N, 3 * N - 1] + [rng.randint(-2 * N, 3 * N - 1) for _ in range(6)]))
            if model == "AVZ":
                ref = run(c, t0=t00 + (N // 2 + frac) * dt)           # shift 0: the centred trace itself
                if ref is None or not np.any(ref != 0):
                    continue
                for n0 in offs:
                    t0 = t00 + (n0 + frac) * dt
                    v = run(c, t0=t0)
                    if v is None:
                        continue
                    count("far_t0")
                    sh = n0 - N // 2
                    exp = np.array([ref[j - sh] if 0 <= j - sh < N else 0.0 for j in range(N)])
                    if not np.array_equal(v, exp):
                        fail("placement", dict(c, t0=t0), "shower %g samples after times[0] (N=%d): the field is not one period of the centred pulse centred on t0 and zero outside: max error %.3g (peak %.3g)" % (
                            n0 + frac, N, float(np.abs(v - exp).max()), float(np.abs(ref).max())))
                        break
            elif model == "ZHS":
                ra, rb = run(c, t0=t00 + (N // 2 + frac) * dt), run(c, t0=t00 + (N // 2 - N + frac) * dt)
                if ra is None or rb is None or not np.any(ra != 0):
                    continue
                S = np.concatenate((ra, rb))                            # S[i] = sample function at q = i - N//2, one full period 2N
                peak = float(np.abs(S).max())
                hi, lo = N + N // 2 + 1, N // 2 - N - 1
                for n0 in offs:
                    x = n0 + frac
                    v = run(c, t0=t00 + x * dt)
                    if v is None:
                        continue
                    count("far_t0")
                    if x >= hi or x <= lo:
                        exp = np.zeros(N)
                    else:
                        exp = np.array([S[(j - n0 + N // 2) % (2 * N)] for j in range(N)])
                    if float(np.abs(v - exp).max()) > 1e2 * PEAK_TOL * peak:
                        fail("placement", dict(c, t0=t00 + x * dt), "shower %g samples after times[0] (N=%d): the field is not the 2N-periodic pulse placed at t0 (zero exit %s): max error %.3g (peak %.3g)" % (
                            x, N, "expected" if (x >= hi or x <= lo) else "not expected", float(np.abs(v - exp).max()), peak))
                        break
            else:
                if near_critical(c):
                    continue
                G = [t00 + (i - 3 * N) * dt for i in range(7 * N)]
                t0 = t00 + frac * dt
                long = run(c, times=G, t0=t0)
                if long is None or not np.any(long != 0):
                    continue
                peak = float(np.abs(long).max())
                for n0 in offs:                                          # window starting n0 samples BEFORE the shower <=> shower n0 samples after its start
                    s0 = 3 * N - n0
                    if not 0 <= s0 <= 6 * N:
                        continue
                    w = G[s0:s0 + N]
                    v = run(c, times=w, t0=t0)
                    if v is None:
                        continue
                    count("far_t0")
                    same_side = ((G[0] - t0 + 10e-9) > 0) == ((w[0] - t0 + 10e-9) > 0)
                    tol = ((1e-7 if same_side else ARZ_TRUNC) + PEAK_TOL) * peak
                    if float(np.abs(v - long[s0:s0 + N]).max()) > tol:
                        fail("placement", dict(c, times=w, t0=t0), "shower %g samples after times[0] (N=%d): the field differs from the same pulse computed on a long grid: max error %.3g (tolerance %.3g, peak %.3g)" % (
                            n0 + frac, N, float(np.abs(v - long[s0:s0 + N]).max()), tol, peak))
                        break
            # joint shift with the shower far outside the window (bitwise)
            n0 = rng.choice([-2 * N, -N, -N // 2 - 1, N + N // 2, 2 * N, rng.randint(-2 * N, 3 * N - 1)])
            t0 = t00 + (n0 + frac) * dt
            sft = rng.choice([1, -1]) * (rng.randint(1, 4000) + rng.choice([0.0, 0.125, 0.375, 0.5, 0.875])) * dt
            ts = [t + sft for t in c["times"]]
            if all((a - sft) == b for a, b in zip(ts, c["times"])) and (t0 + sft - sft) == t0 and (t0 + sft - ts[0]) == (t0 - t00) \
                    and (ts[1] - ts[0]) == dt and (ts[-1] + dt) - (t0 + sft) == (c["times"][-1] + dt) - t0:
                v, vs = run(c, t0=t0), run(c, times=ts, t0=t0 + sft)
                if v is not None and vs is not None:
                    count("far_joint_shift")
                    if not np.array_equal(v, vs):
                        fail("joint_shift", dict(c, t0=t0), "shower %g samples after times[0]: shifting grid and shower time together by %r changes the values by %.3g" % (
                            n0 + frac, sft, float(np.abs(v - vs).max())), s=sft)

    # ---- second step after construction: with_times (longer / finer / coarser / disjoint / contained grids), set_buffers, addition,
    #      for every constructor branch (zero energy, no fractions, exactly on the cone with either sign, angle 0 / pi, em / had only,
    #      ordinary).  Oracle: a FRESH object built directly on the requested grid (contained grids and buffers: on the grid extended
    #      by ceil(buffer/dt) samples, sliced) -- the result must be that pulse, len(values) == len(times), identically zero for no shower.
    for model in MODELS:
        for it in range(ctx.n(6, 50) * mult):
            c = probe_case(rng, model)
            dt = c["dt"]
            N = rng.choice([rng.randint(6, 40), 33, 16])
            t00 = c["times"][0]
            c["times"] = [t00 + i * dt for i in range(N)]
            c["t0"] = t00 + (rng.randint(0, N - 1) + rng.choice([0.0, 0.5, 0.25])) * dt
            tc = theta_c(c["n"])
            variant = rng.choice(["ordinary", "E0", "frac0", "oncone+", "oncone-", "psi0", "psipi", "em", "had", "E0", "frac0"])
            c.update({"ordinary": {}, "E0": {"E": 0.0}, "frac0": {"em": 0.0, "had": 0.0}, "oncone+": {"psi": tc}, "oncone-": {"psi": -tc},
                      "psi0": {"psi": 0.0}, "psipi": {"psi": math.pi}, "em": {"em": 1.0, "had": 0.0}, "had": {"em": 0.0, "had": 1.0}}[variant])
            if near_critical(c):
                continue
            no_shower = variant in ("E0", "frac0")
            a, b = rng.randint(1, N // 2 - 1), rng.randint(1, N // 2 - 1)
            K = rng.randint(N + 1, 3 * N)
            grids = {"longer": [t00 + (i - a) * dt for i in range(N + a + b)],
                     "finer": [t00 + i * (dt / 2) for i in range(2 * N + 3)],
                     "coarser": [t00 - dt + i * (2 * dt) for i in range(N)],
                     "disjoint": [t00 + (K + i) * dt for i in range(N + 1)],
                     "shorter-overlapping": [t00 + (N - a + i) * dt for i in range(a + 2)]}

            def judge(what, sig, grid, expect, exact, zero=None):
                try:
                    v = np.array(sig.values, dtype=float)
                except Exception as e:
                    fail("second_step", c, "%s [%s branch]: evaluating .values raises %s: %s" % (what, variant, type(e).__name__, str(e)[:150]), op=what, variant=variant)
                    return
                count("second_step")
                ok = len(v) == len(grid) == len(sig.times) and np.all(np.isfinite(v))
                if ok and (no_shower if zero is None else zero):
                    ok = not np.any(v != 0)
                if ok and expect is not None:
                    pk = float(np.abs(expect).max())
                    ok = np.array_equal(v, expect) if exact else float(np.abs(v - expect).max()) <= PEAK_TOL * pk
                if not ok:
                    fail("second_step", c, "%s [%s branch]: len(values)=%d for len(times)=%d; %s" % (
                        what, variant, len(v), len(grid),
                        "not the pulse a fresh object gives on that grid (max difference %.3g)" % float(np.abs(v - expect).max())
                        if expect is not None and len(v) == len(expect) else ("non-zero / non-finite values" if len(v) == len(grid) else "wrong length")),
                        op=what, variant=variant)

            def fresh(grid, **over):
                try:
                    return impl_values(c, times=grid, **over)
                except Exception:
                    return None
            try:
                sig = impl_signal(c)
                for name, g in grids.items():                       # not contained: no buffers, the closure is re-evaluated on g
                    judge("with_times(%s grid)" % name, sig.with_times(np.array(g)), g, fresh(g), True)
                inner = c["times"][a:N - b]                         # contained: buffers a*dt / b*dt, evaluated on the old grid and windowed
                full = fresh(c["times"])
                judge("with_times(contained grid)", sig.with_times(np.array(inner)), inner, None if full is None else full[a:N - b], False)
                lead, trail = rng.choice([a * dt, (a - 0.5) * dt]), rng.choice([b * dt, 0.0, (b - 0.25) * dt])
                nb, na = math.ceil(lead / dt), math.ceil(trail / dt)
                ext = [t00 + (i - nb) * dt for i in range(N + nb + na)]
                fe = fresh(ext)
                sb = impl_signal(c)
                sb.set_buffers(leading=lead, trailing=trail)
                judge("set_buffers(%g dt, %g dt)" % (lead / dt, trail / dt), sb, c["times"], None if fe is None else fe[nb:nb + N], False)
                # addition, then a second step on the sum
                c2 = dict(c, E=float(10 ** rng.uniform(3, 11)), em=0.5, had=0.5, psi=tc + 0.05)
                if not near_critical(c2):
                    f1, f2 = fresh(c["times"]), impl_values(c2)
                    judge("signal + other Askaryan signal", impl_signal(c) + impl_signal(c2), c["times"], None if f1 is None else f1 + f2, True, zero=False)
                    g = grids["longer"]
                    f1g, f2g = fresh(g), impl_values(c2, times=g)
                    judge("(signal + other).with_times(longer grid)", (impl_signal(c) + impl_signal(c2)).with_times(np.array(g)), g,
                          None if f1g is None else f1g + f2g, True, zero=False)
                    import pyrex.signals as sigs
                    plain = sigs.Signal(np.array(c["times"]), np.arange(N) * 1e-3, value_type=sigs.Signal.Type.field)
                    judge("signal + plain Signal", impl_signal(c) + plain, c["times"], None if f1 is None else f1 + np.arange(N) * 1e-3, True, zero=False)
                back = sig.with_times(np.array(grids["disjoint"])).with_times(np.array(c["times"]))
                judge("with_times(disjoint).with_times(original grid)", back, c["times"], full, True)
            except Exception as e:
                fail("second_step", c, "[%s branch] second-step operation raises %s: %s" % (variant, type(e).__name__, str(e)[:200]), variant=variant)

    # ---- every PUBLIC signal class / alias of the module (enumerated from the source), every calling convention
    if set(MODELS) == {"ZHS", "AVZ", "ARZ"} or SWEEP:
        pub = public_signal_classes()
        ctx.extra["public_signal_classes"] = pub
        prim_name = {"ZHS": "ZHSAskaryanSignal", "AVZ": "AVZAskaryanSignal", "ARZ": "ARZAskaryanSignal"}
        for name, kind in pub.items():
            if kind is None:
                fail("public_class", {"model": name, "times": [0.0, 1.0], "dt": 1.0, "E": 0, "em": 0, "had": 0, "psi": 0, "R": 1, "n": 1.5, "t0": 0},
                     "public class %s of pyrex/askaryan.py derives from none of the modelled signal classes" % name)
                continue
            for it in range(ctx.n(3, 20) * mult):
                c = probe_case(rng, kind)
                c["times"] = c["times"][:64]
                N = len(c["times"])
                c["t0"] = c["times"][0] + (rng.randint(2, N - 3) + rng.choice([0.0, 0.5])) * c["dt"]
                if rng.random() < 0.4:
                    c["psi"] = rng.choice([-1, 1]) * theta_c(c["n"])
                c["model"] = name
                try:
                    vs = {k: np.array(o.values, dtype=float) for k, o in build_styles(c).items()}
                except Exception as e:
                    fail("public_class", c, "constructing %s raises %s: %s" % (name, type(e).__name__, str(e)[:150]))
                    continue
                count("public_class")
                v = vs["positional"]
                peak = float(np.abs(v).max())
                for k, w in vs.items():
                    if not np.array_equal(w, v):
                        fail("public_class", c, "%s called with %s differs from the positional call by %.3g (peak %.3g)" % (name, k, float(np.abs(w - v).max()), peak), style=k)
                if name != prim_name[kind]:                      # an alias / renamed subclass is the same signal
                    ref = run(dict(c, model=kind))
                    if ref is not None and not np.array_equal(ref, v):
                        fail("public_class", c, "%s differs from %s for the same arguments by %.3g (peak %.3g)" % (name, prim_name[kind], float(np.abs(ref - v).max()), peak))
                # the clauses of the property through this public name
                v1 = run(c, R=1.0)
                R2 = rand_distance(rng)
                v2 = run(c, R=R2)
                if v1 is not None and v2 is not None:
                    p1 = float(np.abs(v1).max())
                    for RR, vv in ((c["R"], v), (R2, v2)):
                        if float(np.abs(vv * RR - v1).max()) > PEAK_TOL * p1:
                            fail("inv_distance", dict(c, R=RR), "max |value(R)*R - value(1)| = %.3g, peak %.3g" % (float(np.abs(vv * RR - v1).max()), p1))
                vm = run(c, psi=-c["psi"])
                if vm is not None and not np.array_equal(vm, v):
                    fail("even_in_angle", c, "pulse for -psi differs from +psi by %.3g (peak %.3g)" % (float(np.abs(vm - v).max()), peak))
                for over in ({"E": 0.0}, {"em": 0.0, "had": 0.0}):
                    vz = run(c, **over)
                    if vz is not None and (len(vz) != N or np.any(vz != 0)):
                        fail("zero_energy", dict(c, **over), "not an all-zero field of length %d" % N)
                kf = rng.choice([2.0, 0.5, 3.0])
                ce = dict(c, em=1.0, had=0.0, psi=theta_c(c["n"]) if kind != "ZHS" else c["psi"])
                if not near_critical(dict(ce, model=kind)) and not near_critical(dict(ce, model=kind, E=ce["E"] * kf)):
                    va, vb = run(ce), run(ce, E=ce["E"] * kf)
                    if va is not None and vb is not None and float(np.abs(vb - kf * va).max()) > PEAK_TOL * kf * float(np.abs(va).max()):
                        fail("em_linear", ce, "value(%g E) - %g value(E): max %.3g (peak %.3g)" % (kf, kf, float(np.abs(vb - kf * va).max()), float(np.abs(va).max())), factor=kf)

    # ---- ARZ just off the cone on BOTH sides (theta_c +- 3e-5 .. 1e-3 rad; dt_divider 1e3..3e4): finite, no exception, and the
    #      sampled field can never exceed what ANY convex combination of shifted on-cone potentials allows:
    #      A(t) = sum_i w_i RAC(t - z_i z_to_t) sin(theta)/sin(theta_c), w_i >= 0, sum w_i = 1 (+ the trapezoid end-point term, < 1e-3)
    #      =>  |E_j| = |A(t_j+dt) - A(t_j)| / (dt R)  <=  sin(theta)/sin(theta_c) * sup_tau |RAC(tau+dt) - RAC(tau)| / (dt R)
    if "ARZ" in MODELS:
        import pyrex.askaryan as ask
        AR = ask.ARZAskaryanSignal

        def dsup(rac, E, dt):
            if E == 0:
                return 0.0
            taus = np.concatenate((np.linspace(-2e-9, 2e-9, 200001), np.linspace(-3 * dt, 3 * dt, 200001), [0.0, -dt, -dt / 2]))
            return float(np.abs(rac(taus + dt, E) - rac(taus, E)).max())
        for it in range(ctx.n(2, 12) * mult):
            c = probe_case(rng, "ARZ")
            dt = rng.choice([2.0 ** -33, 2.0 ** -32, 2.0 ** -31])       # 0.12, 0.23, 0.47 ns
            N = rng.choice([32, 48, 33])
            c["times"], c["dt"] = [(i - 8) * dt for i in range(N)], dt
            c["t0"] = rng.choice([0.0, 0.5, 0.25]) * dt
            c["n"] = rng.choice([1.78, 1.5, 1.35, c["n"]])
            if near_critical(c):
                continue
            tc = theta_c(c["n"])
            Eem, Ehad = c["E"] * c["em"], c["E"] * c["had"]
            D = dsup(AR.em_shower_RAC, Eem, dt) + dsup(AR.had_shower_RAC, Ehad, dt)
            for side in (-1, 1):
                for d in (3e-5, 1e-4, 3e-4, 1e-3):
                    th = tc + side * d
                    v = run(c, psi=th)
                    if v is None:
                        continue
                    count("near_cone")
                    B = math.sin(th) / math.sqrt(1 - 1 / c["n"] ** 2) * D / dt / c["R"]
                    pk = float(np.abs(v).max())
                    if len(v) != N or not np.all(np.isfinite(v)) or pk > 1.01 * B:
                        fail("near_cone", dict(c, psi=th), "theta = theta_c %+g rad: peak %.6g exceeds the bound %.6g that holds for every weighted average of shifted on-cone pulses (or non-finite / wrong length %d)" % (
                            side * d, pk, B, len(v)), side=side, delta=d)
                    elif SWEEP and counts.get("near_cone_quadrature", 0) < ctx.n(6, 60):   # search mode: also the independent quadrature of the ARZ integral
                        count("near_cone_quadrature")
                        try:
                            o = arz_quadrature(dict(c, psi=th))
                        except Exception:
                            continue
                        po = float(np.abs(o).max())
                        if po > 0 and float(np.abs(v - o).max()) > ORACLE_TOL * po:
                            fail("near_cone", dict(c, psi=th), "theta = theta_c %+g rad: max |implementation - quadrature of the ARZ integral| = %.3g, peak %.3g" % (
                                side * d, float(np.abs(v - o).max()), po), side=side, delta=d)

    # ---- finiteness / graceful failure over the whole declared input space (cheap models everywhere, ARZ away from the
    #      unaffordable band 1e-6 < |theta - theta_c| < 5e-3 where dt_divider reaches 1e4..1e6)
    for model in MODELS:
        for it in range(ctx.n(25, 400) * mult):
            c = rand_case(rng, model, Nmax=64 if model == "ARZ" else 256, wide=True, inside=(it % 2 == 0))
            c["E"] = float(10 ** rng.uniform(3, 12))
            c["R"] = float(10 ** rng.uniform(-3, 5))
            if rng.random() < 0.3:
                c["em"], c["had"] = rng.choice([(1.0, 2.0 ** -rng.randint(8, 30)), (2.0 ** -rng.randint(8, 30), 1.0 - 2.0 ** -8), (0.0, 2.0 ** -rng.randint(8, 12))])
            if rng.random() < 0.5:
                psi = rng.uniform(-math.pi, math.pi)
                if not (model == "ARZ" and 1e-7 < abs(abs(psi) - theta_c(c["n"])) < 5e-3):
                    c["psi"] = float(psi)
            if rng.random() < 0.1:
                c["psi"] = float(rng.choice([0.0, math.pi, -math.pi, math.pi / 2]))
            if it % 6 == 5:
                # hadronic showers below 1 TeV (AVZ: no hadronic cone width) and sub-GeV showers, exactly on the cone
                c["E"] = float(10 ** rng.uniform(3, 4.5))
                c["em"], c["had"] = rng.choice([(1.0 - 2.0 ** -6, 2.0 ** -6), (0.0, rng.uniform(0.001, 0.3)), (0.5, 2.0 ** -12)])
                c["psi"] = rng.choice([-1, 1]) * theta_c(c["n"])
            Eem, Ehad = c["E"] * c["em"], c["E"] * c["had"]
            if model == "ARZ" and any(0 < e and abs(math.log(e / 7.86e-2)) < 0.2 for e in (Eem, Ehad)):
                continue        # max_length -> 0 at the critical energy: array sizes explode (documented limitation)
            v = run(c)
            count("finite_wide")
            if v is None:
                continue
            ctx.case(key=("finite", model, json.dumps(small(c), sort_keys=True)), nontrivial=bool(np.any(v != 0)))
            if len(v) != len(c["times"]) or not np.all(np.isfinite(v)):
                fail("finite", c, "length %d (expected %d), finite=%s" % (len(v), len(c["times"]), bool(np.all(np.isfinite(v)))))

    # ---- amplitude largest on the cone, falling with angular distance
    deltas_std = [0.0, 0.005, 0.01, 0.02, 0.04, 0.08, 0.16]
    for model in MODELS:
        deltas = [0.0, 3e-5, 1e-4, 3e-4, 1e-3] + deltas_std[1:] if model == "ZHS" else deltas_std
        for it in range(ctx.n(6, 60) * mult):
            sweep_saved = SWEEP
            if model == "ARZ":
                SWEEP = False     # the sampled ARZ peak probe is only claimed in the nominal regime it was validated in (ice, E >= 1e3 GeV)
            try:
                c = probe_case(rng, model, resolved=(model == "ARZ"))
            finally:
                SWEEP = sweep_saved
            N, dt = len(c["times"]), c["dt"]
            tc = theta_c(c["n"])
            if model == "ZHS":
                c["t0"] = c["times"][0] + (N // 2) * dt      # on a sample: the peak is sum_k e_k / (2 N dt), attained there
            for side in (-1, 1):
                if model == "AVZ":
                    cone_avz(ctx, c, side, fail, count)
                    continue
                peaks = []
                for d in deltas:
                    v = run(c, psi=tc + side * d)
                    if v is None:
                        break
                    peaks.append(float(np.abs(v).max()))
                if len(peaks) < len(deltas) or peaks[0] == 0:
                    continue
                count("cone_peak")
                for i in range(len(peaks) - 1):
                    if not peaks[i + 1] < peaks[i]:
                        fail("cone_peak", c, "peak amplitude does not fall with angular distance from the cone on side %+d: angles theta_c%+g, theta_c%+g give peaks %.6g, %.6g" % (
                            side, side * deltas[i], side * deltas[i + 1], peaks[i], peaks[i + 1]), side=side, deltas=deltas, peaks=peaks)
                        break
    ctx.extra["probe_counts"] = counts
    ctx.extra["probe_tolerances"] = {"PEAK_TOL": PEAK_TOL, "ARZ_TRUNC": ARZ_TRUNC, "even_in_angle / joint_shift / AVZ whole-sample shift": "bitwise equality (dyadic grids)"}


def cone_avz(ctx, c, side, fail, count):
    """AVZ: per spectral component (imaginary part of rfft of the centred output) the amplitude grows towards the
    cone on the inner side and falls on the outer side beyond theta_c + sigma_k^2 cot(theta_c) / (2 ln 2), the proved
    bound on the displacement of the maximum by the sin(theta) factor; sigma_k is the larger of the two cone widths."""
    N, dt = len(c["times"]), c["dt"]
    tc = theta_c(c["n"])
    if tc > math.pi / 2:
        return
    c = dict(c, t0=c["times"][0] + (N // 2) * dt)
    f = np.fft.rfftfreq(N, dt)[1:(N - 1) // 2 + 1]
    Eem, Ehad = c["E"] * c["em"], c["E"] * c["had"]
    # widths as DEFINED by the parameterisation (needed to state the bound; validated against the code by the correspondence)
    sig = 2.0 * np.radians(2.7) * 500e6 / f * (2e15 / (0.14 * Eem * 1e9 + 2e15)) ** 0.3     # factor 2: margin, the bound only grows
    if Ehad > 0:
        sig = np.maximum(sig, np.radians(500e6 / f * 4.23 * 2.0))       # generous upper bound of dThetaHad over all energies <= 1e13
    bound = sig ** 2 / math.tan(tc) / (2 * math.log(2))
    angles = [tc + side * d for d in (0.0, 0.01, 0.03, 0.08, 0.2, 0.4) if 0.02 < tc + side * d < math.pi - 0.02]
    specs = []
    for th in angles:
        try:
            v = impl_values(c, psi=th)
        except Exception as e:
            fail("exception", dict(c, psi=th), "raises %s" % type(e).__name__)
            return
        X = np.fft.rfft(np.roll(v, -(N // 2)))[1:(N - 1) // 2 + 1]
        specs.append(np.abs(X))
    if not specs or specs[0].max() == 0:
        return
    count("cone_spectrum")
    floor = 1e-9 * specs[0].max()
    for i in range(len(angles) - 1):
        a, b = specs[i], specs[i + 1]                      # b is further from the cone
        if side < 0:
            ok = (b <= a + floor)
        else:
            applicable = (angles[i] - tc) > bound
            ok = (b <= a + floor) | ~applicable
        if not np.all(ok):
            k = int(np.argmin(ok))
            fail("cone_spectrum", c, "spectral amplitude at %.4g Hz does not fall with angular distance on side %+d: theta=%.4f -> %.6g, theta=%.4f -> %.6g" % (
                f[k], side, angles[i], a[k], angles[i + 1], b[k]), side=side)
            return


# ---------------------------------------------------------------------------- entry points
def run(ctx):
    ctx.rule = ("cases = (model, time grid [dyadic step, length 2..256 even/odd, offset], energy 1e3..1e12 GeV, em/had fractions incl. 0 and 2^-k, "
                "signed viewing angle, distance, index of refraction, shower time inside / at the edges / far outside the window); "
                "non-trivial = a pulse that is not identically zero; statics: (function, energy, time or depth) points incl. 0, -0.0, the critical energies")
    ctx.trusted += ["Coq 8.16.1 kernel; Coquelicot (is_derive, MVT); Interval (one numeric bound)",
                    "tools/py2coq.py + tools/gen_askaryan.py (translator: scalar reading of the masked-array / x[1:] idioms, -inf flag, defaults)",
                    "harness/realextract.py extraction directives (R -> OCaml float), used for the correspondence only",
                    "Model/AskaryanModel.v + Model/AskaryanIndex.v are hand-written (inverse transforms as trigonometric sums, roll, convolution, "
                    "the four slicing cases, decimation, diff): pinned by AST hash, validated against the real classes by correspondence"]
    ctx.assumptions += ["theorems are over the real numbers; binary64 rounding is covered by the numeric correspondence and probes only",
                        "scipy.fft.ifft / np.fft.irfft / scipy.signal.convolve are modelled by their defining sums (validated by correspondence, not proved about the libraries)",
                        "ZHS whole-sample shift: holds for every sample (incl. those entering / leaving the window: 2N-periodic continuation) whenever the shifted call does not take the zero exit; the zero exit is proved to be taken exactly when (t0-times[0])/dt >= L + L/2 + 1 or <= L/2 - L - 1 (by design the code returns zeros there; probed on the implementation at the exact boundaries)",
                        "ARZ whole-sample shift: proved when t0 and t0 + m dt lie on the same side of times[0] + 10 ns (then int() truncates n_shift consistently -- an iff is proved for the truncation); when they straddle it the +-10 ns RAC window moves by one lattice point (probe tolerance 1e-3 of the peak)",
                        "peak claim: ZHS proved in the time domain (the sample at the shower time is the sum of the spectral amplitudes, bounds every sample, and falls with the angular distance from the cone); AVZ proved per spectral component with the stated displacement bound; ARZ time-domain peak only probed, on grids that resolve the pulse (dt <= 90 ps) and n in [1.3, 1.8]",
                        "ARZ shower energies within a factor e^0.2 of the critical energy 0.0786 GeV are excluded from the probes (max_length -> 0 makes dt_divider explode; exactly at it int(inf) raises OverflowError)"]
    ctx.partial += ["arz_whole_sample_shift_partial (t0 and t0 + m dt on the same side of times[0] + 10 ns)", "ARZ / AVZ time-domain peak monotonicity (probed / per spectral component, not proved in the time domain)"]
    try:
        files, side = gen_files(ctx.scratch)
        for k, v in files.items():
            ctx.write_gen(k, v)
        ctx.oblige("gen:Gen_askaryan", True)
        ctx.extra["translated_definitions"] = side["definitions"]
    except Exception as e:
        ctx.oblige("gen:Gen_askaryan", False, "translation failed (fail-closed): %s" % e)
        probes(ctx, mult=2)
        return
    recorded = json.load(open(PIN_FILE)) if os.path.exists(PIN_FILE) else {}
    changed = sorted(k for k in side["pins"] if recorded.get(k) != side["pins"][k])
    ctx.extra["pins"] = {"current": side["pins"], "changed_since_validation": changed}
    # which class's translated source differs from the one the proofs were last validated against (directs the search only)
    src_now = {"ZHS": side["definitions"].get("ZHS_e_omega"), "AVZ": side["definitions"].get("AVZ_tmp"),
               "ARZ": "|".join(str(side["definitions"].get(k)) for k in sorted(side["definitions"]) if k.startswith("ARZ"))}
    src_rec = recorded.get("translated_source", {})
    src_changed = [m for m in MODELS if src_rec.get(m) != hashlib.sha256(str(src_now[m]).encode()).hexdigest()[:16]]
    ctx.extra["translated_source_changed_since_validation"] = src_changed
    mult = {m: (2 if any(k.startswith(m) for k in changed) else 1) for m in MODELS}      # a changed pin escalates that class only
    ok = ctx.coq_build("C07")
    try:
        parts = [(corr_statics(ctx, mult["ARZ"]), judge_statics), (corr_avz_spectrum(ctx, mult["AVZ"]), judge_avz_spectrum),
                 (corr_values(ctx, mult), judge_values)]
        res = run_model(ctx, [c for (cases, _), _ in parts for c in cases], "corr")     # one extraction, one compile
        i = 0
        for (cases, aux), judge in parts:
            judge(ctx, res[i:i + len(cases)], aux)
            i += len(cases)
    except Exception as e:
        ctx.oblige("corr:run", False, repr(e)[-1500:])
        ok = False
    global SWEEP
    if not ok or ctx.broken:
        # search mode: every scalar parameter over its full quantifier range, effort concentrated on the classes whose
        # source or correspondence changed (all three when that cannot be told)
        SWEEP = True
        suspects = [m for m in MODELS if m in src_changed or any(k.startswith(m) for k in changed)
                    or any(("corr:values:" + m) in b or ("corr:" in b and m.lower() in b.lower()) for b in ctx.broken)]
        suspects = suspects or list(MODELS)
        ctx.extra["search"] = {"sweep_full_ranges": True, "models": suspects}
        try:
            probes(ctx, mult=(3 if len(suspects) == 1 else 2), models=tuple(suspects))
            rest = tuple(m for m in MODELS if m not in suspects)
            if rest:
                probes(ctx, mult=1, models=rest)
        finally:
            SWEEP = False
    else:
        esc = tuple(m for m in MODELS if mult[m] > 1)
        if esc:
            probes(ctx, mult=2, models=esc)
        if len(esc) < len(MODELS):
            probes(ctx, mult=1, models=tuple(m for m in MODELS if m not in esc))
    if (not ok or ctx.broken) and "ARZ" in ctx.extra["search"]["models"]:
        # search for a concrete mis-placed pulse (absolute timing is invisible to the relational probes above)
        try:
            probe_arz_oracle(ctx, ctx.n(5, 30))
        except Exception as e:
            ctx.extra["oracle_error"] = repr(e)[-300:]


def replay(ctx, obj):
    print(json.dumps({k: v for k, v in obj.items() if k != "case"}, indent=1, default=str)[:3000])
    c = obj.get("case")
    if not c:
        return 1
    print("case:", json.dumps(small(c)))
    try:
        v = impl_values(c)
        print("implementation: len=%d finite=%s peak=%r argmax=%d" % (len(v), bool(np.all(np.isfinite(v))), float(np.abs(v).max()), int(np.argmax(np.abs(v)))))
    except Exception as e:
        print("implementation raises", repr(e))
        v = None
    kind = obj.get("kind")
    try:
        if kind == "even_in_angle":
            w = impl_values(c, psi=-c["psi"])
            print("implementation for -psi: peak=%r, max |difference| = %r" % (float(np.abs(w).max()), float(np.abs(w - v).max())))
        if kind == "inv_distance":
            w = impl_values(c, R=1.0)
            print("max |value(R)*R - value(1)| =", float(np.abs(v * c["R"] - w).max()))
        if kind == "whole_sample_shift":
            m = obj["m"]
            w = impl_values(c, t0=c["t0"] + m * c["dt"])
            print("argmax after moving t0 by %d samples: %d" % (m, int(np.argmax(np.abs(w)))))
        if kind == "joint_shift":
            s = obj["s"]
            w = impl_values(c, times=[t + s for t in c["times"]], t0=c["t0"] + s)
            print("max |shifted - original| =", float(np.abs(w - v).max()))
    except Exception as e:
        print("implementation raises", repr(e))
    try:
        r = run_model(ctx, [model_call(c)], "replay")[0]
        if r == "EXC":
            print("model: exception")
        else:
            mv = np.array(r[1:])
            print("model: len=%d peak=%r scale=%r" % (len(mv), float(np.abs(mv).max()) if len(mv) else None, r[0]))
            if v is not None and len(mv) == len(v):
                print("max |model - implementation| =", float(np.abs(mv - v).max()))
    except Exception as e:
        print("model could not be run:", str(e)[-300:])
    return 1


# ---------------------------------------------------------------------------- absolute placement oracle (search only)
def arz_quadrature(c):
    """Independent evaluation of the ARZ field at the physical sample times: A(t) = <RAC(t - z z_to_t)>_Q by fine
    trapezoidal quadrature over the shower depth (4e5 points), E_j = -(A(t_{j+1}) - A(t_j)) / dt.  Uses the static
    profile / RAC functions (validated separately) but none of the index bookkeeping of shower_signal."""
    import pyrex.askaryan as ask
    A = ask.ARZAskaryanSignal
    n, th, dt = c["n"], abs(c["psi"]), c["dt"]
    tt = np.array(list(c["times"]) + [c["times"][-1] + dt]) - c["t0"]
    z2t = (1 - n * np.cos(th)) / 299792458.0
    total = np.zeros(len(tt))
    for E, prof, rac in ((c["E"] * c["em"], A.em_shower_profile, A.em_shower_RAC), (c["E"] * c["had"], A.had_shower_profile, A.had_shower_RAC)):
        if E == 0:
            continue
        L = A.max_length(E)
        zs = np.linspace(0, 8 * L, 400001)
        Q = prof(zs, E)
        LQ = np.trapezoid(Q, dx=zs[1] - zs[0])
        if LQ == 0:
            continue
        total += np.array([np.trapezoid(Q * rac(t - zs * z2t, E), dx=zs[1] - zs[0]) / LQ for t in tt])
    total *= np.sin(th) / np.sqrt(1 - 1 / n ** 2) / c["R"]
    return -np.diff(total) / dt


ORACLE_TOL = 3e-2   # of the peak; the code's Riemann sums (dz <= L/100, fine step <= 10 ps) agree with the quadrature to ~1e-3


def probe_arz_oracle(ctx, ncases):
    """Run only when a proof / correspondence obligation is broken: looks for a concrete input on which the ARZ pulse
    is not where the physical times say it should be (wrong n_shift, slicing, decimation phase ...)."""
    rng = ctx.rng
    for _ in range(ncases):
        c = rand_case(rng, "ARZ", Nmax=64)
        c["times"] = c["times"][:48] if len(c["times"]) >= 48 else c["times"]
        N, dt = len(c["times"]), c["dt"]
        tc = theta_c(c["n"])
        c["psi"] = tc + rng.choice([-1, 1]) * rng.uniform(0.015, 0.08)
        c["em"], c["had"] = rng.choice([(1.0, 0.0), (0.0, 1.0), (0.5, 0.5)])
        c["t0"] = c["times"][0] + (rng.choice([N // 3, (2 * N) // 3, N - 6, 2]) + rng.choice([0.0, 0.25, 0.5])) * dt
        try:
            v = impl_values(c)
            o = arz_quadrature(c)
        except Exception:
            continue
        peak = float(np.abs(o).max())
        ctx.case(key=("oracle", json.dumps(small(c), sort_keys=True)))
        if peak > 0 and len(v) == len(o) and float(np.abs(v - o).max()) > ORACLE_TOL * peak:
            ctx.fail("arz_placement:" + json.dumps(small(c), sort_keys=True)[:300],
                     "ARZ pulse is not at the physical times: max |implementation - quadrature of the ARZ integral| = %.3g, peak %.3g (tolerance %g of the peak)  [case %s]" % (
                         float(np.abs(v - o).max()), peak, ORACLE_TOL, json.dumps(small(c))),
                     {"kind": "arz_placement", "case": c})
