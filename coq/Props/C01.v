(* C01: every ray-trace solution is a true ray joining its two endpoints.
   Statements only.  SPath_* / BPath_* / STracer_* / BTracer_* are regenerated from
   pyrex/ray_tracing.py on every run (Gen/Gen_ray.v), AntarcticIce_* from pyrex/ice_model.py
   (Gen/Gen_ice.v).  Notation (C01_proofs.v / C01_calc.v / C16_proofs.v):
     nzs s z      = n0 - k exp(a z)                      the exponential profile of ice record s
     good s       = 0 < a /\ 0 < k        wf s = good s /\ lo s <= hi s   (valid range)
     tan_theta s b z = b / sqrt(n(z)^2 - b^2)            (= tan theta for n sin theta = b)
     sec_theta s b z = n(z) / sqrt(n(z)^2 - b^2)         (= 1 / cos theta:   ds = sec dz)
     slowness  s b z = n(z)^2 / (c sqrt(n(z)^2 - b^2))   (= n / (c cos theta): dt = n ds / c)
     tan_deep / sec_deep / slowness_deep                 the same with the uniform index n0
                                                         (slowness_deep keeps one factor n(z))
     pw fd fs zu z = if z < zu then fd z else fs z       the tracer's model integrand
   All theorems are over the real numbers. *)
From Coq Require Import Reals List Bool ZArith.
From Coquelicot Require Import Coquelicot.
From PyrexLib Require Import RealPrims RayPrims.
From PyrexGen Require Import Gen_ice Gen_ray.
From PyrexProofs Require Import C16_proofs C01_calc C01_numeric C01_proofs.
Import ListNotations.
Open Scope R_scope.

(* --- 1. n sin(theta) is the same at launch and at reception (both path classes) --- *)
Theorem snell :
  (* snell_theta *)
  (forall p z,
  -1 <= snell_arg p z <= 1 -> AntarcticIce_index (Path_ice p) z <> 0 ->
  AntarcticIce_index (Path_ice p) z * sin (SPath_theta p z) = SPath_beta p /\
  AntarcticIce_index (Path_ice p) z * sin (BPath_theta p z) = BPath_beta p) /\
  (* snell_invariant *)
  (forall p,
  -1 <= snell_arg p (SPath_z1 p) <= 1 -> AntarcticIce_index (Path_ice p) (SPath_z1 p) <> 0 ->
  let n_from := AntarcticIce_index (Path_ice p) (SPath_z0 p) in
  let n_to := AntarcticIce_index (Path_ice p) (SPath_z1 p) in
  (n_to * vx (SPath_received_direction p) = n_from * vx (SPath_emitted_direction p) /\
   n_to * vy (SPath_received_direction p) = n_from * vy (SPath_emitted_direction p)) /\
  (n_to * vx (BPath_received_direction p) = n_from * vx (BPath_emitted_direction p) /\
   n_to * vy (BPath_received_direction p) = n_from * vy (BPath_emitted_direction p))).
Proof.
  split. { exact snell_theta_lemma. }
  { exact snell_invariant_lemma. }
Qed.
Print Assumptions snell.

(* --- 2. the generated closed forms are antiderivatives of tan, sec, n sec / c (shallow branch; the beta = 0 forms the code uses for |beta| <= beta_tolerance; the `deep` forms for the uniform index n0) --- *)
Theorem antiderivatives :
  (* distance_antiderivative *)
  (forall s b z, good s -> SPath_beta_tolerance < b -> b < nzs s z ->
  is_derive (fun y => SPath_distance_integral y b s false) z (tan_theta s b z)) /\
  (* pathlen_antiderivative *)
  (forall s b z, good s -> SPath_beta_tolerance < b -> b < nzs s z ->
  is_derive (fun y => SPath_pathlen_integral y b s false) z (sec_theta s b z)) /\
  (* tof_antiderivative *)
  (forall s b z, good s -> SPath_beta_tolerance < b -> b < nzs s z ->
  is_derive (fun y => SPath_tof_integral y b s false) z (slowness s b z)) /\
  (* vertical_antiderivative *)
  (forall s z, good s ->
  is_derive (fun y => SPath_distance_integral y 0 s false) z (tan_theta s 0 z) /\
  (0 < nzs s z -> is_derive (fun y => SPath_pathlen_integral y 0 s false) z (sec_theta s 0 z)) /\
  (0 < nzs s z -> is_derive (fun y => SPath_tof_integral y 0 s false) z (slowness s 0 z))) /\
  (* deep_antiderivative *)
  (forall s b z, good s -> - Ice_n0 s < b < Ice_n0 s ->
  is_derive (fun y => SPath_distance_integral y b s true) z (b / sqrt (Ice_n0 s ^ 2 - b ^ 2)) /\
  is_derive (fun y => SPath_pathlen_integral y b s true) z (Ice_n0 s / sqrt (Ice_n0 s ^ 2 - b ^ 2)) /\
  is_derive (fun y => SPath_tof_integral y b s true) z
            (Ice_n0 s * nzs s z / (speed_of_light * sqrt (Ice_n0 s ^ 2 - b ^ 2)))).
Proof.
  split. { exact distance_antiderivative_lemma. }
  split. { exact pathlen_antiderivative_lemma. }
  split. { exact tof_antiderivative_lemma. }
  split. { exact vertical_antiderivative_lemma. }
  { exact deep_antiderivative_lemma. }
Qed.
Print Assumptions antiderivatives.

(* --- 3. the value returned by _z_int_uniform_correction IS the integral of the model integrand between the two depths, for every position of z0, z1 relative to z_uniform --- *)
Theorem definite_integrals :
  (* distance_definite *)
  (forall s b zu top, good s -> SPath_beta_tolerance < b -> b < nzs s top ->
  forall z0 z1, z0 <= top -> z1 <= top -> zu <= top ->
  is_RInt (pw (tan_deep s b) (tan_theta s b) zu) z0 z1
          (SPath_z_int_uniform_correction z0 z1 zu b s SPath_distance_integral)) /\
  (* pathlen_definite *)
  (forall s b zu top, good s -> SPath_beta_tolerance < b -> b < nzs s top ->
  forall z0 z1, z0 <= top -> z1 <= top -> zu <= top ->
  is_RInt (pw (sec_deep s b) (sec_theta s b) zu) z0 z1
          (SPath_z_int_uniform_correction z0 z1 zu b s SPath_pathlen_integral)) /\
  (* tof_definite *)
  (forall s b zu top, good s -> SPath_beta_tolerance < b -> b < nzs s top ->
  forall z0 z1, z0 <= top -> z1 <= top -> zu <= top ->
  is_RInt (pw (slowness_deep s b) (slowness s b) zu) z0 z1
          (SPath_z_int_uniform_correction z0 z1 zu b s SPath_tof_integral)).
Proof.
  split. { exact distance_definite_lemma. }
  split. { exact pathlen_definite_lemma. }
  { exact tof_definite_lemma. }
Qed.
Print Assumptions definite_integrals.

(* --- 4. crossing z_uniform: deep integral below + shallow integral above --- *)
Theorem uniform_correction_splits :
  forall z0 z1 zu b s (F : R -> R -> Ice -> bool -> R),
  (zu <= z0 -> zu <= z1 ->
     SPath_z_int_uniform_correction z0 z1 zu b s F = F z1 b s false - F z0 b s false) /\
  (z0 < zu -> z1 < zu ->
     SPath_z_int_uniform_correction z0 z1 zu b s F = F z1 b s true - F z0 b s true) /\
  (z0 < zu -> zu <= z1 ->
     SPath_z_int_uniform_correction z0 z1 zu b s F =
       (F zu b s true - F z0 b s true) + (F z1 b s false - F zu b s false)) /\
  (zu <= z0 -> z1 < zu ->
     SPath_z_int_uniform_correction z0 z1 zu b s F =
       (F zu b s false - F z0 b s false) + (F z1 b s true - F zu b s true)).
Proof. exact uniform_correction_cases. Qed.
Print Assumptions uniform_correction_splits.

(* --- 5. the first kind of solution never turns over; the second turns over below the surface or reflects --- *)
Theorem turning :
  (* direct_no_turn *)
  (forall p z,
  let s := Path_ice p in
  wf s -> lo s <= Rmin (SPath_z0 p) (SPath_z1 p) -> Rmax (SPath_z0 p) (SPath_z1 p) <= hi s ->
  Rmin (SPath_z0 p) (SPath_z1 p) <= z <= Rmax (SPath_z0 p) (SPath_z1 p) ->
  0 <= SPath_beta p < AntarcticIce_index s (Rmax (SPath_z0 p) (SPath_z1 p)) ->
  0 < cos (SPath_theta p z) /\ 0 < cos (BPath_theta p z)) /\
  (* indirect_turns *)
  (forall p,
  let s := Path_ice p in
  let b := SPath_beta p in
  wf s ->
  (nzs s (hi s) <= b <= nzs s (lo s) -> 0 < b < Ice_n0 s ->
     lo s <= SPath_z_turn p <= hi s /\ AntarcticIce_index s (SPath_z_turn p) = b /\
     cos (SPath_theta p (SPath_z_turn p)) = 0) /\
  (b < nzs s (hi s) -> SPath_z_turn p = hi s) /\
  BPath_z_turn p = SPath_z_turn p /\
  (Path_direct p = false -> forall F,
     SPath_z_integral p F =
       SPath_z_int_uniform_correction (SPath_z0 p) (SPath_z_turn p) (SPath_z_uniform p) b s F
       + SPath_z_int_uniform_correction (SPath_z1 p) (SPath_z_turn p) (SPath_z_uniform p) b s F) /\
  (Path_direct p = true -> forall F,
     SPath_z_integral p F =
       SPath_z_int_uniform_correction (SPath_z0 p) (SPath_z1 p) (SPath_z_uniform p) b s F)).
Proof.
  split. { exact direct_no_turn_lemma. }
  { exact indirect_turns_lemma. }
Qed.
Print Assumptions turning.

(* --- 5b. indirect rays that turn over below the surface: tan, sec, n sec / c are unbounded at z_turn (gamma = 0), so the
   leg [z0, z_turn] is an improper integral; every proper piece [z0, z'] (z' < z_turn) is the difference of the
   generated closed forms, and these converge, for z' -> z_turn from below, to the value the code computes with the
   closed form AT z_turn (it is continuous there) --- *)
Theorem turning_depth_limit : forall s b zt z0,
  good s -> SPath_beta_tolerance < b -> nzs s zt = b -> z0 < zt ->
  (forall z', z' < zt ->
    is_RInt (tan_theta s b) z0 z' (SPath_distance_integral z' b s false - SPath_distance_integral z0 b s false) /\
    is_RInt (sec_theta s b) z0 z' (SPath_pathlen_integral z' b s false - SPath_pathlen_integral z0 b s false) /\
    is_RInt (slowness s b) z0 z' (SPath_tof_integral z' b s false - SPath_tof_integral z0 b s false)) /\
  (filterlim (fun z' => SPath_distance_integral z' b s false - SPath_distance_integral z0 b s false)
             (at_left zt) (locally (SPath_distance_integral zt b s false - SPath_distance_integral z0 b s false)) /\
   filterlim (fun z' => SPath_pathlen_integral z' b s false - SPath_pathlen_integral z0 b s false)
             (at_left zt) (locally (SPath_pathlen_integral zt b s false - SPath_pathlen_integral z0 b s false)) /\
   filterlim (fun z' => SPath_tof_integral z' b s false - SPath_tof_integral z0 b s false)
             (at_left zt) (locally (SPath_tof_integral zt b s false - SPath_tof_integral z0 b s false))).
Proof.
  intros s b zt z0 G Hb Ht Hz. split.
  - intros z' Hz'. exact (turning_leg_proper s b zt z0 G Hb Ht Hz z' Hz').
  - exact (turning_leg_limit s b zt z0 G Hb Ht).
Qed.
Print Assumptions turning_depth_limit.

(* --- 6. arrival: what brentq returned is the parameter `root`, what it guarantees is a hypothesis --- *)
Theorem arrives :
  (* conversion_preserves_beta_thm *)
  (forall tr root,
  -1 <= sin root * STracer_n0 tr / AntarcticIce_index (Tracer_ice tr) (vz (Tracer_from_point tr)) <= 1 ->
  AntarcticIce_index (Tracer_ice tr) (vz (Tracer_from_point tr)) <> 0 ->
  SPath_beta (direct_path tr root) = STracer_n0 tr * sin root /\
  SPath_beta (indirect_path tr root) = STracer_n0 tr * sin root /\
  (forall peak, STracer_indirect_angle_2 tr peak root = STracer_indirect_angle_1 tr root)) /\
  (* direct_arrives *)
  (forall tr root tol,
  let s := Tracer_ice tr in
  let zf := vz (Tracer_from_point tr) in
  let zt := vz (Tracer_to_point tr) in
  let p := direct_path tr root in
  -1 <= sin root * STracer_n0 tr / AntarcticIce_index s zf <= 1 -> AntarcticIce_index s zf <> 0 ->
  Rabs (STracer_direct_r tr root (STracer_rho tr) None) <= tol ->        (* brentq's guarantee *)
  SPath_beta_tolerance < SPath_beta p ->
  wf s -> lo s <= Rmin zf zt -> Rmax zf zt <= hi s ->
  SPath_beta p < AntarcticIce_index s (Rmax zf zt) ->
  exists travel,
    is_RInt (pw (tan_deep s (SPath_beta p)) (tan_theta s (SPath_beta p)) (SPath_z_uniform p))
            (Rmin zf zt) (Rmax zf zt) travel /\
    Rabs (travel - SPath_rho p) <= tol) /\
  (* indirect_arrives *)
  (forall tr root tol link_range,
  let s := Tracer_ice tr in
  let zf := vz (Tracer_from_point tr) in
  let p := indirect_path tr root in
  -1 <= sin root * STracer_n0 tr / AntarcticIce_index s zf <= 1 -> AntarcticIce_index s zf <> 0 ->
  root <= STracer_max_angle tr - link_range ->
  Rabs (STracer_indirect_r tr root (STracer_rho tr) link_range) <= tol ->   (* brentq's guarantee *)
  Rabs (SPath_z_integral p SPath_distance_integral - SPath_rho p) <= tol).
Proof.
  split. { exact conversion_preserves_beta. }
  split. { intros tr root tol. cbv zeta. exact (direct_arrives_lemma tr root tol). }
  { intros tr root tol link_range. cbv zeta. intros H1 H2 H3 H4.
  exact (indirect_arrives_lemma tr root tol H1 H2 link_range H3 H4). }
Qed.
Print Assumptions arrives.

(* --- 7. log_term_1 = n0 n - beta^2 - sqrt(alpha gamma) equals the cancellation-free beta^2 (n0-n)^2 / (n0 n - beta^2 + sqrt(alpha gamma)): the subtraction cancels catastrophically for small beta (open finding), the identity gives the error model of the check --- *)
Theorem log1_stable :
  forall s b z, good s -> 0 < b -> b <= nzs s z ->
  let '(alpha, n_z, gamma, log_1, log_2) := SPath_int_terms z b s in
  log_1 = Ice_n0 s * n_z - b ^ 2 - sqrt (alpha * gamma) /\
  log_1 = b ^ 2 * (Ice_n0 s - n_z) ^ 2 / (Ice_n0 s * n_z - b ^ 2 + sqrt (alpha * gamma)) /\
  0 < log_1.
Proof. exact log1_stable_lemma. Qed.
Print Assumptions log1_stable.

(* --- 8. numeric tracer: trapezoid sums in the Darboux bracket, one cell's error, the linspace grid step, the generated z_integral and _direct_r use exactly that grid and its actual step --- *)
Theorem numeric_tracer :
  (* trapezoid_in_darboux_bracket *)
  (forall ys h, 0 <= h ->
  lower_sum ys h <= trapz_dx ys h <= upper_sum ys h) /\
  (* cell_error *)
  (forall (f : R -> R) x h m M I, 0 <= h ->
  is_RInt f x (x + h) I -> (forall t, x <= t <= x + h -> m <= f t <= M) ->
  Rabs (h * (f x + f (x + h)) / 2 - I) <= h * (M - m)) /\
  (* linspace_grid_step *)
  (forall z0 z1 dz, 0 < dz -> dz <= Rabs (z1 - z0) ->
  let n := Rtrunc (Rabs (z1 - z0) / dz) in
  (1 <= n)%Z /\ dz <= Rabs (linspace_step z0 z1 (n + 1)) < 2 * dz) /\
  (* numeric_direct_grid *)
  (forall p (f : R -> R),
  Path_direct p = true -> 0 < Path_dz p -> Path_dz p <= Rabs (BPath_z1 p - BPath_z0 p) ->
  let n := Rtrunc (Rabs (BPath_z1 p - BPath_z0 p) / Path_dz p) in
  let h := Rabs (linspace_step (BPath_z0 p) (BPath_z1 p) (n + 1)) in
  BPath_z_integral p f = trapz_dx (map f (linspace (BPath_z0 p) (BPath_z1 p) (n + 1))) h /\
  Path_dz p <= h < 2 * Path_dz p /\
  lower_sum (map f (linspace (BPath_z0 p) (BPath_z1 p) (n + 1))) h <= BPath_z_integral p f
    <= upper_sum (map f (linspace (BPath_z0 p) (BPath_z1 p) (n + 1))) h) /\
  (* numeric_direct_short: a direct leg shorter than dz is ONE trapezoid spanning the leg; an empty leg gives 0 *)
  (forall p (f : R -> R),
  Path_direct p = true -> 0 < Path_dz p ->
  (0 < Rabs (BPath_z1 p - BPath_z0 p) < Path_dz p ->
     BPath_z_integral p f =
       trapz_dx (map f (linspace (BPath_z0 p) (BPath_z1 p) 2)) (Rabs (linspace_step (BPath_z0 p) (BPath_z1 p) 2)) /\
     Rabs (linspace_step (BPath_z0 p) (BPath_z1 p) 2) = Rabs (BPath_z1 p - BPath_z0 p)) /\
  (BPath_z1 p = BPath_z0 p -> BPath_z_integral p f = 0)) /\
  (* numeric_direct_r_step: _direct_r is a trapezoid sum of some integrand on the linspace grid with its ACTUAL step *)
  (forall tr angle, exists f : R -> R, forall b,
  BTracer_direct_r tr angle b None =
    (let n := _n_intervals (BTracer_z1 tr - BTracer_z0 tr) (Tracer_dz tr) in
     trapz_dx (map f (linspace (BTracer_z0 tr) (BTracer_z1 tr) (n + 1)))
              (linspace_step (BTracer_z0 tr) (BTracer_z1 tr) (n + 1)) - b)).
Proof.
  split. { exact trapz_between_sums. }
  split. { exact cell_error_bound. }
  split. { exact grid_step_bounds. }
  split. { exact numeric_direct_grid_lemma. }
  split. { exact numeric_direct_short_lemma. }
  { intros tr angle. eexists. intros b. unfold BTracer_direct_r, linspace_retstep. cbv beta iota zeta.
    rewrite ?map_map. reflexivity. }
Qed.
Print Assumptions numeric_tracer.

(* --- non-vacuity: the hypotheses hold for the default Antarctic ice and a 30 degree ray --- *)
Theorem hypotheses_satisfiable :
  good example_ice /\ wf example_ice /\
  SPath_beta_tolerance < SPath_beta example_path < nzs example_ice 0 /\
  -1 <= snell_arg example_path (SPath_z1 example_path) <= 1.
Proof. destruct example_good as [Hg Hw]. destruct example_beta_in_range as [Hb Hs].
  split; [exact Hg|]. split; [exact Hw|]. split; [exact Hb | exact Hs]. Qed.
Print Assumptions hypotheses_satisfiable.

