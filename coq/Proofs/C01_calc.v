(* C01, part 1: real analysis of the closed-form z-integrals of the exponential-profile ice
   n(z) = n0 - k exp(a z).  Everything here is about hand-written closed forms; C01_proofs.v
   shows that the definitions generated from pyrex/ray_tracing.py are equal to them. *)
From Coq Require Import Reals Lra Lia.
From Coquelicot Require Import Coquelicot.
Open Scope R_scope.

(* replace a `Derive f x` produced by auto_derive by the value given by a known is_derive fact *)
Ltac derive_is H :=
  match goal with |- context [Derive ?f ?x] =>
    let v := match type of H with is_derive _ _ ?v => v end in
    replace (Derive f x) with v by (symmetry; apply is_derive_unique; exact H) end.

Section ClosedForms.
  Variables n0 k a : R.
  Hypothesis Ha : 0 < a.
  Hypothesis Hk : 0 < k.

  Definition nz (z : R) := n0 - k * exp (a * z).
  Definition al (b : R) := n0 ^ 2 - b ^ 2.
  Definition ga (b z : R) := nz z ^ 2 - b ^ 2.
  Definition lg1 (b z : R) := n0 * nz z - b ^ 2 - sqrt (al b * ga b z).
  Definition lg2 (b z : R) := nz z + sqrt (ga b z).
  Definition L1 (b z : R) := - z + ln (lg1 b z) / a.
  Definition L2 (b z : R) := ln (lg2 b z) / a.

  Lemma nz_lt_n0 z : nz z < n0.
  Proof. unfold nz. pose proof (exp_pos (a * z)). nra. Qed.

  Lemma nz_derive z : is_derive nz z (- a * (n0 - nz z)).
  Proof. unfold nz. auto_derive; [trivial | ring]. Qed.

  Lemma nz_decreasing z1 z2 : z1 < z2 -> nz z2 < nz z1.
  Proof.
    intros H. unfold nz.
    assert (exp (a * z1) < exp (a * z2)) by (apply exp_increasing; nra). nra.
  Qed.

  Lemma nz_monotone z1 z2 : z1 <= z2 -> nz z2 <= nz z1.
  Proof. intros [H|H]; [left; apply nz_decreasing; exact H | subst; right; reflexivity]. Qed.

  (* (n0 n - b^2)^2 - alpha gamma = b^2 (n0 - n)^2 : the identity behind everything *)
  Lemma log1_identity n b :
    (n0 * n - b ^ 2) ^ 2 - (n0 ^ 2 - b ^ 2) * (n ^ 2 - b ^ 2) = b ^ 2 * (n0 - n) ^ 2.
  Proof. ring. Qed.

  Lemma log1_pos_gen n b : 0 < b -> b <= n -> n < n0 ->
    0 < n0 * n - b ^ 2 - sqrt ((n0 ^ 2 - b ^ 2) * (n ^ 2 - b ^ 2)).
  Proof.
    intros Hb Hn Hn0.
    assert (Hx : 0 < n0 * n - b ^ 2) by nra.
    assert (Hag : 0 <= (n0 ^ 2 - b ^ 2) * (n ^ 2 - b ^ 2)) by (apply Rmult_le_pos; nra).
    assert (sqrt ((n0 ^ 2 - b ^ 2) * (n ^ 2 - b ^ 2)) < n0 * n - b ^ 2); [|lra].
    apply Rlt_le_trans with (sqrt ((n0 * n - b ^ 2) ^ 2)); [|rewrite sqrt_pow2; lra].
    apply sqrt_lt_1_alt. split; [exact Hag|].
    pose proof (log1_identity n b).
    assert (0 < b ^ 2 * (n0 - n) ^ 2) by (apply Rmult_lt_0_compat; apply pow_lt; lra).
    lra.
  Qed.

  Lemma lg1_pos b z : 0 < b -> b <= nz z -> 0 < lg1 b z.
  Proof. intros Hb Hn. unfold lg1, al, ga. apply log1_pos_gen; [assumption.. | apply nz_lt_n0]. Qed.

  Lemma lg2_pos b z : 0 <= b -> b <= nz z -> 0 < nz z -> 0 < lg2 b z.
  Proof. intros Hb Hn Hp. unfold lg2. pose proof (sqrt_pos (ga b z)). lra. Qed.

  (* the numerically stable form of log_term_1 (used by the repair of the cancellation) *)
  Lemma log1_stable_gen n b : 0 <= (n0 ^ 2 - b ^ 2) * (n ^ 2 - b ^ 2) ->
    n0 * n - b ^ 2 + sqrt ((n0 ^ 2 - b ^ 2) * (n ^ 2 - b ^ 2)) <> 0 ->
    n0 * n - b ^ 2 - sqrt ((n0 ^ 2 - b ^ 2) * (n ^ 2 - b ^ 2)) =
    b ^ 2 * (n0 - n) ^ 2 / (n0 * n - b ^ 2 + sqrt ((n0 ^ 2 - b ^ 2) * (n ^ 2 - b ^ 2))).
  Proof.
    intros Hag Hd.
    set (S := sqrt ((n0 ^ 2 - b ^ 2) * (n ^ 2 - b ^ 2))) in *.
    assert (HS : S ^ 2 = (n0 ^ 2 - b ^ 2) * (n ^ 2 - b ^ 2)).
    { unfold S. rewrite <- Rsqr_pow2. apply Rsqr_sqrt. exact Hag. }
    pose proof (log1_identity n b) as Hid.
    apply Rmult_eq_reg_r with (n0 * n - b ^ 2 + S); [|exact Hd].
    unfold Rdiv. rewrite Rmult_assoc, Rinv_l, Rmult_1_r by exact Hd.
    rewrite <- Hid, <- HS. ring.
  Qed.

  Section Derivs.
    Variables b z : R.
    Hypothesis Hb : 0 < b.
    Hypothesis Hn : b < nz z.

    Let n := nz z.
    Let A := sqrt (al b).
    Let G := sqrt (ga b z).

    Lemma al_pos : 0 < al b.
    Proof. unfold al. pose proof (nz_lt_n0 z). nra. Qed.
    Lemma ga_pos : 0 < ga b z.
    Proof. unfold ga. nra. Qed.
    Lemma A_pos : 0 < A. Proof. apply sqrt_lt_R0, al_pos. Qed.
    Lemma G_pos : 0 < G. Proof. apply sqrt_lt_R0, ga_pos. Qed.
    Lemma A_sq : A ^ 2 = n0 ^ 2 - b ^ 2.
    Proof. unfold A. rewrite <- Rsqr_pow2. rewrite Rsqr_sqrt; [reflexivity | left; apply al_pos]. Qed.
    Lemma G_sq : G ^ 2 = n ^ 2 - b ^ 2.
    Proof. unfold G. rewrite <- Rsqr_pow2. rewrite Rsqr_sqrt; [reflexivity | left; apply ga_pos]. Qed.

    Lemma ga_derive : is_derive (ga b) z (- 2 * a * n * (n0 - n)).
    Proof.
      unfold ga. auto_derive.
      - eexists; apply nz_derive.
      - derive_is (nz_derive z). fold n. ring.
    Qed.

    Ltac side :=
      repeat match goal with |- _ /\ _ => split end;
      repeat match goal with
      | |- True => exact I
      | |- ex_derive ?f _ =>
          match f with
          | context [ga] => eexists; apply ga_derive
          | context [nz] => eexists; apply nz_derive
          end
      | |- 0 < ga _ _ => apply ga_pos
      end.

    Lemma sqrt_ga_derive : is_derive (fun y => sqrt (ga b y)) z (- a * n * (n0 - n) / G).
    Proof.
      pose proof G_pos as HG.
      auto_derive.
      - side.
      - derive_is ga_derive. fold G. field. lra.
    Qed.

    Lemma lg2_derive : is_derive (lg2 b) z (- a * (n0 - n) * lg2 b z / G).
    Proof.
      pose proof G_pos as HG.
      unfold lg2.
      auto_derive.
      - side.
      - derive_is (nz_derive z). derive_is ga_derive.
        fold n. fold G. field. lra.
    Qed.

    Lemma L2_derive : is_derive (L2 b) z (- (n0 - n) / G).
    Proof.
      pose proof G_pos as HG.
      assert (Hp : 0 < lg2 b z) by (apply lg2_pos; unfold n in *; lra).
      unfold L2. auto_derive.
      - side. eexists; apply lg2_derive. exact Hp.
      - derive_is lg2_derive. field. repeat split; lra.
    Qed.

    Lemma lg1_derive : is_derive (lg1 b) z (a * (n0 - n) * (A * n / G - n0)).
    Proof.
      pose proof G_pos as HG. pose proof A_pos as HA. pose proof al_pos as Hal. pose proof ga_pos as Hga.
      pose proof A_sq as HA2.
      assert (HAG : sqrt (al b * ga b z) = A * G) by (unfold A, G; rewrite <- sqrt_mult by lra; reflexivity).
      unfold lg1. auto_derive.
      - side. apply Rmult_lt_0_compat; assumption.
      - derive_is (nz_derive z). derive_is ga_derive.
        fold n. rewrite HAG. 
        replace (al b) with (A ^ 2) by (rewrite HA2; reflexivity).
        field. split; lra.
    Qed.

    Lemma L1_derive : is_derive (L1 b) z (A / G).
    Proof.
      pose proof G_pos as HG. pose proof A_pos as HA. pose proof al_pos as Hal. pose proof ga_pos as Hga.
      assert (Hl : 0 < lg1 b z) by (apply lg1_pos; lra).
      assert (HAG : sqrt (al b * ga b z) = A * G) by (unfold A, G; rewrite <- sqrt_mult by lra; reflexivity).
      pose proof A_sq as HA2. pose proof G_sq as HG2.
      unfold L1. auto_derive.
      - side. eexists; apply lg1_derive. exact Hl.
      - derive_is lg1_derive.
        unfold lg1 in Hl |- *. fold n in Hl |- *. rewrite HAG in Hl |- *.
        clearbody A G n.
        field_simplify_eq; [|repeat split; lra].
        (* (n0 - n)(A n - n0 G) = (A + G)(n0 n - b^2 - A G), using A^2, G^2 *)
        replace (A * a * n0 * n - A * a * n ^ 2 - a * n0 ^ 2 * G + a * n0 * n * G - a * n0 * n * G + a * b ^ 2 * G + a * A * G ^ 2)
          with (a * (A * n0 * n - A * n ^ 2 - n0 ^ 2 * G + b ^ 2 * G + A * G ^ 2)) by ring.
        rewrite HG2. 
        replace (a * n0 * n * A - a * b ^ 2 * A - a * A ^ 2 * G) with (a * (n0 * n * A - b ^ 2 * A - A ^ 2 * G)) by ring.
        rewrite HA2. ring.
    Qed.

    (* closed forms of the three indefinite integrals (shallow branch) *)
    Lemma dist_cf_derive : is_derive (fun y => b / sqrt (al b) * L1 b y) z (b / G).
    Proof.
      pose proof G_pos as HG. pose proof A_pos as HA.
      auto_derive.
      - eexists; apply L1_derive.
      - derive_is L1_derive. fold A. field. split; lra.
    Qed.

    Lemma plen_cf_derive : is_derive (fun y => n0 / sqrt (al b) * L1 b y + L2 b y) z (n / G).
    Proof.
      pose proof G_pos as HG. pose proof A_pos as HA.
      auto_derive.
      - split; [eexists; apply L1_derive | split; [eexists; apply L2_derive | exact I]].
      - derive_is L1_derive. derive_is L2_derive. fold A. fold n. field. split; lra.
    Qed.

    Lemma tof_cf_derive c : c <> 0 ->
      is_derive (fun y => (sqrt (ga b y) / a + n0 * L2 b y + n0 ^ 2 / sqrt (al b) * L1 b y) / c) z
                (n ^ 2 / (c * G)).
    Proof.
      intros Hc. pose proof G_pos as HG. pose proof A_pos as HA. pose proof G_sq as HG2.
      auto_derive.
      - split; [eexists; apply ga_derive|]. split; [apply ga_pos|].
        split; [eexists; apply L2_derive|]. split; [eexists; apply L1_derive | exact I].
      - derive_is ga_derive. derive_is L1_derive. derive_is L2_derive. fold A. fold n. fold G.
        field. repeat split; lra.
    Qed.
  End Derivs.
End ClosedForms.
