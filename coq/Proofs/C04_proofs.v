(* C04: invariants of the heap model over arbitrary operation histories. *)
From Coq Require Import List QArith Qabs Bool Arith Lia Permutation.
From PyrexLib Require Import InterpQ.
From PyrexModel Require Import SignalModel.
Import ListNotations.
Open Scope Q_scope.

(* ------------------------------------------------------------------ lists *)
Lemma zeros_length : forall n, length (zeros n) = n.
Proof. induction n; simpl; congruence. Qed.

Lemma pad_trunc_length : forall n vs, length (pad_trunc n vs) = n.
Proof.
  intros n vs. unfold pad_trunc. destruct (Nat.ltb (length vs) n) eqn:E.
  - apply Nat.ltb_lt in E. rewrite app_length, zeros_length. lia.
  - apply Nat.ltb_ge in E. rewrite firstn_length. lia.
Qed.

Lemma pad_trunc_same : forall vs, pad_trunc (length vs) vs = vs.
Proof.
  intro vs. unfold pad_trunc. rewrite Nat.ltb_irrefl. apply firstn_all.
Qed.

Lemma upd_length : forall A (l : list A) k x, length (upd l k x) = length l.
Proof. induction l; destruct k; simpl; intros; auto. Qed.

Lemma nth_upd_same : forall A (l : list A) k x d, (k < length l)%nat -> nth k (upd l k x) d = x.
Proof. induction l; destruct k; simpl; intros; auto; try lia. apply IHl. lia. Qed.

Lemma nth_upd_other : forall A (l : list A) k j x d, j <> k -> nth j (upd l k x) d = nth j l d.
Proof.
  induction l; destruct k; destruct j; simpl; intros; auto; try congruence.
Qed.

Lemma nth_error_upd_other : forall A (l : list A) k j x, j <> k -> nth_error (upd l k x) j = nth_error l j.
Proof.
  induction l; destruct k; destruct j; simpl; intros; auto; try congruence.
Qed.

Lemma nth_error_upd_same : forall A (l : list A) k x, (k < length l)%nat -> nth_error (upd l k x) k = Some x.
Proof. induction l; destruct k; simpl; intros; auto; try lia. apply IHl. lia. Qed.

Lemma Forall_upd : forall A (P : A -> Prop) l k x, Forall P l -> P x -> Forall P (upd l k x).
Proof.
  induction l; destruct k; simpl; intros; auto.
  - inversion H; subst. constructor; auto.
  - inversion H; subst. constructor; auto.
Qed.

Lemma upd_app_last : forall A (l : list A) o x, upd (l ++ [o]) (length l) x = l ++ [x].
Proof. induction l; simpl; intros; auto. f_equal. apply IHl. Qed.

Lemma mapi_from_length : forall f l k, length (mapi_from k f l) = length l.
Proof. induction l; simpl; intros; auto. Qed.

Lemma mapi_length : forall f l, length (mapi f l) = length l.
Proof. intros. apply mapi_from_length. Qed.

Lemma map2_length : forall f a b, length (map2 f a b) = Nat.min (length a) (length b).
Proof. induction a; destruct b; simpl; auto. Qed.

Lemma nth_mapi_from : forall f l k j d, (j < length l)%nat ->
  nth j (mapi_from k f l) d = f (k + j)%nat (nth j l d).
Proof.
  induction l; simpl; intros; [lia|]. destruct j.
  - rewrite Nat.add_0_r. reflexivity.
  - rewrite IHl by lia. f_equal. lia.
Qed.

(* ------------------------------------------------------------------ well-formedness: one value per sample *)
Definition lens (st : state) : list nat := map (@length Q) (arrs st).

Definition obj_wfL (L : list nat) (o : sigobj) : Prop :=
  (s_times o < length L)%nat /\
  match s_vals o with
  | Some v => (v < length L)%nat /\ nth v L O = nth (s_times o) L O /\ s_cls o <> Fun
  | None => s_cls o = Fun
  end.

Definition WF (st : state) : Prop :=
  Forall (obj_wfL (lens st)) (objs st) /\ Forall (fun c => (c < length (lens st))%nat) (ext st).

Lemma lens_length : forall st, length (lens st) = length (arrs st).
Proof. intro. unfold lens. apply map_length. Qed.

Lemma clen_lens : forall st c, length (cell st c) = nth c (lens st) O.
Proof.
  intros. unfold cell, lens.
  change O with (length (@nil Q)). rewrite map_nth. reflexivity.
Qed.

Lemma obj_wfL_mono : forall L M o, obj_wfL L o -> obj_wfL (L ++ M) o.
Proof.
  unfold obj_wfL. intros L M o [Ht Hv]. rewrite app_length. split; [lia|].
  destruct (s_vals o).
  - destruct Hv as (Hv & He & Hc). repeat split; auto; try lia.
    rewrite !app_nth1 by lia. exact He.
  - exact Hv.
Qed.

Lemma lens_alloc : forall st xs, lens (fst (alloc st xs)) = lens st ++ [length xs].
Proof. intros. unfold lens, alloc. simpl. rewrite map_app. reflexivity. Qed.

Lemma lens_write : forall st c f, lens (write st c f) = lens st.
Proof.
  intros. unfold lens, write. simpl.
  apply nth_ext with (d := O) (d' := O).
  - rewrite !map_length, upd_length. reflexivity.
  - intros n Hn. rewrite map_length, upd_length in Hn.
    change O with (length (@nil Q)). rewrite !map_nth.
    destruct (Nat.eq_dec n c) as [->|Hne].
    + rewrite nth_upd_same by exact Hn. rewrite mapi_length. reflexivity.
    + rewrite nth_upd_other by exact Hne. reflexivity.
Qed.

Lemma WF_ext_lens : forall st st', objs st' = objs st -> ext st' = ext st ->
  (exists M, lens st' = lens st ++ M) -> WF st -> WF st'.
Proof.
  intros st st' Ho He [M HM] [H1 H2]. unfold WF. rewrite Ho, He, HM. split.
  - eapply Forall_impl; [|exact H1]. intros. apply obj_wfL_mono. assumption.
  - eapply Forall_impl; [|exact H2]. simpl. intros. rewrite app_length. lia.
Qed.

Lemma WF_alloc : forall st xs, WF st -> WF (fst (alloc st xs)).
Proof.
  intros. apply (WF_ext_lens st (fst (alloc st xs))); auto. eexists. apply lens_alloc.
Qed.

Lemma WF_write : forall st c f, WF st -> WF (write st c f).
Proof.
  intros. apply (WF_ext_lens st (write st c f)); auto. exists []. rewrite lens_write, app_nil_r. reflexivity.
Qed.

Lemma WF_add_obj : forall st o, WF st -> obj_wfL (lens st) o -> WF (fst (add_obj st o)).
Proof.
  intros st o [H1 H2] Ho. unfold WF, add_obj. simpl. split; auto.
  apply Forall_app. split; auto.
Qed.

Lemma WF_set_obj : forall st i o, WF st -> obj_wfL (lens st) o -> WF (set_obj st i o).
Proof.
  intros st i o [H1 H2] Ho. unfold WF, set_obj. simpl. split; auto.
  apply Forall_upd; auto.
Qed.

Lemma WF_get_obj : forall st i o, WF st -> get_obj st i = Some o -> obj_wfL (lens st) o.
Proof.
  intros st i o [H1 _] Hg. unfold get_obj in Hg. apply nth_error_In in Hg.
  rewrite Forall_forall in H1. auto.
Qed.

Lemma WF_add_ext : forall st xs, WF st -> WF (add_ext st xs).
Proof.
  intros st xs [H1 H2]. unfold add_ext, alloc, WF, lens. simpl.
  rewrite map_app. simpl. split.
  - eapply Forall_impl; [|exact H1]. intros. apply obj_wfL_mono. assumption.
  - apply Forall_app. split.
    + eapply Forall_impl; [|exact H2]. simpl. intros. rewrite app_length. unfold lens in H. lia.
    + constructor; [|constructor]. rewrite app_length, map_length. simpl. lia.
Qed.

Lemma WF_mk_sig : forall st c sub td vd vt, c <> Fun -> WF st -> WF (fst (mk_sig st c sub td vd vt)).
Proof.
  intros st c sub td vd vt Hc H. unfold mk_sig.
  destruct (alloc st td) as [st1 tc] eqn:E1.
  destruct (alloc st1 (pad_trunc (length td) vd)) as [st2 vc] eqn:E2.
  assert (W1 : WF st1) by (replace st1 with (fst (alloc st td)) by (rewrite E1; reflexivity); apply WF_alloc; exact H).
  assert (W2 : WF st2) by (replace st2 with (fst (alloc st1 (pad_trunc (length td) vd))) by (rewrite E2; reflexivity); apply WF_alloc; exact W1).
  apply WF_add_obj; [exact W2|].
  assert (L1 : lens st1 = lens st ++ [length td]) by (replace st1 with (fst (alloc st td)) by (rewrite E1; reflexivity); apply lens_alloc).
  assert (L2 : lens st2 = lens st1 ++ [length td]).
  { replace st2 with (fst (alloc st1 (pad_trunc (length td) vd))) by (rewrite E2; reflexivity).
    rewrite lens_alloc, pad_trunc_length. reflexivity. }
  assert (T : tc = length (lens st)) by (unfold alloc in E1; inversion E1; rewrite lens_length; reflexivity).
  assert (V : vc = length (lens st1)) by (unfold alloc in E2; inversion E2; rewrite lens_length; reflexivity).
  unfold obj_wfL. simpl. rewrite L2, L1, V, T, L1. rewrite !app_length. simpl.
  split; [lia|]. repeat split; [lia| |exact Hc].
  rewrite app_nth2 by (rewrite app_length; simpl; lia).
  rewrite app_length. simpl.
  replace (length (lens st) + 1 - (length (lens st) + 1))%nat with O by lia. simpl.
  rewrite app_nth1 by (rewrite app_length; simpl; lia).
  rewrite app_nth2 by lia. rewrite Nat.sub_diag. reflexivity.
Qed.

Lemma WF_mk_empty : forall st sub td vt, WF st -> WF (fst (mk_empty st sub td vt)).
Proof. intros. unfold mk_empty. apply WF_mk_sig; [discriminate|assumption]. Qed.

Lemma WF_mk_fun : forall st sub td cs vt, WF st -> WF (fst (mk_fun st sub td cs vt)).
Proof.
  intros st sub td cs vt H. unfold mk_fun.
  destruct (alloc st td) as [st1 tc] eqn:E1.
  assert (W1 : WF st1) by (replace st1 with (fst (alloc st td)) by (rewrite E1; reflexivity); apply WF_alloc; exact H).
  apply WF_add_obj; [exact W1|].
  assert (L1 : lens st1 = lens st ++ [length td]) by (replace st1 with (fst (alloc st td)) by (rewrite E1; reflexivity); apply lens_alloc).
  assert (T : tc = length (lens st)) by (unfold alloc in E1; inversion E1; rewrite lens_length; reflexivity).
  unfold obj_wfL. simpl. rewrite L1, T, app_length. simpl. split; [lia|reflexivity].
Qed.

Lemma WF_set_vt : forall st i vt, WF st -> WF (set_vt st i vt).
Proof.
  intros st i vt H. unfold set_vt. destruct (get_obj st i) eqn:E; [|exact H].
  apply WF_set_obj; [exact H|]. apply (WF_get_obj _ _ _ H) in E. exact E.
Qed.

Lemma WF_set_comps : forall st i cs, WF st -> WF (set_comps st i cs).
Proof.
  intros st i cs H. unfold set_comps. destruct (get_obj st i) eqn:E; [|exact H].
  apply WF_set_obj; [exact H|]. apply (WF_get_obj _ _ _ H) in E. exact E.
Qed.

(* re-pointing the times of a FunctionSignal at any existing array keeps it well formed
   (it has no values array whose length could disagree) *)
Lemma WF_set_times_cell : forall st i tc, WF st -> (tc < length (arrs st))%nat ->
  (forall o, get_obj st i = Some o -> s_vals o = None) -> WF (set_times_cell st i tc).
Proof.
  intros st i tc H Htc Hf. unfold set_times_cell. destruct (get_obj st i) eqn:E; [|exact H].
  apply WF_set_obj; [exact H|]. pose proof (WF_get_obj _ _ _ H E) as [_ Hv].
  specialize (Hf _ eq_refl). unfold obj_wfL. simpl. rewrite Hf in *. rewrite lens_length. split; assumption.
Qed.

Lemma WF_do_copy : forall st o, WF st -> obj_wfL (lens st) o -> WF (fst (do_copy st o)).
Proof.
  intros st o H Ho. unfold do_copy. destruct (s_cls o).
  - apply WF_mk_sig; [discriminate|exact H].
  - apply WF_mk_empty; exact H.
  - apply WF_mk_fun; exact H.
Qed.

Ltac fst_of E := match type of E with ?f = (?a, ?b) => replace a with (fst f) by (rewrite E; reflexivity) end.

Lemma WF_do_add : forall st a b, WF st -> obj_wfL (lens st) a -> obj_wfL (lens st) b -> WF (fst (do_add st a b)).
Proof.
  intros st a b H Ha Hb. unfold do_add.
  destruct (negb (list_eqb (times_of st a) (times_of st b))); [exact H|].
  destruct (add_type (s_vt a) (s_vt b)); [|exact H].
  destruct (s_cls a).
  - match goal with |- context [mk_sig ?s ?c ?sb ?t ?d ?v] => destruct (mk_sig s c sb t d v) eqn:E end.
    simpl. fst_of E. apply WF_mk_sig; [discriminate|exact H].
  - destruct (do_copy st b) eqn:E. simpl. apply WF_set_vt. fst_of E. apply WF_do_copy; assumption.
  - destruct (s_cls b).
    + match goal with |- context [mk_sig ?s ?c ?sb ?t ?d ?v] => destruct (mk_sig s c sb t d v) eqn:E end.
      simpl. fst_of E. apply WF_mk_sig; [discriminate|exact H].
    + destruct (do_copy st a) eqn:E. simpl. apply WF_set_vt. fst_of E. apply WF_do_copy; assumption.
    + match goal with |- context [mk_fun ?s ?sb ?t ?d ?v] => destruct (mk_fun s sb t d v) eqn:E end.
      simpl. apply WF_set_vt. fst_of E. apply WF_mk_fun; exact H.
Qed.

Lemma WF_do_scale : forall st o f, WF st -> WF (fst (do_scale st o f)).
Proof.
  intros st o f H. unfold do_scale. destruct (s_cls o).
  - match goal with |- context [mk_sig ?s ?c ?sb ?t ?d ?v] => destruct (mk_sig s c sb t d v) eqn:E end.
    simpl. fst_of E. apply WF_mk_sig; [discriminate|exact H].
  - match goal with |- context [mk_sig ?s ?c ?sb ?t ?d ?v] => destruct (mk_sig s c sb t d v) eqn:E end.
    simpl. fst_of E. apply WF_mk_sig; [discriminate|exact H].
  - match goal with |- context [mk_fun ?s ?sb ?t ?d ?v] => destruct (mk_fun s sb t d v) eqn:E end.
    simpl. fst_of E. apply WF_mk_fun; exact H.
Qed.

Lemma WF_do_iscale : forall st i o f, WF st -> WF (fst (do_iscale st i o f)).
Proof.
  intros st i o f H. unfold do_iscale. destruct (s_vals o); simpl.
  - apply WF_write; exact H.
  - apply WF_set_comps; exact H.
Qed.

Lemma WF_poke : forall st c k q, WF st -> WF (fst (poke st c k q)).
Proof.
  intros. unfold poke. destruct (Nat.ltb k (length (cell st c))); simpl; [apply WF_write|]; assumption.
Qed.

Lemma mk_fun_spec : forall st sub td cs vt,
  mk_fun st sub td cs vt =
  ({| arrs := arrs st ++ [td];
      objs := objs st ++ [{| s_cls := Fun; s_sub := sub; s_times := length (arrs st); s_vals := None;
                             s_vt := vt; s_comps := cs |}];
      ext := ext st |}, length (objs st)).
Proof. reflexivity. Qed.

Lemma mk_sig_spec : forall st c sub td vd vt,
  mk_sig st c sub td vd vt =
  ({| arrs := (arrs st ++ [td]) ++ [pad_trunc (length td) vd];
      objs := objs st ++ [{| s_cls := c; s_sub := sub; s_times := length (arrs st);
                             s_vals := Some (length (arrs st ++ [td])); s_vt := vt; s_comps := [] |}];
      ext := ext st |}, length (objs st)).
Proof. reflexivity. Qed.

Lemma get_obj_last : forall st o, get_obj (fst (add_obj st o)) (length (objs st)) = Some o.
Proof.
  intros. unfold get_obj, add_obj. simpl. rewrite nth_error_app2 by lia.
  rewrite Nat.sub_diag. reflexivity.
Qed.

Lemma WF_do_with_times : forall al st o tc, WF st -> obj_wfL (lens st) o -> (tc < length (arrs st))%nat ->
  WF (fst (do_with_times al st o tc)).
Proof.
  intros al st o tc H Ho Htc. unfold do_with_times. destruct (s_cls o).
  - destruct (interp_all (times_of st o) (values_of st o) (cell st tc)); [|exact H].
    match goal with |- context [mk_sig ?s ?c ?sb ?t ?d ?v] => destruct (mk_sig s c sb t d v) eqn:E end.
    simpl. fst_of E. apply WF_mk_sig; [discriminate|exact H].
  - match goal with |- context [mk_empty ?s ?sb ?t ?v] => destruct (mk_empty s sb t v) eqn:E end.
    simpl. fst_of E. apply WF_mk_empty; exact H.
  - rewrite mk_fun_spec.
    set (o' := {| s_cls := Fun; s_sub := false; s_times := length (arrs st); s_vals := None;
                  s_vt := s_vt o; s_comps := s_comps o |}).
    set (st1 := {| arrs := arrs st ++ [times_of st o]; objs := objs st ++ [o']; ext := ext st |}).
    assert (W1 : WF st1).
    { pose proof (WF_mk_fun st false (times_of st o) (s_comps o) (s_vt o) H) as W.
      rewrite mk_fun_spec in W. exact W. }
    assert (G1 : forall s, arrs s = arrs st1 \/ (exists x, arrs s = arrs st1 ++ x) -> objs s = objs st1 ->
                 forall ob, get_obj s (length (objs st)) = Some ob -> s_vals ob = None).
    { intros s _ Hs ob Hg. unfold get_obj in Hg. rewrite Hs in Hg. simpl in Hg.
      rewrite nth_error_app2 in Hg by lia. rewrite Nat.sub_diag in Hg. simpl in Hg. inversion Hg. reflexivity. }
    assert (W2 : WF (if al then set_times_cell st1 (length (objs st)) tc
                     else let '(s, c) := alloc st1 (cell st tc) in set_times_cell s (length (objs st)) c)).
    { destruct al.
      - apply WF_set_times_cell; [exact W1| |].
        + simpl. rewrite app_length. simpl. lia.
        + apply G1; [left; reflexivity|reflexivity].
      - unfold alloc. apply WF_set_times_cell.
        + pose proof (WF_alloc st1 (cell st tc) W1) as W. exact W.
        + simpl. rewrite !app_length. simpl. lia.
        + apply G1; [right; eexists; reflexivity|reflexivity]. }
    destruct (hd_Q (cell st tc)); [|exact H].
    destruct (last_Q (cell st tc)); [|exact H].
    destruct (hd_Q (times_of st o)); [|exact H].
    destruct (last_Q (times_of st o)); [|exact H].
    match goal with |- context [if ?c then _ else _] => destruct c end; simpl.
    + apply WF_set_comps. exact W2.
    + exact W2.
Qed.

Lemma get_ext_lt : forall st a c, WF st -> get_ext st a = Some c -> (c < length (arrs st))%nat.
Proof.
  intros st a c [_ H2] Hg. unfold get_ext in Hg. apply nth_error_In in Hg.
  rewrite Forall_forall in H2. specialize (H2 _ Hg). rewrite lens_length in H2. exact H2.
Qed.

Lemma WF_step : forall al st o, WF st -> WF (fst (step al st o)).
Proof.
  intros al st o H. destruct o; unfold step.
  - apply WF_add_ext; exact H.
  - destruct (get_ext st ta); [|exact H]. destruct c.
    + destruct (get_ext st va); [|exact H].
      match goal with |- context [mk_sig ?s ?c ?sb ?t ?d ?v] => destruct (mk_sig s c sb t d v) eqn:E end.
      simpl. fst_of E. apply WF_mk_sig; [discriminate|exact H].
    + match goal with |- context [mk_empty ?s ?sb ?t ?v] => destruct (mk_empty s sb t v) eqn:E end.
      simpl. fst_of E. apply WF_mk_empty; exact H.
    + match goal with |- context [mk_fun ?s ?sb ?t ?d ?v] => destruct (mk_fun s sb t d v) eqn:E end.
      simpl. fst_of E. apply WF_mk_fun; exact H.
  - destruct (get_obj st i) eqn:G; [|exact H]. destruct (do_copy st s) eqn:E. simpl. fst_of E.
    apply WF_do_copy; [exact H|eapply WF_get_obj; eauto].
  - destruct (get_obj st i) eqn:G1; [|exact H]. destruct (get_obj st j) eqn:G2; [|exact H].
    apply WF_do_add; [exact H|eapply WF_get_obj; eauto|eapply WF_get_obj; eauto].
  - destruct (get_obj st i); [|exact H]. destruct (Z.eqb k 0); exact H.
  - destruct (get_obj st i); [|exact H]. apply WF_do_scale; exact H.
  - destruct (get_obj st i); [|exact H]. apply WF_do_scale; exact H.
  - destruct (get_obj st i); [|exact H]. apply WF_do_iscale; exact H.
  - destruct (get_obj st i); [|exact H]. destruct (Qeq_bool q 0); [exact H|]. apply WF_do_scale; exact H.
  - destruct (get_obj st i); [|exact H]. destruct (Qeq_bool q 0); [exact H|]. apply WF_do_iscale; exact H.
  - destruct (get_obj st i) eqn:G1; [|exact H]. destruct (get_ext st ta) eqn:G2; [|exact H].
    apply WF_do_with_times; [exact H|eapply WF_get_obj; eauto|eapply get_ext_lt; eauto].
  - destruct (get_obj st i); [|exact H]. destruct (s_cls s); simpl;
      try apply WF_set_comps; apply WF_write; exact H.
  - destruct (get_obj st i); [|exact H]. simpl. apply WF_set_vt; exact H.
  - destruct (get_obj st i); [|exact H]. destruct (s_cls s); try exact H.
    destruct (Qle_bool 0 lead && Qle_bool 0 trail); [|exact H]. simpl. apply WF_set_comps; exact H.
  - destruct (get_ext st a); [|exact H]. apply WF_poke; exact H.
  - destruct (get_obj st i); [|exact H]. destruct (s_cls s); try exact H; apply WF_poke; exact H.
  - destruct (get_obj st i); [|exact H]. destruct (s_cls s); try exact H.
    destruct (s_vals s); [|exact H]. apply WF_poke; exact H.
Qed.

Lemma WF_init : WF init.
Proof. split; constructor. Qed.

Lemma WF_run : forall al ops st, WF st -> WF (fst (run al st ops)).
Proof.
  induction ops; simpl; intros st H; [exact H|].
  destruct (step al st a) eqn:E. specialize (IHops s).
  destruct (run al s ops) eqn:E2. simpl in *. apply IHops.
  fst_of E. apply WF_step. exact H.
Qed.

Lemma fold_sum_length_indep : forall ts cs, length (fun_values ts cs) = length ts.
Proof. intros. unfold fun_values. apply map_length. Qed.

(* THE LENGTH INVARIANT: after any history (with or without the with_times aliasing of the
   unrepaired code) every signal holds exactly one value per time sample *)
Theorem len_invariant_lemma : forall al ops o,
  In o (objs (run_state al ops)) ->
  length (values_of (run_state al ops) o) = length (times_of (run_state al ops) o).
Proof.
  intros al ops o Hin. unfold run_state in *.
  pose proof (WF_run al ops init WF_init) as [H1 _].
  set (st := fst (run al init ops)) in *.
  rewrite Forall_forall in H1. specialize (H1 _ Hin). destruct H1 as [Ht Hv].
  unfold values_of, times_of. destruct (s_vals o).
  - destruct Hv as (_ & He & _). rewrite !clen_lens. exact He.
  - apply fold_sum_length_indep.
Qed.

(* ------------------------------------------------------------------ separation: no shared arrays *)
Definition Sep (st : state) : Prop := NoDup (holders st).

Lemma WF_bounded : forall st, WF st -> Forall (fun c => (c < length (arrs st))%nat) (holders st).
Proof.
  intros st [H1 H2]. unfold holders. apply Forall_app. split.
  - eapply Forall_impl; [|exact H2]. simpl. intros. rewrite lens_length in H. exact H.
  - apply Forall_forall. intros c Hc. apply in_flat_map in Hc. destruct Hc as (o & Ho & Hc).
    rewrite Forall_forall in H1. specialize (H1 _ Ho). destruct H1 as [Ht Hv].
    rewrite lens_length in *. unfold obj_cells in Hc. simpl in Hc. destruct Hc as [<-|Hc]; [exact Ht|].
    destruct (s_vals o); simpl in Hc; [|contradiction]. destruct Hc as [<-|[]]. tauto.
Qed.

(* st' holds the arrays of st plus new ones allocated at or beyond the end of st's store *)
Definition Grows (st st' : state) : Prop :=
  exists l2, Permutation (holders st') (holders st ++ l2) /\ NoDup l2 /\
             Forall (fun c => (length (arrs st) <= c)%nat) l2.

Lemma NoDup_app_fresh : forall (l l2 : list nat) n, NoDup l -> Forall (fun c => (c < n)%nat) l ->
  NoDup l2 -> Forall (fun c => (n <= c)%nat) l2 -> NoDup (l ++ l2).
Proof.
  induction l; simpl; intros; auto. inversion H; inversion H0; subst. constructor.
  - intro Hin. apply in_app_or in Hin. destruct Hin as [Hin|Hin]; [contradiction|].
    rewrite Forall_forall in H2. specialize (H2 _ Hin). lia.
  - eapply IHl; eauto.
Qed.

Lemma Sep_Grows : forall st st', WF st -> Sep st -> Grows st st' -> Sep st'.
Proof.
  intros st st' W S (l2 & P & N & F). unfold Sep.
  eapply Permutation_NoDup; [apply Permutation_sym; exact P|].
  eapply NoDup_app_fresh; eauto. apply WF_bounded. exact W.
Qed.

Lemma Grows_same : forall st st', holders st' = holders st -> Grows st st'.
Proof.
  intros. exists []. rewrite app_nil_r, H. repeat split; auto; constructor.
Qed.

Lemma flat_map_upd_same : forall A B (f : A -> list B) l i o o',
  nth_error l i = Some o -> f o' = f o -> flat_map f (upd l i o') = flat_map f l.
Proof.
  induction l; destruct i; simpl; intros; try discriminate.
  - inversion H; subst. rewrite H0. reflexivity.
  - f_equal. eapply IHl; eauto.
Qed.

Lemma holders_set_obj_same : forall st i o o', get_obj st i = Some o -> obj_cells o' = obj_cells o ->
  holders (set_obj st i o') = holders st.
Proof.
  intros. unfold holders, set_obj. simpl. f_equal. eapply flat_map_upd_same; eauto.
Qed.

Lemma holders_set_vt : forall st i vt, holders (set_vt st i vt) = holders st.
Proof.
  intros. unfold set_vt. destruct (get_obj st i) eqn:E; [|reflexivity].
  eapply holders_set_obj_same; eauto.
Qed.

Lemma holders_set_comps : forall st i cs, holders (set_comps st i cs) = holders st.
Proof.
  intros. unfold set_comps. destruct (get_obj st i) eqn:E; [|reflexivity].
  eapply holders_set_obj_same; eauto.
Qed.

Lemma holders_write : forall st c f, holders (write st c f) = holders st.
Proof. reflexivity. Qed.

Lemma arrs_set_vt : forall st i vt, arrs (set_vt st i vt) = arrs st.
Proof. intros. unfold set_vt. destruct (get_obj st i); reflexivity. Qed.

Lemma arrs_set_comps : forall st i cs, arrs (set_comps st i cs) = arrs st.
Proof. intros. unfold set_comps. destruct (get_obj st i); reflexivity. Qed.

Lemma Grows_mk_sig : forall st c sub td vd vt, Grows st (fst (mk_sig st c sub td vd vt)).
Proof.
  intros. rewrite mk_sig_spec. simpl.
  exists [length (arrs st); length (arrs st ++ [td])]. split; [|split].
  - unfold holders. simpl. rewrite flat_map_app. simpl. rewrite app_assoc. apply Permutation_refl.
  - rewrite app_length. simpl. constructor; [simpl; intros [H|[]]; lia|]. constructor; [intros []|constructor].
  - rewrite app_length. simpl. repeat constructor; lia.
Qed.

Lemma Grows_mk_fun : forall st sub td cs vt, Grows st (fst (mk_fun st sub td cs vt)).
Proof.
  intros. rewrite mk_fun_spec. simpl.
  exists [length (arrs st)]. split; [|split].
  - unfold holders. simpl. rewrite flat_map_app. simpl. rewrite app_assoc. apply Permutation_refl.
  - constructor; [intros []|constructor].
  - repeat constructor.
Qed.

Lemma Grows_do_copy : forall st o, Grows st (fst (do_copy st o)).
Proof.
  intros. unfold do_copy. destruct (s_cls o); [apply Grows_mk_sig|apply Grows_mk_sig|apply Grows_mk_fun].
Qed.

Lemma Grows_set_vt : forall st st' i vt, Grows st st' -> Grows st (set_vt st' i vt).
Proof. intros st st' i vt (l2 & P & R). exists l2. rewrite holders_set_vt. auto. Qed.

Lemma Grows_set_comps : forall st st' i cs, Grows st st' -> Grows st (set_comps st' i cs).
Proof. intros st st' i vt (l2 & P & R). exists l2. rewrite holders_set_comps. auto. Qed.

Lemma Grows_add_ext : forall st xs, Grows st (add_ext st xs).
Proof.
  intros. exists [length (arrs st)]. split; [|split].
  - unfold add_ext, alloc, holders. simpl. rewrite <- !app_assoc.
    apply Permutation_app_head. apply Permutation_app_comm.
  - constructor; [intros []|constructor].
  - repeat constructor.
Qed.

(* the repaired FunctionSignal.with_times: the new object points at a fresh copy of the argument *)
Lemma Grows_with_times_fun : forall st o tc,
  let '(st1, id) := mk_fun st false (times_of st o) (s_comps o) (s_vt o) in
  Grows st (let '(s, c) := alloc st1 (cell st tc) in set_times_cell s id c).
Proof.
  intros. rewrite mk_fun_spec. unfold alloc, set_times_cell, get_obj. simpl.
  rewrite nth_error_app2 by lia. rewrite Nat.sub_diag. simpl.
  exists [length (arrs st ++ [times_of st o])]. split; [|split].
  - unfold holders, set_obj. simpl. rewrite upd_app_last. rewrite flat_map_app. simpl.
    rewrite app_assoc. apply Permutation_refl.
  - constructor; [intros []|constructor].
  - rewrite app_length. simpl. repeat constructor. lia.
Qed.

Lemma Grows_step : forall st o, Grows st (fst (step false st o)).
Proof.
  intros st o. destruct o; unfold step.
  - apply Grows_add_ext.
  - destruct (get_ext st ta); [|apply Grows_same; reflexivity]. destruct c.
    + destruct (get_ext st va); [|apply Grows_same; reflexivity].
      match goal with |- context [mk_sig ?s ?c ?sb ?t ?d ?v] => pose proof (Grows_mk_sig s c sb t d v) as G; destruct (mk_sig s c sb t d v) eqn:E end.
      exact G.
    + unfold mk_empty.
      match goal with |- context [mk_sig ?s ?c ?sb ?t ?d ?v] => pose proof (Grows_mk_sig s c sb t d v) as G; destruct (mk_sig s c sb t d v) eqn:E end.
      exact G.
    + match goal with |- context [mk_fun ?s ?sb ?t ?d ?v] => pose proof (Grows_mk_fun s sb t d v) as G; destruct (mk_fun s sb t d v) eqn:E end.
      exact G.
  - destruct (get_obj st i); [|apply Grows_same; reflexivity].
    pose proof (Grows_do_copy st s) as G. destruct (do_copy st s). exact G.
  - destruct (get_obj st i); [|apply Grows_same; reflexivity].
    destruct (get_obj st j); [|apply Grows_same; reflexivity].
    unfold do_add.
    destruct (negb (list_eqb (times_of st s) (times_of st s0))); [apply Grows_same; reflexivity|].
    destruct (add_type (s_vt s) (s_vt s0)); [|apply Grows_same; reflexivity].
    destruct (s_cls s).
    + match goal with |- context [mk_sig ?s ?c ?sb ?t ?d ?v] => pose proof (Grows_mk_sig s c sb t d v) as G; destruct (mk_sig s c sb t d v) eqn:E end.
      exact G.
    + pose proof (Grows_do_copy st s0) as G. destruct (do_copy st s0). simpl. apply Grows_set_vt. exact G.
    + destruct (s_cls s0).
      * match goal with |- context [mk_sig ?s ?c ?sb ?t ?d ?v] => pose proof (Grows_mk_sig s c sb t d v) as G; destruct (mk_sig s c sb t d v) eqn:E end.
        exact G.
      * pose proof (Grows_do_copy st s) as G. destruct (do_copy st s). simpl. apply Grows_set_vt. exact G.
      * match goal with |- context [mk_fun ?s ?sb ?t ?d ?v] => pose proof (Grows_mk_fun s sb t d v) as G; destruct (mk_fun s sb t d v) eqn:E end.
        simpl. apply Grows_set_vt. exact G.
  - destruct (get_obj st i); [|apply Grows_same; reflexivity]. destruct (Z.eqb k 0); apply Grows_same; reflexivity.
  - destruct (get_obj st i); [|apply Grows_same; reflexivity]. unfold do_scale. destruct (s_cls s).
    + match goal with |- context [mk_sig ?s ?c ?sb ?t ?d ?v] => pose proof (Grows_mk_sig s c sb t d v) as G; destruct (mk_sig s c sb t d v) eqn:E end. exact G.
    + match goal with |- context [mk_sig ?s ?c ?sb ?t ?d ?v] => pose proof (Grows_mk_sig s c sb t d v) as G; destruct (mk_sig s c sb t d v) eqn:E end. exact G.
    + match goal with |- context [mk_fun ?s ?sb ?t ?d ?v] => pose proof (Grows_mk_fun s sb t d v) as G; destruct (mk_fun s sb t d v) eqn:E end. exact G.
  - destruct (get_obj st i); [|apply Grows_same; reflexivity]. unfold do_scale. destruct (s_cls s).
    + match goal with |- context [mk_sig ?s ?c ?sb ?t ?d ?v] => pose proof (Grows_mk_sig s c sb t d v) as G; destruct (mk_sig s c sb t d v) eqn:E end. exact G.
    + match goal with |- context [mk_sig ?s ?c ?sb ?t ?d ?v] => pose proof (Grows_mk_sig s c sb t d v) as G; destruct (mk_sig s c sb t d v) eqn:E end. exact G.
    + match goal with |- context [mk_fun ?s ?sb ?t ?d ?v] => pose proof (Grows_mk_fun s sb t d v) as G; destruct (mk_fun s sb t d v) eqn:E end. exact G.
  - destruct (get_obj st i); [|apply Grows_same; reflexivity]. unfold do_iscale.
    destruct (s_vals s); simpl; apply Grows_same; [reflexivity|apply holders_set_comps].
  - destruct (get_obj st i); [|apply Grows_same; reflexivity].
    destruct (Qeq_bool q 0); [apply Grows_same; reflexivity|]. unfold do_scale. destruct (s_cls s).
    + match goal with |- context [mk_sig ?s ?c ?sb ?t ?d ?v] => pose proof (Grows_mk_sig s c sb t d v) as G; destruct (mk_sig s c sb t d v) eqn:E end. exact G.
    + match goal with |- context [mk_sig ?s ?c ?sb ?t ?d ?v] => pose proof (Grows_mk_sig s c sb t d v) as G; destruct (mk_sig s c sb t d v) eqn:E end. exact G.
    + match goal with |- context [mk_fun ?s ?sb ?t ?d ?v] => pose proof (Grows_mk_fun s sb t d v) as G; destruct (mk_fun s sb t d v) eqn:E end. exact G.
  - destruct (get_obj st i); [|apply Grows_same; reflexivity].
    destruct (Qeq_bool q 0); [apply Grows_same; reflexivity|]. unfold do_iscale.
    destruct (s_vals s); simpl; apply Grows_same; [reflexivity|apply holders_set_comps].
  - destruct (get_obj st i); [|apply Grows_same; reflexivity].
    destruct (get_ext st ta); [|apply Grows_same; reflexivity].
    unfold do_with_times. destruct (s_cls s).
    + destruct (interp_all (times_of st s) (values_of st s) (cell st n)); [|apply Grows_same; reflexivity].
      match goal with |- context [mk_sig ?s ?c ?sb ?t ?d ?v] => pose proof (Grows_mk_sig s c sb t d v) as G; destruct (mk_sig s c sb t d v) eqn:E end. exact G.
    + unfold mk_empty.
      match goal with |- context [mk_sig ?s ?c ?sb ?t ?d ?v] => pose proof (Grows_mk_sig s c sb t d v) as G; destruct (mk_sig s c sb t d v) eqn:E end. exact G.
    + pose proof (Grows_with_times_fun st s n) as G.
      destruct (mk_fun st false (times_of st s) (s_comps s) (s_vt s)) as [st1 id].
      destruct (hd_Q (cell st n)); [|apply Grows_same; reflexivity].
      destruct (last_Q (cell st n)); [|apply Grows_same; reflexivity].
      destruct (hd_Q (times_of st s)); [|apply Grows_same; reflexivity].
      destruct (last_Q (times_of st s)); [|apply Grows_same; reflexivity].
      match goal with |- context [if ?c then _ else _] => destruct c end; simpl.
      * apply Grows_set_comps. exact G.
      * exact G.
  - destruct (get_obj st i); [|apply Grows_same; reflexivity].
    destruct (s_cls s); simpl; apply Grows_same; try reflexivity. rewrite holders_set_comps. reflexivity.
  - destruct (get_obj st i); [|apply Grows_same; reflexivity]. simpl. apply Grows_same. apply holders_set_vt.
  - destruct (get_obj st i); [|apply Grows_same; reflexivity]. destruct (s_cls s); try (apply Grows_same; reflexivity).
    destruct (Qle_bool 0 lead && Qle_bool 0 trail); [|apply Grows_same; reflexivity]. simpl.
    apply Grows_same. apply holders_set_comps.
  - destruct (get_ext st a); [|apply Grows_same; reflexivity]. unfold poke.
    destruct (Nat.ltb k (length (cell st n))); apply Grows_same; reflexivity.
  - destruct (get_obj st i); [|apply Grows_same; reflexivity]. unfold poke.
    destruct (s_cls s); try (apply Grows_same; reflexivity);
    destruct (Nat.ltb k (length (cell st (s_times s)))); apply Grows_same; reflexivity.
  - destruct (get_obj st i); [|apply Grows_same; reflexivity].
    destruct (s_cls s); try (apply Grows_same; reflexivity).
    destruct (s_vals s); [|apply Grows_same; reflexivity]. unfold poke.
    destruct (Nat.ltb k (length (cell st n))); apply Grows_same; reflexivity.
Qed.

Lemma Sep_run : forall ops st, WF st -> Sep st -> Sep (fst (run false st ops)).
Proof.
  induction ops; simpl; intros st W S; [exact S|].
  pose proof (Grows_step st a) as G. pose proof (WF_step false st a W) as W1.
  destruct (step false st a) eqn:E. specialize (IHops s).
  destruct (run false s ops) eqn:E2. simpl in *. apply IHops; [exact W1|].
  exact (Sep_Grows st s W S G).
Qed.

(* NO SHARING: after any history of the (repaired) code all arrays held by the caller and by
   the signal objects (times, values) are pairwise distinct buffers *)
Theorem no_sharing_lemma : forall ops, NoDup (holders (run_state false ops)).
Proof.
  intro ops. unfold run_state. apply Sep_run; [apply WF_init|constructor].
Qed.

(* F6: with the aliasing assignment of the unrepaired code the statement is false *)
Definition f6_history : list op :=
  [ONewArr [0; 1; 2; 3]; ONewArr [1; 2];
   OMk Fun false 0 0 (fun t => 2 * t + 1) Undef; OWithTimes 0 1; OShift 1 1].

Lemma no_sharing_refuted_with_alias_lemma :
  ~ NoDup (holders (run_state true f6_history)) /\
  (* ... and shifting the re-gridded signal changed the caller's array *)
  map qpair (cell (run_state true f6_history) 1) = [(2, 1); (3, 1)]%Z /\
  map qpair (cell (run_state false f6_history) 1) = [(1, 1); (2, 1)]%Z.
Proof.
  split; [|split]; try (vm_compute; reflexivity).
  vm_compute. intro H. inversion H as [|x l Hn Hd]; subst.
  inversion Hd as [|x2 l2 Hn2 Hd2]; subst. apply Hn2. simpl. tauto.
Qed.
