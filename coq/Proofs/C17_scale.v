(* C17: the Rayleigh scale the code uses for its default amplitudes (coq/Gen/Gen_noise.v, regenerated from the
   source on every run) satisfies 2 sigma^2 = 1.  For a ~ Rayleigh(sigma), E a^2 = 2 sigma^2 (cited), so this is
   "default amplitudes give the requested RMS on average": a changed scale breaks this file. *)
From Coq Require Import Reals Lra Lia.
From PyrexGen Require Import Gen_noise.
Local Open Scope R_scope.

(* abstract every square root of a positive literal by a variable s with s*s = literal, then field + nra *)
Ltac abstract_sqrts :=
  repeat match goal with
         | |- context [sqrt ?x] =>
           let s := fresh "s" in let Hs := fresh "Hs" in let Hp := fresh "Hp" in
           assert (Hs : sqrt x * sqrt x = x) by (apply sqrt_sqrt; lra);
           assert (Hp : 0 < sqrt x) by (apply sqrt_lt_R0; lra);
           set (s := sqrt x) in *; clearbody s
         end.

Ltac solve_scale :=
  abstract_sqrts;
  first [ lra | nra
        | (field_simplify_eq; [nra | repeat split; nra])
        | (field_simplify_eq; nra) ].

Lemma rayleigh_scale_fft_second_moment : 2 * (rayleigh_scale_fft * rayleigh_scale_fft) = 1.
Proof. unfold rayleigh_scale_fft. solve_scale. Qed.

Lemma rayleigh_scale_full_second_moment : 2 * (rayleigh_scale_full * rayleigh_scale_full) = 1.
Proof. unfold rayleigh_scale_full. solve_scale. Qed.

Lemma rayleigh_scales_positive : 0 < rayleigh_scale_fft /\ 0 < rayleigh_scale_full.
Proof.
  unfold rayleigh_scale_fft, rayleigh_scale_full.
  assert (H : 2 * (rayleigh_scale_fft * rayleigh_scale_fft) = 1) by apply rayleigh_scale_fft_second_moment.
  split; abstract_sqrts; first [lra | nra | (apply Rdiv_lt_0_compat; nra) | (apply Rmult_lt_0_compat; nra)].
Qed.
