(* C09: Antenna and antenna-system hit bookkeeping is consistent under every history.
   Statements only; proofs are in Proofs/C09_{struct,sum,sys,main}.v.
   c ranges over all configurations (trigger function, noise realisations, noisy or not,
   caching discipline) unless a hypothesis restricts it; h over all operation lists. *)
From Coq Require Import List QArith ZArith Bool.
From PyrexLib Require Import Interp.
From PyrexModel Require Import AntennaModel AntennaSpec.
From PyrexProofs Require Import C09_struct C09_sum C09_sys C09_sysm C09_fir C09_epoch C09_main.
Import ListNotations.
Open Scope Q_scope.

(* the antenna holds exactly the signals received since the last clear, in order *)
Theorem signals_are_received : forall c h, signals (final c a_init h) = received h.
Proof. exact signals_are_received_lemma. Qed.
Print Assumptions signals_are_received.

(* the incremental caches never run ahead of the signals, cached triggers are the trigger of
   the cached waveform at the same index, cached waveforms sit on the grids of the signals *)
Theorem cache_prefix_inv : forall c h,
  let st := final c a_init h in
  (length (triggers st) <= length (all_waves st))%nat /\
  (length (all_waves st) <= length (signals st))%nat /\
  triggers st = map (trig c) (firstn (length (triggers st)) (all_waves st)) /\
  map s_times (all_waves st) = map s_times (firstn (length (all_waves st)) (signals st)).
Proof. exact cache_prefix_unfolded_lemma. Qed.
Print Assumptions cache_prefix_inv.

(* all_waveforms: one waveform per received signal, on that signal's own time grid *)
Theorem one_wave_per_signal_on_its_grid : forall c h,
  let l := snd (all_waveforms c (final c a_init h)) in
  length l = length (received h) /\ map s_times l = map s_times (received h).
Proof. exact one_wave_per_signal_lemma. Qed.
Print Assumptions one_wave_per_signal_on_its_grid.

(* waveforms = those of all_waveforms that satisfy the trigger, in reception order *)
Theorem waveforms_are_filter : forall c h,
  snd (waveforms c (final c a_init h)) =
  filter (trig c) (snd (all_waveforms c (final c a_init h))).
Proof. exact waveforms_are_filter_lemma. Qed.
Print Assumptions waveforms_are_filter.

(* is_hit exactly when there is at least one triggered waveform (any state) *)
Theorem is_hit_iff : forall c st, snd (is_hit c st) = true <-> snd (waveforms c st) <> [].
Proof. exact is_hit_iff_lemma. Qed.
Print Assumptions is_hit_iff.

(* clear returns the antenna to the empty state: no signals, no caches, (noise master dropped
   when asked), and every query answers as on a new antenna *)
Theorem clear_resets : forall c h r,
  let st := final c a_init (h ++ [Clear r]) in
  signals st = [] /\ all_waves st = [] /\ triggers st = [] /\
  (r = true -> noise_master st = None) /\
  (forall q, noisy c = false -> invalidate c = true -> is_query q = true ->
     snd (step c st q) = snd (step c a_init q)).
Proof. exact clear_resets_lemma. Qed.
Print Assumptions clear_resets.

(* noiseless: the waveform over any window is the sum of all received signals interpolated
   onto it (long-window optimisation and double interpolation are exact) *)
Theorem full_waveform_is_sum : forall c h ts,
  noisy c = false -> wf_window ts ->
  sig_eq (snd (full_waveform c (final c a_init h) ts)) (spec_wave (received h) ts).
Proof. exact full_waveform_history_lemma. Qed.
Print Assumptions full_waveform_is_sum.

(* noiseless, repaired caching: EVERY entry of all_waveforms is the sum of ALL received signals
   on its grid, whatever was queried in between (false of the original code, see below) *)
Theorem all_waveforms_are_sums : forall c h,
  noisy c = false -> invalidate c = true ->
  Forall (fun s => wf_window (s_times s)) (received h) ->
  Forall2 sig_eq (snd (all_waveforms c (final c a_init h)))
                 (map (fun s => spec_wave (received h) (s_times s)) (received h)).
Proof. exact all_waveforms_are_sums_lemma. Qed.
Print Assumptions all_waveforms_are_sums.

(* observable answers are a function of the received signals only: after any interleaving of
   queries the antenna answers like a fresh antenna that just received the same signals *)
Theorem history_independent : forall c h q,
  noisy c = false -> invalidate c = true -> is_query q = true ->
  snd (step c (final c a_init h) q) = fresh_answer c (received h) q.
Proof. exact history_independent_lemma. Qed.
Print Assumptions history_independent.

(* the original caching discipline (append-only catch-up) is NOT history independent:
   receive; all_waveforms; receive(overlapping); all_waveforms  (design finding F9) *)
Theorem stale_cache_refuted :
  exists (h : list op) (q : op),
    is_query q = true /\
    snd (step (cfg_plain false) (final (cfg_plain false) a_init h) q)
      <> fresh_answer (cfg_plain false) (received h) q.
Proof. exact stale_cache_refuted_lemma. Qed.
Print Assumptions stale_cache_refuted.

(* with noise: once a noise master exists it is the one used, at absolute times, by every later
   operation until clear(reset_noise=True) *)
Theorem noise_fixed_until_reset : forall c h st m,
  noise_master st = Some m -> no_reset h ->
  noise_master (final c st h) = Some m /\
  forall ts, snd (make_noise c (final c st h) ts) = mkSig ts (map (nz c (fst m) (snd m)) ts).
Proof. exact noise_fixed_until_reset_lemma. Qed.
Print Assumptions noise_fixed_until_reset.

(* with noise: the waveform over a window is that master at the window's absolute times plus
   the sum of the received signals; the state is not changed *)
Theorem noisy_full_waveform_is_noise_plus_sum : forall c st ts m,
  noisy c = true -> noise_master st = Some m -> wf_window ts ->
  fst (full_waveform c st ts) = st /\
  sig_eq (snd (full_waveform c st ts))
         (mkSig ts (map (fun t => nz c (fst m) (snd m) t + sum_at (signals st) t) ts)).
Proof. exact noisy_full_waveform_lemma. Qed.
Print Assumptions noisy_full_waveform_is_noise_plus_sum.

(* antenna system, linear front end, any lead-in time: the waveform is the front end applied
   to the sum of the received signals; the lead-in round trip is exact *)
Theorem sys_full_waveform_is_sum : forall sc st ts,
  noisy (ant_cfg sc) = false -> fe_taps sc = [] -> fe_shift sc = None -> wf_window ts ->
  fst (s_full_waveform sc st ts) = st /\
  sig_eq (snd (s_full_waveform sc st ts))
         (mkSig ts (map (fun t => sum_at (signals (ant st)) t * fe_scale sc) ts)).
Proof. exact sys_full_waveform_is_sum_lemma. Qed.
Print Assumptions sys_full_waveform_is_sum.

(* antenna system: each processed signal is the front end of the antenna signal on its grid *)
Theorem sys_signal_is_front_end : forall sc s,
  fe_taps sc = [] -> fe_shift sc = None ->
  wf_window (s_times s) -> length (s_times s) = length (s_values s) ->
  sig_eq (sys_signal_of sc s) (front_end sc s).
Proof. exact sys_signal_is_front_end_lemma. Qed.
Print Assumptions sys_signal_is_front_end.

(* the lead-in grid preserves dt (it is increasing and keeps the window's nodes) and, on a
   uniform window, is strictly longer than lead_in_time *)
Theorem lead_in_grid_keeps_nodes : forall sc ts, wf_window ts ->
  increasing (lead_in_times sc ts) /\
  forall j, (j < length ts)%nat ->
    exists i, (i < length (lead_in_times sc ts))%nat /\ nth i (lead_in_times sc ts) 0 = nth j ts 0.
Proof. exact lead_in_grid_keeps_nodes_lemma. Qed.
Print Assumptions lead_in_grid_keeps_nodes.

Theorem lead_in_covers : forall sc ts,
  wf_window ts -> 0 <= lead_in sc ->
  t_last ts - t_first ts == nat_Q (length ts - 1) * (t_second ts - t_first ts) ->
  let dt := t_second ts - t_first ts in
  (1 <= lead_in_n sc ts)%Z /\ lead_in sc < inject_Z (lead_in_n sc ts) * dt.
Proof. exact lead_in_covers_lemma. Qed.
Print Assumptions lead_in_covers.

(* ---------------------------------------------------------------- antenna system, all histories
   (noiseless antenna, linear front end, any lead-in time, repaired caching) *)

(* one waveform per received signal on its grid; waveforms = filter of all_waveforms by the
   trigger; is_hit iff non-empty; signals = front-end-processed antenna signals *)
Theorem sys_bookkeeping : forall sc h,
  noisy (ant_cfg sc) = false -> invalidate (ant_cfg sc) = true ->
  let st := s_final sc s_init h in
  let aw := snd (s_all_waveforms sc st) in
  length aw = length (received h) /\ map s_times aw = map s_times (received h) /\
  snd (s_waveforms sc st) = filter (trig (ant_cfg sc)) aw /\
  (snd (s_is_hit sc st) = true <-> snd (s_waveforms sc st) <> []) /\
  snd (s_signals sc st) = map (sys_signal_of sc) (received h).
Proof. exact sys_bookkeeping_lemma. Qed.
Print Assumptions sys_bookkeeping.

Theorem sys_all_waveforms_are_sums : forall sc h,
  noisy (ant_cfg sc) = false -> invalidate (ant_cfg sc) = true -> fe_taps sc = [] -> fe_shift sc = None ->
  Forall (fun s => wf_window (s_times s)) (received h) ->
  Forall2 sig_eq (snd (s_all_waveforms sc (s_final sc s_init h)))
    (map (fun s => mkSig (s_times s) (map (fun t => sum_at (received h) t * fe_scale sc) (s_times s)))
         (received h)).
Proof. exact sys_all_waveforms_are_sums_lemma. Qed.
Print Assumptions sys_all_waveforms_are_sums.

Theorem sys_history_independent : forall sc h q,
  noisy (ant_cfg sc) = false -> invalidate (ant_cfg sc) = true -> is_query q = true ->
  snd (s_step sc (s_final sc s_init h) q) = s_fresh_answer sc (received h) q.
Proof. exact sys_history_independent_lemma. Qed.
Print Assumptions sys_history_independent.

Theorem sys_clear_resets : forall sc h r q,
  noisy (ant_cfg sc) = false -> invalidate (ant_cfg sc) = true -> is_query q = true ->
  let st := s_final sc s_init (h ++ [Clear r]) in
  signals (ant st) = [] /\ sys_signals st = [] /\ sys_all_waves st = [] /\ sys_triggers st = [] /\
  snd (s_step sc st q) = snd (s_step sc s_init q).
Proof. exact sys_clear_resets_lemma. Qed.
Print Assumptions sys_clear_resets.

(* ---------------------------------------------------------------- front ends with memory
   gain followed by an FIR filter on the sample sequence (delay line, 2-tap filter ...).  On a uniform
   window, when the lead-in grid is at least as long as the filter memory, the system waveform is the
   front end applied to the sum of the received signals on the infinite grid of step dt, restricted to
   the window:  y(t_j) = sum_m taps[m] * gain * S(t_j - m*dt).  This is where the dt-preservation of
   _calculate_lead_in_times matters. *)
Theorem sys_fir_waveform : forall sc st ts c0 taps',
  noisy (ant_cfg sc) = false -> fe_taps sc = c0 :: taps' -> fe_shift sc = None ->
  wf_window ts -> uniform ts ->
  (length (fe_taps sc) <= S (Z.to_nat (lead_in_n sc ts)))%nat ->
  let dt := t_second ts - t_first ts in
  fst (s_full_waveform sc st ts) = st /\
  sig_eq (snd (s_full_waveform sc st ts))
         (mkSig ts (map (fir_response (fe_taps sc) (fun u => sum_at (signals (ant st)) u * fe_scale sc) dt) ts)).
Proof. exact sys_fir_waveform_lemma. Qed.
Print Assumptions sys_fir_waveform.

(* the lead-in grid, counted backwards from the j-th requested time, is t_j - m*dt: dt is preserved *)
Theorem lead_in_grid_preserves_dt : forall sc ts j m,
  wf_window ts -> uniform ts -> (j < length ts)%nat ->
  let n := Z.to_nat (lead_in_n sc ts) in
  (m <= n + j)%nat ->
  nth (n + j - m) (lead_in_times sc ts) 0 == nth j ts 0 - nat_Q m * (t_second ts - t_first ts).
Proof. exact lead_in_back_nodes. Qed.
Print Assumptions lead_in_grid_preserves_dt.

(* a lead_in_time of at least the filter memory (in time) makes the lead-in grid long enough *)
Theorem lead_in_covers_memory : forall sc ts,
  wf_window ts -> uniform ts -> 0 <= lead_in sc ->
  nat_Q (length (fe_taps sc) - 1) * (t_second ts - t_first ts) <= lead_in sc ->
  (length (fe_taps sc) <= S (Z.to_nat (lead_in_n sc ts)))%nat.
Proof. exact lead_in_covers_memory_lemma. Qed.
Print Assumptions lead_in_covers_memory.

(* ---------------------------------------------------------------- noise epochs
   clear(reset_noise=True) drops the noise master UNCONDITIONALLY (idle antenna, antenna that only produced
   noise, twice in a row ...: the state is the one reached by any history), clear(reset_noise=False) keeps it,
   and every master held after a reset, after any further history, is a different draw from the one held
   before: the realisation after an explicit reset is a fresh one. *)
Theorem reset_gives_fresh_master : forall c h1 h2 r m1,
  let st := final c a_init h1 in
  noise_master st = Some m1 ->
  noise_master (clear st true) = None /\
  noise_master (clear st false) = Some m1 /\
  (r = true ->
   forall m2, noise_master (final c (clear st r) h2) = Some m2 -> (fst m1 < fst m2)%nat).
Proof. exact reset_gives_fresh_master_lemma. Qed.
Print Assumptions reset_gives_fresh_master.

(* the master held is always one that was drawn (indices are handed out once) *)
Theorem master_index_drawn : forall c h,
  index_drawn (noise_master (final c a_init h)) (noise_draws (final c a_init h)).
Proof. exact index_drawn_history. Qed.
Print Assumptions master_index_drawn.

(* ---------------------------------------------------------------- front ends that re-stamp their output
   gain followed by a cable delay, front_end(signal) = Signal(signal.times + D, gain*values): the output is not on
   the grid the front end was given, and the final processed.with_times(times) must re-grid it.  When D is d
   samples of the uniform window and the lead-in grid has at least d nodes, the system waveform over the window
   is the front end applied to the sum of the received signals: gain * S(t_j - D). *)
Theorem sys_delay_waveform : forall sc st ts D d,
  noisy (ant_cfg sc) = false -> fe_taps sc = [] -> fe_shift sc = Some D ->
  wf_window ts -> uniform ts ->
  (d <= Z.to_nat (lead_in_n sc ts))%nat ->
  D == nat_Q d * (t_second ts - t_first ts) ->
  fst (s_full_waveform sc st ts) = st /\
  sig_eq (snd (s_full_waveform sc st ts))
         (mkSig ts (map (fun t => sum_at (signals (ant st)) (t - D) * fe_scale sc) ts)).
Proof. exact sys_delay_waveform_lemma. Qed.
Print Assumptions sys_delay_waveform.
